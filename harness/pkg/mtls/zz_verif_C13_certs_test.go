//go:build verif

package mtls

// C13 harness: certificates and TLS contexts shared by the parts.
//
// Everything is generated at process start with crypto/x509 (ECDSA P-256).
// Only names, issuers, validity windows and key ownership matter for the
// checks; the random key material does not influence any decision, so cases
// replay in a fresh process although the bytes differ.

import (
	"context"
	"crypto/ecdsa"
	"crypto/elliptic"
	"crypto/rand"
	"crypto/x509"
	"crypto/x509/pkix"
	"encoding/pem"
	"fmt"
	"math/big"
	"strings"
	"sync"
	"time"

	v2 "mosn.io/mosn/pkg/config/v2"
	"mosn.io/mosn/pkg/types"
)

type c13Cert struct {
	Name    string
	DER     []byte
	X       *x509.Certificate
	Key     *ecdsa.PrivateKey
	CertPEM string
	KeyPEM  string
}

var c13Serial int64 = 1000

func c13Must(err error) {
	if err != nil {
		panic("C13 harness: " + err.Error())
	}
}

func c13KeyPEM(k *ecdsa.PrivateKey) string {
	b, err := x509.MarshalECPrivateKey(k)
	c13Must(err)
	return string(pem.EncodeToMemory(&pem.Block{Type: "EC PRIVATE KEY", Bytes: b}))
}

func c13Finish(name string, tmpl, parent *x509.Certificate, key, signer *ecdsa.PrivateKey) *c13Cert {
	der, err := x509.CreateCertificate(rand.Reader, tmpl, parent, &key.PublicKey, signer)
	c13Must(err)
	x, err := x509.ParseCertificate(der)
	c13Must(err)
	return &c13Cert{Name: name, DER: der, X: x, Key: key,
		CertPEM: string(pem.EncodeToMemory(&pem.Block{Type: "CERTIFICATE", Bytes: der})), KeyPEM: c13KeyPEM(key)}
}

func c13NewKey() *ecdsa.PrivateKey {
	k, err := ecdsa.GenerateKey(elliptic.P256(), rand.Reader)
	c13Must(err)
	return k
}

// c13NewCA makes a self-signed CA certificate with the given subject CN.
func c13NewCA(cn string) *c13Cert {
	c13Serial++
	now := time.Now()
	tmpl := &x509.Certificate{
		SerialNumber:          big.NewInt(c13Serial),
		Subject:               pkix.Name{CommonName: cn, Organization: []string{"verif C13"}},
		NotBefore:             now.Add(-24 * time.Hour),
		NotAfter:              now.Add(10 * 365 * 24 * time.Hour),
		IsCA:                  true,
		BasicConstraintsValid: true,
		KeyUsage:              x509.KeyUsageCertSign | x509.KeyUsageDigitalSignature,
	}
	k := c13NewKey()
	return c13Finish(cn, tmpl, tmpl, k, k)
}

// c13NewLeaf makes an end-entity certificate; ca == nil makes it self-signed.
func c13NewLeaf(name string, ca *c13Cert, cn string, sans []string, expired bool) *c13Cert {
	c13Serial++
	now := time.Now()
	tmpl := &x509.Certificate{
		SerialNumber: big.NewInt(c13Serial),
		Subject:      pkix.Name{Organization: []string{"verif C13 leaf " + name}},
		NotBefore:    now.Add(-24 * time.Hour),
		NotAfter:     now.Add(5 * 365 * 24 * time.Hour),
		KeyUsage:     x509.KeyUsageDigitalSignature,
		ExtKeyUsage:  []x509.ExtKeyUsage{x509.ExtKeyUsageServerAuth, x509.ExtKeyUsageClientAuth},
		DNSNames:     sans,
	}
	if cn != "" {
		tmpl.Subject.CommonName = cn
	}
	if expired {
		tmpl.NotBefore = now.Add(-48 * time.Hour)
		tmpl.NotAfter = now.Add(-24 * time.Hour)
	}
	k := c13NewKey()
	if ca == nil {
		return c13Finish(name, tmpl, tmpl, k, k)
	}
	return c13Finish(name, tmpl, ca.X, k, ca.Key)
}

// c13NewLeafWindow makes a client certificate of ca with an explicit validity window.
func c13NewLeafWindow(name string, ca *c13Cert, cn string, notBefore, notAfter time.Time) *c13Cert {
	c13Serial++
	tmpl := &x509.Certificate{
		SerialNumber: big.NewInt(c13Serial),
		Subject:      pkix.Name{CommonName: cn, Organization: []string{"verif C13 leaf " + name}},
		NotBefore:    notBefore,
		NotAfter:     notAfter,
		KeyUsage:     x509.KeyUsageDigitalSignature,
		ExtKeyUsage:  []x509.ExtKeyUsage{x509.ExtKeyUsageServerAuth, x509.ExtKeyUsageClientAuth},
	}
	return c13Finish(name, tmpl, ca.X, c13NewKey(), ca.Key)
}

// ---------------------------------------------------------------------------
// the PKI

type c13PKI struct {
	caA, caB, caImpostor *c13Cert // caImpostor: same subject as caA, different key
	ctxLeaf              []*c13Cert
	srv                  *c13Cert            // listener certificate of the trust matrix ("srv.test", CA A)
	peers                map[string]*c13Cert // client certificates of the trust matrix, by kind
	ups                  map[string]*c13Cert // upstream (reference server) certificates, by kind
	otherKey             *ecdsa.PrivateKey   // a key that belongs to none of the certificates
	// part trust-resume: the instant the virtual clock of a history starts from and
	// client certificates of CA A whose validity CHANGES on that clock
	// ("expiring": valid at base, expired from base+1h; "not-yet-valid": valid from base+1h)
	base  time.Time
	timed map[string]*c13Cert
}

// name classes of a TLS context (what it answers to by name)
type c13NameClass struct {
	Label      string
	CN         string
	SANs       []string
	ServerName string
}

var c13NameClasses = []c13NameClass{
	{Label: "cn=a.com", CN: "a.com"},                  // CN only, no SAN
	{Label: "san=*.a.com", SANs: []string{"*.a.com"}}, // SAN only, wildcard
	{Label: "san=b.com+server_name=c.org", CN: "svc-b", SANs: []string{"b.com"}, ServerName: "c.org"},
	{Label: "san=z.net+server_name=s.org", CN: "z.net", SANs: []string{"z.net", "*.z.net"}, ServerName: "s.org"},
}

var c13ALPNClasses = []string{"", "h2", "http/1.1"}

// a context = name class x ALPN class; index = name*len(alpn)+alpn
type c13Ctx struct {
	Index int
	Name  c13NameClass
	ALPN  string
	Leaf  *c13Cert
}

func (c c13Ctx) String() string {
	a := c.ALPN
	if a == "" {
		a = "-"
	}
	return fmt.Sprintf("{%s alpn=%s}", c.Name.Label, a)
}

// names the context answers to per the statement: certificate names (CN, SANs) or server_name
func (c c13Ctx) names() []string {
	var n []string
	if c.Name.CN != "" {
		n = append(n, c.Name.CN)
	}
	n = append(n, c.Name.SANs...)
	if c.Name.ServerName != "" {
		n = append(n, c.Name.ServerName)
	}
	return n
}

func (c c13Ctx) alpnList() []string {
	if c.ALPN == "" {
		return nil
	}
	return strings.Split(c.ALPN, ",")
}

var (
	c13Once sync.Once
	c13P    *c13PKI
	c13Ctxs []c13Ctx
)

func c13Setup() {
	c13Once.Do(func() {
		p := &c13PKI{}
		p.caA = c13NewCA("C13 CA A")
		p.caB = c13NewCA("C13 CA B")
		p.caImpostor = c13NewCA("C13 CA A")
		p.otherKey = c13NewKey()
		for ni, nc := range c13NameClasses {
			for ai, al := range c13ALPNClasses {
				leaf := c13NewLeaf(fmt.Sprintf("ctx%d", ni*len(c13ALPNClasses)+ai), p.caA, nc.CN, nc.SANs, false)
				p.ctxLeaf = append(p.ctxLeaf, leaf)
				c13Ctxs = append(c13Ctxs, c13Ctx{Index: ni*len(c13ALPNClasses) + ai, Name: nc, ALPN: al, Leaf: leaf})
			}
		}
		p.srv = c13NewLeaf("srv", p.caA, "srv.test", []string{"srv.test"}, false)
		right := c13NewLeaf("client-right", p.caA, "client", nil, false)
		p.peers = map[string]*c13Cert{
			"right-ca":    right,
			"self-signed": c13NewLeaf("client-self", nil, "client", nil, false),
			"other-ca":    c13NewLeaf("client-other", p.caB, "client", nil, false),
			"impostor-ca": c13NewLeaf("client-impostor", p.caImpostor, "client", nil, false),
			"expired":     c13NewLeaf("client-expired", p.caA, "client", nil, true),
			// the right certificate, but the peer signs with a key it does not belong to
			"wrong-key": {Name: "client-wrongkey", DER: right.DER, X: right.X, Key: p.otherKey, CertPEM: right.CertPEM},
		}
		p.base = time.Now().Truncate(time.Second)
		p.timed = map[string]*c13Cert{
			"expiring":      c13NewLeafWindow("client-expiring", p.caA, "client", p.base.Add(-24*time.Hour), p.base.Add(time.Hour)),
			"not-yet-valid": c13NewLeafWindow("client-not-yet-valid", p.caA, "client", p.base.Add(time.Hour), p.base.Add(5*365*24*time.Hour)),
		}
		upRight := c13NewLeaf("up-right", p.caA, "up.test", []string{"up.test"}, false)
		p.ups = map[string]*c13Cert{
			"right-ca":    upRight,
			"self-signed": c13NewLeaf("up-self", nil, "up.test", []string{"up.test"}, false),
			"other-ca":    c13NewLeaf("up-other", p.caB, "up.test", []string{"up.test"}, false),
			"impostor-ca": c13NewLeaf("up-impostor", p.caImpostor, "up.test", []string{"up.test"}, false),
			"expired":     c13NewLeaf("up-expired", p.caA, "up.test", []string{"up.test"}, true),
			"wrong-name":  c13NewLeaf("up-wrongname", p.caA, "other.test", []string{"other.test"}, false),
			"wrong-key":   {Name: "up-wrongkey", DER: upRight.DER, X: upRight.X, Key: p.otherKey, CertPEM: upRight.CertPEM},
		}
		c13P = p
	})
}

// issuer certificate a peer of the given kind would send along with its leaf
func (p *c13PKI) issuerOf(kind string) *c13Cert {
	switch kind {
	case "other-ca":
		return p.caB
	case "impostor-ca":
		return p.caImpostor
	}
	return nil
}

// ---------------------------------------------------------------------------
// provider states of a context inside a listener

const (
	c13Static     = 0 // inline PEM (static provider, always ready)
	c13SdsReady   = 1 // sds_source, certificate and validation delivered
	c13SdsNoCert  = 2 // sds_source, certificate never delivered (not ready)
	c13SdsNoValid = 3 // sds_source, validation (CA) never delivered (not ready)
)

var c13StateName = map[int]string{c13Static: "static", c13SdsReady: "sds-ready", c13SdsNoCert: "sds-no-cert", c13SdsNoValid: "sds-no-validation"}

func c13Ready(state int) bool { return state == c13Static || state == c13SdsReady }

// c13FakeSds is the secret discovery client seen by pkg/mtls (installed through
// the package's own test seam getSdsClientFunc). It records the callbacks the
// secret manager registers and lets the harness deliver secrets.
type c13FakeSds struct {
	mu  sync.Mutex
	cbs map[string][]types.SdsUpdateCallbackFunc
}

func (s *c13FakeSds) AddUpdateCallback(name string, cb types.SdsUpdateCallbackFunc) error {
	s.mu.Lock()
	defer s.mu.Unlock()
	s.cbs[name] = append(s.cbs[name], cb)
	return nil
}
func (s *c13FakeSds) DeleteUpdateCallback(name string) error { return nil }
func (s *c13FakeSds) RequireSecret(name string)              {}
func (s *c13FakeSds) FetchSecret(ctx context.Context, name string) (*types.SdsSecret, error) {
	return nil, fmt.Errorf("not used")
}
func (s *c13FakeSds) SetSecret(name string, secret *types.SdsSecret) {}
func (s *c13FakeSds) AckResponse(resp interface{})                  {}

func (s *c13FakeSds) deliver(name string, secret *types.SdsSecret) {
	s.mu.Lock()
	cbs := append([]types.SdsUpdateCallbackFunc(nil), s.cbs[name]...)
	s.mu.Unlock()
	for _, cb := range cbs {
		cb(name, secret)
	}
}

// c13TLSConfig renders one context as the v2.TLSConfig a listener carries.
func c13TLSConfig(c c13Ctx, pos int, state int, verify, require bool) v2.TLSConfig {
	cfg := v2.TLSConfig{
		Status:            true,
		ServerName:        c.Name.ServerName,
		ALPN:              c.ALPN,
		VerifyClient:      verify,
		RequireClientCert: require,
	}
	if state == c13Static {
		cfg.CertChain = c.Leaf.CertPEM
		cfg.PrivateKey = c.Leaf.KeyPEM
		cfg.CACert = c13P.caA.CertPEM
	} else {
		cfg.SdsConfig = &v2.SdsConfig{
			CertificateConfig: &v2.SecretConfigWrapper{Name: fmt.Sprintf("c13-cert-%d", c.Index), SdsConfig: "c13"},
			ValidationConfig:  &v2.SecretConfigWrapper{Name: fmt.Sprintf("c13-validation-%d", c.Index), SdsConfig: "c13"},
		}
	}
	return cfg
}
