//go:build verif

package mtls

// C13 (b'), part trust-resume: client authentication is enforced on EVERY
// handshake of a listener - full or resumed.
//
// The trust matrix of trust-server evaluates single, first-time handshakes. This
// part runs HISTORIES of 2..3 (thorough: ..4) handshakes of one reference client
// (Go's standard crypto/tls) against ONE serverContextManager (ticket keys live
// in the built context), where
//
//   - every step is made either with the client's session cache (the client
//     offers the TLS 1.2 session ticket / the TLS 1.3 PSK it was given by an
//     earlier step and stores a new one) or by a client without any ticket;
//   - every step happens at one of two instants of a VIRTUAL clock, t0 < t1
//     (never decreasing along a history), and the peer certificate is one of the
//     kinds of the trust matrix or one whose validity CHANGES between t0 and t1:
//     "expiring" (CA A, valid at t0, expired at t1), "not-yet-valid" (CA A,
//     not valid at t0, valid at t1).
//
// The clock is the Time hook of the TLS configuration (tls.Config.Time, which
// crypto/tls uses for certificate verification and ticket ages): the harness
// sets it on the configuration the manager built (see c13InstallClock) and on
// the reference client. Nothing sleeps, no wall-clock time is compared.
//
// Oracle: the admission table of trust-server (c13Admits) applied PER STEP to
// the trust relation the certificate has AT THE TIME OF THAT HANDSHAKE. Whether
// a step was resumed is recorded (ConnectionState().DidResume), never demanded
// or forbidden: resumption with a certificate that is still valid must be
// admitted like a full handshake.

import (
	gotls "crypto/tls"
	"fmt"
	"sync/atomic"
	"testing"
	"time"

	"mosn.io/mosn/pkg/mtls/crypto/tls"
	"mosn.io/mosn/pkg/types"
	"mosn.io/mosn/pkg/verifrt/vreport"
)

type c13ResStep struct {
	Clock int  `json:"clock"`         // 0 = t0, 1 = t1
	Cache bool `json:"session_cache"` // the client of this step uses (reads and fills) the session cache of the history
}

type c13ResCase struct {
	Verify  bool         `json:"verify_client"`
	Require bool         `json:"require_client_cert"`
	Peer    string       `json:"peer_certificate"`
	Version string       `json:"version"`
	Steps   []c13ResStep `json:"steps"`
}

var c13ResPeerKinds = []string{"none", "self-signed", "other-ca", "impostor-ca", "right-ca", "expired", "wrong-key", "expiring", "not-yet-valid"}

// offsets of the two instants from c13P.base (the certificates' windows are
// relative to the same base: "expiring" ends at base+1h, "not-yet-valid" starts
// there). t1-t0 is far below the ticket life time (7 days), so a ticket of t0 is
// still a valid ticket at t1.
var c13ResInstants = []time.Duration{time.Minute, 2 * time.Hour}

// c13TrustAt: the trust relation of the peer certificate at instant clock, in
// the vocabulary of c13Admits.
func c13TrustAt(peer string, clock int) string {
	switch peer {
	case "expiring":
		if clock == 0 {
			return "right-ca"
		}
		return "expired"
	case "not-yet-valid":
		if clock == 0 {
			return "expired" // outside its validity window, like an expired one
		}
		return "right-ca"
	}
	return peer
}

type c13Clock struct {
	base time.Time
	off  int64 // nanoseconds, atomic
}

func (c *c13Clock) set(d time.Duration) { atomic.StoreInt64(&c.off, int64(d)) }
func (c *c13Clock) Now() time.Time      { return c.base.Add(time.Duration(atomic.LoadInt64(&c.off))) }

// c13InstallClock makes the server configurations of a freshly built manager
// read the time from now. Every connection gets types.TLSConfigContext.Config(),
// a Clone() of the configuration tlsContext.SetServerConfig built; the harness
// takes that very clone (same certificates, ClientAuth, ClientCAs, session
// ticket keys, verification hooks), sets the Time hook and puts it back as the
// context's server configuration with the hash value MOSN computed.
func c13InstallClock(mng types.TLSContextManager, now func() time.Time) (int, error) {
	m, ok := mng.(*serverContextManager)
	if !ok {
		return 0, fmt.Errorf("manager is a %T", mng)
	}
	n := 0
	for _, pr := range m.providers {
		sp, ok := pr.(*staticProvider)
		if !ok || sp.tlsContext == nil || sp.tlsContext.server == nil {
			return n, fmt.Errorf("provider %T has no static server configuration", pr)
		}
		cfg := sp.tlsContext.server.Config()
		if cfg == nil {
			return n, fmt.Errorf("nil server configuration")
		}
		cfg.Time = now
		hv := sp.tlsContext.server.HashValue()
		sp.tlsContext.server = types.NewTLSConfigContext(cfg, func(*tls.Config) *types.HashValue { return hv })
		n++
	}
	m.config.Time = now
	return n, nil
}

func c13ResClientConfig(peer, version string, now func() time.Time, cache gotls.ClientSessionCache) *gotls.Config {
	cfg := &gotls.Config{
		RootCAs:            c13Pool(c13P.caA),
		ServerName:         "srv.test",
		MinVersion:         c13Versions[version],
		MaxVersion:         c13Versions[version],
		Time:               now,
		ClientSessionCache: cache,
	}
	cfg.GetClientCertificate = func(*gotls.CertificateRequestInfo) (*gotls.Certificate, error) {
		if peer == "none" {
			return &gotls.Certificate{}, nil
		}
		if tc, ok := c13P.timed[peer]; ok {
			c := c13Chain(tc, nil)
			return &c, nil
		}
		c := c13Chain(c13P.peers[peer], c13P.issuerOf(peer))
		return &c, nil
	}
	return cfg
}

// c13ResHistories: every sequence of 2..maxLen steps over {t0,t1} x {with, without
// session cache} whose clock never goes back.
func c13ResHistories(maxLen int, yield func([]c13ResStep) bool) {
	var rec func(prefix []c13ResStep) bool
	rec = func(prefix []c13ResStep) bool {
		if len(prefix) >= 2 {
			if !yield(append([]c13ResStep(nil), prefix...)) {
				return false
			}
		}
		if len(prefix) == maxLen {
			return true
		}
		from := 0
		if len(prefix) > 0 {
			from = prefix[len(prefix)-1].Clock
		}
		for clk := from; clk < len(c13ResInstants); clk++ {
			for _, cache := range []bool{true, false} {
				if !rec(append(prefix, c13ResStep{Clock: clk, Cache: cache})) {
					return false
				}
			}
		}
		return true
	}
	rec(nil)
}

func TestVerifC13TrustResumedHistories(t *testing.T) {
	c13Setup()
	partName := c13PartName("trust-resume")
	p := vreport.Begin("C13", partName, 8*time.Minute)
	maxLen := vreport.Pick(3, 4)
	srvCtx := c13Ctx{Index: 100, Name: c13NameClass{Label: "srv.test"}, Leaf: c13P.srv}
	resumedAdmitted, fullAdmitted, ticketWhileInvalid := 0, 0, 0
	complete := vreport.Run(p, func(yield func(c13ResCase) bool) {
		for _, v := range []bool{false, true} {
			for _, r := range []bool{false, true} {
				for _, peer := range c13ResPeerKinds {
					for _, ver := range c13VersionsHere() {
						ok := true
						c13ResHistories(maxLen, func(steps []c13ResStep) bool {
							ok = yield(c13ResCase{Verify: v, Require: r, Peer: peer, Version: ver, Steps: steps})
							return ok
						})
						if !ok {
							return
						}
					}
				}
			}
		}
	}, func(p *vreport.Part, c c13ResCase) {
		c13Setup()
		_, static := c13P.peers[c.Peer]
		_, timed := c13P.timed[c.Peer]
		if !static && !timed && c.Peer != "none" {
			c13Herr(p, t, "unknown peer kind", c)
			return
		}
		if _, ok := c13Versions[c.Version]; !ok || len(c.Steps) == 0 {
			c13Herr(p, t, "malformed case", c)
			return
		}
		mng, err := c13BuildListener([]c13Ctx{srvCtx}, []int{c13Static}, "", false, c.Verify, c.Require)
		if err != nil {
			p.Violation("harness: listener with valid contexts rejected", err.Error(), c)
			return
		}
		clock := &c13Clock{base: c13P.base}
		if n, err := c13InstallClock(mng, clock.Now); err != nil || n != 1 {
			c13Herr(p, t, fmt.Sprintf("cannot install the clock (%d contexts): %v", n, err), c)
			return
		}
		cache := gotls.NewLRUClientSessionCache(4)
		mode := c13ModeName([2]bool{c.Verify, c.Require})
		p.Distinct(fmt.Sprintf("%v/%v/%s/%v", c.Verify, c.Require, c.Peer, c.Steps))
		p.EvalN(len(c.Steps) - 1) // Run counted one evaluation; one evaluation = one handshake
		type obs struct {
			Step     c13ResStep `json:"step"`
			TrustNow string     `json:"trust_at_this_time"`
			Admitted bool       `json:"admitted"`
			Resumed  bool       `json:"resumed"`
			Server   *c13Side   `json:"server"`
			Client   *c13Side   `json:"client"`
		}
		var trace []obs
		ticketSeen := false // an earlier step with the cache was admitted: this client may hold a ticket
		for i, st := range c.Steps {
			if st.Clock < 0 || st.Clock >= len(c13ResInstants) {
				c13Herr(p, t, "unknown instant", c)
				return
			}
			clock.set(c13ResInstants[st.Clock])
			var sc gotls.ClientSessionCache
			if st.Cache {
				sc = cache
			}
			srv, cli, herr := c13ServerExchange(mng, c13ResClientConfig(c.Peer, c.Version, clock.Now, sc), "")
			if herr != "" {
				c13Herr(p, t, fmt.Sprintf("step %d: %s", i, herr), c)
				return
			}
			admitted := srv.GotApp && srv.TLS
			resumed := admitted && srv.Resumed
			trust := c13TrustAt(c.Peer, st.Clock)
			trace = append(trace, obs{Step: st, TrustNow: trust, Admitted: admitted, Resumed: resumed, Server: srv, Client: cli})
			kind := "full"
			if resumed {
				kind = "resumed"
			}
			if !admitted {
				kind = "-"
			}
			p.Outcome(fmt.Sprintf("%s/%s now %s/%s=%v", mode, c.Peer, trust, kind, admitted))
			if srv.GotApp && !srv.TLS {
				p.Violation("trust-resume: application bytes delivered outside a completed TLS session", fmt.Sprintf("%+v step %d server %+v", c, i, srv), c)
				return
			}
			if admitted != cli.GotApp {
				c13Herr(p, t, fmt.Sprintf("step %d: ends disagree: server %+v client %+v", i, srv, cli), c)
				return
			}
			if admitted && srv.Resumed != cli.Resumed {
				c13Herr(p, t, fmt.Sprintf("step %d: ends disagree about resumption: server %+v client %+v", i, srv, cli), c)
				return
			}
			if resumed && !(st.Cache && ticketSeen) {
				// a session can only be resumed by the client that was given a ticket
				p.Violation(fmt.Sprintf("trust-resume %s: session resumed for a client that holds no ticket of this listener", c.Version),
					fmt.Sprintf("%+v step %d: %+v", c, i, trace), c)
				return
			}
			switch {
			case resumed:
				resumedAdmitted++
				p.Count("admitted_resumed_handshakes", 1)
			case admitted:
				fullAdmitted++
				p.Count("admitted_full_handshakes", 1)
			case st.Cache && ticketSeen:
				p.Count("refused_handshakes_of_a_client_holding_a_ticket", 1)
			default:
				p.Count("refused_handshakes_without_ticket", 1)
			}
			want, decided := c13Admits(c.Verify, c.Require, trust)
			if st.Cache && ticketSeen && decided && !want {
				// the situation this part exists for: a client that was admitted earlier offers its
				// ticket at a time the configured mode does not admit its certificate (counted by
				// what was asked, not by what the implementation answered)
				ticketWhileInvalid++
				p.Count("ticket_offered_while_the_certificate_is_not_admitted", 1)
			}
			if !decided {
				p.Count("steps_not_decided_by_the_statement", 1)
			} else if admitted != want {
				certNow := c.Peer
				if trust != c.Peer {
					certNow = fmt.Sprintf("%s (%s at the time of this handshake)", c.Peer, map[string]string{"right-ca": "valid", "expired": "outside its validity period"}[trust])
				}
				how := "full"
				if st.Cache && ticketSeen {
					how = "ticket-offering"
				}
				if resumed {
					how = "resumed"
				}
				if admitted {
					p.Violation(fmt.Sprintf("trust-resume %s mode=%s: peer with %s certificate admitted on a %s handshake", c.Version, mode, certNow, how),
						fmt.Sprintf("%+v step %d (clock t%d): handshake succeeded (resumed=%v) and application data was exchanged; the configured mode does not admit a peer whose certificate is %q NOW; trace %+v",
							c, i, st.Clock, resumed, trust, trace), c)
				} else {
					p.Violation(fmt.Sprintf("trust-resume %s mode=%s: peer with %s certificate rejected on a %s handshake", c.Version, mode, certNow, how),
						fmt.Sprintf("%+v step %d (clock t%d): the configured mode admits this peer; server side error %q, client side error %q; trace %+v",
							c, i, st.Clock, srv.Err, cli.Err, trace), c)
				}
				return
			}
			if admitted && st.Cache {
				ticketSeen = true
			}
		}
		if p.WantSample() {
			p.Sample(map[string]interface{}{"case": c, "trace": trace})
		}
	})
	if !vreport.Replaying() && complete && (resumedAdmitted == 0 || fullAdmitted == 0 || ticketWhileInvalid == 0) {
		msg := fmt.Sprintf("vacuous: %d resumed, %d full handshakes admitted, %d handshakes in which a ticket holder's certificate is no longer admitted", resumedAdmitted, fullAdmitted, ticketWhileInvalid)
		vreport.HarnessError("C13", partName, msg)
		t.Errorf("%s", msg)
	}
	p.End(complete, fmt.Sprintf("verify_client {f,t} x require_client_cert {f,t} x peer certificate %v x every history of 2..%d handshakes over {clock t0, t1 (never going back)} x {client with the history's session cache, client without ticket} x %v; one static context (CA A), ONE manager per history; t0 = base+1m, t1 = base+2h, 'expiring' is valid until base+1h, 'not-yet-valid' from base+1h",
		c13ResPeerKinds, maxLen, c13VersionsHere()),
		"one case = one history on one serverContextManager, one evaluation = one loopback TCP handshake of a crypto/tls reference client (tls.NewLRUClientSessionCache shared by the steps that use it); the time is the tls.Config.Time hook of the built server configuration and of the client (no sleeping); oracle per step: the trust-server table applied to what the certificate is AT THE TIME OF THAT STEP (expiring: right-ca at t0, expired at t1; not-yet-valid the other way round), full or resumed alike; resumption (DidResume of both ends) is recorded in the outcomes and counted, never demanded; a resumed session for a step without a ticket is a violation; vacuity guard: resumed admissions, full admissions and steps in which an earlier admitted client offers its ticket while its certificate is not admitted any more must all occur; distinct = mode x peer kind x history")
}
