//go:build verif

package mtls

// C13 (b): the trust matrix over loopback TCP, with Go's standard crypto/tls as
// the reference peer (MOSN runs its own fork, pkg/mtls/crypto/tls).
//
//   server side : serverContextManager.Conn on an accepted *net.TCPConn, the
//                 reference client presents {no certificate, self-signed, other
//                 CA, a CA with the configured CA's NAME but another key, the
//                 right CA, expired, the right certificate with a key it does
//                 not own} under every verify_client x require_client_cert.
//   client side : clientContextManager.Conn on a dialled *net.TCPConn against a
//                 reference server presenting {right CA, other CA, impostor CA,
//                 self-signed, expired, right CA/wrong host name, right
//                 certificate/wrong key} under insecure_skip in {false,true}.
//   inspector   : inspector x first bytes {TLS ClientHello, plaintext}.
//   presented   : the certificate a real client SEES is the one part (a) selects.
//
// Real sockets mean real time: every I/O has a 10 s deadline; a deadline that
// fires is a HARNESS error (exit 2), never a violation. "Admitted" means the
// application behind the MOSN side received the peer's first application bytes.
//
// The harness creates no files and removes none.

import (
	"bytes"
	gotls "crypto/tls"
	"crypto/x509"
	"errors"
	"fmt"
	"io"
	"net"
	"os"
	"strings"
	"testing"
	"time"

	v2 "mosn.io/mosn/pkg/config/v2"
	"mosn.io/mosn/pkg/types"
	"mosn.io/mosn/pkg/verifrt/vreport"
)

const c13IO = 10 * time.Second

var c13Versions = map[string]uint16{"tls1.2": gotls.VersionTLS12, "tls1.3": gotls.VersionTLS13}

// MOSN's TLS library speaks TLS 1.3 only when the process runs with
// GODEBUG=tls13=1 (it is a fork of Go 1.12's crypto/tls). The socket parts run
// twice: in the default environment the reference peer is pinned to TLS 1.2,
// in the unit that sets GODEBUG=tls13=1 it is pinned to TLS 1.3 (the client
// authentication code of the two protocol versions is separate).
func c13TLS13() bool { return strings.Contains(os.Getenv("GODEBUG"), "tls13=1") }

func c13VersionsHere() []string {
	if c13TLS13() {
		return []string{"tls1.3"}
	}
	return []string{"tls1.2"}
}

func c13PartName(base string) string {
	if c13TLS13() {
		return base + "+tls13"
	}
	return base
}

func c13IsTimeout(err error) bool {
	if err == nil {
		return false
	}
	var ne net.Error
	if errors.As(err, &ne) && ne.Timeout() {
		return true
	}
	return strings.Contains(err.Error(), "i/o timeout") || strings.Contains(err.Error(), "deadline exceeded")
}

type c13Side struct {
	Err       string `json:"err,omitempty"`
	Timeout   bool   `json:"timeout,omitempty"`
	GotApp    bool   `json:"got_app"`             // received the other side's application bytes
	App       string `json:"app,omitempty"`       // the bytes received
	TLS       bool   `json:"tls"`                 // the bytes travelled inside a completed TLS session
	PeerLeaf  []byte `json:"-"`                   // leaf certificate seen from the peer
	ConnType  string `json:"conn_type,omitempty"` // type returned by Conn()
	HandShake string `json:"handshake,omitempty"` // "ok" or the error
	Resumed   bool   `json:"resumed,omitempty"`   // ConnectionState().DidResume of this end (abbreviated handshake: session ticket / PSK)
}

func (s *c13Side) fail(err error) {
	s.Err = err.Error()
	if c13IsTimeout(err) {
		s.Timeout = true
	}
}

func c13Chain(leaf *c13Cert, issuer *c13Cert) gotls.Certificate {
	c := gotls.Certificate{Certificate: [][]byte{leaf.DER}, PrivateKey: leaf.Key, Leaf: leaf.X}
	if issuer != nil {
		c.Certificate = append(c.Certificate, issuer.DER)
	}
	return c
}

func c13Pool(ca *c13Cert) *x509.CertPool {
	p := x509.NewCertPool()
	p.AddCert(ca.X)
	return p
}

// c13ReferenceClient dials addr and behaves as a TLS client (cfg != nil) or as
// a plaintext client (cfg == nil): sends 5 application bytes, expects "pong\n".
func c13ReferenceClient(addr string, cfg *gotls.Config, plain string) *c13Side {
	r := &c13Side{}
	raw, err := net.DialTimeout("tcp", addr, c13IO)
	if err != nil {
		r.fail(err)
		r.Timeout = true // cannot even connect: harness problem
		return r
	}
	defer raw.Close()
	raw.SetDeadline(time.Now().Add(c13IO))
	var rw io.ReadWriter = raw
	if cfg != nil {
		cfg = cfg.Clone()
		inner := cfg.VerifyPeerCertificate
		cfg.VerifyPeerCertificate = func(rawCerts [][]byte, chains [][]*x509.Certificate) error {
			if len(rawCerts) > 0 {
				r.PeerLeaf = rawCerts[0]
			}
			if inner != nil {
				return inner(rawCerts, chains)
			}
			return nil
		}
		tc := gotls.Client(raw, cfg)
		if err := tc.Handshake(); err != nil {
			r.HandShake = err.Error()
			r.fail(err)
			return r
		}
		r.HandShake = "ok"
		r.TLS = true
		r.Resumed = tc.ConnectionState().DidResume
		rw = tc
		plain = "ping\n"
	}
	if _, err := rw.Write([]byte(plain)); err != nil {
		r.fail(err)
		return r
	}
	buf := make([]byte, 5)
	if _, err := io.ReadFull(rw, buf); err != nil {
		r.fail(err)
		return r
	}
	r.App = string(buf)
	r.GotApp = r.App == "pong\n"
	return r
}

// c13AcceptOnce runs the MOSN side of one connection: accept, hand the raw
// *net.TCPConn to the listener's TLS manager as activeListener.OnAccept does,
// then read the first 5 application bytes like a network filter would, answer.
func c13AcceptOnce(ln *net.TCPListener, mng types.TLSContextManager) *c13Side {
	r := &c13Side{}
	ln.SetDeadline(time.Now().Add(c13IO))
	raw, err := ln.Accept()
	if err != nil {
		r.fail(err)
		r.Timeout = true
		return r
	}
	defer raw.Close()
	raw.SetDeadline(time.Now().Add(c13IO))
	var conn net.Conn
	func() {
		defer func() {
			if x := recover(); x != nil {
				err = fmt.Errorf("panic in Conn: %v", x)
			}
		}()
		conn, err = mng.Conn(raw)
	}()
	if err != nil {
		r.fail(err)
		return r
	}
	r.ConnType = fmt.Sprintf("%T", conn)
	conn.SetDeadline(time.Now().Add(c13IO)) // Peek() clears the read deadline
	defer conn.Close()
	buf := make([]byte, 5)
	if _, err := io.ReadFull(conn, buf); err != nil {
		r.HandShake = err.Error()
		r.fail(err)
		return r
	}
	r.App = string(buf)
	r.GotApp = true
	if tc, ok := conn.(*TLSConn); ok {
		r.TLS = tc.ConnectionState().HandshakeComplete
		r.Resumed = tc.ConnectionState().DidResume
		r.HandShake = "ok"
	}
	if _, err := conn.Write([]byte("pong\n")); err != nil {
		r.fail(err)
	}
	return r
}

func c13Listen() (*net.TCPListener, error) {
	ln, err := net.Listen("tcp", "127.0.0.1:0")
	if err != nil {
		return nil, err
	}
	return ln.(*net.TCPListener), nil
}

// c13ServerExchange: one connection of a reference client to a MOSN listener.
func c13ServerExchange(mng types.TLSContextManager, cfg *gotls.Config, plain string) (srv, cli *c13Side, herr string) {
	ln, err := c13Listen()
	if err != nil {
		return nil, nil, "listen: " + err.Error()
	}
	defer ln.Close()
	ch := make(chan *c13Side, 1)
	go func() { ch <- c13ReferenceClient(ln.Addr().String(), cfg, plain) }()
	srv = c13AcceptOnce(ln, mng)
	select {
	case cli = <-ch:
	case <-time.After(3 * c13IO):
		return srv, nil, "reference client did not finish"
	}
	if srv.Timeout || cli.Timeout {
		return srv, cli, fmt.Sprintf("I/O deadline fired (server side: %q, client side: %q)", srv.Err, cli.Err)
	}
	return srv, cli, ""
}

func c13Herr(p *vreport.Part, t *testing.T, what string, c interface{}) {
	msg := fmt.Sprintf("%s; case %+v", what, c)
	vreport.HarnessError(p.Prop, p.Name, msg)
	t.Errorf("harness: %s", msg)
}

// ---------------------------------------------------------------------------
// server side trust matrix

type c13SrvCase struct {
	Verify  bool   `json:"verify_client"`
	Require bool   `json:"require_client_cert"`
	Peer    string `json:"peer_certificate"`
	Version string `json:"version"`
}

var c13PeerKinds = []string{"none", "self-signed", "other-ca", "impostor-ca", "right-ca", "expired", "wrong-key"}

// c13Admits: does the configured mode admit the peer? second result false =
// the statement does not decide this cell (executed, not compared).
func c13Admits(verify, require bool, peer string) (admit, decided bool) {
	switch {
	case verify && require:
		// succeeds only if the peer proves possession of a certificate chaining to the configured CA
		return peer == "right-ca", true
	case verify:
		// certificates are verified when given, none is demanded
		return peer == "none" || peer == "right-ca", true
	case require:
		// a certificate is asked for and not verified. Whether its absence is
		// tolerated and whether an unverified certificate must still be owned
		// is not decided by the statement.
		if peer == "none" || peer == "wrong-key" {
			return false, false
		}
		return true, true
	}
	// no client authentication configured: the server does not ask, everybody is admitted
	return true, true
}

func c13ModeName(m [2]bool) string {
	return map[[2]bool]string{{true, true}: "verify_client+require_client_cert", {true, false}: "verify_client", {false, true}: "require_client_cert", {false, false}: "no client authentication"}[m]
}

func c13ClientConfig(peer, version string) *gotls.Config {
	cfg := &gotls.Config{
		RootCAs:    c13Pool(c13P.caA),
		ServerName: "srv.test",
		MinVersion: c13Versions[version],
		MaxVersion: c13Versions[version],
	}
	cfg.GetClientCertificate = func(*gotls.CertificateRequestInfo) (*gotls.Certificate, error) {
		if peer == "none" {
			return &gotls.Certificate{}, nil
		}
		c := c13Chain(c13P.peers[peer], c13P.issuerOf(peer))
		return &c, nil
	}
	return cfg
}

func TestVerifC13TrustServer(t *testing.T) {
	c13Setup()
	p := vreport.Begin("C13", c13PartName("trust-server"), 5*time.Minute)
	srvCtx := c13Ctx{Index: 100, Name: c13NameClass{Label: "srv.test"}, Leaf: c13P.srv}
	complete := vreport.Run(p, func(yield func(c13SrvCase) bool) {
		for _, v := range []bool{false, true} {
			for _, r := range []bool{false, true} {
				for _, peer := range c13PeerKinds {
					for _, ver := range c13VersionsHere() {
						if !yield(c13SrvCase{Verify: v, Require: r, Peer: peer, Version: ver}) {
							return
						}
					}
				}
			}
		}
	}, func(p *vreport.Part, c c13SrvCase) {
		c13Setup()
		if _, ok := c13P.peers[c.Peer]; !ok && c.Peer != "none" {
			c13Herr(p, t, "unknown peer kind", c)
			return
		}
		mng, err := c13BuildListener([]c13Ctx{srvCtx}, []int{c13Static}, "", false, c.Verify, c.Require)
		if err != nil {
			p.Violation("harness: listener with valid contexts rejected", err.Error(), c)
			return
		}
		srv, cli, herr := c13ServerExchange(mng, c13ClientConfig(c.Peer, c.Version), "")
		if herr != "" {
			c13Herr(p, t, herr, c)
			return
		}
		admitted := srv.GotApp && srv.TLS
		want, decided := c13Admits(c.Verify, c.Require, c.Peer)
		p.Distinct(fmt.Sprintf("%v/%v/%s", c.Verify, c.Require, c.Peer))
		p.Outcome(fmt.Sprintf("%v/%v/%s=%v", c.Verify, c.Require, c.Peer, admitted))
		if p.WantSample() {
			p.Sample(map[string]interface{}{"case": c, "admitted": admitted, "statement_admits": want, "decided": decided, "server": srv, "client": cli})
		}
		if srv.GotApp && !srv.TLS {
			p.Violation("trust-server: application bytes delivered outside a completed TLS session", fmt.Sprintf("%+v server %+v", c, srv), c)
			return
		}
		if admitted != cli.GotApp {
			// both ends must agree on whether the session exists
			c13Herr(p, t, fmt.Sprintf("ends disagree: server %+v client %+v", srv, cli), c)
			return
		}
		if admitted && !bytes.Equal(cli.PeerLeaf, c13P.srv.DER) {
			p.Violation("trust-server: listener presented a certificate that is not the configured one", fmt.Sprintf("%+v", c), c)
		}
		if !decided {
			p.Count("cells_not_decided_by_the_statement", 1)
			p.Note(fmt.Sprintf("undecided verify=%v require=%v peer=%s %s admitted", c.Verify, c.Require, c.Peer, c.Version), admitted)
			return
		}
		if admitted == want {
			return
		}
		mode := c13ModeName([2]bool{c.Verify, c.Require})
		if admitted {
			p.Violation(fmt.Sprintf("trust-server mode=%s: peer with %s certificate admitted", mode, c.Peer),
				fmt.Sprintf("%+v: handshake succeeded and application data was exchanged, the configured mode does not admit this peer; server side %+v", c, srv), c)
		} else {
			p.Violation(fmt.Sprintf("trust-server mode=%s: peer with %s certificate rejected", mode, c.Peer),
				fmt.Sprintf("%+v: the configured mode admits this peer; server side error %q, client side error %q", c, srv.Err, cli.Err), c)
		}
	})
	p.End(complete, "verify_client {f,t} x require_client_cert {f,t} x peer certificate "+fmt.Sprint(c13PeerKinds)+" x protocol version of the reference client "+fmt.Sprint(c13VersionsHere())+"; one static context (CA A)",
		"one evaluation = one loopback TCP connection of a crypto/tls reference client to serverContextManager.Conn; admitted = the MOSN side read the client's application bytes inside a completed TLS session; oracle: verify+require admits only the certificate chaining to the configured CA presented with its own key; verify alone admits no certificate or that one; require alone: any presented certificate is admitted (no certificate / unowned certificate are not decided: executed, reported in notes, not compared); neither: everybody; distinct = mode x peer kind")
}

// ---------------------------------------------------------------------------
// server side, two contexts with different client authentication modes: the mode
// of the context SELECTED for the ClientHello is the one that must be enforced.

type c13MultiCase struct {
	Modes    [2][2]bool `json:"modes"`    // per context {verify_client, require_client_cert}
	Provider string     `json:"provider"` // "static" | "sds-preloaded" | "sds-async"
	SNI      string     `json:"sni"`      // a.com selects context 0, b.com context 1 (exact certificate names)
	Peer     string     `json:"peer_certificate"`
	Version  string     `json:"version"`
}

func TestVerifC13TrustServerMultiContext(t *testing.T) {
	c13Setup()
	p := vreport.Begin("C13", c13PartName("trust-server-two-contexts"), 5*time.Minute)
	list := []c13Ctx{c13Ctxs[0], c13Ctxs[6]} // {cn=a.com, no ALPN}, {san=b.com server_name=c.org, no ALPN}
	allModes := [][2]bool{{false, false}, {false, true}, {true, false}, {true, true}}
	peers := []string{"none", "self-signed", "right-ca"}
	complete := vreport.Run(p, func(yield func(c13MultiCase) bool) {
		for _, prov := range []string{"static", "sds-preloaded", "sds-async"} {
			for _, m0 := range allModes {
				for _, m1 := range allModes {
					for _, sni := range []string{"a.com", "b.com"} {
						for _, peer := range peers {
							for _, ver := range c13VersionsHere() {
								if !yield(c13MultiCase{Modes: [2][2]bool{m0, m1}, Provider: prov, SNI: sni, Peer: peer, Version: ver}) {
									return
								}
							}
						}
					}
				}
			}
		}
	}, func(p *vreport.Part, c c13MultiCase) {
		c13Setup()
		states, delivery := []int{c13Static, c13Static}, ""
		switch c.Provider {
		case "sds-preloaded":
			states, delivery = []int{c13SdsReady, c13SdsReady}, "preloaded"
		case "sds-async":
			states, delivery = []int{c13SdsReady, c13SdsReady}, "async"
		}
		sel, ok := map[string]int{"a.com": 0, "b.com": 1}[c.SNI]
		if !ok {
			c13Herr(p, t, "unknown sni", c)
			return
		}
		mng, err := c13BuildListenerModes(list, states, delivery, false, [][2]bool{c.Modes[0], c.Modes[1]})
		if err != nil {
			p.Violation("harness: listener with valid contexts rejected", err.Error(), c)
			return
		}
		cfg := c13ClientConfig(c.Peer, c.Version)
		cfg.ServerName = c.SNI
		cfg.InsecureSkipVerify = true // this part is about the client's authentication; the shown leaf is compared below
		srv, cli, herr := c13ServerExchange(mng, cfg, "")
		if herr != "" {
			c13Herr(p, t, herr, c)
			return
		}
		admitted := srv.GotApp && srv.TLS
		mode := c.Modes[sel]
		want, decided := c13Admits(mode[0], mode[1], c.Peer)
		p.Distinct(fmt.Sprintf("%v/%s/%s/%s", c.Modes, c.Provider, c.SNI, c.Peer))
		p.Outcome(fmt.Sprintf("%s/%s/%s=%v", c.Provider, c13ModeName(mode), c.Peer, admitted))
		if p.WantSample() {
			p.Sample(map[string]interface{}{"case": c, "selected_context": sel, "admitted": admitted, "statement_admits": want, "decided": decided})
		}
		if srv.GotApp && !srv.TLS {
			p.Violation("trust-server: application bytes delivered outside a completed TLS session", fmt.Sprintf("%+v server %+v", c, srv), c)
			return
		}
		if admitted != cli.GotApp {
			c13Herr(p, t, fmt.Sprintf("ends disagree: server %+v client %+v", srv, cli), c)
			return
		}
		if cli.PeerLeaf != nil && !bytes.Equal(cli.PeerLeaf, list[sel].Leaf.DER) {
			p.Violation(fmt.Sprintf("trust-server two contexts provider=%s: certificate of the other context presented for an exact name", c.Provider), fmt.Sprintf("%+v", c), c)
			return
		}
		if !decided {
			p.Count("cells_not_decided_by_the_statement", 1)
			return
		}
		p.Count("compared", 1)
		if admitted == want {
			return
		}
		verdict := "rejected"
		if admitted {
			verdict = "admitted"
		}
		key := fmt.Sprintf("trust-server two contexts provider=%s, selected context mode=%s: peer with %s certificate %s", c.Provider, c13ModeName(mode), c.Peer, verdict)
		// sharper key when the observation is what "the LAST context's flags are enforced" predicts
		lw, ld := c13Admits(c.Modes[1][0], c.Modes[1][1], c.Peer)
		if !ld {
			lw = c.Peer == "none" // require_client_cert alone only asks for a certificate (RequestClientCert)
		}
		if c.Provider == "sds-async" && sel == 0 && lw == admitted {
			key = "trust-server sds-async: a context whose secret arrives after the listener was built enforces the LAST context's verify_client/require_client_cert"
		}
		p.Violation(key, fmt.Sprintf("%+v: context %d (%s) is selected by SNI, its mode is %s, the peer was %s; server error %q client error %q",
			c, sel, list[sel], c13ModeName(mode), verdict, srv.Err, cli.Err), c)
	})
	p.End(complete, "provider {static, sds preloaded, sds async} x mode of context 0 (4) x mode of context 1 (4) x SNI {a.com -> context 0, b.com -> context 1} x peer certificate "+fmt.Sprint(peers)+" x "+fmt.Sprint(c13VersionsHere()),
		"one evaluation = one loopback handshake against a listener with two contexts; oracle: the verify_client/require_client_cert of the context selected by the exact SNI decide admission (same table as trust-server), and that context's leaf is the one shown; distinct = modes x provider x sni x peer")
}

// ---------------------------------------------------------------------------
// client side (MOSN dials an upstream)

type c13CliCase struct {
	InsecureSkip bool   `json:"insecure_skip"`
	Upstream     string `json:"upstream_certificate"`
	Version      string `json:"version"`
}

var c13UpKinds = []string{"right-ca", "other-ca", "impostor-ca", "self-signed", "expired", "wrong-name", "wrong-key"}

func c13UpstreamAdmitted(skip bool, up string) (admit, decided bool) {
	if skip {
		// not verified; that an unowned certificate still fails is TLS, not policy: not decided
		return true, up != "wrong-key"
	}
	if up == "wrong-name" {
		// chains to the configured CA; the statement says nothing about host names
		return false, false
	}
	return up == "right-ca", true
}

func TestVerifC13TrustClient(t *testing.T) {
	c13Setup()
	p := vreport.Begin("C13", c13PartName("trust-client"), 5*time.Minute)
	complete := vreport.Run(p, func(yield func(c13CliCase) bool) {
		for _, s := range []bool{false, true} {
			for _, up := range c13UpKinds {
				for _, ver := range c13VersionsHere() {
					if !yield(c13CliCase{InsecureSkip: s, Upstream: up, Version: ver}) {
						return
					}
				}
			}
		}
	}, func(p *vreport.Part, c c13CliCase) {
		c13Setup()
		up, ok := c13P.ups[c.Upstream]
		if !ok {
			c13Herr(p, t, "unknown upstream kind", c)
			return
		}
		mng, err := NewTLSClientContextManager("c13-cluster", &v2.TLSConfig{Status: true, CACert: c13P.caA.CertPEM, ServerName: "up.test", InsecureSkip: c.InsecureSkip})
		if err != nil {
			p.Violation("harness: valid cluster TLS config rejected", err.Error(), c)
			return
		}
		ln, err := c13Listen()
		if err != nil {
			c13Herr(p, t, "listen: "+err.Error(), c)
			return
		}
		defer ln.Close()
		// the reference server
		ch := make(chan *c13Side, 1)
		go func() {
			r := &c13Side{}
			defer func() { ch <- r }()
			ln.SetDeadline(time.Now().Add(c13IO))
			raw, err := ln.Accept()
			if err != nil {
				r.fail(err)
				r.Timeout = true
				return
			}
			defer raw.Close()
			raw.SetDeadline(time.Now().Add(c13IO))
			ts := gotls.Server(raw, &gotls.Config{Certificates: []gotls.Certificate{c13Chain(up, c13P.issuerOf(c.Upstream))},
				MinVersion: c13Versions[c.Version], MaxVersion: c13Versions[c.Version]})
			if err := ts.Handshake(); err != nil {
				r.HandShake = err.Error()
				r.fail(err)
				return
			}
			r.HandShake = "ok"
			buf := make([]byte, 5)
			if _, err := io.ReadFull(ts, buf); err != nil {
				r.fail(err)
				return
			}
			r.App, r.GotApp, r.TLS = string(buf), true, true
			ts.Write([]byte("pong\n"))
		}()
		// the MOSN side, as clientConnection.tryConnect does
		mosn := &c13Side{}
		func() {
			raw, err := net.DialTimeout("tcp", ln.Addr().String(), c13IO)
			if err != nil {
				mosn.fail(err)
				mosn.Timeout = true
				return
			}
			defer raw.Close()
			raw.SetDeadline(time.Now().Add(c13IO))
			var conn net.Conn
			func() {
				defer func() {
					if x := recover(); x != nil {
						err = fmt.Errorf("panic in Conn: %v", x)
					}
				}()
				conn, err = mng.Conn(raw)
			}()
			if err != nil {
				mosn.HandShake = err.Error()
				mosn.fail(err)
				return
			}
			mosn.ConnType = fmt.Sprintf("%T", conn)
			tc, isTLS := conn.(*TLSConn)
			if !isTLS {
				mosn.Err = "Conn() returned a non-TLS connection"
				return
			}
			mosn.TLS = tc.ConnectionState().HandshakeComplete
			mosn.HandShake = "ok"
			if pcs := tc.ConnectionState().PeerCertificates; len(pcs) > 0 {
				mosn.PeerLeaf = pcs[0].Raw
			}
			conn.SetDeadline(time.Now().Add(c13IO))
			if _, err := conn.Write([]byte("ping\n")); err != nil {
				mosn.fail(err)
				return
			}
			buf := make([]byte, 5)
			if _, err := io.ReadFull(conn, buf); err != nil {
				mosn.fail(err)
				return
			}
			mosn.App, mosn.GotApp = string(buf), string(buf) == "pong\n"
		}()
		var ref *c13Side
		select {
		case ref = <-ch:
		case <-time.After(3 * c13IO):
			c13Herr(p, t, "reference server did not finish", c)
			return
		}
		if mosn.Timeout || ref.Timeout {
			c13Herr(p, t, fmt.Sprintf("I/O deadline fired (mosn side %q, reference side %q)", mosn.Err, ref.Err), c)
			return
		}
		admitted := mosn.GotApp && mosn.TLS
		want, decided := c13UpstreamAdmitted(c.InsecureSkip, c.Upstream)
		p.Distinct(fmt.Sprintf("%v/%s", c.InsecureSkip, c.Upstream))
		p.Outcome(fmt.Sprintf("%v/%s=%v", c.InsecureSkip, c.Upstream, admitted))
		if p.WantSample() {
			p.Sample(map[string]interface{}{"case": c, "admitted": admitted, "statement_admits": want, "decided": decided, "mosn": mosn, "reference_server": ref})
		}
		if mosn.ConnType != "" && !mosn.TLS {
			p.Violation("trust-client: connection handed back without a completed TLS session", fmt.Sprintf("%+v mosn side %+v", c, mosn), c)
			return
		}
		if admitted != ref.GotApp {
			c13Herr(p, t, fmt.Sprintf("ends disagree: mosn %+v reference %+v", mosn, ref), c)
			return
		}
		if !decided {
			p.Count("cells_not_decided_by_the_statement", 1)
			p.Note(fmt.Sprintf("undecided insecure_skip=%v upstream=%s %s admitted", c.InsecureSkip, c.Upstream, c.Version), admitted)
			return
		}
		if admitted == want {
			return
		}
		if admitted {
			p.Violation(fmt.Sprintf("trust-client insecure_skip=%v: upstream with %s certificate accepted", c.InsecureSkip, c.Upstream),
				fmt.Sprintf("%+v: handshake succeeded and application data was exchanged although the upstream must be verified against the configured CA", c), c)
		} else {
			p.Violation(fmt.Sprintf("trust-client insecure_skip=%v: upstream with %s certificate refused", c.InsecureSkip, c.Upstream),
				fmt.Sprintf("%+v: mosn side error %q, reference server error %q", c, mosn.Err, ref.Err), c)
		}
	})
	p.End(complete, "insecure_skip {f,t} x upstream certificate "+fmt.Sprint(c13UpKinds)+" x protocol version of the reference server "+fmt.Sprint(c13VersionsHere())+"; cluster config ca_cert=CA A, server_name=up.test, no client certificate",
		"one evaluation = one loopback TCP connection from clientContextManager.Conn to a crypto/tls reference server; admitted = Conn() returned a completed TLS session and application bytes went both ways; oracle: without insecure_skip only the certificate chaining to the configured CA presented with its own key is accepted (right CA but another host name: not decided, executed only); with insecure_skip everything is accepted (unowned certificate: not decided); distinct = insecure_skip x upstream kind")
}

// ---------------------------------------------------------------------------
// inspector

type c13InspCase struct {
	Inspector bool   `json:"inspector"`
	First     string `json:"first_bytes"` // "tls" | "plain"
	Auth      bool   `json:"verify_and_require_client_cert"`
	Ready     bool   `json:"context_ready"` // false: the only context is an sds context whose certificate has not arrived
	Version   string `json:"version"`
}

func TestVerifC13Inspector(t *testing.T) {
	c13Setup()
	p := vreport.Begin("C13", c13PartName("inspector"), 5*time.Minute)
	srvCtx := c13Ctx{Index: 100, Name: c13NameClass{Label: "srv.test"}, Leaf: c13P.srv}
	complete := vreport.Run(p, func(yield func(c13InspCase) bool) {
		for _, insp := range []bool{false, true} {
			for _, first := range []string{"tls", "plain"} {
				for _, auth := range []bool{false, true} {
					for _, ready := range []bool{true, false} {
						for _, ver := range c13VersionsHere() {
							if !yield(c13InspCase{Inspector: insp, First: first, Auth: auth, Ready: ready, Version: ver}) {
								return
							}
						}
					}
				}
			}
		}
	}, func(p *vreport.Part, c c13InspCase) {
		c13Setup()
		state := c13Static
		if !c.Ready {
			state = c13SdsNoCert
		}
		mng, err := c13BuildListener([]c13Ctx{srvCtx}, []int{state}, "async", c.Inspector, c.Auth, c.Auth)
		if err != nil {
			p.Violation("harness: listener with valid contexts rejected", err.Error(), c)
			return
		}
		var cfg *gotls.Config
		if c.First == "tls" {
			cfg = c13ClientConfig("right-ca", c.Version)
		}
		srv, cli, herr := c13ServerExchange(mng, cfg, "PLAIN")
		if herr != "" {
			c13Herr(p, t, herr, c)
			return
		}
		plainServed := srv.GotApp && !srv.TLS
		tlsServed := srv.GotApp && srv.TLS
		p.Distinct(fmt.Sprintf("%v/%s/%v/%v", c.Inspector, c.First, c.Auth, c.Ready))
		p.Outcome(fmt.Sprintf("%v/%s/%v: plain=%v tls=%v", c.Inspector, c.First, c.Ready, plainServed, tlsServed))
		if p.WantSample() {
			p.Sample(map[string]interface{}{"case": c, "plaintext_served": plainServed, "tls_served": tlsServed, "server": srv, "client": cli})
		}
		if !c.Ready {
			// a listener whose only context has no certificate yet: whether it is "a TLS listener" is not decided
			p.Count("cells_not_decided_by_the_statement", 1)
			p.Note(fmt.Sprintf("undecided (no ready context) inspector=%v first=%s: bytes handed to the application without TLS", c.Inspector, c.First), plainServed)
			return
		}
		if srv.GotApp != cli.GotApp {
			c13Herr(p, t, fmt.Sprintf("ends disagree: server %+v client %+v", srv, cli), c)
			return
		}
		switch c.First {
		case "plain":
			if plainServed && srv.App != "PLAIN" {
				c13Herr(p, t, fmt.Sprintf("application read %q", srv.App), c)
				return
			}
			if plainServed != c.Inspector {
				if plainServed {
					p.Violation("inspector off: plaintext served on a TLS listener", fmt.Sprintf("%+v: the application received %q outside TLS; server %+v", c, srv.App, srv), c)
				} else {
					p.Violation("inspector on: plaintext client not served", fmt.Sprintf("%+v: server %+v client %+v", c, srv, cli), c)
				}
			}
			if tlsServed {
				p.Violation("inspector: plaintext bytes accepted as a TLS session", fmt.Sprintf("%+v", c), c)
			}
		case "tls":
			if !tlsServed {
				p.Violation(fmt.Sprintf("inspector=%v: TLS client with the right certificate not served", c.Inspector), fmt.Sprintf("%+v: server %+v client %+v", c, srv, cli), c)
			} else if srv.App != "ping\n" {
				p.Violation(fmt.Sprintf("inspector=%v: application bytes of a TLS client altered", c.Inspector), fmt.Sprintf("%+v: got %q", c, srv.App), c)
			}
		default:
			c13Herr(p, t, "unknown first bytes", c)
		}
	})
	p.End(complete, "inspector {f,t} x first bytes {TLS ClientHello ("+fmt.Sprint(c13VersionsHere())+"), plaintext} x client authentication {none, verify+require} x the listener's context {ready, sds context without certificate}",
		"one evaluation = one loopback TCP connection to serverContextManager.Conn; plaintext served = the application behind the listener read the client's bytes outside a TLS session; oracle (ready context): plaintext is served iff inspector is on, a TLS client is served in both modes with its bytes intact; a listener without any ready context is executed and reported in notes but not compared (the statement does not say whether it is a TLS listener yet)")
}

// ---------------------------------------------------------------------------
// the certificate a client actually sees is the selected one

type c13SeenCase struct {
	Ctxs []int    `json:"ctxs"`
	SNI  string   `json:"sni"`
	ALPN []string `json:"alpn"`
}

func TestVerifC13PresentedOnTheWire(t *testing.T) {
	c13Setup()
	p := vreport.Begin("C13", c13PartName("presented-on-the-wire"), 5*time.Minute)
	// two triples of contexts, every ordered arrangement of each:
	//   {cn=a.com, -} {san=*.a.com, h2} {b.com/c.org, http/1.1}   and   {b.com/c.org, -} {z.net/s.org, h2} {z.net/s.org, http/1.1}
	triples := [][]int{{0, 4, 8}, {6, 10, 11}}
	snis := []string{"a.com", "x.a.com", "y.x.a.com", "b.com", "c.org", "d.org", "A.COM", "", "x.A.com", "X.a.COM", "q.Z.Net"}
	alpns := [][]string{nil, {"h2"}, {"http/1.1"}}
	perms := [][]int{{0, 1, 2}, {0, 2, 1}, {1, 0, 2}, {1, 2, 0}, {2, 0, 1}, {2, 1, 0}}
	seen := 0
	var lists [][]int
	for _, tr := range triples {
		for _, pm := range perms {
			lists = append(lists, []int{tr[pm[0]], tr[pm[1]], tr[pm[2]]})
		}
	}
	if vreport.Thorough() {
		// plus every ordered list of 1..2 distinct contexts out of all 12
		c13Lists(len(c13Ctxs), 2, func(l []int) bool { lists = append(lists, l); return true })
	}
	complete := vreport.Run(p, func(yield func(c13SeenCase) bool) {
		for _, l := range lists {
			for _, sni := range snis {
				for _, al := range alpns {
					if !yield(c13SeenCase{Ctxs: l, SNI: sni, ALPN: al}) {
						return
					}
				}
			}
		}
	}, func(p *vreport.Part, c c13SeenCase) {
		c13Setup()
		list := c13ListOf(c.Ctxs)
		states := c13Zeros(len(list))
		mng, err := c13BuildListener(list, states, "", false, false, false)
		if err != nil {
			p.Violation("harness: listener with valid contexts rejected", err.Error(), c)
			return
		}
		ver := c13Versions[c13VersionsHere()[0]]
		cfg := &gotls.Config{ServerName: c.SNI, InsecureSkipVerify: true, NextProtos: c.ALPN, MinVersion: ver, MaxVersion: ver}
		srv, cli, herr := c13ServerExchange(mng, cfg, "")
		if herr != "" {
			c13Herr(p, t, herr, c)
			return
		}
		got := -1
		for i, x := range list {
			if bytes.Equal(cli.PeerLeaf, x.Leaf.DER) {
				got = i
			}
		}
		accepted := map[int]bool{}
		for _, r := range c13Readings {
			pos, _ := c13RefSelect(list, states, c.SNI, c.ALPN, r)
			accepted[pos] = true
		}
		_, rule := c13RefSelect(list, states, c.SNI, c.ALPN, c13Readings[0])
		p.Distinct(fmt.Sprint(c.Ctxs, c.SNI, c.ALPN))
		p.Outcome(fmt.Sprintf("%s/pos%d", rule, got))
		if p.WantSample() {
			p.Sample(map[string]interface{}{"case": c, "contexts": fmt.Sprint(list), "client_saw_position": got, "rule": rule, "handshake": cli.HandShake})
		}
		if cli.PeerLeaf == nil {
			// the handshake ended before a certificate was shown (e.g. no common protocol): nothing presented
			p.Count("handshake_ended_before_a_certificate", 1)
			p.Note("last handshake without certificate", fmt.Sprintf("%+v server %q client %q", c, srv.Err, cli.Err))
			return
		}
		seen++
		p.Count("compared", 1)
		if !accepted[got] {
			key := fmt.Sprintf("presented-on-the-wire sni=%s: the client sees another certificate than the statement selects (by %s)", c13SniClass(c.SNI), rule)
			if k := c13NoSNIClass(list, states, c.SNI, got); k != "" {
				key = k
			}
			p.Violation(key,
				fmt.Sprintf("contexts %v, sni=%q alpn=%v: statement selects %v, the reference client received the leaf of position %d", list, c.SNI, c.ALPN, accepted, got), c)
		}
	})
	if !vreport.Replaying() && seen == 0 {
		vreport.HarnessError("C13", c13PartName("presented-on-the-wire"), "no handshake showed a certificate")
		t.Errorf("no handshake showed a certificate")
	}
	p.End(complete, fmt.Sprintf("%d context lists (all 6 arrangements of 2 triples; thorough: plus every ordered list of 1..2 out of 12) x SNI %q x client ALPN %v, real handshakes (%v)", len(lists), snis, alpns, c13VersionsHere()),
		"one evaluation = one loopback handshake of a crypto/tls reference client (certificate verification off, it only records the leaf it is shown) with serverContextManager.Conn; compared with the statement exactly as in selection-static")
}
