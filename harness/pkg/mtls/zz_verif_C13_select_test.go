//go:build verif

package mtls

// C13 (a): certificate selection.
//
// Seam: NewTLSServerContextManager(listener config) -> GetConfigForClient(hello),
// observed by the leaf certificate of the returned configuration.
//
// Oracle (the statement, literally): the first READY context whose certificate
// names (CN, DNS SANs) or server_name match the SNI exactly or by wildcard
// label, else the first ready context whose ALPN list intersects the client's,
// else the first ready context.
//
// Where the statement does not decide, the oracle is the UNION of the
// readings (the implementation must agree with at least one of them):
//   - trailing dots of the SNI: either the SNI is compared as sent or without
//     its trailing dots;
//   - depth of a wildcard: "*.a.com" matches "x.a.com" under every reading;
//     whether it also matches "y.x.a.com" (the wildcard standing for several
//     labels) is left open.
// Letter case is NOT left open: DNS names compare case-insensitively (RFC 4343;
// RFC 6066 section 3 for the server_name extension), so "matches the SNI
// exactly or by wildcard label" is read on the lower-cased spelling of both the
// SNI and the configured names: every case variant of an SNI selects what its
// all-lower-case spelling selects (see also zz_verif_C13_selectcase_test.go).
// Absent SNI: a ClientHello without server_name extension has no SNI that a
// certificate name or a server_name could "match exactly or by wildcard label",
// and a context without server_name has no server_name: the name rule selects
// nothing, the ALPN rule and then "first ready context" decide. (Until round 5
// this harness left the input uncompared whenever a context of the list had no
// server_name - which is precisely where MOSN departs: buildMatch puts the
// empty server_name into the name set and MatchedServerName("") finds it, see
// findings/C13-nosni.md. The case is compared now; that departure has its own
// finding key.)

import (
	"bytes"
	"fmt"
	"sort"
	"strings"
	"testing"
	"time"

	v2 "mosn.io/mosn/pkg/config/v2"
	"mosn.io/mosn/pkg/mtls/crypto/tls"
	"mosn.io/mosn/pkg/types"
	"mosn.io/mosn/pkg/verifrt/vreport"
)

type c13SelCase struct {
	Ctxs     []int    `json:"ctxs"`     // indexes into the context table (name class*3 + ALPN class), in listener order
	States   []int    `json:"states"`   // per context: 0 static, 1 sds ready, 2 sds without certificate, 3 sds without validation
	Delivery string   `json:"delivery"` // "" (static) | "preloaded" (secrets known before the listener is built) | "async" (secrets arrive after)
	SNI      string   `json:"sni"`
	ALPN     []string `json:"alpn"`
	Desc     string   `json:"desc,omitempty"` // human readable rendering of Ctxs (not used on replay)
}

type c13Reading struct{ trimDot, multi bool }

var c13Readings = []c13Reading{{true, false}, {true, true}, {false, false}, {false, true}}

// c13NameMatch: does one configured name match the SNI under a reading?
func c13NameMatch(names []string, sni string, r c13Reading) (bool, string) {
	name := strings.ToLower(sni)
	if r.trimDot {
		name = strings.TrimRight(name, ".")
	}
	if name == "" {
		return false, ""
	}
	for _, n := range names {
		if strings.ToLower(n) == name {
			return true, "exact-name"
		}
	}
	labels := strings.Split(name, ".")
	for i := 1; i < len(labels); i++ {
		if i > 1 && !r.multi {
			break
		}
		cand := "*." + strings.Join(labels[i:], ".")
		for _, n := range names {
			if strings.ToLower(n) == cand {
				return true, "wildcard-name"
			}
		}
	}
	return false, ""
}

func c13Intersects(a, b []string) bool {
	for _, x := range a {
		for _, y := range b {
			if x == y {
				return true
			}
		}
	}
	return false
}

// c13RefSelect is the statement as a function. Returns the position in the
// list (-1: no ready context) and the rule that decided.
func c13RefSelect(list []c13Ctx, states []int, sni string, alpn []string, r c13Reading) (int, string) {
	for i, c := range list {
		if !c13Ready(states[i]) {
			continue
		}
		if ok, how := c13NameMatch(c.names(), sni, r); ok {
			return i, how
		}
	}
	for i, c := range list {
		if c13Ready(states[i]) && c13Intersects(c.alpnList(), alpn) {
			return i, "alpn"
		}
	}
	for i := range list {
		if c13Ready(states[i]) {
			return i, "first-ready"
		}
	}
	return -1, "none-ready"
}

// ---------------------------------------------------------------------------
// building the real listener manager

var (
	c13MngKey string
	c13Mng    types.TLSContextManager
	c13MngErr error
	c13Builds int
)

// modes[i] = {verify_client, require_client_cert} of context i
func c13ListenerConfig(name string, list []c13Ctx, states []int, inspector bool, modes [][2]bool) *v2.Listener {
	var tc []v2.TLSConfig
	for i, c := range list {
		tc = append(tc, c13TLSConfig(c, i, states[i], modes[i][0], modes[i][1]))
	}
	return &v2.Listener{ListenerConfig: v2.ListenerConfig{
		Name:         name,
		Inspector:    inspector,
		FilterChains: []v2.FilterChain{{TLSContexts: tc}},
	}}
}

// c13BuildListener builds the manager of a listener the way the server does,
// and plays the secret discovery service for sds contexts.
func c13BuildListener(list []c13Ctx, states []int, delivery string, inspector, verify, require bool) (types.TLSContextManager, error) {
	modes := make([][2]bool, len(list))
	for i := range modes {
		modes[i] = [2]bool{verify, require}
	}
	return c13BuildListenerModes(list, states, delivery, inspector, modes)
}

func c13BuildListenerModes(list []c13Ctx, states []int, delivery string, inspector bool, modes [][2]bool) (types.TLSContextManager, error) {
	c13Builds++
	sds := false
	for _, s := range states {
		if s != c13Static {
			sds = true
		}
	}
	var fake *c13FakeSds
	if sds {
		ClearSecretManager()
		fake = &c13FakeSds{cbs: map[string][]types.SdsUpdateCallbackFunc{}}
		getSdsClientFunc = func(cfg interface{}) types.SdsClient { return fake }
	}
	deliver := func() {
		for i, c := range list {
			if states[i] == c13SdsReady || states[i] == c13SdsNoValid {
				fake.deliver(fmt.Sprintf("c13-cert-%d", c.Index), &types.SdsSecret{Name: fmt.Sprintf("c13-cert-%d", c.Index),
					CertificatePEM: c.Leaf.CertPEM, PrivateKeyPEM: c.Leaf.KeyPEM})
			}
			if states[i] == c13SdsReady || states[i] == c13SdsNoCert {
				fake.deliver(fmt.Sprintf("c13-validation-%d", c.Index), &types.SdsSecret{Name: fmt.Sprintf("c13-validation-%d", c.Index),
					ValidationPEM: c13P.caA.CertPEM})
			}
		}
	}
	if sds && delivery == "preloaded" {
		// another listener with the same secrets exists already and has received them
		if _, err := NewTLSServerContextManager(c13ListenerConfig("c13-earlier", list, states, inspector, modes)); err != nil {
			return nil, err
		}
		deliver()
	}
	mng, err := NewTLSServerContextManager(c13ListenerConfig("c13", list, states, inspector, modes))
	if err != nil {
		return nil, err
	}
	if sds && delivery == "async" {
		deliver()
	}
	return mng, nil
}

func c13ListOf(idx []int) []c13Ctx {
	l := make([]c13Ctx, len(idx))
	for i, x := range idx {
		l[i] = c13Ctxs[x]
	}
	return l
}

func c13CachedListener(c c13SelCase) (types.TLSContextManager, error) {
	k := fmt.Sprint(c.Ctxs, c.States, c.Delivery)
	if k != c13MngKey {
		c13Mng, c13MngErr = c13BuildListener(c13ListOf(c.Ctxs), c.States, c.Delivery, false, false, false)
		c13MngKey = k
	}
	return c13Mng, c13MngErr
}

// c13Presented asks the real manager; returns the position in the list of the
// context whose leaf is in the returned configuration (-1 no certificate, -2 foreign).
func c13Presented(mng types.TLSContextManager, list []c13Ctx, sni string, alpn []string) (pos int, note string) {
	defer func() {
		if r := recover(); r != nil {
			pos, note = -3, fmt.Sprint("panic: ", r)
		}
	}()
	m, ok := mng.(*serverContextManager)
	if !ok {
		return -3, fmt.Sprintf("unexpected manager type %T", mng)
	}
	cfg, err := m.GetConfigForClient(&tls.ClientHelloInfo{ServerName: sni, SupportedProtos: alpn})
	if err != nil {
		return -1, err.Error()
	}
	if cfg == nil || len(cfg.Certificates) == 0 || len(cfg.Certificates[0].Certificate) == 0 {
		return -1, "configuration without certificate"
	}
	leaf := cfg.Certificates[0].Certificate[0]
	for i, c := range list {
		if bytes.Equal(leaf, c.Leaf.DER) {
			return i, ""
		}
	}
	return -2, "certificate of no context of the list"
}

func c13SniClass(sni string) string {
	switch {
	case sni == "":
		return "absent"
	case strings.HasSuffix(sni, "."):
		return "trailing-dot"
	case strings.ToLower(sni) != sni:
		return "upper-case"
	}
	return "plain"
}

func c13CheckSelection(kind string) func(p *vreport.Part, c c13SelCase) {
	return func(p *vreport.Part, c c13SelCase) {
		c13Setup()
		list := c13ListOf(c.Ctxs)
		mng, err := c13CachedListener(c)
		if err != nil {
			p.Violation("harness: listener with valid contexts rejected", err.Error(), c)
			return
		}
		got, note := c13Presented(mng, list, c.SNI, c.ALPN)
		if got == -3 {
			p.Violation("selection "+kind+": GetConfigForClient panics", note, c)
			return
		}
		// the statement under each reading
		accepted := map[int]string{}
		var order []int
		for _, r := range c13Readings {
			pos, rule := c13RefSelect(list, c.States, c.SNI, c.ALPN, r)
			if _, ok := accepted[pos]; !ok {
				accepted[pos] = rule
				order = append(order, pos)
			}
		}
		sort.Ints(order)
		primary, primaryRule := c13RefSelect(list, c.States, c.SNI, c.ALPN, c13Readings[0])
		p.Outcome(fmt.Sprintf("%s/%s/pos%d", kind, primaryRule, got))
		if len(list) >= 2 {
			p.Distinct(fmt.Sprint(c.Ctxs, c.States, c.Delivery, "|", c.SNI, "|", c.ALPN))
		}
		if p.WantSample() {
			p.Sample(map[string]interface{}{"case": c, "contexts": fmt.Sprint(list), "statement_selects": order, "rule": primaryRule, "implementation_presented": got})
		}
		if len(accepted) > 1 {
			p.Count("cases_where_readings_of_the_statement_differ", 1)
		}
		if c.SNI == "" {
			for _, x := range list {
				if x.Name.ServerName == "" {
					p.Count("absent_sni_and_a_context_without_server_name_compared", 1)
					break
				}
			}
		}
		p.Count("compared", 1)
		if _, ok := accepted[got]; ok {
			return
		}
		rel := "another context"
		switch {
		case got == -1:
			rel = "no certificate"
		case got == -2:
			rel = "a foreign certificate"
		case !c13Ready(c.States[got]):
			rel = "a context that is not ready"
		case primary == -1:
			rel = "a certificate although no context is ready"
		case got > primary:
			rel = "a later context"
		case got < primary:
			rel = "an earlier context"
		}
		c.Desc = fmt.Sprint(list)
		key := fmt.Sprintf("selection %s sni=%s: statement selects by %s, implementation presented %s", kind, c13SniClass(c.SNI), primaryRule, rel)
		if k := c13Classify(kind, list, c, got); k != "" {
			key = k
		}
		if k := c13NoSNIClass(list, c.States, c.SNI, got); k != "" {
			key = k
		}
		p.Violation(key, fmt.Sprintf("contexts %v states %v delivery %q, ClientHello sni=%q alpn=%v: statement selects position %v (%s), implementation presented position %d %s",
			list, c.States, c.Delivery, c.SNI, c.ALPN, order, primaryRule, got, note), c)
	}
}

// c13NoSNIKey names one recognisable deviation: for a ClientHello WITHOUT SNI
// the implementation answers with the first ready context that has no
// server_name (the empty server_name "matches" the absent SNI), so the ALPN rule
// and the first-ready rule are never consulted. Like c13Classify it accepts
// nothing, it only names the class of a mismatch already found.
const c13NoSNIKey = "selection: a ClientHello without SNI is name-matched by the first ready context that has no server_name (ALPN rule skipped)"

func c13NoSNIClass(list []c13Ctx, states []int, sni string, got int) string {
	if sni != "" {
		return ""
	}
	for i, x := range list {
		if c13Ready(states[i]) && x.Name.ServerName == "" {
			if i == got {
				return c13NoSNIKey
			}
			return ""
		}
	}
	return ""
}

// c13Classify gives a violation a sharper finding key when the observed answer
// is exactly what one specific, recognisable deviation predicts. It never
// accepts anything: it only names the class.
func c13Classify(kind string, list []c13Ctx, c c13SelCase, got int) string {
	impl := c13Reading{true, true}
	switch kind {
	case "sds-async":
		// deviation: every context answers to the server_name and ALPN of the LAST configured context
		last := list[len(list)-1]
		mod := make([]c13Ctx, len(list))
		for i, x := range list {
			x.Name.ServerName = last.Name.ServerName
			x.ALPN = last.ALPN
			mod[i] = x
		}
		if pos, _ := c13RefSelect(mod, c.States, c.SNI, c.ALPN, impl); pos == got {
			return "selection sds-async: contexts whose secret arrives after the listener was built answer to the LAST context's server_name and ALPN"
		}
	case "token-of-the-other-kind":
		// deviation: one set holds host names and protocol names alike
		mod := make([]c13Ctx, len(list))
		for i, x := range list {
			x.Name.SANs = append(append([]string(nil), x.Name.SANs...), x.alpnList()...)
			mod[i] = x
		}
		oneSet := func(l []c13Ctx, al []string) int {
			for i, x := range l {
				if ok, _ := c13NameMatch(x.names(), c.SNI, impl); ok {
					return i
				}
			}
			for i, x := range l {
				if c13Intersects(append(x.names(), x.alpnList()...), al) {
					return i
				}
			}
			return 0
		}
		if oneSet(mod, c.ALPN) == got {
			sniTok, alpnTok := false, false
			for _, a := range c13ALPNClasses {
				if a != "" && c.SNI == a {
					sniTok = true
				}
			}
			for _, a := range c.ALPN {
				if strings.Contains(a, ".") && a != "http/1.1" {
					alpnTok = true
				}
			}
			switch {
			case sniTok && !alpnTok:
				return "selection: an SNI spelling a protocol name (h2, http/1.1) matches a context by its ALPN list"
			case alpnTok && !sniTok:
				return "selection: a client protocol spelling a host name matches a context by its certificate names/server_name"
			default:
				return "selection: SNI spelling a protocol name and client protocol spelling a host name, names and protocols are matched in one set"
			}
		}
	}
	return ""
}

// every ordered list of 1..maxLen distinct contexts out of n
func c13Lists(n, maxLen int, yield func([]int) bool) {
	var rec func(cur []int) bool
	rec = func(cur []int) bool {
		if len(cur) > 0 {
			if !yield(append([]int(nil), cur...)) {
				return false
			}
		}
		if len(cur) == maxLen {
			return true
		}
	next:
		for i := 0; i < n; i++ {
			for _, x := range cur {
				if x == i {
					continue next
				}
			}
			if !rec(append(cur, i)) {
				return false
			}
		}
		return true
	}
	rec(nil)
}

var c13SNIs = []string{"a.com", "x.a.com", "y.x.a.com", "b.com", "c.org", "d.org", "A.COM", "a.com.", "",
	"x.c.org", "z.net", "q.z.net", "s.org", "com", "X.A.COM", "x.a.com.",
	// letter case per label position (left-most only, middle, top-level, mixed); the full case alphabet is in selection-case
	"X.a.com", "x.A.com", "x.a.COM", "y.X.a.Com", "q.Z.net", "C.org"}

var c13ClientALPN = [][]string{nil, {"h2"}, {"http/1.1"}, {"h2", "http/1.1"}, {"foo"}, {"http/1.1", "h2"}, {"foo", "h2"}}

func c13Zeros(n int) []int { return make([]int, n) }

// (a1) static contexts: the design's enumeration.
func TestVerifC13SelectionStatic(t *testing.T) {
	c13Setup()
	p := vreport.Begin("C13", "selection-static", 8*time.Minute)
	maxLen := vreport.Pick(3, 4)
	complete := vreport.Run(p, func(yield func(c13SelCase) bool) {
		c13Lists(len(c13Ctxs), maxLen, func(l []int) bool {
			for _, sni := range c13SNIs {
				for _, al := range c13ClientALPN {
					if !yield(c13SelCase{Ctxs: l, States: c13Zeros(len(l)), SNI: sni, ALPN: al}) {
						return false
					}
				}
			}
			return true
		})
	}, c13CheckSelection("static"))
	p.Note("listeners_built", c13Builds)
	p.End(complete, fmt.Sprintf("every ordered list of 1..%d distinct contexts out of %d (name classes %v x ALPN {none,h2,http/1.1}) x %d SNI values %q x %d client ALPN lists %v",
		maxLen, len(c13Ctxs), c13Labels(), len(c13SNIs), c13SNIs, len(c13ClientALPN), c13ClientALPN),
		"cartesian product; one evaluation = one ClientHello against one listener built by NewTLSServerContextManager from inline PEM contexts; compared by the leaf certificate of the returned configuration against the statement; upper-case SNI must select what its lower-case spelling selects (DNS names are case-insensitive); trailing-dot SNI and multi-label wildcard depth are compared against the union of readings; an absent SNI matches no name (ALPN rule, then first ready), also when a context of the list has no server_name; distinct = cases with >=2 contexts (precedence can matter); outcome = deciding rule x presented position")
}

func c13Labels() []string {
	var l []string
	for _, n := range c13NameClasses {
		l = append(l, n.Label)
	}
	return l
}

// (a2) readiness: contexts fed by secret discovery; "first READY context".
func TestVerifC13SelectionReadiness(t *testing.T) {
	c13Setup()
	before := c13Builds
	p := vreport.Begin("C13", "selection-readiness", 8*time.Minute)
	// quick: 9 contexts (3 name classes), states {ready, no certificate}; thorough: 12 contexts, plus {no validation}
	nctx := vreport.Pick(9, 12)
	states := []int{c13SdsReady, c13SdsNoCert}
	if vreport.Thorough() {
		states = append(states, c13SdsNoValid)
	}
	snis := []string{"a.com", "x.a.com", "b.com", "c.org", "d.org", ""}
	alpns := [][]string{nil, {"h2"}, {"http/1.1"}, {"foo"}}
	complete := vreport.Run(p, func(yield func(c13SelCase) bool) {
		for _, delivery := range []string{"preloaded", "async"} {
			ok := true
			c13Lists(nctx, 3, func(l []int) bool {
				st := make([]int, len(l))
				var rec func(i int) bool
				rec = func(i int) bool {
					if i == len(l) {
						for _, sni := range snis {
							for _, al := range alpns {
								if !yield(c13SelCase{Ctxs: l, States: append([]int(nil), st...), Delivery: delivery, SNI: sni, ALPN: al}) {
									return false
								}
							}
						}
						return true
					}
					for _, s := range states {
						st[i] = s
						if !rec(i + 1) {
							return false
						}
					}
					return true
				}
				ok = rec(0)
				return ok
			})
			if !ok {
				return
			}
		}
	}, func(p *vreport.Part, c c13SelCase) { c13CheckSelection("sds-" + c.Delivery)(p, c) })
	p.Note("listeners_built", c13Builds-before)
	p.End(complete, fmt.Sprintf("every ordered list of 1..3 distinct contexts out of %d, every assignment of provider states %v, secrets delivered {before the listener is built (a second listener shares them), after it is built} x SNI %q x client ALPN %v",
		nctx, c13StateNames(states), snis, alpns),
		"all contexts use sds_source; the harness is the secret discovery client (package seam getSdsClientFunc) and delivers certificate/validation per state; a context is ready iff both arrived; oracle and comparison as in selection-static")
}

func c13StateNames(s []int) []string {
	var r []string
	for _, x := range s {
		r = append(r, c13StateName[x])
	}
	return r
}

// (a3) host names and protocol names are different things: an SNI that spells a
// protocol name, a client protocol that spells a host name.
func TestVerifC13SelectionNamespace(t *testing.T) {
	c13Setup()
	p := vreport.Begin("C13", "selection-namespace", 4*time.Minute)
	snis := []string{"h2", "http/1.1", "d.org", "a.com"}
	alpns := [][]string{nil, {"h2"}, {"a.com"}, {"c.org"}, {"*.a.com"}, {"b.com", "foo"}}
	complete := vreport.Run(p, func(yield func(c13SelCase) bool) {
		c13Lists(len(c13Ctxs), vreport.Pick(2, 3), func(l []int) bool {
			for si, sni := range snis {
				for ai, al := range alpns {
					if si >= 2 && ai < 2 {
						continue // both from the ordinary alphabet: covered by selection-static
					}
					if !yield(c13SelCase{Ctxs: l, States: c13Zeros(len(l)), SNI: sni, ALPN: al}) {
						return false
					}
				}
			}
			return true
		})
	}, c13CheckSelection("token-of-the-other-kind"))
	p.End(complete, fmt.Sprintf("every ordered list of 1..%d distinct contexts out of %d x SNI %q x client ALPN %v, at least one of the two spelling a token of the other kind",
		vreport.Pick(2, 3), len(c13Ctxs), snis, alpns),
		"as selection-static; the SNI is matched against names only and the client protocols against ALPN lists only, as the statement says")
}
