//go:build verif

package mtls

// C13, unit sds-schedules: the TLS policy in force is the CONFIGURED one under
// every interleaving of secret pushes (SDS) and configuration updates.
//
// A TLS context with sds_source lives in an sdsProvider that is shared, by its
// index ("server_<listener>" / "client_<cluster>"), between the manager a
// listener (cluster) had before an update and the one the update builds. Two
// kinds of events rebuild its tls context: a secret push (certificate or CA,
// called by the secret discovery client) and a configuration update
// (NewTLSServerContextManager / NewTLSClientContextManager with new settings).
// Each rebuild is a read-config / read-secrets / build / store sequence.
//
// Part sds-histories (sequential baseline, no scheduler): every history of
// pushes and updates up to a length on ONE secret shared by a listener and a
// cluster; after the history both the listener and the cluster must apply what
// a fresh build from the LATEST configuration and the LATEST secrets applies.
//
// Part sds-schedules (controlled scheduler, pkg/mtls instrumented): a thread
// that plays the secret discovery client (its pushes are serial, as the real
// client serialises SetSecret) and a thread that applies configuration updates
// run concurrently; every interleaving of their lock/atomic steps within a
// preemption bound is executed, and at quiescence the same oracle is applied.
//
// The oracle is differential and goes through the public constructors only: the
// reference is a listener (cluster) manager whose context carries the latest
// settings with the latest secrets as INLINE PEM (static provider; its
// conformance to the statement's rules is what the other C13 parts check).
// Observation: for every ClientHello of an SNI x ALPN alphabet what
// GetConfigForClient answers (which certificate, ClientAuth mode, trusted CA,
// ALPN list), resp. the upstream configuration of the cluster manager
// (server name, insecure_skip, trusted CA, client certificate, hash value).

import (
	"bytes"
	"context"
	"crypto/x509"
	"fmt"
	"os"
	"sort"
	"strings"
	"sync"
	"testing"
	"time"

	v2 "mosn.io/mosn/pkg/config/v2"
	"mosn.io/mosn/pkg/log"
	"mosn.io/mosn/pkg/mtls/crypto/tls"
	"mosn.io/mosn/pkg/types"
	"mosn.io/mosn/pkg/verifrt/vreport"
	"mosn.io/mosn/pkg/verifrt/vrt"
	"mosn.io/mosn/pkg/verifrt/vsync"
)

// ---------------------------------------------------------------------------
// alphabet

// settings of the sds context X that an update may change
type c13SchedCfg struct {
	Verify, Require bool
	ServerName      string
	ALPN            string
	InsecureSkip    bool
}

func (c c13SchedCfg) String() string {
	return fmt.Sprintf("{verify_client=%v require_client_cert=%v server_name=%s alpn=%q insecure_skip=%v}", c.Verify, c.Require, c.ServerName, c.ALPN, c.InsecureSkip)
}

var c13SchedListenerCfgs = []c13SchedCfg{
	0: {ServerName: "x0.test"},
	1: {ServerName: "x0.test", Verify: true, Require: true},
	2: {ServerName: "x0.test", Verify: true},
	3: {ServerName: "x1.test"},
	4: {ServerName: "x0.test", ALPN: "h2"},
	5: {ServerName: "x1.test", ALPN: "h2", Verify: true, Require: true},
}

var c13SchedClusterCfgs = []c13SchedCfg{
	0: {ServerName: "up0.test"},
	1: {ServerName: "up0.test", InsecureSkip: true},
	2: {ServerName: "up1.test"},
	3: {ServerName: "up1.test", InsecureSkip: true, ALPN: "h2"},
}

const (
	c13SchedListener = "listener"
	c13SchedCluster  = "cluster"
	c13SchedCertName = "c13sched-cert"
	c13SchedCAName   = "c13sched-ca"
	c13SchedName     = "c13sched"
)

type c13SchedPKI struct {
	static *c13Cert            // leaf of the static context S of the listener ("s.test", ALPN http/1.1)
	leaf   map[string]*c13Cert // "A", "B": the certificates the secret discovery service hands out
	ca     map[string]*c13Cert // "A", "B": the validation contexts it hands out
	pool   map[string]*x509.CertPool
}

var (
	c13SchedOnce sync.Once
	c13SchedP    *c13SchedPKI
)

func c13SchedSetup() {
	c13Setup()
	c13SchedOnce.Do(func() {
		p := &c13SchedPKI{leaf: map[string]*c13Cert{}, ca: map[string]*c13Cert{}, pool: map[string]*x509.CertPool{}}
		p.static = c13NewLeaf("sched-static", c13P.caA, "s.test", []string{"s.test"}, false)
		p.leaf["A"] = c13NewLeaf("sched-leaf-a", c13P.caA, "a-leaf.test", []string{"a-leaf.test"}, false)
		p.leaf["B"] = c13NewLeaf("sched-leaf-b", c13P.caA, "b-leaf.test", []string{"b-leaf.test"}, false)
		p.ca["A"], p.ca["B"] = c13P.caA, c13P.caB
		p.pool["A"], p.pool["B"] = c13Pool(c13P.caA), c13Pool(c13P.caB)
		c13SchedP = p
	})
}

// ---------------------------------------------------------------------------
// the secret discovery client seen by pkg/mtls (package seam getSdsClientFunc).
// Like the real client (pkg/mtls/sds/client.go) it keeps one callback per secret
// name and holds one lock while it registers a callback and while it delivers a
// secret to it; a secret nobody registered for is dropped.

type c13SchedSds struct {
	mu  vsync.Mutex
	cbs map[string]types.SdsUpdateCallbackFunc
}

func (s *c13SchedSds) AddUpdateCallback(name string, cb types.SdsUpdateCallbackFunc) error {
	s.mu.Lock()
	defer s.mu.Unlock()
	s.cbs[name] = cb
	return nil
}
func (s *c13SchedSds) DeleteUpdateCallback(name string) error {
	s.mu.Lock()
	defer s.mu.Unlock()
	delete(s.cbs, name)
	return nil
}
func (s *c13SchedSds) RequireSecret(name string) {}
func (s *c13SchedSds) FetchSecret(ctx context.Context, name string) (*types.SdsSecret, error) {
	return nil, fmt.Errorf("not used")
}
func (s *c13SchedSds) AckResponse(resp interface{}) {}
func (s *c13SchedSds) SetSecret(name string, secret *types.SdsSecret) {
	s.mu.Lock()
	defer s.mu.Unlock()
	if cb, ok := s.cbs[name]; ok {
		cb(name, secret)
	}
}

// ---------------------------------------------------------------------------
// the world of one execution / history

type c13SchedWorld struct {
	fake   *c13SchedSds
	layout string
	lmng   types.TLSContextManager       // the manager the listener uses now (the one the last update built)
	cmng   types.TLSClientContextManager // the manager the cluster uses now
	herr   string
}

func c13SchedNewWorld(layout string) *c13SchedWorld {
	ClearSecretManager()
	w := &c13SchedWorld{layout: layout, fake: &c13SchedSds{cbs: map[string]types.SdsUpdateCallbackFunc{}}}
	getSdsClientFunc = func(cfg interface{}) types.SdsClient { return w.fake }
	return w
}

func c13SchedSdsSource() *v2.SdsConfig {
	return &v2.SdsConfig{
		CertificateConfig: &v2.SecretConfigWrapper{Name: c13SchedCertName, SdsConfig: "c13"},
		ValidationConfig:  &v2.SecretConfigWrapper{Name: c13SchedCAName, SdsConfig: "c13"},
	}
}

// c13SchedContext renders the context X: with sds_source (cert == "" and ca == "" and sds) or
// with the given secrets as inline PEM (the reference form).
func c13SchedContext(s c13SchedCfg, sds bool, cert, ca string) v2.TLSConfig {
	cfg := v2.TLSConfig{Status: true, ServerName: s.ServerName, ALPN: s.ALPN, VerifyClient: s.Verify, RequireClientCert: s.Require, InsecureSkip: s.InsecureSkip}
	if sds {
		cfg.SdsConfig = c13SchedSdsSource()
	} else {
		cfg.CertChain = c13SchedP.leaf[cert].CertPEM
		cfg.PrivateKey = c13SchedP.leaf[cert].KeyPEM
		cfg.CACert = c13SchedP.ca[ca].CertPEM
	}
	return cfg
}

// c13SchedListenerConfig: layout names the ordered contexts of the listener, S = static context
// (s.test, ALPN http/1.1, no client authentication), X = the context under test; withX=false
// leaves X out (reference for "X is not ready": a context that is not ready is skipped).
func c13SchedListenerConfig(layout string, x *v2.TLSConfig) *v2.Listener {
	var tc []v2.TLSConfig
	for _, l := range strings.Split(layout, ",") {
		switch l {
		case "S":
			tc = append(tc, v2.TLSConfig{Status: true, ALPN: "http/1.1", CertChain: c13SchedP.static.CertPEM,
				PrivateKey: c13SchedP.static.KeyPEM, CACert: c13P.caA.CertPEM})
		case "X":
			if x != nil {
				tc = append(tc, *x)
			}
		}
	}
	return &v2.Listener{ListenerConfig: v2.ListenerConfig{Name: c13SchedName, FilterChains: []v2.FilterChain{{TLSContexts: tc}}}}
}

func (w *c13SchedWorld) fail(what string, err interface{}) {
	if w.herr == "" {
		w.herr = fmt.Sprintf("%s: %v", what, err)
	}
}

func (w *c13SchedWorld) updateListener(k int) {
	x := c13SchedContext(c13SchedListenerCfgs[k], true, "", "")
	m, err := NewTLSServerContextManager(c13SchedListenerConfig(w.layout, &x))
	if err != nil {
		w.fail("listener update rejected", err)
		return
	}
	w.lmng = m
}

func (w *c13SchedWorld) updateCluster(k int) {
	x := c13SchedContext(c13SchedClusterCfgs[k], true, "", "")
	m, err := NewTLSClientContextManager(c13SchedName, &x)
	if err != nil {
		w.fail("cluster update rejected", err)
		return
	}
	w.cmng = m
}

// push delivers "cert:A|B" or "ca:A|B" the way the secret discovery client does
func (w *c13SchedWorld) push(ev string) {
	kind, which, _ := strings.Cut(ev, ":")
	switch kind {
	case "cert":
		l := c13SchedP.leaf[which]
		w.fake.SetSecret(c13SchedCertName, &types.SdsSecret{Name: c13SchedCertName, CertificatePEM: l.CertPEM, PrivateKeyPEM: l.KeyPEM})
	case "ca":
		w.fake.SetSecret(c13SchedCAName, &types.SdsSecret{Name: c13SchedCAName, ValidationPEM: c13SchedP.ca[which].CertPEM})
	default:
		w.fail("bad push event", ev)
	}
}

// ---------------------------------------------------------------------------
// observation

type c13SchedAnswer struct {
	Ask    string // the ClientHello (listener) or "upstream" (cluster)
	Ctx    string // which context answered: "S", "X" (by its certificate), "none", "foreign"
	Leaf   string // which certificate: "S", "A", "B"
	Auth   string // ClientAuth mode (listener) / "server_name=… insecure_skip=…" (cluster)
	CA     string // trusted CA: "A", "B", "none", "other"
	Protos string
	Hash   string
}

var (
	c13SchedSNIs  = []string{"", "s.test", "x0.test", "x1.test", "a-leaf.test", "b-leaf.test", "nomatch.test"}
	c13SchedALPNs = [][]string{nil, {"h2"}, {"http/1.1"}}
)

func c13SchedLeafLabel(certs []tls.Certificate) string {
	if len(certs) == 0 || len(certs[0].Certificate) == 0 {
		return "none"
	}
	der := certs[0].Certificate[0]
	switch {
	case bytes.Equal(der, c13SchedP.static.DER):
		return "S"
	case bytes.Equal(der, c13SchedP.leaf["A"].DER):
		return "A"
	case bytes.Equal(der, c13SchedP.leaf["B"].DER):
		return "B"
	}
	return "foreign"
}

func c13SchedPoolLabel(pool *x509.CertPool) string {
	switch {
	case pool == nil:
		return "none"
	case pool.Equal(c13SchedP.pool["A"]):
		return "A"
	case pool.Equal(c13SchedP.pool["B"]):
		return "B"
	}
	return "other"
}

func c13SchedObserveListener(mng types.TLSContextManager) (out []c13SchedAnswer, herr string) {
	defer func() {
		if r := recover(); r != nil {
			herr = fmt.Sprint("panic while asking the listener manager: ", r)
		}
	}()
	m, ok := mng.(*serverContextManager)
	if !ok {
		return nil, fmt.Sprintf("unexpected manager type %T", mng)
	}
	for _, sni := range c13SchedSNIs {
		for _, al := range c13SchedALPNs {
			a := c13SchedAnswer{Ask: fmt.Sprintf("sni=%q alpn=%v", sni, al)}
			cfg, err := m.GetConfigForClient(&tls.ClientHelloInfo{ServerName: sni, SupportedProtos: al})
			if err != nil || cfg == nil {
				a.Ctx, a.Leaf = "none", "none"
				out = append(out, a)
				continue
			}
			a.Leaf = c13SchedLeafLabel(cfg.Certificates)
			switch a.Leaf {
			case "A", "B":
				a.Ctx = "X"
			default:
				a.Ctx = a.Leaf
			}
			a.Auth = fmt.Sprintf("ClientAuth=%d", int(cfg.ClientAuth))
			a.CA = c13SchedPoolLabel(cfg.ClientCAs)
			a.Protos = strings.Join(cfg.NextProtos, ",")
			out = append(out, a)
		}
	}
	return out, ""
}

func c13SchedObserveCluster(mng types.TLSClientContextManager) (out []c13SchedAnswer, herr string) {
	defer func() {
		if r := recover(); r != nil {
			herr = fmt.Sprint("panic while asking the cluster manager: ", r)
		}
	}()
	m, ok := mng.(*clientContextManager)
	if !ok {
		return nil, fmt.Sprintf("unexpected manager type %T", mng)
	}
	a := c13SchedAnswer{Ask: "upstream"}
	if !m.Enabled() {
		a.Ctx, a.Leaf = "none", "none"
		return []c13SchedAnswer{a}, ""
	}
	cc := m.provider.GetTLSConfigContext(true)
	cfg := cc.Config()
	if cfg == nil {
		a.Ctx, a.Leaf = "none", "none"
		return []c13SchedAnswer{a}, ""
	}
	a.Ctx = "X"
	a.Leaf = c13SchedLeafLabel(cfg.Certificates)
	a.Auth = fmt.Sprintf("server_name=%s insecure_skip=%v own_verify=%v", cfg.ServerName, cfg.InsecureSkipVerify, cfg.VerifyPeerCertificate != nil)
	a.CA = c13SchedPoolLabel(cfg.RootCAs)
	a.Protos = strings.Join(cfg.NextProtos, ",")
	a.Hash = m.HashValue().String()
	return []c13SchedAnswer{a}, ""
}

// reference: a fresh manager from the given settings and secrets as inline PEM; X is left out
// (listener) / TLS is off (cluster) while a secret is missing. Memoised: it depends on the key only.
var c13SchedRefMemo = map[string][]c13SchedAnswer{}

func c13SchedReference(side, layout string, k int, cert, ca string) []c13SchedAnswer {
	key := fmt.Sprint(side, "|", layout, "|", k, "|", cert, "|", ca)
	if r, ok := c13SchedRefMemo[key]; ok {
		return r
	}
	var out []c13SchedAnswer
	var herr string
	ready := cert != "" && ca != ""
	if side == c13SchedListener {
		var x *v2.TLSConfig
		if ready {
			xc := c13SchedContext(c13SchedListenerCfgs[k], false, cert, ca)
			x = &xc
		}
		m, err := NewTLSServerContextManager(c13SchedListenerConfig(layout, x))
		c13Must(err)
		out, herr = c13SchedObserveListener(m)
	} else {
		if !ready {
			out = []c13SchedAnswer{{Ask: "upstream", Ctx: "none", Leaf: "none"}}
		} else {
			xc := c13SchedContext(c13SchedClusterCfgs[k], false, cert, ca)
			m, err := NewTLSClientContextManager(c13SchedName+"-ref", &xc)
			c13Must(err)
			out, herr = c13SchedObserveCluster(m)
		}
	}
	if herr != "" {
		panic("C13 harness: reference build: " + herr)
	}
	c13SchedRefMemo[key] = out
	return out
}

// c13SchedDiff names the first facet in which the observation departs from the reference
// (in the order: which context answers, client authentication / upstream verification settings,
// ALPN list, certificate, trusted CA), "" if they agree.
func c13SchedDiff(side string, got, want []c13SchedAnswer) (facet, detail string) {
	if len(got) != len(want) {
		return "number of answers", fmt.Sprintf("%d answers, expected %d", len(got), len(want))
	}
	type facetOf struct {
		name string
		get  func(a c13SchedAnswer) string
	}
	authName := "client authentication mode (verify_client/require_client_cert)"
	ctxName := "context selected for a ClientHello (server_name/certificate names/ALPN match sets, readiness)"
	if side == c13SchedCluster {
		authName = "upstream verification settings (server_name/insecure_skip)"
		ctxName = "TLS towards the upstream on/off (readiness)"
	}
	facets := []facetOf{
		{ctxName, func(a c13SchedAnswer) string { return a.Ctx }},
		{authName, func(a c13SchedAnswer) string { return a.Auth }},
		{"ALPN list offered", func(a c13SchedAnswer) string { return a.Protos }},
		{"certificate presented (pushed secret)", func(a c13SchedAnswer) string { return a.Leaf }},
		{"trusted CA (pushed validation secret)", func(a c13SchedAnswer) string { return a.CA }},
		{"hash value of the upstream TLS configuration", func(a c13SchedAnswer) string { return a.Hash }},
	}
	for _, f := range facets {
		for i := range got {
			if f.get(got[i]) != f.get(want[i]) {
				return f.name, fmt.Sprintf("%s: got %+v, a fresh build gives %+v", got[i].Ask, got[i], want[i])
			}
		}
	}
	return "", ""
}

func c13SchedEqual(a, b []c13SchedAnswer) bool {
	if len(a) != len(b) {
		return false
	}
	for i := range a {
		if a[i] != b[i] {
			return false
		}
	}
	return true
}

// c13SchedStale says which build of the history the observation equals, if any.
func c13SchedStale(side, layout string, got []c13SchedAnswer, cfgs []int, certs, cas []string, k int, cert, ca string) string {
	for _, ck := range cfgs {
		for _, cc := range certs {
			for _, ca2 := range cas {
				if ck == k && cc == cert && ca2 == ca {
					continue
				}
				if c13SchedEqual(got, c13SchedReference(side, layout, ck, cc, ca2)) {
					var what []string
					if ck != k {
						what = append(what, "a superseded configuration")
					}
					if cc != cert || ca2 != ca {
						what = append(what, "a superseded secret")
					}
					return "it equals a build from " + strings.Join(what, " and ") +
						fmt.Sprintf(" [configuration #%d certificate %q CA %q]", ck, cc, ca2)
				}
			}
		}
	}
	return "it equals no build of the history"
}

// c13SchedKeyClass is the class named by the finding key: which superseded input the context in
// force was built from; if it equals no build of the history at all, the facet that departs.
func c13SchedKeyClass(facet, stale string) string {
	cl := c13SchedStaleClass(stale)
	if strings.HasPrefix(cl, "it equals no build") {
		return cl + ", " + facet + " differs"
	}
	return cl
}

func c13SchedStaleClass(s string) string {
	if i := strings.Index(s, " ["); i >= 0 {
		return s[:i]
	}
	return s
}

func c13SchedFingerprint(a []c13SchedAnswer) string {
	var sb strings.Builder
	for _, x := range a {
		fmt.Fprintf(&sb, "%s|%s|%s|%s|%s;", x.Ctx, x.Leaf, x.Auth, x.CA, x.Protos)
	}
	return sb.String()
}

func c13SchedQuiet() func() {
	old := log.DefaultLogger.GetLogLevel()
	log.DefaultLogger.SetLogLevel(log.ERROR)
	return func() { log.DefaultLogger.SetLogLevel(old) }
}

// latest secrets after the pushes of a program, starting from what was delivered before
func c13SchedLatest(init string, pushes []string) (cert, ca string, certs, cas []string) {
	if strings.Contains(init, "cert") {
		cert = "A"
	}
	if strings.Contains(init, "ca") {
		ca = "A"
	}
	certs, cas = []string{cert}, []string{ca}
	for _, ev := range pushes {
		kind, which, _ := strings.Cut(ev, ":")
		if kind == "cert" {
			cert = which
			certs = append(certs, which)
		} else {
			ca = which
			cas = append(cas, which)
		}
	}
	return
}

func c13SchedUniq(s []string) []string {
	seen := map[string]bool{}
	var out []string
	for _, x := range s {
		if !seen[x] {
			seen[x] = true
			out = append(out, x)
		}
	}
	sort.Strings(out)
	return out
}

// ---------------------------------------------------------------------------
// part sds-histories: sequential baseline

type c13SchedHistCase struct {
	Layout string   `json:"layout"`
	Events []string `json:"events"` // "cert:A|B", "ca:A|B", "L:<k>" listener update, "U:<k>" cluster update
}

func TestVerifSchedC13SdsHistories(t *testing.T) {
	c13SchedSetup()
	defer c13SchedQuiet()()
	p := vreport.Begin("C13", "sds-histories", 4*time.Minute)
	events := []string{"cert:A", "cert:B", "ca:A", "ca:B", "L:1", "L:3", "L:4", "U:1", "U:2"}
	if vreport.Thorough() {
		events = append(events, "L:0", "L:5", "U:0", "U:3")
	}
	maxLen := vreport.Pick(3, 4)
	layouts := []string{"S,X"}
	if vreport.Thorough() {
		layouts = append(layouts, "X")
	}
	complete := vreport.Run(p, func(yield func(c13SchedHistCase) bool) {
		for _, layout := range layouts {
			ok := true
			c13Histories(events, maxLen, func(h []string) bool {
				ok = yield(c13SchedHistCase{Layout: layout, Events: append([]string(nil), h...)})
				return ok
			})
			if !ok {
				return
			}
		}
	}, func(p *vreport.Part, c c13SchedHistCase) {
		w := c13SchedNewWorld(c.Layout)
		lk, ck := 0, 0
		cert, ca := "", ""
		cfgsL, cfgsC, certs, cas := []int{0}, []int{0}, []string{""}, []string{""}
		func() {
			defer func() {
				if r := recover(); r != nil {
					w.fail("panic", r)
				}
			}()
			w.updateListener(0)
			w.updateCluster(0)
			for _, ev := range c.Events {
				kind, arg, _ := strings.Cut(ev, ":")
				switch kind {
				case "L":
					fmt.Sscan(arg, &lk)
					cfgsL = append(cfgsL, lk)
					w.updateListener(lk)
				case "U":
					fmt.Sscan(arg, &ck)
					cfgsC = append(cfgsC, ck)
					w.updateCluster(ck)
				case "cert":
					cert = arg
					certs = append(certs, arg)
					w.push(ev)
				case "ca":
					ca = arg
					cas = append(cas, arg)
					w.push(ev)
				}
			}
		}()
		if w.herr != "" {
			p.Violation("sds-histories: an operation of the history failed", w.herr, c)
			return
		}
		for _, side := range []string{c13SchedListener, c13SchedCluster} {
			var got []c13SchedAnswer
			var herr string
			k, cfgs := lk, cfgsL
			if side == c13SchedListener {
				got, herr = c13SchedObserveListener(w.lmng)
			} else {
				got, herr = c13SchedObserveCluster(w.cmng)
				k, cfgs = ck, cfgsC
			}
			if herr != "" {
				p.Violation("sds-histories "+side+": the manager cannot be asked", herr, c)
				continue
			}
			want := c13SchedReference(side, c.Layout, k, cert, ca)
			p.Distinct(fmt.Sprint(side, "|", c.Layout, "|", k, "|", cert, "|", ca, "|", len(c.Events)))
			p.Outcome(side + "|" + c13SchedFingerprint(got))
			if facet, detail := c13SchedDiff(side, got, want); facet != "" {
				stale := c13SchedStale(side, c.Layout, got, cfgs, c13SchedUniq(certs), c13SchedUniq(cas), k, cert, ca)
				p.Violation(fmt.Sprintf("sds-histories %s: after a history of secret pushes and configuration updates the context in force is not a build of the latest configuration and the latest secrets: %s", side, c13SchedKeyClass(facet, stale)),
					fmt.Sprintf("history %v, latest configuration #%d, certificate %q, CA %q: %s differs: %s; %s", c.Events, k, cert, ca, facet, detail, stale), c)
			}
		}
		if p.WantSample() {
			p.Sample(c)
		}
	})
	p.End(complete, fmt.Sprintf("all histories of length <= %d over %d events (secret pushes cert A|B, CA A|B; listener updates; cluster updates) after a listener and a cluster with one shared sds secret were created; listener layouts %v", maxLen, len(events), layouts),
		"sequential (no scheduler); after each history the listener manager is asked with every ClientHello of 7 SNI x 3 ALPN and the cluster manager for its upstream configuration, both are compared with a fresh inline-PEM build of the latest settings and latest secrets (context absent while a secret is missing); distinct = (side, latest configuration, latest secrets, length)")
}

// ---------------------------------------------------------------------------
// part sds-schedules: interleavings

type c13SchedCase struct {
	Side    string   `json:"side"`
	Layout  string   `json:"layout,omitempty"`
	Init    string   `json:"init"`    // secrets delivered before the threads start: "cert+ca", "cert", "ca", "none"
	Cfg0    int      `json:"cfg0"`    // settings the provider was created with
	Updates []int    `json:"updates"` // program of the update thread
	Pushes  []string `json:"pushes"`  // program of the secret discovery thread
	Bound   int      `json:"bound"`
	Choices []int    `json:"choices,omitempty"`
}

type c13SchedObs struct {
	w *c13SchedWorld
}

func c13SchedBody(c c13SchedCase, obs *c13SchedObs) func() {
	return func() {
		w := c13SchedNewWorld(c.Layout)
		obs.w = w
		update := w.updateListener
		if c.Side == c13SchedCluster {
			update = w.updateCluster
		}
		update(c.Cfg0)
		if strings.Contains(c.Init, "cert") {
			w.push("cert:A")
		}
		if strings.Contains(c.Init, "ca") {
			w.push("ca:A")
		}
		done, want := 0, 0
		if len(c.Pushes) > 0 {
			want++
			vrt.GoNamed("sds-client", func() {
				for _, ev := range c.Pushes {
					w.push(ev)
				}
				done++
			})
		}
		if len(c.Updates) > 0 {
			want++
			vrt.GoNamed("config-update", func() {
				for _, k := range c.Updates {
					update(k)
				}
				done++
			})
		}
		vrt.WaitUntil("operations done", func() bool { return done == want })
	}
}

func c13SchedCases() []c13SchedCase {
	var cases []c13SchedCase
	bound := vreport.Pick(2, 3)
	type tr struct {
		from int
		to   []int
	}
	add := func(side, layout, init string, t tr, pushes ...string) {
		cases = append(cases, c13SchedCase{Side: side, Layout: layout, Init: init, Cfg0: t.from, Updates: t.to, Pushes: pushes, Bound: bound})
	}
	programs := [][]string{{"cert:B"}, {"ca:B"}, {"cert:B", "ca:B"}}
	// (settings the provider was created with -> update program); a two-step program whose last
	// settings equal the first shows a context left over from the step in between
	ltrans := []tr{{0, []int{1}}, {1, []int{0}}, {0, []int{2}}, {0, []int{3}}, {0, []int{4}}, {0, []int{5}}, {5, []int{0}}, {0, []int{1, 0}}, {0, []int{1, 5}}}
	ctrans := []tr{{0, []int{1}}, {1, []int{0}}, {0, []int{2}}, {0, []int{3}}, {0, []int{1, 0}}}
	layouts := []string{"S,X", "X"}
	if vreport.Thorough() {
		programs = append(programs, []string{"ca:B", "cert:B"}, []string{"cert:B", "cert:A"}, []string{"ca:B", "ca:A"})
		ltrans = append(ltrans, tr{3, []int{4, 1}}, tr{2, []int{1}}, tr{4, []int{3}})
		ctrans = append(ctrans, tr{0, []int{1, 2}}, tr{3, []int{0}})
		layouts = append(layouts, "X,S")
	}
	for _, layout := range layouts {
		for _, t := range ltrans {
			for _, pr := range programs {
				add(c13SchedListener, layout, "cert+ca", t, pr...)
			}
		}
		// the first complete set of secrets arrives while the listener is updated
		first := tr{0, []int{1}}
		add(c13SchedListener, layout, "cert", first, "ca:A")
		add(c13SchedListener, layout, "ca", first, "cert:A")
		add(c13SchedListener, layout, "none", first, "cert:A", "ca:A")
		add(c13SchedListener, layout, "none", first, "ca:A", "cert:A")
		if vreport.Thorough() {
			add(c13SchedListener, layout, "cert", tr{0, []int{5}}, "ca:A", "cert:B")
			add(c13SchedListener, layout, "none", tr{0, []int{3}}, "cert:A")
		}
	}
	for _, t := range ctrans {
		for _, pr := range programs {
			add(c13SchedCluster, "", "cert+ca", t, pr...)
		}
	}
	add(c13SchedCluster, "", "cert", tr{0, []int{1}}, "ca:A")
	add(c13SchedCluster, "", "ca", tr{0, []int{2}}, "cert:A")
	if vreport.Thorough() {
		add(c13SchedCluster, "", "none", tr{0, []int{3}}, "cert:A", "ca:A")
		add(c13SchedCluster, "", "none", tr{0, []int{1}}, "ca:A", "cert:A")
	}
	return cases
}

func TestVerifSchedC13SdsSchedules(t *testing.T) {
	c13SchedSetup()
	defer c13SchedQuiet()()
	p := vreport.Begin("C13", "sds-schedules", 8*time.Minute)
	var rc c13SchedCase
	if vreport.Replaying() {
		if vreport.ReplayFor("C13", "sds-schedules", &rc) {
			c13SchedRun(p, rc, true)
			p.End(true, "replay", "replay of one recorded schedule")
		}
		return
	}
	cases := c13SchedCases()
	si, sn := vreport.Shard()
	complete := true
	for i, c := range cases {
		if sn > 1 && i%sn != si {
			continue
		}
		if p.Expired() {
			complete = false
			break
		}
		if !c13SchedRun(p, c, false) {
			complete = false
		}
	}
	p.Note("cases", len(cases))
	p.End(complete, fmt.Sprintf("%d cases = side {listener with contexts [static S, sds X] or [X] alone (thorough: also [X,S]), cluster} x (settings before -> update program) x secret push program x secrets delivered before; 2 threads (secret discovery client with serial pushes, configuration update); every interleaving of their lock/atomic steps with <= %d preemptions", len(cases), vreport.Pick(2, 3)),
		"pkg/mtls runs under the controlled scheduler (every mutex and atomic.Value operation of the secret manager is a scheduling point, the secret discovery client's lock too); per case the default schedule is first run twice and must give the same schedule and observation; at quiescence the manager the last update built is asked (listener: 7 SNI x 3 ALPN ClientHellos -> certificate, ClientAuth, trusted CA, ALPN; cluster: server name, insecure_skip, trusted CA, client certificate, hash) and compared with a fresh inline-PEM build of the LAST settings of the update program and the LAST pushed secrets; distinct = (case, final observation); traces = executions")
}

func c13SchedRun(p *vreport.Part, c c13SchedCase, replay bool) bool {
	cfgs := append([]int{c.Cfg0}, c.Updates...)
	k := cfgs[len(cfgs)-1]
	cert, ca, certs, cas := c13SchedLatest(c.Init, c.Pushes)
	want := c13SchedReference(c.Side, c.Layout, k, cert, ca)
	var obs c13SchedObs
	observe := func() ([]c13SchedAnswer, string) {
		if obs.w == nil {
			return nil, "no world"
		}
		if obs.w.herr != "" {
			return nil, obs.w.herr
		}
		if c.Side == c13SchedListener {
			return c13SchedObserveListener(obs.w.lmng)
		}
		return c13SchedObserveCluster(obs.w.cmng)
	}
	body := func() {
		obs.w = nil
		c13SchedBody(c, &obs)()
	}
	caseKey := fmt.Sprint(c.Side, c.Layout, c.Init, c.Cfg0, c.Updates, c.Pushes)
	if !replay {
		// determinism: the default schedule twice
		var first *vrt.Result
		var firstObs string
		for i := 0; i < 2; i++ {
			var r0 *vrt.Result
			vrt.Explore(vrt.Options{Replay: true, MaxSteps: 20000}, body, func(r *vrt.Result) { r0 = r })
			got, herr := observe()
			fp := herr + c13SchedFingerprint(got)
			if i == 0 {
				first, firstObs = r0, fp
				continue
			}
			if fmt.Sprint(first.Choices) != fmt.Sprint(r0.Choices) || first.Steps != r0.Steps || firstObs != fp {
				p.Violation("harness: sds-schedules default schedule is not deterministic",
					fmt.Sprintf("case %s: first run %s / %s, second run %s / %s", caseKey, first, firstObs, r0, fp), c)
				return true
			}
		}
	}
	opts := vrt.Options{Bound: c.Bound, MaxSteps: 20000}
	if replay {
		opts.Replay = true
		opts.Prefix = c.Choices
	}
	st := vrt.Explore(opts, body, func(r *vrt.Result) {
		p.Eval()
		cc := c
		cc.Choices = r.Choices
		if r.Deadlock || r.StepLimit || r.Diverged != "" {
			p.Violation("sds-schedules "+c.Side+": secret push and configuration update do not complete (deadlock/step limit)", r.String(), cc)
			return
		}
		if len(r.Panics) > 0 {
			p.Violation("sds-schedules "+c.Side+": panic in a secret push or configuration update", r.String()+fmt.Sprint(r.Panics), cc)
			return
		}
		got, herr := observe()
		if herr != "" {
			p.Violation("sds-schedules "+c.Side+": an operation failed or the manager cannot be asked", herr+" schedule "+fmt.Sprint(r.Choices), cc)
			return
		}
		fp := c13SchedFingerprint(got)
		p.Distinct(caseKey + "|" + fp)
		p.Outcome(c.Side + "|" + fp)
		if p.WantSample() {
			p.Sample(map[string]interface{}{"case": c, "schedule": r.Choices, "answers": len(got)})
		}
		if facet, detail := c13SchedDiff(c.Side, got, want); facet != "" {
			stale := c13SchedStale(c.Side, c.Layout, got, cfgs, c13SchedUniq(certs), c13SchedUniq(cas), k, cert, ca)
			p.Violation(fmt.Sprintf("sds-schedules %s: after concurrent secret pushes and configuration updates the context in force is not a build of the latest configuration and the latest secrets: %s", c.Side, c13SchedKeyClass(facet, stale)),
				fmt.Sprintf("settings before %v, update program %v (latest %v), pushes %v after %q (latest certificate %q, CA %q), schedule %v: %s differs: %s; %s",
					c13SchedSettings(c.Side, c.Cfg0), c.Updates, c13SchedSettings(c.Side, k), c.Pushes, c.Init, cert, ca, r.Choices, facet, detail, stale), cc)
		}
	})
	p.AddTraces(st.Executions)
	if os.Getenv("VERIF_DEBUG") != "" {
		fmt.Printf("case %+v: execs=%d maxdepth=%d points=%d complete=%v\n", c, st.Executions, st.MaxDepth, st.Points, st.Complete)
	}
	return st.Complete
}

func c13SchedSettings(side string, k int) c13SchedCfg {
	if side == c13SchedCluster {
		return c13SchedClusterCfgs[k]
	}
	return c13SchedListenerCfgs[k]
}
