//go:build verif

package mtls

// C13 (d): the configuration FORM of certificates, keys and the CA, and their
// ROTATION on disk.
//
// `ca_cert`, `cert_chain` and `private_key` of a TLS context are either inline
// PEM or the path of a file (defaultConfigHooks.GetX509Pool / GetCertificate
// decide by looking for "-----BEGIN"). Every other C13 part uses inline PEM,
// where "the configured CA" is the string itself. For a path the configured CA
// is the CONTENT the file has when the context is built: NewProvider ->
// newTLSContext reads the files once, when the listener / cluster manager is
// (re)built (listener update, cluster update, a second listener naming the same
// file), and the context in force keeps what it read until it is rebuilt.
//
//   files-trust-server  form of ca_cert x cert_chain x private_key in {inline,
//                       absolute path, path relative to the working directory}
//                       x client authentication mode x peer certificate:
//                       the verdicts of the trust matrix (c13Admits) must not
//                       depend on the form.
//   files-trust-client  the same forms on the upstream side x insecure_skip x
//                       upstream certificate (c13UpstreamAdmitted).
//   files-rotation      every history up to a length over {rebuild the server
//                       manager, rebuild the client manager, rewrite the CA
//                       file with CA-A | CA-B, rewrite certificate+key files
//                       with leaf-A | leaf-B}, then probes with a peer without
//                       certificate / signed by CA-A / signed by CA-B in both
//                       directions. Oracle (the statement, "configured" read as
//                       above): with verify_client+require_client_cert the
//                       handshake succeeds only if the peer proves possession
//                       of a certificate chaining to the CA the file held WHEN
//                       THE CONTEXT IN FORCE WAS (RE)BUILT; an upstream is
//                       verified against that CA likewise; the listener
//                       presents the certificate the files held at that moment.
//
// Files: everything is written below t.TempDir() (created at run time, removed
// by the testing package). Every case works in its OWN sub-directory, so a
// process-wide memo keyed by a path (the defect class this part exists for)
// cannot leak from one case into another and a case replays alone exactly as it
// ran in the enumeration. The relative form is computed from the working
// directory of the test binary (the package directory) at run time.
//
// Mixed forms of cert_chain / private_key (one inline, the other a path) are
// not a configuration the statement speaks about: MOSN may reject them when the
// manager is built (it does: GetCertificate treats both as paths); that is
// counted, not compared. If such a context IS built it must enforce the policy
// like any other.

import (
	"bytes"
	gotls "crypto/tls"
	"fmt"
	"io"
	"net"
	"os"
	"path/filepath"
	"strings"
	"testing"
	"time"

	v2 "mosn.io/mosn/pkg/config/v2"
	"mosn.io/mosn/pkg/types"
	"mosn.io/mosn/pkg/verifrt/vreport"
)

const (
	c13FormInline = "inline"
	c13FormAbs    = "file"
	c13FormRel    = "file-rel"
)

var c13Forms = []string{c13FormInline, c13FormAbs, c13FormRel}

// c13FileSet is one directory with the three files a context can name.
type c13FileSet struct {
	Dir string
}

func (f *c13FileSet) caPath() string   { return filepath.Join(f.Dir, "ca.pem") }
func (f *c13FileSet) certPath() string { return filepath.Join(f.Dir, "cert.pem") }
func (f *c13FileSet) keyPath() string  { return filepath.Join(f.Dir, "key.pem") }

func c13WriteFile(path, content string) error {
	// written to a sibling and renamed: a reader never sees a half-written file
	tmp := path + ".tmp"
	if err := os.WriteFile(tmp, []byte(content), 0600); err != nil {
		return err
	}
	return os.Rename(tmp, path)
}

func (f *c13FileSet) writeCA(ca *c13Cert) error { return c13WriteFile(f.caPath(), ca.CertPEM) }
func (f *c13FileSet) writeLeaf(leaf *c13Cert) error {
	if err := c13WriteFile(f.certPath(), leaf.CertPEM); err != nil {
		return err
	}
	return c13WriteFile(f.keyPath(), leaf.KeyPEM)
}

// c13NewFileSet makes a fresh sub-directory of root (root = t.TempDir()).
func c13NewFileSet(root string) (*c13FileSet, error) {
	d, err := os.MkdirTemp(root, "case")
	if err != nil {
		return nil, err
	}
	if p, err := filepath.EvalSymlinks(d); err == nil {
		d = p
	}
	return &c13FileSet{Dir: d}, nil
}

// c13RelPath spells path relative to the working directory; the spelling is
// checked to name the same file.
func c13RelPath(path string) (string, error) {
	wd, err := os.Getwd()
	if err != nil {
		return "", err
	}
	if p, err := filepath.EvalSymlinks(wd); err == nil {
		wd = p
	}
	rel, err := filepath.Rel(wd, path)
	if err != nil {
		return "", err
	}
	a, err := os.Stat(rel)
	if err != nil {
		return "", err
	}
	b, err := os.Stat(path)
	if err != nil {
		return "", err
	}
	if !os.SameFile(a, b) || filepath.IsAbs(rel) {
		return "", fmt.Errorf("%q does not name %q", rel, path)
	}
	return rel, nil
}

// c13FormValue is what the configuration field holds for a form.
func c13FormValue(form, path, pem string) (string, error) {
	switch form {
	case c13FormInline:
		return pem, nil
	case c13FormAbs:
		return path, nil
	case c13FormRel:
		return c13RelPath(path)
	}
	return "", fmt.Errorf("unknown form %q", form)
}

func c13IsFileForm(form string) bool { return form != c13FormInline }

type c13FormTriple struct {
	CA   string `json:"ca_cert"`
	Cert string `json:"cert_chain"`
	Key  string `json:"private_key"`
}

func (f c13FormTriple) mixedKeyPair() bool { return c13IsFileForm(f.Cert) != c13IsFileForm(f.Key) }

func c13AllFormTriples() []c13FormTriple {
	var out []c13FormTriple
	for _, a := range c13Forms {
		for _, b := range c13Forms {
			for _, c := range c13Forms {
				out = append(out, c13FormTriple{a, b, c})
			}
		}
	}
	return out
}

// c13FormFields writes ca/leaf into a fresh file set and returns the three
// configuration values in the requested forms.
func c13FormFields(root string, forms c13FormTriple, ca, leaf *c13Cert) (caV, certV, keyV string, err error) {
	fs, err := c13NewFileSet(root)
	if err != nil {
		return
	}
	if err = fs.writeCA(ca); err != nil {
		return
	}
	if err = fs.writeLeaf(leaf); err != nil {
		return
	}
	if caV, err = c13FormValue(forms.CA, fs.caPath(), ca.CertPEM); err != nil {
		return
	}
	if certV, err = c13FormValue(forms.Cert, fs.certPath(), leaf.CertPEM); err != nil {
		return
	}
	keyV, err = c13FormValue(forms.Key, fs.keyPath(), leaf.KeyPEM)
	return
}

func c13FilesListener(caV, certV, keyV string, verify, require bool) *v2.Listener {
	return &v2.Listener{ListenerConfig: v2.ListenerConfig{
		Name: "c13-files",
		FilterChains: []v2.FilterChain{{TLSContexts: []v2.TLSConfig{{
			Status: true, CACert: caV, CertChain: certV, PrivateKey: keyV,
			VerifyClient: verify, RequireClientCert: require,
		}}}},
	}}
}

func c13FilesCluster(caV, certV, keyV string, skip bool) *v2.TLSConfig {
	return &v2.TLSConfig{Status: true, CACert: caV, CertChain: certV, PrivateKey: keyV, ServerName: "up.test", InsecureSkip: skip}
}

// ---------------------------------------------------------------------------
// one connection of clientContextManager.Conn to a crypto/tls reference server
// (the upstream). The reference server asks for a client certificate without
// verifying it and records the leaf MOSN presents.

func c13UpstreamExchange(mng types.TLSClientContextManager, up, issuer *c13Cert, version string) (mosn, ref *c13Side, herr string) {
	ln, err := c13Listen()
	if err != nil {
		return nil, nil, "listen: " + err.Error()
	}
	defer ln.Close()
	ch := make(chan *c13Side, 1)
	go func() {
		r := &c13Side{}
		defer func() { ch <- r }()
		ln.SetDeadline(time.Now().Add(c13IO))
		raw, err := ln.Accept()
		if err != nil {
			r.fail(err)
			r.Timeout = true
			return
		}
		defer raw.Close()
		raw.SetDeadline(time.Now().Add(c13IO))
		ts := gotls.Server(raw, &gotls.Config{Certificates: []gotls.Certificate{c13Chain(up, issuer)},
			ClientAuth: gotls.RequestClientCert,
			MinVersion: c13Versions[version], MaxVersion: c13Versions[version]})
		if err := ts.Handshake(); err != nil {
			r.HandShake = err.Error()
			r.fail(err)
			return
		}
		r.HandShake = "ok"
		if pcs := ts.ConnectionState().PeerCertificates; len(pcs) > 0 {
			r.PeerLeaf = pcs[0].Raw
		}
		buf := make([]byte, 5)
		if _, err := io.ReadFull(ts, buf); err != nil {
			r.fail(err)
			return
		}
		r.App, r.GotApp, r.TLS = string(buf), true, true
		ts.Write([]byte("pong\n"))
	}()
	// the MOSN side, as clientConnection.tryConnect does
	mosn = &c13Side{}
	func() {
		raw, err := net.DialTimeout("tcp", ln.Addr().String(), c13IO)
		if err != nil {
			mosn.fail(err)
			mosn.Timeout = true
			return
		}
		defer raw.Close()
		raw.SetDeadline(time.Now().Add(c13IO))
		var conn net.Conn
		func() {
			defer func() {
				if x := recover(); x != nil {
					err = fmt.Errorf("panic in Conn: %v", x)
				}
			}()
			conn, err = mng.Conn(raw)
		}()
		if err != nil {
			mosn.HandShake = err.Error()
			mosn.fail(err)
			return
		}
		mosn.ConnType = fmt.Sprintf("%T", conn)
		tc, isTLS := conn.(*TLSConn)
		if !isTLS {
			mosn.Err = "Conn() returned a non-TLS connection"
			return
		}
		mosn.TLS = tc.ConnectionState().HandshakeComplete
		mosn.HandShake = "ok"
		if pcs := tc.ConnectionState().PeerCertificates; len(pcs) > 0 {
			mosn.PeerLeaf = pcs[0].Raw
		}
		conn.SetDeadline(time.Now().Add(c13IO))
		if _, err := conn.Write([]byte("ping\n")); err != nil {
			mosn.fail(err)
			return
		}
		buf := make([]byte, 5)
		if _, err := io.ReadFull(conn, buf); err != nil {
			mosn.fail(err)
			return
		}
		mosn.App, mosn.GotApp = string(buf), string(buf) == "pong\n"
	}()
	select {
	case ref = <-ch:
	case <-time.After(3 * c13IO):
		return mosn, nil, "reference server did not finish"
	}
	if mosn.Timeout || ref.Timeout {
		return mosn, ref, fmt.Sprintf("I/O deadline fired (mosn side %q, reference side %q)", mosn.Err, ref.Err)
	}
	return mosn, ref, ""
}

// ---------------------------------------------------------------------------
// (d1) server side: the trust matrix under every form

type c13FilesSrvCase struct {
	Forms   c13FormTriple `json:"forms"`
	Verify  bool          `json:"verify_client"`
	Require bool          `json:"require_client_cert"`
	Peer    string        `json:"peer_certificate"`
	Version string        `json:"version"`
}

func TestVerifC13FilesTrustServer(t *testing.T) {
	c13Setup()
	root := t.TempDir()
	p := vreport.Begin("C13", c13PartName("files-trust-server"), 4*time.Minute)
	modes := [][2]bool{{true, true}, {true, false}, {false, false}}
	peers := []string{"none", "self-signed", "other-ca", "right-ca", "wrong-key"}
	complete := vreport.Run(p, func(yield func(c13FilesSrvCase) bool) {
		for _, f := range c13AllFormTriples() {
			for _, m := range modes {
				for _, peer := range peers {
					if !yield(c13FilesSrvCase{Forms: f, Verify: m[0], Require: m[1], Peer: peer, Version: c13VersionsHere()[0]}) {
						return
					}
				}
			}
		}
	}, func(p *vreport.Part, c c13FilesSrvCase) {
		c13Setup()
		if _, ok := c13P.peers[c.Peer]; !ok && c.Peer != "none" {
			c13Herr(p, t, "unknown peer kind", c)
			return
		}
		caV, certV, keyV, err := c13FormFields(root, c.Forms, c13P.caA, c13P.srv)
		if err != nil {
			c13Herr(p, t, "cannot prepare the files: "+err.Error(), c)
			return
		}
		mng, err := NewTLSServerContextManager(c13FilesListener(caV, certV, keyV, c.Verify, c.Require))
		formKey := fmt.Sprintf("ca_cert=%s cert_chain=%s private_key=%s", c.Forms.CA, c.Forms.Cert, c.Forms.Key)
		if err != nil {
			if c.Forms.mixedKeyPair() {
				p.Count("mixed_cert_key_forms_rejected_when_built_not_compared", 1)
				p.Outcome("rejected-when-built/" + formKey)
				return
			}
			p.Violation("files trust-server: a listener whose context names valid "+formKey+" is rejected", err.Error(), c)
			return
		}
		srv, cli, herr := c13ServerExchange(mng, c13ClientConfig(c.Peer, c.Version), "")
		if herr != "" {
			c13Herr(p, t, herr, c)
			return
		}
		admitted := srv.GotApp && srv.TLS
		want, decided := c13Admits(c.Verify, c.Require, c.Peer)
		p.Distinct(fmt.Sprintf("%s/%v/%v/%s", formKey, c.Verify, c.Require, c.Peer))
		p.Outcome(fmt.Sprintf("%s/%v/%v/%s=%v", formKey, c.Verify, c.Require, c.Peer, admitted))
		if p.WantSample() {
			p.Sample(map[string]interface{}{"case": c, "admitted": admitted, "statement_admits": want, "server": srv, "client": cli})
		}
		if srv.GotApp && !srv.TLS {
			p.Violation("files trust-server: application bytes delivered outside a completed TLS session", fmt.Sprintf("%+v server %+v", c, srv), c)
			return
		}
		if admitted != cli.GotApp {
			c13Herr(p, t, fmt.Sprintf("ends disagree: server %+v client %+v", srv, cli), c)
			return
		}
		if cli.PeerLeaf != nil && !bytes.Equal(cli.PeerLeaf, c13P.srv.DER) {
			p.Violation("files trust-server: the listener presented a certificate that is not the configured one ("+formKey+")", fmt.Sprintf("%+v", c), c)
		}
		if !decided {
			p.Count("cells_not_decided_by_the_statement", 1)
			return
		}
		p.Count("compared", 1)
		if admitted == want {
			return
		}
		mode := c13ModeName([2]bool{c.Verify, c.Require})
		verdict := "rejected"
		if admitted {
			verdict = "admitted"
		}
		p.Violation(fmt.Sprintf("files trust-server ca_cert=%s mode=%s: peer with %s certificate %s", c.Forms.CA, mode, c.Peer, verdict),
			fmt.Sprintf("%+v: with the same CA, certificate and key given as inline PEM the configured mode decides otherwise; server side %+v, client side error %q", c, srv, cli.Err), c)
	})
	p.End(complete, "form of ca_cert x cert_chain x private_key, each in "+fmt.Sprint(c13Forms)+" (27 combinations; files in a fresh directory below t.TempDir() per case, the relative form is relative to the working directory) x mode {verify_client+require_client_cert, verify_client, none} x peer certificate "+fmt.Sprint(peers)+" x "+fmt.Sprint(c13VersionsHere())+"; one static context (certificate srv.test, CA A)",
		"one evaluation = one loopback TCP connection of a crypto/tls reference client to serverContextManager.Conn of a manager built by NewTLSServerContextManager; oracle = the table of trust-server (the form must not change a verdict) and the listener's leaf is the configured one; a context whose cert_chain and private_key have different forms may be rejected when the manager is built (counted, not compared), every other combination must be accepted; distinct = forms x mode x peer")
}

// ---------------------------------------------------------------------------
// (d2) client side (MOSN dials an upstream): the same forms

type c13FilesCliCase struct {
	Forms        c13FormTriple `json:"forms"`
	InsecureSkip bool          `json:"insecure_skip"`
	Upstream     string        `json:"upstream_certificate"`
	Version      string        `json:"version"`
}

func TestVerifC13FilesTrustClient(t *testing.T) {
	c13Setup()
	root := t.TempDir()
	p := vreport.Begin("C13", c13PartName("files-trust-client"), 4*time.Minute)
	ups := []string{"right-ca", "other-ca", "self-signed", "wrong-key"}
	complete := vreport.Run(p, func(yield func(c13FilesCliCase) bool) {
		for _, f := range c13AllFormTriples() {
			for _, s := range []bool{false, true} {
				for _, up := range ups {
					if !yield(c13FilesCliCase{Forms: f, InsecureSkip: s, Upstream: up, Version: c13VersionsHere()[0]}) {
						return
					}
				}
			}
		}
	}, func(p *vreport.Part, c c13FilesCliCase) {
		c13Setup()
		up, ok := c13P.ups[c.Upstream]
		if !ok {
			c13Herr(p, t, "unknown upstream kind", c)
			return
		}
		own := c13P.peers["right-ca"] // the certificate MOSN may present to the upstream
		caV, certV, keyV, err := c13FormFields(root, c.Forms, c13P.caA, own)
		if err != nil {
			c13Herr(p, t, "cannot prepare the files: "+err.Error(), c)
			return
		}
		formKey := fmt.Sprintf("ca_cert=%s cert_chain=%s private_key=%s", c.Forms.CA, c.Forms.Cert, c.Forms.Key)
		mng, err := NewTLSClientContextManager("c13-files-cluster", c13FilesCluster(caV, certV, keyV, c.InsecureSkip))
		if err != nil {
			if c.Forms.mixedKeyPair() {
				p.Count("mixed_cert_key_forms_rejected_when_built_not_compared", 1)
				p.Outcome("rejected-when-built/" + formKey)
				return
			}
			p.Violation("files trust-client: a cluster whose tls_context names valid "+formKey+" is rejected", err.Error(), c)
			return
		}
		mosn, ref, herr := c13UpstreamExchange(mng, up, c13P.issuerOf(c.Upstream), c.Version)
		if herr != "" {
			c13Herr(p, t, herr, c)
			return
		}
		admitted := mosn.GotApp && mosn.TLS
		want, decided := c13UpstreamAdmitted(c.InsecureSkip, c.Upstream)
		p.Distinct(fmt.Sprintf("%s/%v/%s", formKey, c.InsecureSkip, c.Upstream))
		p.Outcome(fmt.Sprintf("%s/%v/%s=%v", formKey, c.InsecureSkip, c.Upstream, admitted))
		if p.WantSample() {
			p.Sample(map[string]interface{}{"case": c, "admitted": admitted, "statement_admits": want, "mosn": mosn, "reference_server": ref})
		}
		if mosn.ConnType != "" && !mosn.TLS {
			p.Violation("files trust-client: connection handed back without a completed TLS session", fmt.Sprintf("%+v mosn side %+v", c, mosn), c)
			return
		}
		if admitted != ref.GotApp {
			c13Herr(p, t, fmt.Sprintf("ends disagree: mosn %+v reference %+v", mosn, ref), c)
			return
		}
		// which certificate MOSN shows an upstream is not part of the statement: recorded only
		if admitted {
			if bytes.Equal(ref.PeerLeaf, own.DER) {
				p.Count("upstream_saw_the_configured_client_certificate", 1)
			} else {
				p.Count("upstream_saw_another_or_no_client_certificate_not_compared", 1)
			}
		}
		if !decided {
			p.Count("cells_not_decided_by_the_statement", 1)
			return
		}
		p.Count("compared", 1)
		if admitted == want {
			return
		}
		verdict := "refused"
		if admitted {
			verdict = "accepted"
		}
		p.Violation(fmt.Sprintf("files trust-client ca_cert=%s insecure_skip=%v: upstream with %s certificate %s", c.Forms.CA, c.InsecureSkip, c.Upstream, verdict),
			fmt.Sprintf("%+v: with the same CA given as inline PEM the verdict is the other one; mosn side error %q, reference server error %q", c, mosn.Err, ref.Err), c)
	})
	p.End(complete, "form of ca_cert x cert_chain x private_key, each in "+fmt.Sprint(c13Forms)+" (27 combinations, files as in files-trust-server) x insecure_skip {f,t} x upstream certificate "+fmt.Sprint(ups)+" x "+fmt.Sprint(c13VersionsHere())+"; cluster tls_context with ca_cert=CA A, a client certificate of CA A, server_name=up.test",
		"one evaluation = one loopback TCP connection from clientContextManager.Conn (manager built by NewTLSClientContextManager) to a crypto/tls reference server that asks for, but does not verify, a client certificate; oracle = the table of trust-client (the form must not change a verdict); mixed cert_chain/private_key forms may be rejected when built (counted, not compared); the client certificate the upstream saw is recorded, not compared (the statement does not speak about it)")
}

// ---------------------------------------------------------------------------
// (d3) rotation histories

const (
	c13EvBuildServer = "rebuild-server"
	c13EvBuildClient = "rebuild-client"
	c13EvCAA         = "ca-file=A"
	c13EvCAB         = "ca-file=B"
	c13EvLeafA       = "cert+key-files=A"
	c13EvLeafB       = "cert+key-files=B"
)

var c13RotEvents = []string{c13EvBuildServer, c13EvBuildClient, c13EvCAA, c13EvCAB, c13EvLeafA, c13EvLeafB}

type c13RotCase struct {
	History []string `json:"history"`
	Version string   `json:"version"`
}

// what a manager was built from
type c13RotBuilt struct{ ca, leaf string }

// the model: file contents and, per side, the contents at the last (re)build
type c13RotModel struct {
	fileCA, fileLeaf string
	srv, cli         c13RotBuilt
}

func (m *c13RotModel) step(ev string) bool {
	switch ev {
	case c13EvBuildServer:
		m.srv = c13RotBuilt{m.fileCA, m.fileLeaf}
	case c13EvBuildClient:
		m.cli = c13RotBuilt{m.fileCA, m.fileLeaf}
	case c13EvCAA:
		m.fileCA = "A"
	case c13EvCAB:
		m.fileCA = "B"
	case c13EvLeafA:
		m.fileLeaf = "A"
	case c13EvLeafB:
		m.fileLeaf = "B"
	default:
		return false
	}
	return true
}

func (m c13RotModel) String() string {
	return fmt.Sprintf("files{ca=%s leaf=%s} server-built-from{ca=%s leaf=%s} client-built-from{ca=%s leaf=%s}", m.fileCA, m.fileLeaf, m.srv.ca, m.srv.leaf, m.cli.ca, m.cli.leaf)
}

var c13RotLeafB *c13Cert

// leaf A = the listener certificate of the trust matrix (srv.test, CA A); leaf B = srv.test signed by CA B
func c13RotLeaf(name string) *c13Cert {
	c13Setup()
	if name == "A" {
		return c13P.srv
	}
	if c13RotLeafB == nil {
		c13RotLeafB = c13NewLeaf("srv-b", c13P.caB, "srv.test", []string{"srv.test", "up.test"}, false)
	}
	return c13RotLeafB
}

func c13RotCA(name string) *c13Cert {
	if name == "A" {
		return c13P.caA
	}
	return c13P.caB
}

func c13Histories(events []string, maxLen int, yield func([]string) bool) {
	var rec func(cur []string) bool
	rec = func(cur []string) bool {
		if !yield(append([]string(nil), cur...)) {
			return false
		}
		if len(cur) == maxLen {
			return true
		}
		for _, e := range events {
			if !rec(append(cur, e)) {
				return false
			}
		}
		return true
	}
	rec(nil)
}

func TestVerifC13FilesRotation(t *testing.T) {
	c13Setup()
	root := t.TempDir()
	p := vreport.Begin("C13", c13PartName("files-rotation"), 6*time.Minute)
	maxLen := vreport.Pick(3, 4)
	srvPeers := []string{"none", "A", "B"} // client certificate of the probe: none / signed by CA A / signed by CA B
	upPeers := []string{"A", "B"}          // certificate of the probed upstream: signed by CA A / CA B
	peerKind := map[string]string{"A": "right-ca", "B": "other-ca"}
	states := map[string]bool{}
	complete := vreport.Run(p, func(yield func(c13RotCase) bool) {
		// shortest histories first
		for l := 0; l <= maxLen; l++ {
			ok := true
			c13Histories(c13RotEvents, l, func(h []string) bool {
				if len(h) != l {
					return true
				}
				ok = yield(c13RotCase{History: h, Version: c13VersionsHere()[0]})
				return ok
			})
			if !ok {
				return
			}
		}
	}, func(p *vreport.Part, c c13RotCase) {
		c13Setup()
		if _, ok := c13Versions[c.Version]; !ok {
			c13Herr(p, t, "unknown version", c)
			return
		}
		fs, err := c13NewFileSet(root)
		if err != nil {
			c13Herr(p, t, "cannot create the directory: "+err.Error(), c)
			return
		}
		write := func(m *c13RotModel) error {
			if err := fs.writeCA(c13RotCA(m.fileCA)); err != nil {
				return err
			}
			return fs.writeLeaf(c13RotLeaf(m.fileLeaf))
		}
		buildServer := func() (types.TLSContextManager, error) {
			return NewTLSServerContextManager(c13FilesListener(fs.caPath(), fs.certPath(), fs.keyPath(), true, true))
		}
		buildClient := func() (types.TLSClientContextManager, error) {
			return NewTLSClientContextManager("c13-files-cluster", c13FilesCluster(fs.caPath(), fs.certPath(), fs.keyPath(), false))
		}
		// generation 0: files hold CA A and leaf A, both managers are built from them
		m := c13RotModel{fileCA: "A", fileLeaf: "A", srv: c13RotBuilt{"A", "A"}, cli: c13RotBuilt{"A", "A"}}
		if err := write(&m); err != nil {
			c13Herr(p, t, "cannot write the files: "+err.Error(), c)
			return
		}
		srvMng, err := buildServer()
		if err != nil {
			p.Violation("files rotation: a listener whose context names valid files is rejected", "generation 0: "+err.Error(), c)
			return
		}
		cliMng, err := buildClient()
		if err != nil {
			p.Violation("files rotation: a cluster whose tls_context names valid files is rejected", "generation 0: "+err.Error(), c)
			return
		}
		for i, ev := range c.History {
			if !m.step(ev) {
				c13Herr(p, t, "unknown event "+ev, c)
				return
			}
			switch ev {
			case c13EvBuildServer:
				if srvMng, err = buildServer(); err != nil {
					p.Violation("files rotation: a listener whose context names valid files is rejected", fmt.Sprintf("event %d of %v: %v", i, c.History, err), c)
					return
				}
			case c13EvBuildClient:
				if cliMng, err = buildClient(); err != nil {
					p.Violation("files rotation: a cluster whose tls_context names valid files is rejected", fmt.Sprintf("event %d of %v: %v", i, c.History, err), c)
					return
				}
			default:
				if err := write(&m); err != nil {
					c13Herr(p, t, "cannot write the files: "+err.Error(), c)
					return
				}
			}
		}
		states[m.String()] = true
		var obs []string
		where := fmt.Sprintf("history %v -> %s", c.History, m)

		// server side probes
		for _, peer := range srvPeers {
			cfg := c13ClientConfig("none", c.Version)
			if k, ok := peerKind[peer]; ok {
				cfg = c13ClientConfig(k, c.Version)
			}
			cfg.InsecureSkipVerify = true // the probe records the leaf it is shown; leaf B chains to CA B
			srv, cli, herr := c13ServerExchange(srvMng, cfg, "")
			if herr != "" {
				c13Herr(p, t, herr, c)
				return
			}
			admitted := srv.GotApp && srv.TLS
			if srv.GotApp && !srv.TLS {
				p.Violation("files rotation server side: application bytes delivered outside a completed TLS session", fmt.Sprintf("%s, peer %s: server %+v", where, peer, srv), c)
				return
			}
			if admitted != cli.GotApp {
				c13Herr(p, t, fmt.Sprintf("ends disagree: server %+v client %+v", srv, cli), c)
				return
			}
			shown := "-"
			switch {
			case cli.PeerLeaf == nil:
			case bytes.Equal(cli.PeerLeaf, c13RotLeaf("A").DER):
				shown = "A"
			case bytes.Equal(cli.PeerLeaf, c13RotLeaf("B").DER):
				shown = "B"
			default:
				shown = "?"
			}
			obs = append(obs, fmt.Sprintf("srv/peer=%s:admitted=%v,leaf=%s", peer, admitted, shown))
			// verify_client + require_client_cert: only a certificate chaining to the CA configured = in the file at the last (re)build
			want := peer == m.srv.ca
			if admitted != want {
				var key string
				switch {
				case admitted && peer == "none":
					key = "files rotation server side: a peer without certificate is admitted under verify_client+require_client_cert"
				case admitted && peer == m.fileCA:
					key = "files rotation server side: a peer of the CA the file holds NOW is admitted although the context in force was built from another CA"
				case admitted:
					key = "files rotation server side: a peer of a CA the file did not hold when the context was rebuilt is admitted (stale CA)"
				default:
					key = "files rotation server side: a peer of the CA the file held when the context was rebuilt is rejected"
				}
				p.Violation(key, fmt.Sprintf("%s; probe with a client certificate %q: admitted=%v, the configured CA is CA %s; server side error %q, client side error %q", where, peer, admitted, m.srv.ca, srv.Err, cli.Err), c)
			}
			if shown != "-" && shown != m.srv.leaf {
				key := "files rotation server side: the certificate presented is not the one the files held when the context was rebuilt"
				if shown == m.fileLeaf {
					key = "files rotation server side: the certificate presented follows the files without a rebuild"
				}
				p.Violation(key, fmt.Sprintf("%s; probe with a client certificate %q saw leaf %s, configured leaf %s", where, peer, shown, m.srv.leaf), c)
			}
		}
		// client side probes
		for _, up := range upPeers {
			upCert := c13P.ups[peerKind[up]]
			mosn, ref, herr := c13UpstreamExchange(cliMng, upCert, c13P.issuerOf(peerKind[up]), c.Version)
			if herr != "" {
				c13Herr(p, t, herr, c)
				return
			}
			admitted := mosn.GotApp && mosn.TLS
			if mosn.ConnType != "" && !mosn.TLS {
				p.Violation("files rotation client side: connection handed back without a completed TLS session", fmt.Sprintf("%s, upstream %s: %+v", where, up, mosn), c)
				return
			}
			if admitted != ref.GotApp {
				c13Herr(p, t, fmt.Sprintf("ends disagree: mosn %+v reference %+v", mosn, ref), c)
				return
			}
			shown := "-"
			switch {
			case ref.PeerLeaf == nil:
			case bytes.Equal(ref.PeerLeaf, c13RotLeaf("A").DER):
				shown = "A"
			case bytes.Equal(ref.PeerLeaf, c13RotLeaf("B").DER):
				shown = "B"
			default:
				shown = "?"
			}
			obs = append(obs, fmt.Sprintf("cli/upstream=%s:admitted=%v", up, admitted))
			if admitted && shown != m.cli.leaf {
				// which certificate MOSN shows an upstream is not part of the statement
				p.Count("upstream_saw_another_client_certificate_than_built_from_not_compared", 1)
			}
			want := up == m.cli.ca
			if admitted != want {
				var key string
				switch {
				case admitted && up == m.fileCA:
					key = "files rotation client side: an upstream of the CA the file holds NOW is accepted although the context in force was built from another CA"
				case admitted:
					key = "files rotation client side: an upstream of a CA the file did not hold when the context was rebuilt is accepted (stale CA)"
				default:
					key = "files rotation client side: an upstream of the CA the file held when the context was rebuilt is refused"
				}
				p.Violation(key, fmt.Sprintf("%s; upstream certificate signed by CA %s: accepted=%v, the configured CA is CA %s (insecure_skip is off); mosn side error %q, reference server error %q", where, up, admitted, m.cli.ca, mosn.Err, ref.Err), c)
			}
		}
		p.EvalN(len(srvPeers) + len(upPeers) - 1)
		p.Distinct(m.String() + "|" + fmt.Sprint(len(c.History)))
		p.Outcome(strings.Join(obs, " "))
		if p.WantSample() {
			p.Sample(map[string]interface{}{"case": c, "model": m.String(), "observed": obs})
		}
	})
	if !vreport.Replaying() {
		p.Note("distinct_model_states_reached", len(states))
	}
	p.End(complete, fmt.Sprintf("every history of length 0..%d over %v (%d events), starting from files {CA A, leaf A} with both managers built from them; one fresh directory below t.TempDir() per history; server context: ca_cert, cert_chain, private_key as absolute paths, verify_client+require_client_cert; cluster context: the same three paths, insecure_skip off; after every history %d server side probes (client certificate %v) and %d client side probes (upstream certificate signed by %v), %v",
		maxLen, c13RotEvents, len(c13RotEvents), len(srvPeers), srvPeers, len(upPeers), upPeers, c13VersionsHere()),
		"one case = one history executed on real managers (NewTLSServerContextManager / NewTLSClientContextManager rebuilt by the rebuild events, files rewritten by the file events) followed by 5 loopback handshakes with crypto/tls as reference peer; model = contents of the files + per side the contents at its last (re)build; oracle: the server admits exactly the peer whose certificate chains to the CA the file held at the server's last (re)build (none and the other CA are refused) and presents the leaf the files held then; the client accepts exactly the upstream whose certificate chains to the CA the file held at the client's last (re)build; a rewrite without rebuild changes nothing; the client certificate shown to the upstream is recorded, not compared; an upstream without certificate does not exist in TLS (not probed); distinct = model state x history length")
}
