//go:build verif

package mtls

// C13 (a4): certificate selection is insensitive to the letter case of host names.
//
// DNS names compare case-insensitively (RFC 4343; RFC 6066 section 3: the
// server_name extension carries a DNS hostname). "The first ready context whose
// certificate names or server_name match the SNI exactly or by wildcard label"
// is therefore read on the lower-case spelling of BOTH sides:
//
//   (M) metamorphic: every spelling of an SNI (upper case in the left-most label
//       only, in a middle label, in the top-level label, everywhere, mixed)
//       selects the context its all-lower-case spelling selects;
//   (R) reference: the selected context is the one the statement selects when
//       names are compared case-insensitively - also for contexts whose OWN
//       names are configured with upper-case letters (SAN "*.Example.ORG",
//       CN "Host.Example.NET", server_name "WWW.example.com").
//
// The remaining normalisations of tlsContext.MatchedServerName get one input
// per shortcut visible in the code: several trailing dots, a name that is only
// dots, empty labels (leading dot, "a..com"), IP literals, a very long name, a
// '*' inside the SNI (left-most, middle, alone), a single label. Where the
// statement is silent the input is executed, checked by (M) and otherwise only
// recorded: trailing dots and the depth of a wildcard are compared against the
// union of readings as in selection-static; names with empty labels and names
// that are empty once the dots are removed are not compared by (R).

import (
	"fmt"
	"sort"
	"strings"
	"testing"
	"time"

	"mosn.io/mosn/pkg/types"
	"mosn.io/mosn/pkg/verifrt/vreport"
)

type c13CaseNameClass struct {
	c13NameClass
	ALPN      string
	UpperSite string // where the configuration spells a name with upper-case letters: "", "SAN", "CN", "server_name"
}

var c13CaseClasses = []c13CaseNameClass{
	{c13NameClass: c13NameClass{Label: "san=*.a.com", CN: "svc0", SANs: []string{"*.a.com"}, ServerName: "n0.invalid"}},
	{c13NameClass: c13NameClass{Label: "cn=b.com", CN: "b.com", ServerName: "n1.invalid"}},
	{c13NameClass: c13NameClass{Label: "san=*.Example.ORG", CN: "svc2", SANs: []string{"*.Example.ORG"}, ServerName: "n2.invalid"}, UpperSite: "SAN"},
	{c13NameClass: c13NameClass{Label: "server_name=WWW.example.com", CN: "svc3", ServerName: "WWW.example.com"}, UpperSite: "server_name"},
	{c13NameClass: c13NameClass{Label: "cn=Host.Example.NET", CN: "Host.Example.NET", ServerName: "n4.invalid"}, UpperSite: "CN"},
	{c13NameClass: c13NameClass{Label: "cn=alpn-only+h2", CN: "svc5", ServerName: "n5.invalid"}, ALPN: "h2"},
}

var (
	c13CaseCtxs  []c13Ctx
	c13CaseUpper []string
)

func c13CaseSetup() {
	c13Setup()
	if c13CaseCtxs != nil {
		return
	}
	for i, nc := range c13CaseClasses {
		leaf := c13NewLeaf(fmt.Sprintf("case%d", i), c13P.caA, nc.CN, nc.SANs, false)
		c13CaseCtxs = append(c13CaseCtxs, c13Ctx{Index: 100 + i, Name: nc.c13NameClass, ALPN: nc.ALPN, Leaf: leaf})
		c13CaseUpper = append(c13CaseUpper, nc.UpperSite)
	}
}

type c13CaseSNI struct {
	SNI     string `json:"sni"`
	Variant string `json:"variant"` // which letters are upper case / which shortcut
}

func c13CaseVariants(base string) []c13CaseSNI {
	dots := ""
	for strings.HasSuffix(base, ".") {
		base, dots = base[:len(base)-1], dots+"."
	}
	labels := strings.Split(base, ".")
	up := func(idx ...int) string {
		l := append([]string(nil), labels...)
		for _, i := range idx {
			l[i] = strings.ToUpper(l[i])
		}
		return strings.Join(l, ".") + dots
	}
	mixed := func() string {
		b := []byte(base)
		n := 0
		for i := range b {
			if b[i] >= 'a' && b[i] <= 'z' {
				if n%2 == 1 {
					b[i] -= 'a' - 'A'
				}
				n++
			}
		}
		return string(b) + dots
	}
	out := []c13CaseSNI{{base + dots, "lower-case"}, {up(0), "upper case in the left-most label only"}}
	if len(labels) >= 3 {
		out = append(out, c13CaseSNI{up(1), "upper case in a middle label"})
	}
	if len(labels) >= 4 {
		out = append(out, c13CaseSNI{up(len(labels) - 2), "upper case in a middle label"})
	}
	if len(labels) >= 2 {
		out = append(out, c13CaseSNI{up(len(labels) - 1), "upper case in the top-level label"})
	}
	out = append(out, c13CaseSNI{strings.ToUpper(base) + dots, "all upper case"}, c13CaseSNI{mixed(), "mixed case"})
	return out
}

func c13CaseAlphabet() []c13CaseSNI {
	bases := []string{
		// exact, wildcard with 1 and 2 extra labels, the bare domain of a wildcard, non-matching - per context
		"a.com", "x.a.com", "y.x.a.com",
		"b.com", "x.b.com",
		"example.org", "api.example.org", "a.b.example.org",
		"www.example.com", "x.www.example.com",
		"host.example.net", "x.host.example.net",
		"d.org", "com",
		// trailing dot
		"x.a.com.", "b.com.", "api.example.org.", "www.example.com.",
	}
	seen := map[string]bool{}
	var out []c13CaseSNI
	add := func(s c13CaseSNI) {
		if !seen[s.SNI] {
			seen[s.SNI] = true
			out = append(out, s)
		}
	}
	for _, b := range bases {
		for _, v := range c13CaseVariants(b) {
			add(v)
		}
	}
	long := strings.Repeat("l.", 120) + "a.com" // 245 bytes, 122 labels
	longUp := strings.Repeat("l.", 119) + "L.A.com"
	for _, s := range []c13CaseSNI{
		{"", "absent"},
		{"x.a.com..", "two trailing dots"}, {"x.A.com..", "two trailing dots"},
		{".", "only dots"}, {"...", "only dots"},
		{".a.com", "empty label"}, {".A.com", "empty label"}, {"a..com", "empty label"}, {"x..a.com", "empty label"},
		{"1.2.3.4", "ip literal"}, {"::1", "ip literal"}, {"[::1]", "ip literal"}, {"FE80::1", "ip literal"},
		{long, "very long name"}, {longUp, "very long name"},
		{"*.a.com", "asterisk in the sni"}, {"*.A.com", "asterisk in the sni"}, {"x.*.com", "asterisk in the sni"},
		{"x.*.a.com", "asterisk in the sni"}, {"*", "asterisk in the sni"}, {"*.example.org", "asterisk in the sni"}, {"*.EXAMPLE.org", "asterisk in the sni"},
		{"localhost", "single label"}, {"LOCALHOST", "single label"},
	} {
		add(s)
	}
	return out
}

type c13CaseCase struct {
	Ctxs    []int    `json:"ctxs"` // indexes into the case-context table, in listener order
	SNI     string   `json:"sni"`
	Variant string   `json:"variant"`
	ALPN    []string `json:"alpn"`
	Desc    string   `json:"desc,omitempty"`
}

func TestVerifC13SelectionCase(t *testing.T) {
	c13CaseSetup()
	p := vreport.Begin("C13", "selection-case", 4*time.Minute)
	maxLen := vreport.Pick(2, 3)
	alphabet := c13CaseAlphabet()
	alpns := [][]string{nil, {"h2"}}
	var (
		mngKey string
		mng    types.TLSContextManager
		mngErr error
	)
	listOf := func(idx []int) []c13Ctx {
		l := make([]c13Ctx, len(idx))
		for i, x := range idx {
			l[i] = c13CaseCtxs[x]
		}
		return l
	}
	complete := vreport.Run(p, func(yield func(c13CaseCase) bool) {
		c13Lists(len(c13CaseCtxs), maxLen, func(l []int) bool {
			for _, s := range alphabet {
				for _, al := range alpns {
					if !yield(c13CaseCase{Ctxs: l, SNI: s.SNI, Variant: s.Variant, ALPN: al}) {
						return false
					}
				}
			}
			return true
		})
	}, func(p *vreport.Part, c c13CaseCase) {
		c13CaseSetup()
		for _, x := range c.Ctxs {
			if x < 0 || x >= len(c13CaseCtxs) {
				p.Violation("harness: bad replay case", fmt.Sprint(c.Ctxs), c)
				return
			}
		}
		list := listOf(c.Ctxs)
		states := c13Zeros(len(list))
		if k := fmt.Sprint(c.Ctxs); k != mngKey || mng == nil {
			mng, mngErr = c13BuildListener(list, states, "", false, false, false)
			mngKey = k
		}
		if mngErr != nil {
			p.Violation("harness: listener with valid contexts rejected", mngErr.Error(), c)
			return
		}
		got, note := c13Presented(mng, list, c.SNI, c.ALPN)
		if got == -3 {
			p.Violation("selection case: GetConfigForClient panics ("+c.Variant+")", note, c)
			return
		}
		lower := strings.ToLower(c.SNI)
		gotLower, _ := c13Presented(mng, list, lower, c.ALPN)
		accepted := map[int]string{}
		var order []int
		for _, r := range c13Readings {
			pos, rule := c13RefSelect(list, states, c.SNI, c.ALPN, r)
			if _, ok := accepted[pos]; !ok {
				accepted[pos] = rule
				order = append(order, pos)
			}
		}
		sort.Ints(order)
		primary, primaryRule := c13RefSelect(list, states, c.SNI, c.ALPN, c13Readings[0])
		p.Outcome(fmt.Sprintf("%s/%s/pos%d", c.Variant, primaryRule, got))
		p.Distinct(fmt.Sprint(c.Ctxs, "|", c.SNI, "|", c.ALPN))
		if p.WantSample() {
			p.Sample(map[string]interface{}{"case": c, "contexts": fmt.Sprint(list), "statement_selects": order, "rule": primaryRule,
				"implementation_presented": got, "implementation_presented_for_lower_case_spelling": gotLower})
		}
		c.Desc = fmt.Sprint(list)
		where := fmt.Sprintf("contexts %v, ClientHello sni=%q alpn=%v", list, c.SNI, c.ALPN)

		// (M) the spelling does not matter
		if lower != c.SNI {
			p.Count("compared_with_lower_case_spelling", 1)
			if got != gotLower {
				p.Violation("selection case: an SNI with "+c.Variant+" selects another context than its lower-case spelling",
					fmt.Sprintf("%s: implementation presented position %d, for sni=%q it presents position %d (statement, names compared case-insensitively: %v by %s) %s",
						where, got, lower, gotLower, order, primaryRule, note), c)
			}
		}

		// (R) the statement with case-insensitive names
		trimmed := strings.TrimRight(c.SNI, ".")
		if trimmed == "" && c.SNI != "" {
			// only dots: whether such a server_name extension counts as "no SNI" is not decided by the statement
			p.Count("empty_name_not_compared", 1)
			return
		}
		// an absent SNI matches no name: ALPN rule, then first ready context (every context of this part has a server_name)
		for _, l := range strings.Split(trimmed, ".") {
			if l == "" && c.SNI != "" {
				p.Count("empty_label_not_compared", 1)
				return
			}
		}
		p.Count("compared", 1)
		if _, ok := accepted[got]; ok {
			return
		}
		if primary >= 0 && (primaryRule == "exact-name" || primaryRule == "wildcard-name") && c13CaseUpper[c.Ctxs[primary]] != "" {
			site := c13CaseUpper[c.Ctxs[primary]]
			what := map[string]string{"SAN": "certificate name (SAN)", "CN": "certificate name (CN)", "server_name": "server_name"}[site]
			p.Violation("selection case: a context whose "+what+" is configured with upper-case letters is not matched by name",
				fmt.Sprintf("%s: names compared case-insensitively the statement selects position %v (%s), implementation presented position %d %s", where, order, primaryRule, got, note), c)
			return
		}
		rel := "another context"
		switch {
		case got == -1:
			rel = "no certificate"
		case got == -2:
			rel = "a foreign certificate"
		case got > primary:
			rel = "a later context"
		case got < primary:
			rel = "an earlier context"
		}
		p.Violation(fmt.Sprintf("selection case sni=%s: statement selects by %s, implementation presented %s", c.Variant, primaryRule, rel),
			fmt.Sprintf("%s: statement selects position %v (%s), implementation presented position %d %s", where, order, primaryRule, got, note), c)
	})
	var labels []string
	for _, nc := range c13CaseClasses {
		labels = append(labels, nc.Label)
	}
	var shown []string
	for _, s := range alphabet {
		x := s.SNI
		if len(x) > 40 {
			x = x[:12] + "…" + x[len(x)-12:]
		}
		shown = append(shown, x)
	}
	p.Note("sni_alphabet", shown)
	p.End(complete, fmt.Sprintf("every ordered list of 1..%d distinct contexts out of %d %v x %d SNI spellings (18 lower-case forms - exact, wildcard with 1 and 2 extra labels, bare domain, non-matching, trailing dot - each with upper case in the left-most label only / a middle label / the top-level label / everywhere / mixed; plus absent, several trailing dots, only dots, empty labels, IP literals, a 245-byte name, '*' in the SNI, single label) x client ALPN %v",
		maxLen, len(c13CaseCtxs), labels, len(alphabet), alpns),
		"cartesian product on listeners built by NewTLSServerContextManager from inline PEM contexts, observed by the leaf certificate GetConfigForClient returns; (M) every spelling must select what its lower-case spelling selects; (R) the statement with names compared case-insensitively on both sides, trailing dots and wildcard depth against the union of readings; an absent SNI matches no name (ALPN rule, then first ready context); names made of dots only or containing empty labels are executed and checked by (M) only")
}
