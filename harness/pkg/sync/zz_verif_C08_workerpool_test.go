//go:build verif

package sync

// C08 unit "workerpool": a panic in one connection's handler must not take the
// process (and with it all other connections) down, and must not cost the
// worker pool capacity. pkg/sync.workerPool runs the proxy's per-stream tasks
// (downStream.OnReceive schedules its task through it).
//
// Every history of at most 4 (thorough: 5) operations from
//
//	S / Sp   Schedule(ok task / panicking task)
//	A / Ap   ScheduleAlways(...)
//	U / Up   ScheduleAuto(...)
//	R        release the oldest task that is running (tasks block on a gate of the harness until released)
//
// on a fresh REAL pool of size 1 and 2. Each Schedule* call runs in a helper
// goroutine of the harness (Schedule may block); after every operation the
// harness waits - with consistent goroutine snapshots (package c08g), no clock -
// until every goroutine the pool started is parked (idle worker in spawnWorker's
// receive, task at its gate) or gone and every helper has returned or is parked
// in Schedule's select. Then, and after releasing everything at the end:
//
//	I1  a task whose Schedule* call returned has started
//	I2  len(pool.sem) == number of live worker goroutines <= size (a slot is neither leaked nor freed twice)
//	I3  Schedule blocks only while all `size` workers are busy
//	I4  a released task has ended; a panicking task ended without ending the process
//	I5  at the end `size` fresh tasks run at the same time through Schedule (no capacity lost), then end
//
// Whether Schedule reuses an idle worker or starts a new one when both are
// possible is the random choice of its select; the invariants hold either way,
// the canonical state (counted as states) differs. The histories run in a child
// process of the test binary: a panic that nobody recovers ends that process
// and is recorded as the violation of the history that was running (also in
// replay mode).

import (
	"bufio"
	"bytes"
	"encoding/json"
	"fmt"
	"io"
	"os"
	"os/exec"
	"regexp"
	"runtime"
	"strconv"
	"strings"
	gosync "sync"
	"testing"
	"time"

	mlog "mosn.io/mosn/pkg/log"
	"mosn.io/mosn/pkg/verifrt/c08g"
	"mosn.io/mosn/pkg/verifrt/vreport"
	plog "mosn.io/pkg/log"
	"mosn.io/pkg/utils"
)

type c08WPCase struct {
	Size int      `json:"size"`
	Ops  []string `json:"ops"`
	Idx  int      `json:"idx"`
}

var c08WPOps = []string{"S", "Sp", "A", "Ap", "U", "Up", "R"}

func c08WPGen(depth int, yield func(c c08WPCase) bool) {
	idx := 0
	for _, size := range []int{1, 2} {
		var rec func(ops []string) bool
		rec = func(ops []string) bool {
			if len(ops) > 0 {
				if !yield(c08WPCase{Size: size, Ops: append([]string(nil), ops...), Idx: idx}) {
					return false
				}
				idx++
			}
			if len(ops) == depth {
				return true
			}
			for _, o := range c08WPOps {
				if !rec(append(ops, o)) {
					return false
				}
			}
			return true
		}
		if !rec(nil) {
			return
		}
	}
}

type c08WPTask struct {
	id       int
	op       string
	pan      bool
	gate     chan struct{}
	helper   *c08g.Task
	started  bool
	finished bool
	released bool
}

type c08WPWorld struct {
	pool    *workerPool
	size    int
	mu      gosync.Mutex
	tasks   []*c08WPTask
	helpers map[int]bool
}

func c08WPTaskBody(w *c08WPWorld, tk *c08WPTask) {
	w.mu.Lock()
	tk.started = true
	w.mu.Unlock()
	defer func() {
		w.mu.Lock()
		tk.finished = true
		w.mu.Unlock()
	}()
	<-tk.gate
	if tk.pan {
		panic(fmt.Sprintf("c08wp task=%d op=%s", tk.id, tk.op))
	}
}

func (w *c08WPWorld) schedule(op string, pan bool) *c08WPTask {
	tk := &c08WPTask{id: len(w.tasks), op: op, pan: pan, gate: make(chan struct{})}
	w.tasks = append(w.tasks, tk)
	fn := func() { c08WPTaskBody(w, tk) }
	tk.helper = c08g.Go(func() {
		switch op {
		case "S":
			w.pool.Schedule(fn)
		case "A":
			w.pool.ScheduleAlways(fn)
		case "U":
			w.pool.ScheduleAuto(fn)
		}
	})
	w.helpers[tk.helper.ID] = true
	return tk
}

type c08WPState struct {
	Workers, Idle, AtGate, Temps, Blocked, Sem int
	verdict                                 string
}

// settle waits until every goroutine of the pool and every helper is parked or gone.
func (w *c08WPWorld) settle() c08WPState {
	var st c08WPState
	n := 0
	st.verdict = c08g.Settle(func() string {
		if n++; n == 1 {
			for i := 0; i < 4; i++ {
				runtime.Gosched()
			}
		}
		done := map[int]bool{}
		for _, tk := range w.tasks {
			done[tk.helper.ID] = tk.helper.Done() // sampled before the snapshot
		}
		s := c08g.Take()
		st = c08WPState{}
		stable := true
		s.Each(func(g c08g.G) bool {
			if w.helpers[g.ID] {
				if !done[g.ID] {
					if g.State == "select" && strings.HasSuffix(g.Top(), "(*workerPool).Schedule") {
						st.Blocked++
					} else {
						stable = false
					}
				}
				return stable
			}
			_, cr := g.CreatedBy()
			if !w.helpers[cr] {
				return true
			}
			worker := g.Has("(*workerPool).spawnWorker")
			top := g.Top()
			switch {
			case g.State == "chan receive" && strings.HasSuffix(top, "c08WPTaskBody"):
				st.AtGate++
			case g.State == "chan receive" && strings.HasSuffix(top, "(*workerPool).spawnWorker"):
				st.Idle++
			default:
				stable = false
			}
			if worker {
				st.Workers++
			} else {
				st.Temps++
			}
			return stable
		})
		if !stable {
			return ""
		}
		// a helper that is neither done nor in the snapshot any more has just returned
		for id, d := range done {
			if !d {
				if _, ok := s.Find(id); !ok {
					return ""
				}
			}
		}
		return "stable"
	})
	st.Sem = len(w.pool.sem)
	return st
}

type c08WPViol struct {
	Key    string    `json:"key"`
	Detail string    `json:"detail"`
	Case   c08WPCase `json:"case"`
}

func (w *c08WPWorld) check(st c08WPState, when string) (string, string) {
	if st.verdict != "stable" {
		if st.verdict == c08g.Spin {
			return "workerpool: a goroutine of the pool spins (no stable state while 10 s of CPU were burned)", when
		}
		return "harness: workerpool goroutines do not settle: " + st.verdict, when
	}
	w.mu.Lock()
	defer w.mu.Unlock()
	desc := fmt.Sprintf("%s: size=%d live workers=%d (idle %d) temporary goroutines=%d tasks at their gate=%d blocked Schedule calls=%d len(sem)=%d", when, w.size, st.Workers, st.Idle, st.Temps, st.AtGate, st.Blocked, st.Sem)
	if st.Sem != st.Workers || st.Workers > w.size {
		return "workerpool: len(sem) differs from the number of live workers (a slot was leaked or freed twice)", desc
	}
	for _, tk := range w.tasks {
		if tk.helper.Panic != nil {
			return "workerpool: " + c08WPOpName(tk.op) + " itself panics", fmt.Sprintf("%s; %v", desc, tk.helper.Panic)
		}
		if tk.helper.Done() && !tk.started {
			return "workerpool: " + c08WPOpName(tk.op) + " returned but its task never starts", fmt.Sprintf("%s; task %d", desc, tk.id)
		}
		if tk.released && !tk.finished {
			return "workerpool: a released task scheduled through " + c08WPOpName(tk.op) + " does not end", fmt.Sprintf("%s; task %d", desc, tk.id)
		}
	}
	if st.Blocked > 0 && (st.Idle > 0 || st.Sem < w.size) {
		return "workerpool: Schedule blocks although the pool has an idle worker or a free slot", desc
	}
	return "", ""
}

func c08WPOpName(op string) string {
	switch op {
	case "S":
		return "Schedule"
	case "A":
		return "ScheduleAlways"
	}
	return "ScheduleAuto"
}

func (w *c08WPWorld) releaseOldest() bool {
	w.mu.Lock()
	var pick *c08WPTask
	for _, tk := range w.tasks {
		if tk.started && !tk.released {
			pick = tk
			break
		}
	}
	if pick != nil {
		pick.released = true
	}
	w.mu.Unlock()
	if pick == nil {
		return false
	}
	close(pick.gate)
	return true
}

// c08WPRun executes one history; it returns a violation (key, detail), the canonical states passed and the number of operations executed.
func c08WPRun(c c08WPCase) (key, detail string, states []string, transitions int) {
	w := &c08WPWorld{pool: NewWorkerPool(c.Size).(*workerPool), size: c.Size, helpers: map[int]bool{}}
	canon := func(st c08WPState) string {
		return fmt.Sprintf("n=%d w=%d idle=%d temp=%d gate=%d blocked=%d sem=%d", w.size, st.Workers, st.Idle, st.Temps, st.AtGate, st.Blocked, st.Sem)
	}
	for i, op := range c.Ops {
		when := fmt.Sprintf("after operation %d (%s) of %v", i+1, op, c.Ops)
		switch {
		case op == "R":
			if !w.releaseOldest() {
				continue // nothing runs: not an operation of this state
			}
		default:
			blocked := false
			for _, tk := range w.tasks {
				if !tk.helper.Done() {
					blocked = true
				}
			}
			if blocked && strings.HasPrefix(op, "S") {
				continue // one blocked Schedule at a time (which of two blocked callers is served first is not modelled)
			}
			w.schedule(op[:1], strings.HasSuffix(op, "p"))
		}
		transitions++
		st := w.settle()
		states = append(states, canon(st))
		if key, detail = w.check(st, when); key != "" {
			w.drain()
			return
		}
	}
	// the end: everything is released ...
	for w.releaseOldest() {
		st := w.settle()
		if key, detail = w.check(st, fmt.Sprintf("while releasing all tasks after %v", c.Ops)); key != "" {
			w.drain()
			return
		}
		// (a blocked Schedule call may have started its task now: release that too)
	}
	st := w.settle()
	states = append(states, canon(st))
	if key, detail = w.check(st, fmt.Sprintf("after releasing all tasks of %v", c.Ops)); key != "" {
		w.drain()
		return
	}
	if st.AtGate != 0 || st.Temps != 0 || st.Blocked != 0 || st.Idle != st.Workers {
		key, detail = "workerpool: tasks or callers are left over after every task was released", fmt.Sprintf("%v: %s", c.Ops, canon(st))
		w.drain()
		return
	}
	// ... and the pool must still run `size` tasks at the same time
	first := len(w.tasks)
	for i := 0; i < w.size; i++ {
		w.schedule("S", false)
		st = w.settle()
		if key, detail = w.check(st, fmt.Sprintf("capacity probe %d of %d after %v", i+1, w.size, c.Ops)); key != "" {
			w.drain()
			return
		}
	}
	running := 0
	w.mu.Lock()
	for _, tk := range w.tasks[first:] {
		if tk.started && !tk.finished {
			running++
		}
	}
	w.mu.Unlock()
	if running != w.size || st.Blocked != 0 {
		key = "workerpool: capacity lost: the pool no longer runs `size` tasks at the same time through Schedule"
		detail = fmt.Sprintf("after %v and the release of all tasks, %d Schedule calls: %d tasks running, %d calls blocked; %s", c.Ops, w.size, running, st.Blocked, canon(st))
		w.drain()
		return
	}
	for w.releaseOldest() {
	}
	st = w.settle()
	states = append(states, canon(st))
	key, detail = w.check(st, fmt.Sprintf("after the capacity probe of %v", c.Ops))
	w.drain()
	return
}

// drain lets every goroutine of a history end: tasks released, idle workers (which would stay parked in spawnWorker's
// receive for good and make every later snapshot longer) sent a task that ends their goroutine; a caller blocked
// for good is abandoned.
func (w *c08WPWorld) drain() {
	for w.releaseOldest() {
	}
	for i := 0; i < 8; i++ {
		st := w.settle()
		if st.verdict != "stable" || st.Idle == 0 {
			return
		}
		for j := 0; j < st.Idle; j++ {
			select {
			case w.pool.work <- func() { runtime.Goexit() }:
			default:
			}
		}
	}
}

// ---------------------------------------------------------------- child / parent

const c08WPPart = "workerpool"

func c08WPDepth() int { return vreport.Pick(4, 5) }

func c08WPChild() {
	mlog.DefaultLogger.SetLogLevel(plog.FATAL)
	mlog.DefaultLogger.Toggle(true)
	utils.RegisterRecoverLogger(func(w io.Writer, r interface{}) {}) // recovered panics of tasks are expected here
	out, err := os.OpenFile(os.Getenv("C08WP_OUT"), os.O_APPEND|os.O_CREATE|os.O_WRONLY, 0644)
	if err != nil {
		fmt.Println("c08wp child: ", err)
		os.Exit(4)
	}
	write := func(v interface{}) {
		b, _ := json.Marshal(v)
		out.Write(append(b, '\n'))
	}
	from, _ := strconv.Atoi(os.Getenv("C08WP_FROM"))
	deadline, _ := strconv.ParseInt(os.Getenv("C08WP_DEADLINE"), 10, 64)
	states := map[string]bool{}
	evals, transitions := 0, 0
	runOne := func(c c08WPCase) {
		write(map[string]interface{}{"t": "at", "case": c})
		key, detail, sts, tr := c08WPRun(c)
		evals++
		transitions += tr
		for _, s := range sts {
			states[s] = true
		}
		if key != "" {
			write(map[string]interface{}{"t": "viol", "v": c08WPViol{Key: key, Detail: detail, Case: c}})
		}
	}
	complete := true
	if only := os.Getenv("C08WP_ONLY"); only != "" {
		var c c08WPCase
		if json.Unmarshal([]byte(only), &c) == nil {
			runOne(c)
		}
	} else {
		c08WPGen(c08WPDepth(), func(c c08WPCase) bool {
			if c.Idx < from {
				return true
			}
			if c.Idx&15 == 0 && time.Now().Unix() > deadline {
				complete = false
				return false
			}
			runOne(c)
			return true
		})
	}
	var sl []string
	for s := range states {
		sl = append(sl, s)
	}
	write(map[string]interface{}{"t": "end", "evals": evals, "transitions": transitions, "states": sl, "complete": complete})
	out.Close()
}

// the runtime's report of a panic nobody recovered starts its line with "panic: " (a recovered panic that
// utils.GoWithRecover logs reads "... goroutine panic: ...")
var c08WPPanicRe = regexp.MustCompile(`(?m)^panic: c08wp task=(\d+) op=(\w)`)

// c08WPSpawn runs a child and folds its results into p. It returns the index to continue from (-1: finished) and
// whether the enumeration of the child was complete.
func c08WPSpawn(t *testing.T, p *vreport.Part, dir string, n int, from int, only *c08WPCase, deadline time.Time, states map[string]bool) (next int, complete bool, herr string) {
	outp := fmt.Sprintf("%s/out-%d.jsonl", dir, n)
	cmd := exec.Command(os.Args[0], "-test.run", "^"+t.Name()+"$", "-test.timeout", "0", "-test.count", "1")
	cmd.Env = append(os.Environ(), "C08WP_CHILD=1", "C08WP_OUT="+outp, "C08WP_FROM="+strconv.Itoa(from),
		"C08WP_DEADLINE="+strconv.FormatInt(deadline.Unix(), 10), "VERIF_OUT=", "VERIF_REPLAY=", "GOTRACEBACK=all")
	if only != nil {
		b, _ := json.Marshal(only)
		cmd.Env = append(cmd.Env, "C08WP_ONLY="+string(b))
	}
	var logb bytes.Buffer
	cmd.Stdout, cmd.Stderr = &logb, &logb
	werr := cmd.Run()
	var last *c08WPCase
	ended := false
	if f, err := os.Open(outp); err == nil {
		r := bufio.NewReaderSize(f, 1<<20)
		for {
			line, err := r.ReadBytes('\n')
			if len(line) > 1 {
				var l struct {
					T           string     `json:"t"`
					Case        *c08WPCase `json:"case"`
					V           c08WPViol  `json:"v"`
					Evals       int        `json:"evals"`
					Transitions int        `json:"transitions"`
					States      []string   `json:"states"`
					Complete    bool       `json:"complete"`
				}
				if json.Unmarshal(line, &l) == nil {
					switch l.T {
					case "at":
						last = l.Case
						p.Eval()
						p.Distinct(fmt.Sprintf("%d|%v", l.Case.Size, l.Case.Ops))
					case "viol":
						p.Violation(l.V.Key, l.V.Detail, l.V.Case)
						p.Outcome(l.V.Key)
					case "end":
						ended = true
						complete = l.Complete
						p.AddTransitions(l.Transitions)
						p.AddTraces(l.Evals)
						for _, s := range l.States {
							states[s] = true
							p.Outcome(s)
						}
					}
				}
			}
			if err != nil {
				break
			}
		}
		f.Close()
	}
	if ended {
		return -1, complete, ""
	}
	// the child died
	lg := logb.String()
	if last == nil {
		return -1, false, fmt.Sprintf("child ended without running a case (%v): %s", werr, c08WPTail(lg, 1500))
	}
	if m := c08WPPanicRe.FindStringSubmatch(lg); m != nil {
		path := "temporary goroutine"
		if i := strings.Index(lg, m[0]); i >= 0 {
			// the goroutine that panicked is the first one of the dump
			dump := lg[i:]
			if j := strings.Index(dump, "\n\ngoroutine "); j >= 0 {
				if k := strings.Index(dump[j+2:], "\n\n"); k >= 0 {
					dump = dump[:j+2+k]
				}
			}
			if strings.Contains(dump, "spawnWorker") {
				path = "pooled worker"
			}
		}
		key := fmt.Sprintf("workerpool: a panicking task scheduled through %s on a %s takes the whole process down (the panic is not recovered)", c08WPOpName(m[2]), path)
		p.Violation(key, fmt.Sprintf("history %v on a pool of size %d: the process ended with %q; output tail: %s", last.Ops, last.Size, m[0], c08WPTail(lg, 900)), *last)
		p.Outcome(key)
		p.Count("process_deaths", 1)
		return last.Idx + 1, false, ""
	}
	return -1, false, fmt.Sprintf("child died for another reason (%v) in history %v: %s", werr, last.Ops, c08WPTail(lg, 1500))
}

func c08WPTail(s string, n int) string {
	if len(s) > n {
		return s[:n] + "..."
	}
	return s
}

func TestVerifC08WorkerPool(t *testing.T) {
	if os.Getenv("C08WP_CHILD") != "" {
		c08WPChild()
		return
	}
	states := map[string]bool{}
	if vreport.Replaying() {
		var rc c08WPCase
		if !vreport.ReplayFor("C08", c08WPPart, &rc) {
			return
		}
		p := vreport.Begin("C08", c08WPPart, 5*time.Minute)
		_, _, herr := c08WPSpawn(t, p, t.TempDir(), 0, 0, &rc, time.Now().Add(5*time.Minute), states)
		if herr != "" {
			vreport.HarnessError("C08", c08WPPart, herr)
		}
		p.AddStates(len(states))
		p.End(true, "replay", "replay of one recorded history")
		return
	}
	budget := time.Duration(vreport.Pick(3, 15)) * time.Minute
	p := vreport.Begin("C08", c08WPPart, budget)
	deadline := time.Now().Add(budget)
	dir := t.TempDir()
	from, complete := 0, false
	for n := 0; ; n++ {
		next, cpl, herr := c08WPSpawn(t, p, dir, n, from, nil, deadline, states)
		if herr != "" {
			vreport.HarnessError("C08", c08WPPart, herr)
			break
		}
		if next < 0 {
			complete = cpl
			break
		}
		from = next
		if n >= vreport.Pick(40, 400) {
			p.Note("stopped_after_process_deaths", n+1)
			break
		}
	}
	p.AddStates(len(states))
	p.End(complete, fmt.Sprintf("pool sizes 1 and 2; every history of 1..%d operations over {Schedule, ScheduleAlways, ScheduleAuto} x {task that returns, task that panics} and R = release the oldest running task (7 operations; tasks block on a gate until released; a second Schedule while one is blocked, and R with nothing running, are skipped); at the end all tasks are released and `size` fresh tasks are run at the same time through Schedule", c08WPDepth()),
		"real NewWorkerPool; every Schedule* call in its own goroutine; after every operation all goroutines started by the pool are parked (idle in spawnWorker / at the gate) or gone and all callers returned or parked in Schedule's select (consistent goroutine snapshots, no clock); invariants I1-I5 of the file comment; states = distinct (size, live workers, idle, temporary goroutines, tasks at gate, blocked callers, len(sem)), transitions = operations executed, traces = histories executed on the real pool; the histories run in a child process: an unrecovered panic ends it and is the violation of the running history")
}
