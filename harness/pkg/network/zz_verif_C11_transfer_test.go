//go:build verif

package network

// C11 unit "transfer": the hot-upgrade half of C11 as far as ONE process can
// run it - the connection TRANSFER protocol of pkg/network/transfer.go and its
// hooks in pkg/network/connection.go.
//
// Statement (hot-upgrade half): "xprotocol connections are handed over to [the
// new process] with any buffered bytes intact ... No request on a ...
// handed-over connection, and no request in flight when the signal arrives,
// fails because of the switch".
//
// Seam. Everything below is the real code, in one process:
//   - "new mosn": the real TransferServer (unix socket conn.sock in a per-run
//     temp dir under VERIF_WORK) with a ConnectionHandler of three listeners
//     (known to the handler under the connection's exact local address, under
//     0.0.0.0:port and under [::]:port - the three look-ups of
//     transferFindListen); a listener's OnAccept builds the connection the way
//     server/handler.go does for a transferred connection (VariableAcceptChan +
//     VariableAcceptBuffer -> NewServerConnection -> read filter ->
//     InitializeReadFilters -> Start).
//   - "old mosn": a real server connection (NewServerConnection + Start: real
//     read loop) on a real loopback TCP socket whose peer is the harness'
//     client. A read filter consumes `Consumed` bytes (an earlier complete
//     request) and leaves `Pre` bytes in the read buffer (a request that is
//     only partly there). The connection says yes to the transfer question
//     (SetTransferEventListener, what the xprotocol stream connection does).
//   - SIGHUP: the listener's stop channel is closed (server.StopConnection).
//     The read loop notices it at its next wake-up (read timeouts:
//     types.DefaultConnReadTimeout is 3ms while the unit runs), arms the
//     transfer timer (TransferTimeout is 1ns, so the random delay is 0) and at
//     the wake-up after that calls c.transfer(): notifyTransfer, transferRead
//     (dial conn.sock, SCM_RIGHTS fd, header + buffered bytes, id back), then
//     stays in connection.transferWrite: every response written on the OLD
//     connection from now on (writeDirectly -> writeBufferChan) is forwarded by
//     transfer.go transferWrite -> transferBuildIoBuffer -> conn.sock ->
//     transferHandler -> Write on the NEW connection.
//
// TLS (grid T): the listener has a TLS context (mtls.NewTLSServerContextManager with a
// certificate made by pkg/mtls/certtool), the old connection's raw connection is the
// mtls.TLSConn that tlsMng.Conn returns, the client is crypto/tls restricted to TLS 1.2 (TLS 1.3 is
// off in the forked crypto/tls unless GODEBUG asks for it); everything else is the same, the
// client's bytes and what it receives are the plaintext.
//
// A "request in flight at the hand-over" is represented by its response: a
// Write on the old connection object after the connection was handed over
// (what the proxy does when the upstream answers); requests themselves are not
// modelled (C11's drain units do that).
//
// Oracle (each item only what the statement says):
//   new side  - the connection is handed over at all; it is given to the
//     listener it belongs to; the buffered bytes passed to OnAccept, and what
//     the new connection's read filter sees, are byte-identical to what was
//     left in the old read buffer; the received fd is the same socket (peer /
//     local address), bytes the client sends afterwards arrive behind the
//     buffered bytes, in order, and bytes the new connection writes reach the
//     client; the new side does not close the connection.
//   client side - the byte stream the client receives is exactly: the
//     responses written before the signal, then the responses written after
//     the hand-over - each once, byte-identical, in the order written when the
//     next one is written only after the previous one arrived ("paced");
//     written back to back ("burst", only shapes with one Write call per
//     response) they may arrive in any order of the Write calls, because
//     TransferServer serves every forwarded write in a goroutine of its own
//     and a multiplexed protocol does not depend on response order: only
//     "every response exactly once, intact" is compared there - then what the
//     new connection itself writes; nothing else up to EOF.
//
// No sleep is an oracle. Waits are by observation; "it never comes" is only
// concluded when the transfer machinery has been observed idle (goroutine dump:
// no transferHandler / transferRead / transferWrite running - or all of them
// parked in the poller, waiting for each other -, the old connection's loop
// parked in its forwarding select, nothing queued, acceptor and client reader
// parked in the poller) for 50 consecutive ticks of the
// harness' progress clock AND the case, run again on fresh connections, ends
// the same way. A wait that neither completes nor finds the machinery idle is
// a HARNESS-ERROR (goroutine dump on stderr), never a violation.

import (
	"bytes"
	"context"
	gotls "crypto/tls"
	"fmt"
	"io"
	"net"
	"os"
	"path/filepath"
	"runtime"
	"runtime/debug"
	"sort"
	"strconv"
	"strings"
	"sync"
	"sync/atomic"
	"testing"
	"time"

	"mosn.io/api"
	v2 "mosn.io/mosn/pkg/config/v2"
	"mosn.io/mosn/pkg/log"
	"mosn.io/mosn/pkg/mtls"
	"mosn.io/mosn/pkg/mtls/certtool"
	"mosn.io/mosn/pkg/types"
	"mosn.io/mosn/pkg/verifrt/vreport"
	"mosn.io/pkg/buffer"
	"mosn.io/pkg/variable"
)

const (
	c11tProp        = "C11"
	c11tFrame       = 40 // notional frame size of the client's requests
	c11tReadTimeout = 3 * time.Millisecond
)

// ---------------------------------------------------------------- progress clock

// Patience is counted in ticks of a goroutine of this process (frozen / starved
// together with the process), not on the wall clock: see the C01 HTTP harness.
const c11tTick = 10 * time.Millisecond

var (
	c11tTicks     int64
	c11tClockOnce sync.Once
	c11tWake      = make(chan struct{}, 1)
)

func c11tNow() int64 {
	c11tClockOnce.Do(func() {
		go func() {
			for {
				time.Sleep(c11tTick)
				atomic.AddInt64(&c11tTicks, 1)
				c11tBump()
			}
		}()
	})
	return atomic.LoadInt64(&c11tTicks)
}

// c11tBump wakes a waiting harness goroutine up: something observable changed.
func c11tBump() {
	select {
	case c11tWake <- struct{}{}:
	default:
	}
}

var c11tPatienceTicks = func() int64 {
	if ms, err := strconv.Atoi(os.Getenv("VERIF_C11T_TIMEOUT_MS")); err == nil && ms > 0 {
		return int64(time.Duration(ms)*time.Millisecond/c11tTick) + 1
	}
	return int64(90*time.Second/c11tTick) + 1
}()

const (
	c11tSlowAfterTicks = 100 // a wait looks at the goroutines only after this many ticks
	c11tIdleTicks      = 50  // consecutive idle observations (one per tick) before "it never comes"
)

// ---------------------------------------------------------------- goroutine dumps

var c11tStackBuf = make([]byte, 8<<20)
var c11tStackMu sync.Mutex

type c11tGoroutine struct {
	id    int64
	state string
	text  string
}

func c11tGoroutines() []c11tGoroutine {
	c11tStackMu.Lock()
	defer c11tStackMu.Unlock()
	n := runtime.Stack(c11tStackBuf, true)
	var out []c11tGoroutine
	for _, blk := range strings.Split(string(c11tStackBuf[:n]), "\n\n") {
		if !strings.HasPrefix(blk, "goroutine ") {
			continue
		}
		hdr := blk
		if i := strings.IndexByte(blk, '\n'); i >= 0 {
			hdr = blk[:i]
		}
		g := c11tGoroutine{text: blk}
		rest := hdr[len("goroutine "):]
		if i := strings.IndexByte(rest, ' '); i > 0 {
			g.id, _ = strconv.ParseInt(rest[:i], 10, 64)
		}
		if i, j := strings.IndexByte(hdr, '['), strings.LastIndexByte(hdr, ']'); i >= 0 && j > i {
			g.state = hdr[i+1 : j]
			if k := strings.IndexByte(g.state, ','); k >= 0 {
				g.state = g.state[:k]
			}
		}
		out = append(out, g)
	}
	return out
}

func c11tGid() int64 {
	var b [64]byte
	n := runtime.Stack(b[:], false)
	s := string(b[:n])
	s = strings.TrimPrefix(s, "goroutine ")
	if i := strings.IndexByte(s, ' '); i > 0 {
		id, _ := strconv.ParseInt(s[:i], 10, 64)
		return id
	}
	return 0
}

func c11tDumpAll(why string) {
	c11tStackMu.Lock()
	defer c11tStackMu.Unlock()
	n := runtime.Stack(c11tStackBuf, true)
	fmt.Fprintf(os.Stderr, "\n===== C11 transfer: goroutine dump (%s) =====\n%s\n===== end of dump =====\n", why, c11tStackBuf[:n])
}

// ---------------------------------------------------------------- the "new mosn" side

type c11tLsn struct {
	types.Listener // nil: only the two methods transferNewConn uses exist
	idx            int
	ln             *net.TCPListener
	regAddr        string // the address the connection handler knows this listener under
	cb             *c11tCallbacks
}

func (l *c11tLsn) GetListenerCallbacks() types.ListenerEventListener { return l.cb }
func (l *c11tLsn) IsOriginalDst() bool                               { return false }

type c11tHandler struct {
	types.ConnectionHandler // nil: only FindListenerByAddress is used by the transfer code
	env                     *c11tEnv
}

// same comparison as server.connHandler.FindListenerByAddress
func (h *c11tHandler) FindListenerByAddress(addr net.Addr) types.Listener {
	for _, l := range h.env.lsn {
		if l.regAddr == addr.String() {
			return l
		}
	}
	return nil
}

// c11tRec is a read filter that (old side) consumes `drain` bytes once they are
// all there and otherwise leaves the read buffer alone; it keeps a copy of what
// the buffer holds at its last call.
type c11tRec struct {
	mu      sync.Mutex
	drain   int
	drained []byte
	rest    []byte
	calls   int
}

func (f *c11tRec) OnNewConnection() api.FilterStatus                        { return api.Continue }
func (f *c11tRec) InitializeReadFilterCallbacks(cb api.ReadFilterCallbacks) {}
func (f *c11tRec) OnData(buf buffer.IoBuffer) api.FilterStatus {
	f.mu.Lock()
	f.calls++
	if f.drain > 0 && buf.Len() >= f.drain {
		f.drained = append(f.drained, buf.Bytes()[:f.drain]...)
		buf.Drain(f.drain)
		f.drain = 0
	}
	f.rest = append(f.rest[:0], buf.Bytes()...)
	f.mu.Unlock()
	c11tBump()
	return api.Stop
}

func (f *c11tRec) seen() int {
	f.mu.Lock()
	defer f.mu.Unlock()
	return len(f.drained) + len(f.rest)
}

func (f *c11tRec) snapshot() (drained, rest []byte, calls int) {
	f.mu.Lock()
	defer f.mu.Unlock()
	return append([]byte(nil), f.drained...), append([]byte(nil), f.rest...), f.calls
}

// c11tNew is what the new side knows about one connection handed over to it.
type c11tNew struct {
	lsn       int
	acceptBuf []byte
	conn      *connection
	rec       *c11tRec
	mu        sync.Mutex
	events    []api.ConnectionEvent
	ownClose  bool                // the harness is closing the connection itself
	early     api.ConnectionEvent // first close event raised before that
}

func (n *c11tNew) OnEvent(ev api.ConnectionEvent) {
	n.mu.Lock()
	n.events = append(n.events, ev)
	if ev.IsClose() && !n.ownClose && n.early == "" {
		n.early = ev
	}
	n.mu.Unlock()
	c11tBump()
}

// closedEarly: a close event that the harness did not ask for.
func (n *c11tNew) closedEarly() (api.ConnectionEvent, bool) {
	if n == nil {
		return "", false
	}
	n.mu.Lock()
	defer n.mu.Unlock()
	return n.early, n.early != ""
}

type c11tCallbacks struct {
	types.ListenerEventListener // nil: transferNewConn only calls OnAccept
	env                         *c11tEnv
	idx                         int
}

// The part of activeListener.OnAccept / activeRawConn / OnNewConnection that a
// transferred connection goes through.
func (cb *c11tCallbacks) OnAccept(rawc net.Conn, useOriginalDst bool, oriRemoteAddr net.Addr, ch chan api.Connection, buf []byte, listeners []api.ConnectionEventListener) {
	n := &c11tNew{lsn: cb.idx, acceptBuf: append([]byte(nil), buf...), rec: &c11tRec{}}
	ctx := variable.NewVariableContext(context.Background())
	_ = variable.Set(ctx, types.VariableAcceptChan, ch)
	_ = variable.Set(ctx, types.VariableAcceptBuffer, buf)
	conn := NewServerConnection(ctx, rawc, cb.env.newStop).(*connection)
	n.conn = conn
	conn.AddConnectionEventListener(n)
	conn.FilterManager().AddReadFilter(n.rec)
	conn.FilterManager().InitializeReadFilters()
	conn.Start(ctx)
	cb.env.mu.Lock()
	cb.env.accepted[rawc.RemoteAddr().String()] = n
	cb.env.mu.Unlock()
	c11tBump()
}

// ---------------------------------------------------------------- environment (once per process)

type c11tEnv struct {
	dir      string
	lsn      []*c11tLsn
	newStop  chan struct{}
	mu       sync.Mutex
	accepted map[string]*c11tNew // by the client's address
	restore  []func()

	tlsOnce sync.Once
	tlsMng  types.TLSContextManager
	tlsErr  error
}

// tlsManager: the TLS server context of a listener with one self-made certificate.
func (e *c11tEnv) tlsManager() (types.TLSContextManager, error) {
	e.tlsOnce.Do(func() {
		priv, err := certtool.GeneratePrivateKey("P256")
		if err != nil {
			e.tlsErr = err
			return
		}
		tmpl, err := certtool.CreateTemplate("c11t", false, []string{"c11t.example"})
		if err != nil {
			e.tlsErr = err
			return
		}
		cert, err := certtool.SignCertificate(tmpl, priv)
		if err != nil {
			e.tlsErr = err
			return
		}
		cfg := v2.TLSConfig{Status: true, CACert: certtool.GetRootCA().CertPem, CertChain: cert.CertPem, PrivateKey: cert.KeyPem}
		lc := &v2.Listener{ListenerConfig: v2.ListenerConfig{Name: "c11t", FilterChains: []v2.FilterChain{{TLSContexts: []v2.TLSConfig{cfg}}}}}
		e.tlsMng, e.tlsErr = mtls.NewTLSServerContextManager(lc)
	})
	return e.tlsMng, e.tlsErr
}

func (e *c11tEnv) take(clientAddr string) *c11tNew {
	e.mu.Lock()
	defer e.mu.Unlock()
	return e.accepted[clientAddr]
}

func (e *c11tEnv) forget(clientAddr string) {
	e.mu.Lock()
	delete(e.accepted, clientAddr)
	e.mu.Unlock()
}

func c11tSetup() (*c11tEnv, error) {
	env := &c11tEnv{accepted: map[string]*c11tNew{}, newStop: make(chan struct{})}
	dir, err := os.MkdirTemp(os.Getenv("VERIF_WORK"), "c11t")
	if err != nil {
		return nil, err
	}
	env.dir = dir
	oldSock, oldTT, oldRT := types.TransferConnDomainSocket, TransferTimeout, types.DefaultConnReadTimeout
	oldLvl := log.DefaultLogger.GetLogLevel()
	env.restore = append(env.restore, func() {
		types.TransferConnDomainSocket, TransferTimeout, types.DefaultConnReadTimeout = oldSock, oldTT, oldRT
		log.DefaultLogger.SetLogLevel(oldLvl)
	})
	log.DefaultLogger.SetLogLevel(log.ERROR)
	types.TransferConnDomainSocket = filepath.Join(dir, "conn.sock")
	if len(types.TransferConnDomainSocket) > 100 {
		return env, fmt.Errorf("unix socket path too long: %s", types.TransferConnDomainSocket)
	}
	// read loops wake up every 3ms (that is how a connection notices the stop channel when no data arrives)
	types.DefaultConnReadTimeout = c11tReadTimeout
	// TransferServer lives 2*TransferTimeout+2*DefaultConnReadTimeout+10s, evaluated ONCE when it starts
	TransferTimeout = 2 * time.Hour

	for i := 0; i < 3; i++ {
		ln, err := net.Listen("tcp", "127.0.0.1:0")
		if err != nil {
			return env, err
		}
		tl := ln.(*net.TCPListener)
		port := strconv.Itoa(tl.Addr().(*net.TCPAddr).Port)
		l := &c11tLsn{idx: i, ln: tl}
		switch i {
		case 0:
			l.regAddr = tl.Addr().String() // exact address
		case 1:
			l.regAddr = "0.0.0.0:" + port // second look-up of transferFindListen
		case 2:
			l.regAddr = "[::]:" + port // third look-up
		}
		l.cb = &c11tCallbacks{env: env, idx: i}
		env.lsn = append(env.lsn, l)
		env.restore = append(env.restore, func() { tl.Close() })
	}

	go TransferServer(&c11tHandler{env: env})
	// The server must have evaluated its life time before TransferTimeout is lowered: wait until its
	// goroutine is parked in `<-time.After(...)` and the socket accepts.
	deadline := c11tNow() + c11tPatienceTicks
	for {
		parked := false
		for _, g := range c11tGoroutines() {
			if strings.Contains(g.text, "network.TransferServer(") && g.state == "chan receive" {
				parked = true
			}
		}
		if parked {
			if _, err := os.Stat(types.TransferConnDomainSocket); err == nil {
				break
			}
		}
		if c11tNow() > deadline {
			c11tDumpAll("TransferServer did not start")
			return env, fmt.Errorf("TransferServer did not start")
		}
		time.Sleep(time.Millisecond)
	}
	// transfer delay of a connection = TransferTimeout + rand.Intn(TransferTimeout): 1ns + 0
	TransferTimeout = time.Nanosecond
	return env, nil
}

func (e *c11tEnv) teardown() {
	for i := len(e.restore) - 1; i >= 0; i-- {
		e.restore[i]()
	}
	if e.dir != "" {
		os.RemoveAll(e.dir)
	}
}

// ---------------------------------------------------------------- client

type c11tClient struct {
	conn *net.TCPConn
	tls  *gotls.Conn // the client's TLS layer over conn, nil for a plain connection
	mu   sync.Mutex
	got  []byte
	eof  bool
	err  error
}

func (c *c11tClient) write(b []byte) error {
	var w io.Writer = c.conn
	if c.tls != nil {
		w = c.tls
	}
	_, err := w.Write(b)
	return err
}

func (c *c11tClient) readLoop() {
	tmp := make([]byte, 64<<10)
	var rd io.Reader = c.conn
	if c.tls != nil {
		rd = c.tls
	}
	for {
		n, err := rd.Read(tmp)
		c.mu.Lock()
		c.got = append(c.got, tmp[:n]...)
		if err != nil {
			c.eof = true
			c.err = err
		}
		c.mu.Unlock()
		c11tBump()
		if err != nil {
			return
		}
	}
}

func (c *c11tClient) count() int {
	c.mu.Lock()
	defer c.mu.Unlock()
	return len(c.got)
}

func (c *c11tClient) done() bool {
	c.mu.Lock()
	defer c.mu.Unlock()
	return c.eof
}

func (c *c11tClient) ended() string {
	c.mu.Lock()
	defer c.mu.Unlock()
	if !c.eof {
		return ""
	}
	return fmt.Sprintf("the client's reader ended: %v", c.err)
}

func (c *c11tClient) bytes() []byte {
	c.mu.Lock()
	defer c.mu.Unlock()
	return append([]byte(nil), c.got...)
}

// ---------------------------------------------------------------- cases

type c11tCase struct {
	Grid     string `json:"grid"`     // which sub-grid the case comes from
	Pre      int    `json:"pre"`      // bytes buffered (unconsumed) in the old connection at the hand-over
	Consumed int    `json:"consumed"` // bytes the old read filter consumed before (an earlier, complete request)
	PreCut   string `json:"pre_cut"`  // how the client's bytes arrive: whole | two | three (writes)
	Lsn      int    `json:"lsn"`      // 0: listener known by exact address, 1: by 0.0.0.0:port, 2: by [::]:port
	Post     string `json:"post"`     // none | before: 30 more client bytes after the hand-over, before the in-flight responses
	Direct   int    `json:"direct"`   // responses written before the stop signal (ordinary write path)
	N        int    `json:"n"`        // responses of requests in flight at the hand-over (written on the old connection afterwards)
	Sizes    string `json:"sizes"`    // small | mid | big | mixed
	Shape    string `json:"shape"`    // "RxB": R Write calls per response, B IoBuffers per call
	Pace     string `json:"pace"`     // paced | burst
	Decoy    bool   `json:"decoy"`    // a second connection (other listener) is handed over at the same time
	TLS      string `json:"tls"`      // "": plain TCP; "1.2" / "1.3": the listener has a TLS context, the client speaks that version
}

func (c c11tCase) class() string {
	return fmt.Sprintf("pre=%d consumed=%d cut=%s lsn=%d post=%s direct=%d n=%d sizes=%s shape=%s pace=%s decoy=%v tls=%s",
		c.Pre, c.Consumed, c.PreCut, c.Lsn, c.Post, c.Direct, c.N, c.Sizes, c.Shape, c.Pace, c.Decoy, c.TLS)
}

// deterministic content: position dependent, different per tag, so that a byte
// moved, lost, duplicated or taken from another message is seen.
func c11tFill(tag byte, n int) []byte {
	b := make([]byte, n)
	for p := range b {
		b[p] = byte((uint32(p)*2654435761)>>13) ^ (tag * 29)
	}
	if n >= 1 {
		b[0] = tag
	}
	if n >= 4 {
		b[1], b[2], b[3] = byte(n>>16), byte(n>>8), byte(n)
	}
	return b
}

func c11tRespSize(sizes string, i int) int {
	switch sizes {
	case "mid":
		return 5000 + 13*i
	case "big":
		return 300000 + 1001*i
	case "mixed":
		return []int{45, 5000, 52, 70000, 61, 4096, 47, 130}[i%8]
	default: // small
		return 41 + 7*i
	}
}

func c11tShape(s string) (calls, bufs int) {
	if _, err := fmt.Sscanf(s, "%dx%d", &calls, &bufs); err != nil || calls < 1 || bufs < 1 {
		return 1, 1
	}
	return
}

// c11tSplit cuts b into k pieces of uneven sizes (all non-empty when len(b) >= k).
func c11tSplit(b []byte, k int) [][]byte {
	if k <= 1 || len(b) < k {
		return [][]byte{b}
	}
	var out [][]byte
	prev := 0
	for i := 1; i < k; i++ {
		cut := len(b) * (2*i - 1) / (2*k - 1) // 1/3; 1/5,3/5; ... : uneven on purpose
		if cut <= prev {
			cut = prev + 1
		}
		out = append(out, b[prev:cut])
		prev = cut
	}
	return append(out, b[prev:])
}

// ---------------------------------------------------------------- one leg = one connection handed over

type c11tLeg struct {
	name string
	tagX byte
	spec c11tCase
	lsn  *c11tLsn

	client     *c11tClient
	clientAddr string
	old        *connection
	oldRec     *c11tRec
	armed      int32
	loopGid    int64
	nw         *c11tNew

	consumedBytes, preBytes, postBytes, probeBytes []byte

	expDirect []byte   // responses written before the signal
	calls     [][]byte // payload of every forwarded Write call, in the order written
	expFwd    []byte   // their concatenation
	tail      []byte   // written by the new connection itself
	writeErrs []string
	anomaly   string // first thing that went wrong while the responses were written
}

type c11tViol struct {
	key, detail string
	idleBased   bool
}

type c11tRun struct {
	env      *c11tEnv
	c        c11tCase
	legs     []*c11tLeg
	stop     chan struct{}
	stopped  bool
	viols    []c11tViol
	harness  string // harness problem (hang, precondition): never a violation
	outcome  []string
	idleSeen bool
}

func (r *c11tRun) violate(idle bool, key, detail string) {
	if r.c.TLS != "" {
		key = "TLS " + r.c.TLS + " connection: " + key
	}
	for _, v := range r.viols {
		if v.key == key {
			return
		}
	}
	r.viols = append(r.viols, c11tViol{key: key, detail: detail, idleBased: idle})
}

// dead: the new side has closed the connection on its own. Everything that
// goes wrong on this connection afterwards is a consequence; it is reported
// once, under that key.
func (l *c11tLeg) dead() bool {
	_, closed := l.nw.closedEarly()
	return closed
}

type c11tWait int

const (
	c11tOK c11tWait = iota
	c11tIdle
	c11tHang
)

// idle: the transfer machinery has nothing left to do for this run.
func (r *c11tRun) idle() (bool, string) {
	for _, l := range r.legs {
		if l.old != nil && len(l.old.writeBufferChan) > 0 {
			return false, "writes queued on the old connection"
		}
	}
	gs := c11tGoroutines()
	byID := map[int64]c11tGoroutine{}
	for _, g := range gs {
		byID[g.id] = g
		t := g.text
		switch {
		case strings.Contains(t, "network.transferHandler("), strings.Contains(t, "network.transferNewConn("),
			strings.Contains(t, "network.transferRead("), strings.Contains(t, "network.transferWrite("):
			// Both ends of conn.sock are goroutines of this process. One that is parked in the poller
			// (waiting for bytes of its peer) is only "at work" while its peer is: if all of them are
			// parked, observation after observation, they wait for each other for ever (blocked).
			if g.state != "IO wait" {
				return false, "a transferHandler / transferRead / transferWrite is " + g.state
			}
		case strings.Contains(t, "c11tCallbacks).OnAccept("):
			return false, "OnAccept is running"
		case strings.Contains(t, "network.TransferServer.func"):
			if g.state != "IO wait" {
				return false, "the transfer server's acceptor is " + g.state
			}
		case strings.Contains(t, "c11tClient).readLoop("):
			if g.state != "IO wait" {
				return false, "a client reader is " + g.state
			}
		}
	}
	if r.stopped {
		for _, l := range r.legs {
			if l.old == nil {
				continue
			}
			if atomic.LoadInt32(&l.armed) == 0 {
				return false, "the old read loop has not noticed the stop channel yet"
			}
			g, ok := byID[atomic.LoadInt64(&l.loopGid)]
			if !ok {
				continue // the loop goroutine is gone
			}
			if !strings.Contains(g.text, "network.(*connection).startReadLoop(") {
				continue // id reused by another goroutine: the loop is gone
			}
			blocked := g.state == "IO wait" && (strings.Contains(g.text, "network.transferRead(") || strings.Contains(g.text, "network.transferWrite("))
			if !blocked && !(strings.Contains(g.text, "network.(*connection).transferWrite(") && g.state == "select") {
				return false, "the old read loop is not parked in its forwarding loop (" + g.state + ")"
			}
		}
	}
	return true, ""
}

// await waits until pred holds. c11tIdle: it does not hold and the machinery
// was idle for c11tIdleTicks consecutive ticks. c11tHang: patience used up.
func (r *c11tRun) await(what string, pred func() bool) c11tWait {
	start := c11tNow()
	idleSince := int64(-1)
	last := int64(-1)
	timer := time.NewTimer(c11tTick)
	defer timer.Stop()
	for {
		if pred() {
			return c11tOK
		}
		now := c11tNow()
		if now-start > c11tPatienceTicks {
			r.harness = "timeout waiting for: " + what
			return c11tHang
		}
		if now-start >= c11tSlowAfterTicks && now != last {
			last = now
			if ok, _ := r.idle(); ok {
				if idleSince < 0 {
					idleSince = now
				}
				if now-idleSince >= c11tIdleTicks {
					if pred() {
						return c11tOK
					}
					r.idleSeen = true
					return c11tIdle
				}
			} else {
				idleSince = -1
			}
		}
		if !timer.Stop() {
			select {
			case <-timer.C:
			default:
			}
		}
		timer.Reset(c11tTick)
		select {
		case <-c11tWake:
		case <-timer.C:
		}
	}
}

func (l *c11tLeg) open(r *c11tRun) error {
	raddr := l.lsn.ln.Addr().(*net.TCPAddr)
	cc, err := net.DialTCP("tcp", nil, raddr)
	if err != nil {
		return err
	}
	l.client = &c11tClient{conn: cc}
	l.clientAddr = cc.LocalAddr().String()
	l.lsn.ln.SetDeadline(time.Now().Add(2 * time.Minute))
	rawc, err := l.lsn.ln.Accept()
	if err != nil {
		return err
	}
	if rawc.RemoteAddr().String() != l.clientAddr {
		rawc.Close()
		return fmt.Errorf("accepted a connection from %s, dialled from %s", rawc.RemoteAddr(), l.clientAddr)
	}
	var sconn net.Conn = rawc
	if l.spec.TLS != "" {
		// what activeListener.OnAccept does for a listener with a TLS context: al.tlsMng.Conn(rawc)
		mng, err := r.env.tlsManager()
		if err != nil {
			rawc.Close()
			return fmt.Errorf("TLS context: %v", err)
		}
		if sconn, err = mng.Conn(rawc); err != nil {
			rawc.Close()
			return fmt.Errorf("TLS context Conn: %v", err)
		}
		ver := uint16(gotls.VersionTLS12)
		if l.spec.TLS == "1.3" {
			ver = gotls.VersionTLS13
		}
		l.client.tls = gotls.Client(cc, &gotls.Config{InsecureSkipVerify: true, MinVersion: ver, MaxVersion: ver})
		// the handshake runs inside the old connection's first doRead, under ONE read deadline: a
		// 3ms deadline would kill it. It is lowered again (and the pending read woken) once the
		// handshake is through.
		types.DefaultConnReadTimeout = 2 * time.Minute
		defer func() { types.DefaultConnReadTimeout = c11tReadTimeout }()
	} else {
		go l.client.readLoop()
	}
	octx := variable.NewVariableContext(context.Background())
	l.old = NewServerConnection(octx, sconn, r.stop).(*connection)
	l.oldRec = &c11tRec{drain: l.spec.Consumed}
	// what pkg/stream/xprotocol/conn.go does: this connection can be transferred
	l.old.SetTransferEventListener(func() bool {
		atomic.StoreInt64(&l.loopGid, c11tGid())
		atomic.AddInt32(&l.armed, 1)
		c11tBump()
		return true
	})
	l.old.FilterManager().AddReadFilter(l.oldRec)
	l.old.FilterManager().InitializeReadFilters()
	l.old.Start(octx)
	if l.spec.TLS != "" {
		var hsDone int32
		var hsErr error
		go func() {
			hsErr = l.client.tls.Handshake()
			atomic.StoreInt32(&hsDone, 1)
			c11tBump()
		}()
		if r.await("the TLS handshake of the client completes", func() bool { return atomic.LoadInt32(&hsDone) == 1 }) != c11tOK || hsErr != nil {
			return fmt.Errorf("TLS handshake: %v %s", hsErr, r.harness)
		}
		if v := l.client.tls.ConnectionState().Version; (v == gotls.VersionTLS13) != (l.spec.TLS == "1.3") {
			return fmt.Errorf("TLS handshake negotiated version %#x, wanted %s", v, l.spec.TLS)
		}
		// the server side may still be reading the client's Finished: ConnectionState takes the
		// handshake lock, so it answers only when the server's handshake is over
		sc := sconn.(*mtls.TLSConn)
		if r.await("the TLS handshake of the old connection completes", func() bool { return sc.ConnectionState().HandshakeComplete }) != c11tOK {
			return fmt.Errorf("TLS handshake (server side): %s", r.harness)
		}
		types.DefaultConnReadTimeout = c11tReadTimeout
		rawc.SetReadDeadline(time.Now()) // a read timeout: the loop comes round and re-arms with the short deadline
		go l.client.readLoop()
	}
	return nil
}

// respond writes one response on conn in the case's shape; after every Write
// call `after` is called with the payload of that call.
func (l *c11tLeg) respond(conn *connection, payload []byte, shape string, after func(call []byte) bool) {
	calls, bufs := c11tShape(shape)
	for _, callBytes := range c11tSplit(payload, calls) {
		var ios []buffer.IoBuffer
		for _, piece := range c11tSplit(callBytes, bufs) {
			b := buffer.GetIoBuffer(len(piece))
			b.Write(piece)
			ios = append(ios, b)
		}
		if err := conn.Write(ios...); err != nil {
			l.writeErrs = append(l.writeErrs, err.Error())
		}
		if !after(callBytes) {
			return
		}
	}
}

func c11tRelation(got, want []byte) string {
	switch {
	case len(got) > len(want):
		return "MORE bytes than"
	case len(got) < len(want):
		return "FEWER bytes than"
	default:
		return "the same number of bytes as, but other bytes than,"
	}
}

func c11tFirstDiff(got, want []byte) int {
	n := len(got)
	if len(want) < n {
		n = len(want)
	}
	for i := 0; i < n; i++ {
		if got[i] != want[i] {
			return i
		}
	}
	return n
}

func c11tShow(b []byte, at int) string {
	lo := at - 8
	if lo < 0 {
		lo = 0
	}
	hi := at + 24
	if hi > len(b) {
		hi = len(b)
	}
	return fmt.Sprintf("[%d:%d]=%x", lo, hi, b[lo:hi])
}

func c11tRunCase(env *c11tEnv, c c11tCase) (r *c11tRun) {
	r = &c11tRun{env: env, c: c, stop: make(chan struct{})}
	defer func() {
		if p := recover(); p != nil {
			r.harness = fmt.Sprintf("panic in the harness: %v\n%s", p, debug.Stack())
		}
		r.cleanup()
	}()

	main := &c11tLeg{name: "main", spec: c, lsn: env.lsn[c.Lsn%3]}
	r.legs = append(r.legs, main)
	if c.Decoy {
		d := c
		d.Pre, d.Consumed, d.PreCut, d.Post, d.Direct = 7, 0, "whole", "none", 0
		if d.N == 0 {
			d.N = 1
		}
		r.legs = append(r.legs, &c11tLeg{name: "decoy", tagX: 0x80, spec: d, lsn: env.lsn[(c.Lsn+1)%3]})
	}
	for _, l := range r.legs {
		l.consumedBytes = c11tFill(0x11|l.tagX, l.spec.Consumed)
		l.preBytes = c11tFill(0x22|l.tagX, l.spec.Pre)
		if l.spec.Post == "before" {
			l.postBytes = c11tFill(0x33|l.tagX, 30)
		}
		l.probeBytes = []byte{0x3f | l.tagX}
		if err := l.open(r); err != nil {
			r.harness = "cannot set the connection up: " + err.Error()
			return
		}
	}

	// ---- phase 1: the client's bytes arrive; `Consumed` are consumed, `Pre` stay in the read buffer
	for _, l := range r.legs {
		stream := append(append([]byte(nil), l.consumedBytes...), l.preBytes...)
		k := map[string]int{"whole": 1, "two": 2, "three": 3}[l.spec.PreCut]
		sent := 0
		if len(stream) > 0 {
			for _, piece := range c11tSplit(stream, k) {
				if err := l.client.write(piece); err != nil {
					r.harness = "client write: " + err.Error()
					return
				}
				sent += len(piece)
				if r.await("the old connection reads the client's bytes", func() bool { return l.oldRec.seen() >= sent }) != c11tOK {
					if r.harness == "" {
						r.harness = "precondition: the old connection does not read the client's bytes"
					}
					return
				}
			}
		}
		drained, rest, _ := l.oldRec.snapshot()
		if !bytes.Equal(drained, l.consumedBytes) || !bytes.Equal(rest, l.preBytes) {
			r.harness = fmt.Sprintf("precondition: old read buffer holds %d bytes after %d consumed, want %d after %d (read path, not transfer)", len(rest), len(drained), len(l.preBytes), len(l.consumedBytes))
			return
		}
	}

	// ---- phase 2: responses written before the signal (ordinary write path)
	for _, l := range r.legs {
		for i := 0; i < l.spec.Direct; i++ {
			payload := c11tFill((0x40+byte(i))|l.tagX, c11tRespSize(l.spec.Sizes, i))
			l.respond(l.old, payload, l.spec.Shape, func(call []byte) bool {
				l.expDirect = append(l.expDirect, call...)
				return true
			})
		}
		want := l.expDirect
		if r.await("responses written before the signal reach the client", func() bool { return l.client.count() >= len(want) }) != c11tOK ||
			!bytes.Equal(l.client.bytes(), want) || len(l.writeErrs) > 0 {
			if r.harness == "" {
				r.harness = fmt.Sprintf("precondition: responses written before the stop signal do not reach the client intact (write path, not transfer; errors %v)", l.writeErrs)
			}
			return
		}
	}

	// ---- phase 3: SIGHUP -> server.StopConnection(): the listener's stop channel is closed
	close(r.stop)
	r.stopped = true
	w := r.await("the connection is handed over to the transfer server", func() bool {
		for _, l := range r.legs {
			if env.take(l.clientAddr) == nil {
				return false
			}
		}
		return true
	})
	for _, l := range r.legs {
		l.nw = env.take(l.clientAddr)
	}
	if w == c11tHang {
		return
	}
	if w == c11tIdle {
		for _, l := range r.legs {
			if l.nw == nil {
				r.violate(true, "hand-over: a connection that agreed to be transferred is not handed over (the transfer machinery is idle, the new side has no connection)",
					fmt.Sprintf("%s connection %s: stop channel closed, read loop armed=%d, no OnAccept on the new side", l.name, l.clientAddr, atomic.LoadInt32(&l.armed)))
			}
		}
		r.outcome = append(r.outcome, "not-handed-over")
		r.finish()
		return
	}

	// ---- phase 4: what the new side got
	for _, l := range r.legs {
		n := l.nw
		if n.lsn != l.lsn.idx {
			r.violate(false, "hand-over: the connection is given to another listener than the one it was accepted on",
				fmt.Sprintf("%s connection local %s belongs to listener %d (%s), OnAccept was called on listener %d", l.name, l.old.LocalAddr(), l.lsn.idx, l.lsn.regAddr, n.lsn))
		}
		if !bytes.Equal(n.acceptBuf, l.preBytes) {
			at := c11tFirstDiff(n.acceptBuf, l.preBytes)
			r.violate(false, "hand-over: the buffered bytes given to the new side are "+c11tRelation(n.acceptBuf, l.preBytes)+" what the old connection had buffered",
				fmt.Sprintf("%s: old read buffer %d bytes, OnAccept got %d bytes; first difference at %d: got %s want %s", l.name, len(l.preBytes), len(n.acceptBuf), at, c11tShow(n.acceptBuf, at), c11tShow(l.preBytes, at)))
		}
		_, rest, calls := n.rec.snapshot()
		if len(l.preBytes) > 0 && (calls == 0 || !bytes.Equal(rest, l.preBytes)) && bytes.Equal(n.acceptBuf, l.preBytes) {
			at := c11tFirstDiff(rest, l.preBytes)
			r.violate(false, "hand-over: the buffered bytes are not what the new connection presents to its read filters",
				fmt.Sprintf("%s: OnAccept got the %d buffered bytes, the new connection's read filter was called %d times and saw %d bytes; first difference at %d", l.name, len(l.preBytes), calls, len(rest), at))
		}
		if n.conn.RemoteAddr().String() != l.clientAddr || n.conn.LocalAddr().String() != l.old.LocalAddr().String() {
			r.violate(false, "hand-over: the fd received is not the connection's socket (addresses differ)",
				fmt.Sprintf("%s: old %s<-%s, new %s<-%s", l.name, l.old.LocalAddr(), l.clientAddr, n.conn.LocalAddr(), n.conn.RemoteAddr()))
		}
	}

	// client -> new connection: bytes sent after the hand-over arrive behind the buffered ones
	clientSends := func(l *c11tLeg, more []byte, sofar []byte, what string) bool {
		if err := l.client.write(more); err != nil {
			r.harness = "client write after the hand-over: " + err.Error()
			return false
		}
		want := append(append([]byte(nil), sofar...), more...)
		w := r.await(what, func() bool {
			_, rest, _ := l.nw.rec.snapshot()
			return len(rest) >= len(want) || l.dead()
		})
		if w == c11tHang {
			return false
		}
		_, rest, _ := l.nw.rec.snapshot()
		if !bytes.Equal(rest, want) {
			if l.dead() {
				// reported by finish()
			} else {
				at := c11tFirstDiff(rest, want)
				r.violate(w == c11tIdle, "handed-over connection: what the new connection reads is "+c11tRelation(rest, want)+" the buffered bytes followed by what the client sent afterwards",
					fmt.Sprintf("%s: want %d buffered + %d later bytes, read filter of the new connection saw %d; first difference at %d: got %s want %s", l.name, len(sofar), len(more), len(rest), at, c11tShow(rest, at), c11tShow(want, at)))
			}
			return false
		}
		return true
	}
	readOK := true
	for _, l := range r.legs {
		if len(l.postBytes) > 0 && readOK {
			readOK = clientSends(l, l.postBytes, l.preBytes, "bytes the client sends after the hand-over reach the new connection")
		}
	}
	if r.harness != "" {
		return
	}

	// ---- phase 6: the requests in flight complete: their responses are written on the OLD connection
	maxN := 0
	for _, l := range r.legs {
		if l.spec.N > maxN {
			maxN = l.spec.N
		}
	}
	paced := c.Pace != "burst"
	bad := false
	for i := 0; i < maxN && !bad; i++ {
		for _, l := range r.legs {
			if i >= l.spec.N || bad {
				continue
			}
			payload := c11tFill((0x50+byte(i))|l.tagX, c11tRespSize(l.spec.Sizes, l.spec.Direct+i))
			l.respond(l.old, payload, l.spec.Shape, func(call []byte) bool {
				l.calls = append(l.calls, call)
				l.expFwd = append(l.expFwd, call...)
				if !paced {
					return true
				}
				want := len(l.expDirect) + len(l.expFwd)
				w := r.await("a response written on the old connection after the hand-over reaches the client", func() bool { return l.client.count() >= want || l.dead() || l.client.done() })
				if w == c11tOK && l.dead() {
					bad = true
					return false
				}
				if w == c11tOK && l.client.count() < want {
					l.anomaly = fmt.Sprintf("response %d: the client has %d of %d bytes and %s", i+1, l.client.count(), want, l.client.ended())
					bad = true
					return false
				}
				switch w {
				case c11tHang:
					bad = true
					return false
				case c11tIdle:
					l.anomaly = fmt.Sprintf("response %d: the client has %d of %d bytes and the transfer machinery is idle", i+1, l.client.count(), want)
					bad = true
					return false
				}
				got := l.client.bytes()
				if len(got) != want || !bytes.Equal(got[len(l.expDirect):], l.expFwd) {
					l.anomaly = fmt.Sprintf("after response %d (Write call %d) the client has %d bytes, %d were written; first difference at offset %d", i+1, len(l.calls), len(got), want, c11tFirstDiff(got, append(append([]byte(nil), l.expDirect...), l.expFwd...)))
					bad = true
					return false
				}
				return true
			})
		}
	}
	if r.harness != "" {
		return
	}
	if !paced && !bad {
		for _, l := range r.legs {
			want := len(l.expDirect) + len(l.expFwd)
			switch r.await("the responses written back to back after the hand-over reach the client", func() bool { return l.client.count() >= want || l.dead() || l.client.done() }) {
			case c11tHang:
				return
			case c11tOK:
				bad = bad || l.dead()
				if l.client.count() < want {
					l.anomaly = fmt.Sprintf("the client has %d of %d bytes and %s", l.client.count(), want, l.client.ended())
					bad = true
				}
			case c11tIdle:
				l.anomaly = fmt.Sprintf("the client has %d of %d bytes and the transfer machinery is idle", l.client.count(), want)
				bad = true
			}
		}
	}

	// ---- phase 8: the new connection is alive in both directions
	if !bad && readOK {
		for _, l := range r.legs {
			if len(r.viols) > 0 {
				break
			}
			sofar := append(append([]byte(nil), l.preBytes...), l.postBytes...)
			if !clientSends(l, l.probeBytes, sofar, "a byte the client sends at the end reaches the new connection") {
				break
			}
			l.tail = c11tFill(0x7e|l.tagX, 33)
			tb := buffer.GetIoBuffer(len(l.tail))
			tb.Write(l.tail)
			if err := l.nw.conn.Write(tb); err != nil {
				r.violate(false, "handed-over connection: a Write on the new connection fails", fmt.Sprintf("%s: %v", l.name, err))
				l.tail = nil
				break
			}
			want := len(l.expDirect) + len(l.expFwd) + len(l.tail)
			switch r.await("what the new connection writes reaches the client", func() bool { return l.client.count() >= want || l.dead() || l.client.done() }) {
			case c11tHang:
				return
			case c11tOK:
				if l.client.count() < want {
					l.anomaly = fmt.Sprintf("what the new connection wrote itself: the client has %d of %d bytes and %s", l.client.count(), want, l.client.ended())
				}
			case c11tIdle:
				l.anomaly = fmt.Sprintf("what the new connection wrote itself: the client has %d of %d bytes", l.client.count(), want)
			}
		}
	}
	if r.harness != "" {
		return
	}
	r.finish()
	return
}

// finish lets the machinery settle, closes both ends and compares the complete
// client byte stream.
func (r *c11tRun) finish() {
	anomalous := len(r.viols) > 0
	for _, l := range r.legs {
		if l.anomaly != "" || len(l.writeErrs) > 0 {
			anomalous = true
		}
	}
	for _, l := range r.legs {
		if l.nw != nil && l.dead() {
			anomalous = false // the stream of a connection the new side closed is not judged
		}
	}
	if anomalous {
		// whatever is still on its way must arrive before the stream is judged
		idleSince := int64(-1)
		start := c11tNow()
		for {
			now := c11tNow()
			if ok, _ := r.idle(); ok {
				if idleSince < 0 {
					idleSince = now
				}
				if now-idleSince >= c11tIdleTicks/2 {
					break
				}
			} else {
				idleSince = -1
			}
			if now-start > c11tPatienceTicks {
				r.harness = "timeout waiting for the transfer machinery to settle"
				return
			}
			time.Sleep(c11tTick)
		}
	}
	for _, l := range r.legs {
		if l.nw != nil {
			l.nw.mu.Lock()
			l.nw.ownClose = true
			l.nw.mu.Unlock()
			l.nw.conn.Close(api.NoFlush, api.LocalClose)
		}
		if l.old != nil {
			l.old.Close(api.NoFlush, api.LocalClose)
		}
	}
	for _, l := range r.legs {
		if l.nw == nil {
			continue // not handed over: a blocked transfer may keep a copy of the fd for ever
		}
		if r.await("the client sees the end of the stream after both connections were closed", l.client.done) != c11tOK {
			if r.harness == "" {
				r.harness = "the client does not see EOF after the old and the new connection were closed (fd leak?)"
			}
			return
		}
	}
	for _, l := range r.legs {
		if l.nw == nil {
			continue
		}
		if ev, closed := l.nw.closedEarly(); closed {
			_, rest, _ := l.nw.rec.snapshot()
			// the class of the situation is part of the key: does the buffered data fill the buffer that
			// newServerConnection allocates for it (buffer.GetIoBuffer(len)) to the last byte?
			class := "the bytes handed over leave room in the new read buffer"
			if probe := buffer.GetIoBuffer(len(l.preBytes)); true {
				if len(l.preBytes) > 0 && probe.Cap() == len(l.preBytes) {
					class = "the bytes handed over fill the new read buffer exactly (len == cap)"
				}
				buffer.PutIoBuffer(probe)
			}
			r.violate(false, "handed-over connection: the new side closes it ("+string(ev)+"): "+class,
				fmt.Sprintf("%s: %d bytes buffered at the hand-over; event %s on the new connection before the harness closed it; its read filter saw %d bytes; %d of %d bytes of the %d in-flight responses written reached the client",
					l.name, len(l.preBytes), ev, len(rest), l.client.count()-len(l.expDirect), len(l.expFwd), l.spec.N))
			r.outcome = append(r.outcome, l.name+":closed-by-new-side")
			continue
		}
		got := l.client.bytes()
		if !bytes.HasPrefix(got, l.expDirect) {
			r.harness = "precondition: the responses written before the signal are not at the head of the client's stream"
			return
		}
		got = got[len(l.expDirect):]
		mode := "one at a time"
		if r.c.Pace == "burst" {
			mode = "back to back"
		}
		if len(l.writeErrs) > 0 {
			r.violate(false, "in-flight responses after the hand-over: Write on the old connection returns an error",
				fmt.Sprintf("%s: %v", l.name, l.writeErrs))
		}
		order := "in-order"
		want := append(append([]byte(nil), l.expFwd...), l.tail...)
		ok := bytes.Equal(got, want)
		if !ok && r.c.Pace == "burst" {
			// any order of the Write calls, each exactly once
			rest := got
			used := make([]bool, len(l.calls))
			matched := 0
			for progress := true; progress && matched < len(l.calls); {
				progress = false
				for i, call := range l.calls {
					if !used[i] && bytes.HasPrefix(rest, call) {
						used[i], progress = true, true
						rest = rest[len(call):]
						matched++
						break
					}
				}
			}
			if matched == len(l.calls) && bytes.Equal(rest, l.tail) {
				ok = true
				order = "permuted"
			}
		}
		if !ok {
			at := c11tFirstDiff(got, want)
			r.violate(r.idleSeen && len(got) < len(want),
				"in-flight responses after the hand-over (written "+mode+"): the client receives "+c11tRelation(got, want)+" the responses written",
				fmt.Sprintf("%s: %d responses in %d Write calls (%d bytes) forwarded through transferWrite, then %d bytes written by the new connection; the client got %d bytes; first difference at offset %d: got %s want %s; %s",
					l.name, l.spec.N, len(l.calls), len(l.expFwd), len(l.tail), len(got), at, c11tShow(got, at), c11tShow(want, at), l.anomaly))
		} else if l.anomaly != "" && len(r.viols) == 0 {
			// the stream is complete in the end: what looked like a loss was only late
			r.outcome = append(r.outcome, "late")
		}
		r.outcome = append(r.outcome, fmt.Sprintf("%s:fwd=%d,%s", l.name, len(l.calls), order))
	}
}

func (r *c11tRun) cleanup() {
	for _, l := range r.legs {
		if l.nw != nil {
			l.nw.mu.Lock()
			l.nw.ownClose = true
			l.nw.mu.Unlock()
			l.nw.conn.Close(api.NoFlush, api.LocalClose)
		}
		if l.old != nil {
			l.old.Close(api.NoFlush, api.LocalClose)
		}
		if l.client != nil {
			l.client.conn.Close()
		}
		if l.clientAddr != "" {
			r.env.forget(l.clientAddr)
		}
	}
	if !r.stopped {
		close(r.stop)
		r.stopped = true
	}
}

// ---------------------------------------------------------------- the grid

func c11tGrid(yield func(c11tCase) bool) {
	th := vreport.Thorough()
	pres := []int{0, 1, 12, c11tFrame, c11tFrame + 12, 64, 128, 129, 300}
	consumed := []int{0, c11tFrame}
	cuts := []string{"whole", "two"}
	posts := []string{"none", "before"}
	if th {
		pres = []int{0, 1, 12, c11tFrame - 1, c11tFrame, c11tFrame + 1, c11tFrame + 12, 63, 64, 65, 127, 128, 129, 256, 300, 1024, 5000, 70000, 300000}
		consumed = []int{0, c11tFrame, 300}
		cuts = []string{"whole", "two", "three"}
	}
	type wr struct {
		direct, n          int
		sizes, shape, pace string
	}
	// A: every hand-over situation (read side) x a few write situations
	wrA := []wr{{0, 0, "small", "1x1", "paced"}, {0, 2, "small", "1x1", "paced"}}
	if th {
		wrA = append(wrA, wr{1, 3, "mixed", "1x3", "paced"})
	}
	for _, pre := range pres {
		for _, cons := range consumed {
			for _, cut := range cuts {
				if cut != "whole" && pre+cons < 3 {
					continue
				}
				for lsn := 0; lsn < 3; lsn++ {
					for _, post := range posts {
						for _, w := range wrA {
							if !yield(c11tCase{Grid: "A", Pre: pre, Consumed: cons, PreCut: cut, Lsn: lsn, Post: post,
								Direct: w.direct, N: w.n, Sizes: w.sizes, Shape: w.shape, Pace: w.pace}) {
								return
							}
						}
					}
				}
			}
		}
	}
	// B: every write situation x a few hand-over situations
	type rd struct {
		pre, cons int
		cut, post string
	}
	rdB := []rd{{0, 0, "whole", "none"}, {c11tFrame + 12, c11tFrame, "two", "before"}}
	directs := []int{0, 1}
	maxN := 4
	sizes := []string{"small", "mid", "mixed"}
	shapes := []struct{ shape, pace string }{{"1x1", "paced"}, {"1x1", "burst"}, {"1x3", "paced"}, {"1x3", "burst"}, {"2x1", "paced"}}
	if th {
		rdB = append(rdB, rd{300, 0, "three", "none"})
		directs = []int{0, 1, 2}
		maxN = 6
		sizes = []string{"small", "mid", "big", "mixed"}
		shapes = append(shapes, []struct{ shape, pace string }{{"2x2", "paced"}, {"3x1", "paced"}, {"1x2", "burst"}}...)
	}
	for _, r := range rdB {
		for _, d := range directs {
			for n := 1; n <= maxN; n++ {
				for _, sz := range sizes {
					for _, sh := range shapes {
						if !yield(c11tCase{Grid: "B", Pre: r.pre, Consumed: r.cons, PreCut: r.cut, Lsn: (n + d) % 3, Post: r.post,
							Direct: d, N: n, Sizes: sz, Shape: sh.shape, Pace: sh.pace}) {
							return
						}
					}
				}
			}
		}
	}
	// D: two connections of two listeners handed over at the same time, their responses interleaved
	ns := []int{1, 3}
	if th {
		ns = []int{1, 2, 3, 4}
	}
	for lsn := 0; lsn < 3; lsn++ {
		for _, n := range ns {
			for _, sh := range shapes {
				if !yield(c11tCase{Grid: "D", Pre: 12, Consumed: 0, PreCut: "whole", Lsn: lsn, Post: "none",
					Direct: 0, N: n, Sizes: "small", Shape: sh.shape, Pace: sh.pace, Decoy: true}) {
					return
				}
			}
		}
	}
	// C (thorough): full product of reduced alphabets
	cpres := []int{0, 12, 129}
	if !th {
		cpres = nil
	}
	for _, pre := range cpres {
		for _, cons := range []int{0, c11tFrame} {
			for lsn := 0; lsn < 2; lsn++ {
				for _, post := range posts {
					for _, d := range []int{0, 1} {
						for n := 0; n <= 4; n++ {
							for _, sz := range []string{"small", "mixed"} {
								for _, sh := range shapes[:5] {
									if n == 0 && (sh.shape != "1x1" || sh.pace != "paced" || sz != "small") {
										continue
									}
									if !yield(c11tCase{Grid: "C", Pre: pre, Consumed: cons, PreCut: "whole", Lsn: lsn, Post: post,
										Direct: d, N: n, Sizes: sz, Shape: sh.shape, Pace: sh.pace}) {
										return
									}
								}
							}
						}
					}
				}
			}
		}
	}
	// T: the listener has a TLS context and the client speaks TLS 1.2 (the old connection is an
	// mtls.TLSConn: transferGetFile / GetTLSInfo / GetTLSConn / TransferTLSConn). Last, because as long
	// as these cases fail each of them costs seconds ("it never comes" verdicts).
	tpres, tposts := []int{12}, []string{"none"}
	if th {
		tpres, tposts = []int{0, 12, 129}, posts
	}
	for _, pre := range tpres {
		for _, post := range tposts {
			for _, w := range []wr{{0, 0, "small", "1x1", "paced"}, {0, 2, "small", "1x1", "paced"}, {0, 2, "small", "1x3", "burst"}} {
				if !th && w.pace == "burst" {
					continue
				}
				if !yield(c11tCase{Grid: "T", Pre: pre, Consumed: 0, PreCut: "whole", Lsn: 0, Post: post,
					Direct: w.direct, N: w.n, Sizes: w.sizes, Shape: w.shape, Pace: w.pace, TLS: "1.2"}) {
					return
				}
			}
		}
	}
}

// ---------------------------------------------------------------- the part

const c11tMaxViolatingCases = 24

func TestVerifC11Transfer(t *testing.T) {
	budget := 10 * time.Minute
	if vreport.Thorough() {
		budget = 40 * time.Minute
	}
	p := vreport.Begin(c11tProp, "transfer-handover", budget)
	bound := "buffered bytes at the hand-over {0,1,12,40,52,64,128,129,300} (thorough: + 39,41,63,65,127,256,1024,5000,70000,300000) x consumed before {0,40} (thorough + 300) x arrival in 1-2 (3) client writes x listener known by exact address / 0.0.0.0:port / [::]:port x 0 or 30 client bytes after the hand-over; responses before the signal 0-1 (0-2), responses in flight 0-4 (0-6), sizes small 41.. / mid 5000.. / mixed 45..70000 (thorough + big 300000..), per response 1-2 (1-3) Write calls of 1-3 IoBuffers, one at a time or back to back; 1 or 2 connections handed over together; plain TCP, plus 2 (thorough 18) hand-overs of a TLS 1.2 connection"
	rule := "sub-grids A (every hand-over situation x 2-3 write situations), B (every write situation x 2-3 hand-over situations), D (two connections of two listeners at once), thorough: C (full product of reduced alphabets), T (listener with a TLS context, TLS 1.2 client), each a complete cartesian product; one evaluation = one hand-over of a real connection through the real TransferServer with all responses written and both byte streams compared; distinct = distinct parameter vectors; outcomes = handed over or not, forwarded Write calls, arrival order"
	env, err := c11tSetup()
	if env != nil {
		defer env.teardown()
	}
	if err != nil {
		vreport.HarnessError(c11tProp, p.Name, "setup: "+err.Error())
		p.End(false, bound, rule)
		t.Fatalf("setup: %v", err)
	}
	violating, broken, capped := 0, false, false
	var recovered, reruns int
	closedPre := map[int]bool{}
	complete := vreport.Run(p, func(yield func(c11tCase) bool) {
		c11tGrid(func(c c11tCase) bool {
			if broken || violating >= c11tMaxViolatingCases {
				capped = true
				return false
			}
			return yield(c)
		})
	}, func(p *vreport.Part, c c11tCase) {
		r := c11tRunCase(env, c)
		if strings.Contains(r.harness, "timeout") {
			// a case that hangs because of what it is hangs again; a victim of the machine does not
			c11tDumpAll(c.class() + ": " + r.harness)
			fmt.Fprintf(os.Stderr, "C11 transfer: %s: %s; running the case again on fresh connections\n", c.class(), r.harness)
			r = c11tRunCase(env, c)
			if r.harness == "" {
				recovered++
			}
		}
		if r.harness != "" {
			c11tDumpAll(c.class() + ": " + r.harness)
			vreport.HarnessError(c11tProp, p.Name, c.class()+": "+r.harness)
			broken = true
			return
		}
		idleBased := false
		for _, v := range r.viols {
			idleBased = idleBased || v.idleBased
		}
		if idleBased {
			// "it never comes" must be a property of the case, not of the moment
			reruns++
			r2 := c11tRunCase(env, c)
			if r2.harness != "" {
				vreport.HarnessError(c11tProp, p.Name, c.class()+" (second run): "+r2.harness)
				broken = true
				return
			}
			again := map[string]bool{}
			for _, v := range r2.viols {
				again[v.key] = true
			}
			var keep []c11tViol
			for _, v := range r.viols {
				if !v.idleBased || again[v.key] {
					keep = append(keep, v)
				} else {
					p.Count("idle_verdicts_not_reproduced", 1)
					fmt.Fprintf(os.Stderr, "C11 transfer: %s: verdict %q not reproduced by the second run\n", c.class(), v.key)
				}
			}
			r.viols = keep
		}
		p.Distinct(c.class())
		keys := []string{}
		for _, v := range r.viols {
			keys = append(keys, v.key)
		}
		sort.Strings(keys)
		p.Outcome(strings.Join(r.outcome, ";") + "|" + strings.Join(keys, ";"))
		for _, o := range r.outcome {
			if strings.HasSuffix(o, "permuted") {
				p.Count("burst_cases_with_responses_arriving_in_another_order", 1)
			}
			if o == "late" {
				p.Count("late_but_complete", 1)
			}
			if strings.HasSuffix(o, "closed-by-new-side") {
				closedPre[c.Pre] = true
			}
		}
		if p.WantSample() {
			p.Sample(c)
		}
		if idleBased && len(r.viols) > 0 {
			violating++ // only the slow ones ("it never comes") limit the run
		}
		for _, v := range r.viols {
			p.Violation(v.key, v.detail, c)
		}
	})
	if len(closedPre) > 0 {
		var sizes []int
		for k := range closedPre {
			sizes = append(sizes, k)
		}
		sort.Ints(sizes)
		p.Note("buffered_sizes_whose_connection_the_new_side_closed", sizes)
	}
	p.Note("timeouts_recovered_by_rerun", recovered)
	p.Note("idle_verdict_second_runs", reruns)
	if capped {
		p.Note("stopped_early", fmt.Sprintf("after %d cases with a confirmed 'never arrives' verdict, or a harness error", violating))
	}
	p.End(complete && !capped, bound, rule)
	if broken {
		t.Errorf("harness error, see log")
	}
}
