//go:build verif

package network

// C07 unit "readloop": the frames extracted from a connection do not depend on
// how the byte stream is cut into reads NOR on read timeouts between the reads,
// checked on the REAL connection read path of pkg/network/connection.go.
//
// Seam. A real server-side connection (NewServerConnection) is built around a
// scripted net.Conn (c07rlConn). Its Read answers follow a script: the stream
// arrives in chunks; a Read returns min(len(p), rest of the current chunk,
// read cap) bytes; when the current chunk is used up the next Read first
// returns the read timeouts scheduled before the next chunk (a *net.OpError
// wrapping os.ErrDeadlineExceeded, what an expired SetReadDeadline produces),
// then opens the next chunk; after the last chunk (and the timeouts scheduled
// there) it returns io.EOF. Deadlines, Write and Close are recorded no-ops.
// A read filter added through the real FilterManager consumes the read buffer
// the way xprotocol streamConn.Dispatch does (decode with the real bolt codec
// while data remains, a partial frame stays in the buffer, Decode drains what
// it consumed, a decode error closes the connection).
//
//   - mode "loop":    connection.startReadLoop() - the body of the read
//     goroutine that connection.Start spawns - is called synchronously; the
//     scripted conn never blocks, so the loop runs doRead / the timeout branch /
//     the EOF branch iteration after iteration until the script's EOF makes it
//     Close the connection and return. No goroutine, no real time.
//   - mode "netpoll": UseNetpollMode=true and connection.Start attaches the
//     connection to the real event loop with the read end of an always-readable
//     pipe as its fd, so the real onRead handler (closure in attachEventLoop;
//     it cannot be called without the event loop) is invoked again and again
//     by the poller (one-shot + Resume, hence strictly sequential) and runs
//     through the same script; the harness waits for the close event on a
//     channel. The handler's timeout branch is executed; the read-timeout
//     TIMER closure of attachEventLoop is not (it cannot be invoked directly
//     and DefaultConnReadTimeout is raised to 1h while the part runs).
//
// Oracle (demands only what the statement says): the frames handed to the
// filter are exactly the frames sent, in order, each once, byte-identical,
// same id / type / body; every time the filter is called the read buffer is
// exactly the received-but-not-yet-consumed bytes (no byte lost, duplicated or
// moved); a Decode that returns no frame consumes nothing; no decode error, no
// panic; the connection is not closed before the peer's EOF (frames after that
// point would be lost). How often OnReadTimeout is signalled, buffer capacity
// and shrink behaviour are recorded (outcomes / notes) but not compared.

import (
	"bytes"
	"context"
	"fmt"
	"io"
	"net"
	"os"
	"reflect"
	"runtime/debug"
	"strings"
	"sync"
	"testing"
	"time"

	"mosn.io/api"
	"mosn.io/mosn/pkg/protocol/xprotocol/bolt"
	"mosn.io/mosn/pkg/types"
	"mosn.io/mosn/pkg/verifrt/vref"
	"mosn.io/mosn/pkg/verifrt/vreport"
	"mosn.io/pkg/buffer"
	"mosn.io/pkg/variable"
)

const c07rlProp = "C07"

// ---------------------------------------------------------------- frames / streams

type c07rlFrame struct {
	Name    string
	Bytes   []byte
	ID      uint64
	Type    api.StreamType
	Content []byte
	Fixed   int
}

func c07rlPattern(seed byte, n int) []byte {
	b := make([]byte, n)
	for i := range b {
		// never 0x01 / 0x02 (bolt protocol codes): a body read as a frame start is a decode error, not a plausible frame
		b[i] = 0x80 | (seed*31+byte(i)*7)&0x7f
	}
	return b
}

func c07rlMkFrame(name string, typ byte, cmd uint16, id uint32, class string, hdr []vref.KV, content []byte) c07rlFrame {
	f := vref.NewBolt(false, typ)
	f.CmdCode = cmd
	f.ID = id
	f.Class = []byte(class)
	f.Headers = hdr
	f.Content = content
	st := api.Request
	switch typ {
	case vref.BoltTypeOneway:
		st = api.RequestOneWay
	case vref.BoltTypeResponse:
		st = api.Response
	}
	return c07rlFrame{Name: name, Bytes: f.Encode(), ID: uint64(id), Type: st, Content: content, Fixed: f.FixedLen()}
}

func c07rlKV(kv ...string) []vref.KV {
	var out []vref.KV
	for i := 0; i+1 < len(kv); i += 2 {
		out = append(out, vref.KV{K: []byte(kv[i]), V: []byte(kv[i+1])})
	}
	return out
}

var c07rlAlphabet = func() map[string]c07rlFrame {
	m := map[string]c07rlFrame{}
	add := func(f c07rlFrame) { m[f.Name] = f }
	add(c07rlMkFrame("hb", vref.BoltTypeRequest, 0, 0x0101, "", nil, nil))                                                                     // 22 bytes, heartbeat
	add(c07rlMkFrame("s", vref.BoltTypeRequest, 1, 0x0202, "A", nil, []byte("xyz")))                                                           // 26 bytes
	add(c07rlMkFrame("m", vref.BoltTypeOneway, 1, 0x0303, "com.c07.Req", c07rlKV("service", "com.c07.Echo", "k", "v"), c07rlPattern(3, 30))) // 100 bytes
	add(c07rlMkFrame("r", vref.BoltTypeResponse, 2, 0x0404, "com.c07.Resp", c07rlKV("a", "b"), c07rlPattern(4, 150)))                        // > default read buffer
	add(c07rlMkFrame("b", vref.BoltTypeRequest, 1, 0x0505, "com.c07.Req", c07rlKV("service", "com.c07.Big"), c07rlPattern(5, 200)))          // > default read buffer
	add(c07rlMkFrame("h", vref.BoltTypeRequest, 1, 0x0606, "com.c07.Req", c07rlKV("service", "com.c07.Huge"), c07rlPattern(6, 1100)))        // > first expansion (1024)
	return m
}()

type c07rlStream struct {
	Name   string
	Frames []c07rlFrame
	Bytes  []byte
	Ends   []int
}

func c07rlMkStream(names ...string) *c07rlStream {
	s := &c07rlStream{Name: strings.Join(names, "+")}
	for _, n := range names {
		f, ok := c07rlAlphabet[n]
		if !ok {
			panic("C07 readloop: unknown frame " + n)
		}
		s.Frames = append(s.Frames, f)
		s.Bytes = append(s.Bytes, f.Bytes...)
		s.Ends = append(s.Ends, len(s.Bytes))
	}
	return s
}

// index = Case.Stream (stable across tiers: replay files refer to it)
var c07rlStreams = []*c07rlStream{
	c07rlMkStream("b", "s", "m"),       // big first: everything after it arrives in a grown buffer
	c07rlMkStream("s", "b", "hb", "r"), // small, big, heartbeat, big response
	c07rlMkStream("m", "h", "s"),       // second expansion (frame > 1024)
	c07rlMkStream("r", "m", "b", "s"),  // thorough
	c07rlMkStream("hb", "s", "m", "b"), // thorough: the buffer only grows in the last frame
}

func c07rlStreamSet() []int {
	if vreport.Thorough() {
		return []int{0, 1, 2, 3, 4}
	}
	return []int{0, 1, 2}
}

// posClass names where offset pos falls: frame index + B(oundary) / H(inside the fixed header) / V(ariable part)
func (s *c07rlStream) posClass(pos int) string {
	start := 0
	for k, e := range s.Ends {
		if pos < e {
			switch {
			case pos == start:
				return fmt.Sprintf("%dB", k)
			case pos-start < s.Frames[k].Fixed:
				return fmt.Sprintf("%dH", k)
			default:
				return fmt.Sprintf("%dV", k)
			}
		}
		start = e
	}
	return "end"
}

// boundary positions: around every frame start, around the end of the fixed
// header, the middle and the last byte of every frame, and around the read
// buffer sizes (default 128, first expansion 1024).
func (s *c07rlStream) boundaryPositions() []int {
	l := len(s.Bytes)
	set := map[int]bool{}
	add := func(p int) {
		if p > 0 && p < l {
			set[p] = true
		}
	}
	start := 0
	for k, e := range s.Ends {
		x := s.Frames[k].Fixed
		for _, p := range []int{start, start + 1, start + x - 1, start + x, start + x + 1, (start + e) / 2, e - 1} {
			add(p)
		}
		start = e
	}
	for _, p := range []int{DefaultReadBufferSize - 1, DefaultReadBufferSize, DefaultReadBufferSize + 1, 1023, 1024, 1025} {
		add(p)
	}
	var out []int
	for p := 1; p < l; p++ {
		if set[p] {
			out = append(out, p)
		}
	}
	return out
}

// ---------------------------------------------------------------- case

type c07rlCase struct {
	Mode        string `json:"mode"`   // "loop" | "netpoll"
	Stream      int    `json:"stream"` // index into c07rlStreams
	StreamName  string `json:"stream_name"`
	Chunks      []int  `json:"chunks"`        // sizes, sum == len(stream)
	Timeouts    []int  `json:"timeouts"`      // len(Chunks)+1: read timeouts before chunk i / before EOF
	ReadCap     int    `json:"read_cap"`      // max bytes one Read returns (0 = no cap)
	EOFWithLast bool   `json:"eof_with_last"` // the Read that returns the last bytes also returns io.EOF
}

// ---------------------------------------------------------------- scripted net.Conn

var c07rlTCPAddr = &net.TCPAddr{IP: net.IPv4(127, 0, 0, 1), Port: 1107}

type c07rlConn struct {
	r *c07rlRun

	stream   []byte
	chunks   []int
	pendingT []int
	readCap  int
	eofLast  bool

	ci   int // next chunk to open
	left int // rest of the open chunk
	pos  int // bytes handed out so far

	reads, eofs, deadlines, closes, writes int
	lastTimeout                            bool
	capAtTimeout                           int
}

func (c *c07rlConn) timeoutErr() error {
	return &net.OpError{Op: "read", Net: "tcp", Source: c07rlTCPAddr, Addr: c07rlTCPAddr, Err: os.ErrDeadlineExceeded}
}

func (c *c07rlConn) Read(p []byte) (int, error) {
	r := c.r
	r.mu.Lock()
	defer r.mu.Unlock()
	c.reads++
	if c.reads > r.readBudget {
		// the script is over but the read path keeps reading: stop the run
		r.signalAbort()
		if !r.netpol {
			panic(c07rlStop{}) // unwinds startReadLoop (recovered by c07rlExec)
		}
		return 0, io.EOF
	}
	r.observeRead()
	if len(p) == 0 {
		r.zeroLenReads++
		return 0, nil
	}
	for {
		if c.left > 0 {
			n := c.left
			if n > len(p) {
				n = len(p)
			}
			if c.readCap > 0 && n > c.readCap {
				n = c.readCap
			}
			copy(p, c.stream[c.pos:c.pos+n])
			c.pos += n
			c.left -= n
			if c.eofLast && c.pos == len(c.stream) && c.pendingT[len(c.chunks)] == 0 {
				c.eofs++
				return n, io.EOF
			}
			return n, nil
		}
		gap := c.ci // timeouts scheduled before chunk ci (or before EOF when ci == len(chunks))
		if c.pendingT[gap] > 0 {
			c.pendingT[gap]--
			r.observeTimeout()
			return 0, c.timeoutErr()
		}
		if c.ci < len(c.chunks) {
			c.left = c.chunks[c.ci]
			c.ci++
			continue
		}
		c.eofs++
		return 0, io.EOF
	}
}

func (c *c07rlConn) Write(b []byte) (int, error) {
	c.r.mu.Lock()
	c.writes++
	c.r.mu.Unlock()
	return len(b), nil
}
func (c *c07rlConn) Close() error {
	c.r.mu.Lock()
	c.closes++
	c.r.mu.Unlock()
	return nil
}
func (c *c07rlConn) LocalAddr() net.Addr  { return c07rlTCPAddr }
func (c *c07rlConn) RemoteAddr() net.Addr { return c07rlTCPAddr }
func (c *c07rlConn) SetDeadline(t time.Time) error {
	return nil
}
func (c *c07rlConn) SetReadDeadline(t time.Time) error {
	c.r.mu.Lock()
	c.deadlines++
	c.r.mu.Unlock()
	return nil
}
func (c *c07rlConn) SetWriteDeadline(t time.Time) error { return nil }

// ---------------------------------------------------------------- run state, filter, listener

type c07rlGot struct {
	Raw     []byte
	ID      uint64
	Type    api.StreamType
	Content []byte
}

type c07rlFail struct{ what, detail string }

type c07rlStop struct{}

type c07rlRun struct {
	mu     sync.Mutex
	c      c07rlCase
	s      *c07rlStream
	rc     *c07rlConn
	conn   *connection
	proto  api.XProtocol
	netpol bool

	consumed     int
	got          []c07rlGot
	fail         *c07rlFail
	events       []string
	closedBy     string
	timeoutsSeen int
	decodeBudget int
	readBudget   int
	zeroLenReads int
	onData       int

	// observations for outcomes / notes (never compared)
	tobs         []string
	partialGrown int
	shrinks      int
	maxCap       int

	done    chan struct{}
	abort   chan struct{}
	aborted bool
	hung    bool
}

func (r *c07rlRun) failf(what, format string, args ...interface{}) {
	if r.fail == nil {
		r.fail = &c07rlFail{what: what, detail: fmt.Sprintf(format, args...)}
	}
}

func (r *c07rlRun) signalAbort() {
	if !r.aborted {
		r.aborted = true
		close(r.abort)
	}
}

func (r *c07rlRun) afterTimeout() string {
	if r.timeoutsSeen > 0 {
		return " (after a read timeout)"
	}
	return ""
}

// observeRead is called (run lock held) at the start of every scripted Read:
// looks at the connection's read buffer as the read path left it.
func (r *c07rlRun) observeRead() {
	if r.conn == nil || r.conn.readBuffer == nil {
		return
	}
	cp := r.conn.readBuffer.Cap()
	if cp > r.maxCap {
		r.maxCap = cp
	}
	if r.rc.lastTimeout {
		r.rc.lastTimeout = false
		if cp < r.rc.capAtTimeout {
			r.shrinks++
			r.tobs[len(r.tobs)-1] += "s"
		}
	}
}

func (r *c07rlRun) observeTimeout() {
	r.timeoutsSeen++
	o := "e"
	cp, ln := 0, 0
	if r.conn != nil && r.conn.readBuffer != nil {
		cp, ln = r.conn.readBuffer.Cap(), r.conn.readBuffer.Len()
	}
	if ln > 0 {
		o = "p"
	}
	if cp > r.conn.defaultReadBufferSize {
		o += "G"
		if ln > 0 {
			r.partialGrown++
		}
	}
	r.tobs = append(r.tobs, o)
	r.rc.lastTimeout = true
	r.rc.capAtTimeout = cp
}

type c07rlFilter struct{ r *c07rlRun }

func (f *c07rlFilter) OnNewConnection() api.FilterStatus                        { return api.Continue }
func (f *c07rlFilter) InitializeReadFilterCallbacks(cb api.ReadFilterCallbacks) {}

// OnData mirrors xprotocol streamConn.Dispatch (pkg/stream/xprotocol/conn.go).
func (f *c07rlFilter) OnData(buf buffer.IoBuffer) api.FilterStatus {
	r := f.r
	r.mu.Lock()
	defer r.mu.Unlock()
	r.onData++
	if want := r.s.Bytes[r.consumed:r.rc.pos]; !bytes.Equal(buf.Bytes(), want) {
		what := "the read buffer handed to the filter is not the received-but-unconsumed bytes"
		switch {
		case buf.Len() < len(want) && bytes.HasSuffix(want, buf.Bytes()):
			what = "buffered bytes of a partial frame were dropped from the read buffer"
		case buf.Len() > len(want):
			what = "the read buffer handed to the filter holds more bytes than were received and not consumed"
		}
		r.failf(what+r.afterTimeout(), "stream offset consumed=%d received=%d: want %d bytes, buffer has %d: %s",
			r.consumed, r.rc.pos, len(want), buf.Len(), vref.FirstDiff(want, buf.Bytes()))
	}
	for {
		if buf.Len() == 0 {
			return api.Stop
		}
		r.decodeBudget--
		if r.decodeBudget < 0 {
			r.failf("decoding does not make progress (livelock)", "more than the budgeted Decode calls")
			r.closeLocked(api.LocalClose)
			return api.Stop
		}
		// view of the buffer before Decode; Decode only advances the read offset
		// (Drain), so the consumed prefix is still readable right after it returns
		// and is copied then (copying the whole buffer per Decode made 1-byte
		// reads quadratic)
		pre := buf.Bytes()
		ctx := variable.NewVariableContext(buffer.NewBufferPoolContext(context.Background()))
		frame, err, pan := f.decode(ctx, buf)
		used := len(pre) - buf.Len()
		if pan != "" {
			r.failf("panic while decoding a valid frame stream"+r.afterTimeout(), "%s", pan)
			r.closeLocked(api.LocalClose)
			return api.Stop
		}
		if frame == nil && err == nil {
			if used != 0 {
				r.failf("an incomplete frame consumed bytes", "Decode returned no frame but the buffer shrank by %d bytes", used)
			}
			return api.Stop
		}
		if err != nil {
			r.failf("decode error on a valid frame stream"+r.afterTimeout(), "after %d frames, at stream offset %d (received %d): %v; buffer starts %x",
				len(r.got), r.consumed, r.rc.pos, err, pre[:c07rlMin(len(pre), 12)])
			r.closeLocked(api.LocalClose) // streamConn.handleError
			return api.Stop
		}
		xf, ok := frame.(api.XFrame)
		if !ok {
			r.failf("Decode returned something that is not a frame", "%T", frame)
			r.closeLocked(api.OnReadErrClose)
			return api.Stop
		}
		if used <= 0 || used > len(pre) {
			r.failf("Decode returned a frame without consuming it", "buffer went from %d to %d bytes", len(pre), buf.Len())
			r.closeLocked(api.LocalClose)
			return api.Stop
		}
		g := c07rlGot{Raw: append([]byte(nil), pre[:used]...), ID: xf.GetRequestId(), Type: xf.GetStreamType()}
		if d := xf.GetData(); d != nil && !reflect.ValueOf(d).IsNil() {
			g.Content = append([]byte(nil), d.Bytes()...)
		}
		r.got = append(r.got, g)
		r.consumed += used
	}
}

func (f *c07rlFilter) decode(ctx context.Context, buf buffer.IoBuffer) (frame interface{}, err error, pan string) {
	defer func() {
		if x := recover(); x != nil {
			pan = fmt.Sprintf("%v\n%s", x, c07rlShortStack())
		}
	}()
	frame, err = f.r.proto.Decode(ctx, buf)
	return
}

// closeLocked closes the connection from inside the filter (run lock held:
// release it around Close, whose event listeners take it).
func (r *c07rlRun) closeLocked(ev api.ConnectionEvent) {
	r.mu.Unlock()
	r.conn.Close(api.NoFlush, ev)
	r.mu.Lock()
}

type c07rlListener struct{ r *c07rlRun }

func (l *c07rlListener) OnEvent(ev api.ConnectionEvent) {
	r := l.r
	r.mu.Lock()
	r.events = append(r.events, string(ev))
	first := false
	if ev.IsClose() && r.closedBy == "" {
		r.closedBy = string(ev)
		first = true
	}
	r.mu.Unlock()
	if first {
		close(r.done)
	}
}

func c07rlMin(a, b int) int {
	if a < b {
		return a
	}
	return b
}

func c07rlShortStack() string {
	lines := strings.Split(string(debug.Stack()), "\n")
	var keep []string
	for _, l := range lines {
		if strings.Contains(l, "mosn.io/") && !strings.Contains(l, "zz_verif_") {
			keep = append(keep, strings.TrimSpace(l))
		}
		if len(keep) == 6 {
			break
		}
	}
	return strings.Join(keep, " | ")
}

// ---------------------------------------------------------------- running one case

var c07rlBoltCodec = &bolt.XCodec{}

// c07rlExec runs the case on a fresh real connection and returns the run.
func c07rlExec(c c07rlCase) (r *c07rlRun, harnessErr string) {
	if c.Stream < 0 || c.Stream >= len(c07rlStreams) {
		return nil, fmt.Sprintf("bad stream index %d", c.Stream)
	}
	s := c07rlStreams[c.Stream]
	sum := 0
	for _, k := range c.Chunks {
		if k <= 0 {
			return nil, "non-positive chunk"
		}
		sum += k
	}
	if sum != len(s.Bytes) || len(c.Timeouts) != len(c.Chunks)+1 {
		return nil, fmt.Sprintf("malformed case: chunks sum %d (stream %d), %d timeouts for %d chunks", sum, len(s.Bytes), len(c.Timeouts), len(c.Chunks))
	}
	r = &c07rlRun{c: c, s: s, proto: c07rlBoltCodec.NewXProtocol(context.Background()), netpol: c.Mode == "netpoll",
		done: make(chan struct{}), abort: make(chan struct{})}
	nt := 0
	for _, t := range c.Timeouts {
		nt += t
	}
	// every Read hands out >= 1 byte, times out or ends the stream
	r.readBudget = len(s.Bytes) + nt + 8
	r.decodeBudget = 4*(len(s.Bytes)+nt) + 64
	rc := &c07rlConn{r: r, stream: s.Bytes, chunks: c.Chunks, pendingT: append([]int(nil), c.Timeouts...), readCap: c.ReadCap, eofLast: c.EOFWithLast}
	r.rc = rc

	ctx := variable.NewVariableContext(context.Background())
	var pr, pw *os.File
	if r.netpol {
		var err error
		pr, pw, err = os.Pipe()
		if err != nil {
			return nil, "os.Pipe: " + err.Error()
		}
		if _, err = pw.Write([]byte{1}); err != nil { // the read end stays readable: the poller keeps calling onRead
			return nil, "pipe write: " + err.Error()
		}
		if err = variable.Set(ctx, types.VariableConnectionFd, pr); err != nil {
			return nil, "set connection fd: " + err.Error()
		}
		defer func() {
			pw.Close()
			pr.Close() // normally closed by connection.Close already
		}()
	}
	conn, ok := NewServerConnection(ctx, rc, make(chan struct{})).(*connection)
	if !ok {
		return nil, "NewServerConnection did not return *connection"
	}
	if conn.network != "tcp" {
		return nil, "connection network is " + conn.network
	}
	r.conn = conn
	conn.AddConnectionEventListener(&c07rlListener{r: r})
	conn.FilterManager().AddReadFilter(&c07rlFilter{r: r})
	conn.FilterManager().InitializeReadFilters()

	if !r.netpol {
		// what connection.Start -> startRWLoop does, minus the goroutine
		conn.internalLoopStarted = true
		func() {
			defer func() {
				if x := recover(); x != nil {
					if _, stop := x.(c07rlStop); stop {
						conn.Close(api.NoFlush, api.LocalClose)
						return
					}
					r.mu.Lock()
					r.failf("panic in the connection read path"+r.afterTimeout(), "%v\n%s", x, c07rlShortStack())
					r.mu.Unlock()
					conn.Close(api.NoFlush, api.LocalClose) // utils.GoWithRecover handler of startRWLoop
				}
			}()
			conn.startReadLoop()
		}()
		return r, ""
	}

	conn.Start(ctx) // UseNetpollMode: attachEventLoop
	guard := time.NewTimer(10 * time.Minute)
	defer guard.Stop()
	select {
	case <-r.done:
	case <-r.abort:
		conn.Close(api.NoFlush, api.LocalClose)
	case <-guard.C:
		r.mu.Lock()
		r.hung = true
		r.mu.Unlock()
		conn.Close(api.NoFlush, api.LocalClose)
		return r, "netpoll run did not reach a close event within 10 minutes"
	}
	return r, ""
}

// c07rlJudge applies the oracle to a finished run.
func c07rlJudge(r *c07rlRun) {
	r.mu.Lock()
	defer r.mu.Unlock()
	s := r.s
	for i, g := range r.got {
		if i >= len(s.Frames) {
			r.failf("more frames extracted than were sent"+r.afterTimeout(), "sent %d frames, extracted %d; extra frame id=%d len=%d", len(s.Frames), len(r.got), g.ID, len(g.Raw))
			break
		}
		w := s.Frames[i]
		switch {
		case !bytes.Equal(g.Raw, w.Bytes):
			r.failf("an extracted frame does not consist of the bytes of the frame sent"+r.afterTimeout(), "frame %d (%s): %s", i, w.Name, vref.FirstDiff(w.Bytes, g.Raw))
		case g.ID != w.ID || g.Type != w.Type:
			r.failf("an extracted frame has another id / type than the frame sent", "frame %d (%s): want id=%d type=%s, got id=%d type=%s", i, w.Name, w.ID, w.Type, g.ID, g.Type)
		case !bytes.Equal(g.Content, w.Content):
			r.failf("an extracted frame has another body than the frame sent", "frame %d (%s): %s", i, w.Name, vref.FirstDiff(w.Content, g.Content))
		}
	}
	if len(r.got) < len(s.Frames) {
		rest := 0
		if r.conn.readBuffer != nil {
			rest = r.conn.readBuffer.Len()
		}
		switch {
		case r.rc.pos < len(s.Bytes):
			r.failf(fmt.Sprintf("frames lost: the connection stopped reading before the end of the stream (closed by %s)%s", c07rlOr(r.closedBy, "nothing"), r.afterTimeout()),
				"%d of %d frames extracted, %d of %d bytes read, events %v", len(r.got), len(s.Frames), r.rc.pos, len(s.Bytes), r.events)
		default:
			r.failf("frames lost: all bytes were read but not every frame was extracted",
				"%d of %d frames extracted, %d bytes left in the read buffer, consumed %d of %d, events %v", len(r.got), len(s.Frames), rest, r.consumed, len(s.Bytes), r.events)
		}
	}
	if r.aborted && r.fail == nil {
		// statement silent (all frames came out): recorded as outcome only
		r.tobs = append(r.tobs, "reads-after-eof")
	}
}

func c07rlOr(a, b string) string {
	if a == "" {
		return b
	}
	return a
}

func c07rlCheck(t *testing.T) func(p *vreport.Part, c c07rlCase) {
	return func(p *vreport.Part, c c07rlCase) {
		r, herr := c07rlExec(c)
		if herr != "" {
			vreport.HarnessError(c07rlProp, p.Name, herr)
			t.Fatalf("C07 readloop harness error: %s (case %+v)", herr, c)
		}
		c07rlJudge(r)
		s := r.s
		// distinct: where every chunk boundary falls and how many timeouts sit there
		var d strings.Builder
		fmt.Fprintf(&d, "%s|%s|cap%d|eof%v", c.Mode, s.Name, c.ReadCap, c.EOFWithLast)
		pos := 0
		for i := 0; i <= len(c.Chunks); i++ {
			fmt.Fprintf(&d, "|%s:t%d", s.posClass(pos), c.Timeouts[i])
			if pos > DefaultReadBufferSize {
				d.WriteString("g")
			}
			if i < len(c.Chunks) {
				pos += c.Chunks[i]
			}
		}
		p.Distinct(d.String())
		p.Outcome(fmt.Sprintf("%s|frames=%d|closed=%s|maxcap=%d|timeouts=%s", c.Mode, len(r.got), r.closedBy, r.maxCap, strings.Join(r.tobs, ",")))
		p.Count("read timeouts delivered", r.timeoutsSeen)
		p.Count("read timeouts with a partial frame in a grown read buffer", r.partialGrown)
		p.Count("read timeouts after which the read buffer was shrunk", r.shrinks)
		p.Count("Read calls", r.rc.reads)
		if r.zeroLenReads > 0 {
			p.Count("Read calls with an empty slice", r.zeroLenReads)
		}
		if p.WantSample() {
			p.Sample(c)
		}
		if r.fail != nil {
			name := "read loop"
			if r.netpol {
				name = "netpoll onRead"
			}
			p.Violation(fmt.Sprintf("network read path (%s) / bolt: %s", name, r.fail.what), r.fail.detail, c)
		}
	}
}

// ---------------------------------------------------------------- enumerators

// timeout assignments with at most 2 timeouts over g gaps (each placement once)
func c07rlTimeoutVectors(g, max int, yield func([]int) bool) bool {
	v := make([]int, g)
	if !yield(v) {
		return false
	}
	if max >= 1 {
		for i := 0; i < g; i++ {
			v[i] = 1
			if !yield(v) {
				return false
			}
			v[i] = 0
		}
	}
	if max >= 2 {
		for i := 0; i < g; i++ {
			v[i] = 2
			if !yield(v) {
				return false
			}
			v[i] = 0
			for j := i + 1; j < g; j++ {
				v[i], v[j] = 1, 1
				if !yield(v) {
					return false
				}
				v[i], v[j] = 0, 0
			}
		}
	}
	return true
}

func c07rlChunksOfCuts(l int, cuts []int) []int {
	var out []int
	prev := 0
	for _, c := range cuts {
		out = append(out, c-prev)
		prev = c
	}
	return append(out, l-prev)
}

// c07rlCutCases yields, for one stream and one cut set, every timeout
// placement (<= 2) x read cap x eof flag of the bound.
func c07rlCutCases(mode string, si int, cuts []int, caps []int, eofFlags []bool, yield func(c07rlCase) bool) bool {
	s := c07rlStreams[si]
	chunks := c07rlChunksOfCuts(len(s.Bytes), cuts)
	return c07rlTimeoutVectors(len(chunks)+1, 2, func(tv []int) bool {
		for _, rc := range caps {
			for _, ef := range eofFlags {
				c := c07rlCase{Mode: mode, Stream: si, StreamName: s.Name, Chunks: append([]int(nil), chunks...),
					Timeouts: append([]int(nil), tv...), ReadCap: rc, EOFWithLast: ef}
				if !yield(c) {
					return false
				}
			}
		}
		return true
	})
}

// TestVerifC07ReadLoopCuts: every cut set of the bound x every placement of <= 2 read timeouts.
func TestVerifC07ReadLoopCuts(t *testing.T) {
	p := vreport.Begin(c07rlProp, "readloop-cuts", time.Duration(vreport.Pick(4, 25))*time.Minute)
	thorough := vreport.Thorough()
	gen := func(yield func(c07rlCase) bool) {
		for _, si := range c07rlStreamSet() {
			s := c07rlStreams[si]
			l := len(s.Bytes)
			bp := s.boundaryPositions()
			short := l <= 520
			// 0 cuts: all read caps, both EOF styles
			if !c07rlCutCases("loop", si, nil, []int{0, 1, 7}, []bool{false, true}, yield) {
				return
			}
			// 1 cut at every offset, uncapped reads, both EOF styles; the capped
			// reads (1 and 7 bytes per Read) at every offset in the thorough tier,
			// at the boundary offsets in the quick tier
			isB := map[int]bool{}
			for _, b := range bp {
				isB[b] = true
			}
			for i := 1; i < l; i++ {
				if !c07rlCutCases("loop", si, []int{i}, []int{0}, []bool{false, true}, yield) {
					return
				}
				if thorough || isB[i] {
					if !c07rlCutCases("loop", si, []int{i}, []int{1, 7}, []bool{false}, yield) {
						return
					}
				}
			}
			// 2 cuts: boundary positions (quick), every pair of offsets for the short streams (thorough)
			if thorough && short {
				for i := 1; i < l; i++ {
					for j := i + 1; j < l; j++ {
						if !c07rlCutCases("loop", si, []int{i, j}, []int{0}, []bool{false}, yield) {
							return
						}
					}
				}
			} else {
				for a := 0; a < len(bp); a++ {
					for b := a + 1; b < len(bp); b++ {
						if !c07rlCutCases("loop", si, []int{bp[a], bp[b]}, []int{0}, []bool{false}, yield) {
							return
						}
					}
				}
			}
			// 3 cuts over the boundary positions (thorough)
			if thorough {
				for a := 0; a < len(bp); a++ {
					for b := a + 1; b < len(bp); b++ {
						for c := b + 1; c < len(bp); c++ {
							if !c07rlCutCases("loop", si, []int{bp[a], bp[b], bp[c]}, []int{0}, []bool{false}, yield) {
								return
							}
						}
					}
				}
			}
		}
	}
	complete := vreport.Run(p, gen, c07rlCheck(t))
	p.End(complete,
		fmt.Sprintf("streams %s of bolt frames (26..1150 bytes, default read buffer %d); per stream: whole delivery x read cap {none,1,7} x {EOF after / with the last bytes}; 1 cut at every offset x both EOF styles, plus read cap {1,7} at %s; 2 cuts: %s; %s; every placement of 0, 1, 2 read timeouts over the gaps (before the first chunk, between chunks, before EOF)",
			c07rlStreamNames(), DefaultReadBufferSize,
			map[bool]string{false: "the boundary offsets", true: "every offset"}[thorough],
			map[bool]string{false: "every pair of boundary offsets", true: "every pair of offsets (streams <= 520 bytes), every pair of boundary offsets (longer stream)"}[thorough],
			map[bool]string{false: "no 3-cut sets", true: "3 cuts: every triple of boundary offsets"}[thorough]),
		"a case = (stream, chunk sizes, timeouts per gap, read cap, EOF style) run on a fresh real server connection whose startReadLoop is called synchronously over a scripted net.Conn; distinct = stream x read cap x EOF style x per gap (frame index + header/body/boundary class of the offset, beyond/below the default buffer size, number of timeouts); compared: frames handed to the filter (bytes, id, type, body) against the frames sent, buffer content at every filter call against the received-but-unconsumed bytes; recorded only: OnReadTimeout events, buffer capacity, shrinks")
}

func c07rlStreamNames() string {
	var n []string
	for _, si := range c07rlStreamSet() {
		n = append(n, fmt.Sprintf("%s(%dB)", c07rlStreams[si].Name, len(c07rlStreams[si].Bytes)))
	}
	return strings.Join(n, ", ")
}

// TestVerifC07ReadLoopScript: every read script over the chunk-size alphabet up to a depth.
func TestVerifC07ReadLoopScript(t *testing.T) {
	p := vreport.Begin(c07rlProp, "readloop-script", time.Duration(vreport.Pick(4, 25))*time.Minute)
	alphabet := []int{1, 3, 22, DefaultReadBufferSize - 1, DefaultReadBufferSize, DefaultReadBufferSize + 1, 300}
	depth := vreport.Pick(4, 5)
	gen := func(yield func(c07rlCase) bool) {
		for _, si := range c07rlStreamSet() {
			s := c07rlStreams[si]
			l := len(s.Bytes)
			var prefix []int
			var rec func(rem int) bool
			rec = func(rem int) bool {
				// terminal: the rest of the stream as one chunk
				chunks := append(append([]int(nil), prefix...), rem)
				ok := c07rlTimeoutVectors(len(chunks)+1, 2, func(tv []int) bool {
					return yield(c07rlCase{Mode: "loop", Stream: si, StreamName: s.Name, Chunks: chunks, Timeouts: append([]int(nil), tv...)})
				})
				if !ok {
					return false
				}
				if len(prefix) == depth {
					return true
				}
				for _, k := range alphabet {
					if k >= rem {
						continue
					}
					prefix = append(prefix, k)
					if !rec(rem - k) {
						return false
					}
					prefix = prefix[:len(prefix)-1]
				}
				return true
			}
			if !rec(l) {
				return
			}
		}
	}
	complete := vreport.Run(p, gen, c07rlCheck(t))
	p.End(complete,
		fmt.Sprintf("streams %s; every sequence of up to %d chunks with sizes from %v followed by the rest of the stream as one chunk; every placement of 0, 1, 2 read timeouts over the gaps", c07rlStreamNames(), depth, alphabet),
		"DFS over chunk-size sequences (a size that would reach the end of the stream is not taken: the rest chunk covers it), x timeout placements; same execution, distinct key and oracle as readloop-cuts")
}

// TestVerifC07ReadLoopNetpoll: the netpoll onRead handler over the same scripts.
func TestVerifC07ReadLoopNetpoll(t *testing.T) {
	p := vreport.Begin(c07rlProp, "readloop-netpoll", time.Duration(vreport.Pick(4, 20))*time.Minute)
	oldMode, oldTimeout := UseNetpollMode, types.DefaultConnReadTimeout
	UseNetpollMode = true
	types.DefaultConnReadTimeout = time.Hour // the read-timeout timer of attachEventLoop never fires during a case
	defer func() { UseNetpollMode, types.DefaultConnReadTimeout = oldMode, oldTimeout }()
	thorough := vreport.Thorough()
	gen := func(yield func(c07rlCase) bool) {
		for _, si := range c07rlStreamSet() {
			s := c07rlStreams[si]
			l := len(s.Bytes)
			bp := s.boundaryPositions()
			if !c07rlCutCases("netpoll", si, nil, []int{0, 7}, []bool{false, true}, yield) {
				return
			}
			if thorough {
				for i := 1; i < l; i++ {
					if !c07rlCutCases("netpoll", si, []int{i}, []int{0}, []bool{false}, yield) {
						return
					}
				}
			} else {
				for _, i := range bp {
					if !c07rlCutCases("netpoll", si, []int{i}, []int{0}, []bool{false}, yield) {
						return
					}
				}
			}
			if thorough {
				for a := 0; a < len(bp); a++ {
					for b := a + 1; b < len(bp); b++ {
						if !c07rlCutCases("netpoll", si, []int{bp[a], bp[b]}, []int{0}, []bool{false}, yield) {
							return
						}
					}
				}
			}
		}
	}
	complete := vreport.Run(p, gen, c07rlCheck(t))
	p.End(complete,
		fmt.Sprintf("streams %s; whole delivery x read cap {none,7} x EOF style; 1 cut at %s; %s; every placement of 0, 1, 2 read timeouts over the gaps",
			c07rlStreamNames(), map[bool]string{false: "every boundary offset", true: "every offset"}[thorough],
			map[bool]string{false: "no 2-cut sets", true: "2 cuts: every pair of boundary offsets"}[thorough]),
		"same cases and oracle as readloop-cuts, executed with UseNetpollMode=true: connection.Start attaches the connection to the real event loop (fd = read end of an always-readable pipe), the poller calls the real onRead handler once per Read (one-shot + Resume), the harness waits for the close event; the handler's read-timeout branch runs, the read-timeout timer closure does not (DefaultConnReadTimeout raised to 1h)")
}
