//go:build verif

package network

// C02 unit "conn-write": concurrent Write calls on one REAL connection
// (pkg/network/connection.go) put every call's buffers on the wire
// contiguously, in call order per caller, each at most once - the mechanism
// "all buffers of one Write call go out contiguously under the connection's
// write lock, so frames of concurrent streams never interleave", which every
// other C02 unit only assumes (they run on the fake connection vfake).
//
// Seam. A real server-side connection (NewServerConnection) is built around a
// scripted net.Conn (c02cwConn) inside every execution of the controlled
// scheduler (vrt; pkg/network is instrumented by rewrite set c02net). 2-3
// writer threads (one per worker / upstream reader in the running proxy) call
// conn.Write(header, body) once or twice each; every byte written names its
// call, buffer and offset. An optional closer thread calls
// Close(FlushWrite, LocalClose) (what the proxy does at the end of a
// connection) or Close(NoFlush, RemoteClose) (what the read loop does on EOF;
// the read loop itself is not started). The scripted conn's Write - called by
// net.Buffers.WriteTo once per buffer, since the conn is not a *net.TCPConn -
// is one scheduling point (the system call takes time: other threads run
// meanwhile) and then answers from the environment alphabet: accept
// everything; or, for exactly one enumerated raw write of the execution,
// accept only n bytes (n = 0, 1) and fail with a write-deadline timeout
// (*net.OpError wrapping os.ErrDeadlineExceeded), with an error that sticks
// (EPIPE: every later raw write fails too, as on a dead socket), or with an
// error that does not stick (ENOBUFS). A short count WITHOUT error is not in
// the alphabet: io.Writer forbids it and no net.Conn does it. The scripted
// conn's Close is a scheduling point too.
//
// Scheduling points. connection.go is in the rewrite set with its channel
// operations left native ("nochan": the rewriter duplicates the label OUTER of
// startWriteLoop when it clones the enclosing select, the result does not
// compile): its atomics (closed, connected, idCounter) and timers are
// scheduling points, its selects / sends / close(chan) run natively and are
// atomic steps. All of them are non-blocking in the explored executions
// except the ones named below, which the harness guards.
//
// Write modes: "direct" (the production mode: writeDirectly under the
// try-lock), "netpoll" (UseNetpollMode=true: the mode switch at the top of
// Write; same writeDirectly), "loop" (useWriteLoop=true with the real
// startWriteLoop goroutine on a managed thread, what startRWLoop does when
// checkUseWriteLoop says yes - which it never does in the unchanged tree, so
// this mode is test-only code). In loop mode a Write is one native
// non-blocking channel send (the harness yields before it); the write loop
// thread must never block natively in its main select, so it is parked at a
// scheduling point - before startWriteLoop is entered and in a bytes-sent
// callback at the end of every successful doWrite - until writeBufferChan is
// non-empty or the connection is closed (or the flush marker was consumed / a
// fault fired: the loop is about to leave). That is where the real loop would
// sit in its select. writeBufferChan (capacity 8) never fills: the blocking
// send with its DefaultConnTryTimeout timer is not explored.
//
// The try-lock. connection.tryMutex is a mosn.io/pkg/utils.Mutex (a channel of
// capacity 1 in ANOTHER module): it cannot be instrumented, and a thread that
// blocked in it natively would stop the cooperative scheduler. The blocking
// acquisition is therefore modelled by the harness: a writer (and the
// FlushWrite closer) waits at a scheduling point until the lock's channel is
// empty (read through its memory layout, checked at start) and then calls
// Write; no scheduling point lies between that wait and the TryLock inside
// writeDirectly, so the TryLock succeeds. If the lock is released early or not
// taken at all (the defects this unit is for), the channel is empty, the
// waiting writer goes ahead and the interleaving shows on the wire. Cases
// "nowait" skip the wait, with types.DefaultConnTryTimeout = 1ns: a TryLock on
// a held lock fails at once and the Write returns ErrWriteTryLockTimeout (the
// real "try-lock timed out" outcome without waiting 60 s). Not producible: a
// thread that passed the stop check of writeDirectly, then waited for the
// lock while the holder closed the connection (it would write to the closed
// raw conn: no byte reaches the peer).
//
// Oracle (demands only what the statement needs): the byte sequence accepted
// by the scripted conn before its Close is
//   - a concatenation of WHOLE Write calls (header bytes then body bytes, back
//     to back), optionally followed by a proper prefix of one more call at the
//     very end, and that only if an error was injected or a NoFlush close
//     happened in the execution ("a torn frame followed by more data" is what
//     makes the peer's parser deliver a header of one exchange with the body of
//     another);
//   - no call more than once; two calls of one caller in call order;
//   - in an execution without injected error and without NoFlush close: every
//     call that returned nil (loop mode: returned nil before the FlushWrite
//     close was issued) is on the wire completely.
// Return values as such, close events, what happens to calls after an error,
// and writes attempted on the closed raw conn (they reach nobody) are recorded
// as outcomes, not judged.

import (
	"context"
	"fmt"
	"net"
	"os"
	"runtime"
	"strings"
	"syscall"
	"testing"
	"time"
	"unsafe"

	"mosn.io/api"
	"mosn.io/mosn/pkg/log"
	"mosn.io/mosn/pkg/types"
	"mosn.io/mosn/pkg/verifrt/vreport"
	"mosn.io/mosn/pkg/verifrt/vrt"
	"mosn.io/mosn/pkg/verifrt/vutils"
	"mosn.io/pkg/buffer"
	"mosn.io/pkg/utils"
	"mosn.io/pkg/variable"
)

const (
	c02cwProp    = "C02"
	c02cwPart    = "conn-write"
	c02cwHdrLen  = 2 // bytes per header buffer
	c02cwBodyLen = 3 // bytes per body buffer
)

type c02cwCase struct {
	Mode      string `json:"mode"`              // direct | netpoll | loop
	NoWait    bool   `json:"no_wait,omitempty"` // direct modes: writers do not wait for the try-lock (a contended TryLock times out at once)
	Writers   []int  `json:"writers"`           // calls per writer thread
	Closer    string `json:"closer,omitempty"`  // "" | flush | noflush
	FaultAt   int    `json:"fault_at"`          // index of the faulted non-empty raw write of the execution, -1 = none
	FaultKind string `json:"fault_kind,omitempty"`
	FaultN    int    `json:"fault_n,omitempty"` // bytes accepted by the faulted raw write
	Bound     int    `json:"bound"`
	Delay     bool   `json:"delay,omitempty"` // delay bounding (every non-default scheduling choice costs) instead of preemption bounding
	Choices   []int  `json:"choices,omitempty"`
}

func (c *c02cwCase) name() string {
	s := fmt.Sprintf("mode=%s writers=%v", c.Mode, c.Writers)
	if c.NoWait {
		s += " nowait"
	}
	if c.Closer != "" {
		s += " closer=" + c.Closer
	}
	if c.FaultAt >= 0 {
		s += fmt.Sprintf(" fault=%s@%d,n=%d", c.FaultKind, c.FaultAt, c.FaultN)
	}
	return s
}

func (c *c02cwCase) calls() int {
	n := 0
	for _, k := range c.Writers {
		n += k
	}
	return n
}

// ---------------------------------------------------------------- the try-lock's channel

type c02cwMutexLayout struct{ c chan struct{} }

func c02cwLockChan(m *utils.Mutex) chan struct{} {
	return (*c02cwMutexLayout)(unsafe.Pointer(m)).c
}

func c02cwLayoutOK() string {
	if unsafe.Sizeof(utils.Mutex{}) != unsafe.Sizeof(c02cwMutexLayout{}) {
		return "utils.Mutex is not a single channel any more"
	}
	m := utils.NewMutex()
	ch := c02cwLockChan(m)
	if ch == nil || cap(ch) != 1 || len(ch) != 0 {
		return "utils.Mutex: unexpected channel"
	}
	m.Lock()
	if len(ch) != 1 {
		return "utils.Mutex.Lock does not fill the channel"
	}
	m.Unlock()
	if len(ch) != 0 {
		return "utils.Mutex.Unlock does not empty the channel"
	}
	return ""
}

// ---------------------------------------------------------------- observation

type c02cwCall struct {
	writer, k int
	issued    int // sequence number when conn.Write was called (-1: never)
	returned  int
	err       error
}

type c02cwObs struct {
	seq          int
	wire         []byte
	calls        []c02cwCall
	faultSeq     int
	rawClosedSeq int
	flushSeq     int
	flushRet     int
	noflushSeq   int
	afterClose   int // raw writes attempted on the closed raw conn
	inRaw        int
	maxInRaw     int
	waiting      int
	contended    bool // a raw write was in progress while another writer waited for the lock
	events       []api.ConnectionEvent
	harness      string
}

func (o *c02cwObs) tick() int { o.seq++; return o.seq }

func c02cwMarker(call, buf, off int) byte { return byte((call+1)<<4 | buf<<3 | off) }

func c02cwFrame(call int) []byte {
	var f []byte
	for i := 0; i < c02cwHdrLen; i++ {
		f = append(f, c02cwMarker(call, 0, i))
	}
	for i := 0; i < c02cwBodyLen; i++ {
		f = append(f, c02cwMarker(call, 1, i))
	}
	return f
}

func c02cwByteName(b byte) string {
	call := int(b>>4) - 1
	part := "h"
	if b&8 != 0 {
		part = "b"
	}
	return fmt.Sprintf("%d%s%d", call, part, b&7)
}

func c02cwWireString(w []byte) string {
	var s []string
	for _, b := range w {
		s = append(s, c02cwByteName(b))
	}
	return strings.Join(s, " ")
}

// ---------------------------------------------------------------- scripted net.Conn

var c02cwTCPAddr = &net.TCPAddr{IP: net.IPv4(127, 0, 0, 1), Port: 1102}

type c02cwConn struct {
	o      *c02cwObs
	c      *c02cwCase
	raw    int // non-empty raw writes answered so far
	closed bool
	sticky error
}

func (rc *c02cwConn) Read(p []byte) (int, error) { return 0, net.ErrClosed } // the read loop is not started

func (rc *c02cwConn) Write(b []byte) (int, error) {
	o := rc.o
	if len(b) == 0 {
		// net.Buffers.WriteTo also writes the empty entries (EOF marker buffer, consumed entries)
		if rc.closed {
			return 0, &net.OpError{Op: "write", Net: "tcp", Source: c02cwTCPAddr, Addr: c02cwTCPAddr, Err: net.ErrClosed}
		}
		return 0, nil
	}
	// the system call takes time
	o.inRaw++
	if o.inRaw > o.maxInRaw {
		o.maxInRaw = o.inRaw
	}
	if o.waiting > 0 {
		o.contended = true
	}
	vrt.Yield()
	o.inRaw--
	if rc.closed {
		o.afterClose++
		return 0, &net.OpError{Op: "write", Net: "tcp", Source: c02cwTCPAddr, Addr: c02cwTCPAddr, Err: net.ErrClosed}
	}
	if rc.sticky != nil {
		return 0, rc.sticky
	}
	idx := rc.raw
	rc.raw++
	if idx != rc.c.FaultAt {
		o.wire = append(o.wire, b...)
		return len(b), nil
	}
	n := rc.c.FaultN
	if n > len(b)-1 {
		n = len(b) - 1
	}
	o.wire = append(o.wire, b[:n]...)
	o.faultSeq = o.tick()
	var err error
	switch rc.c.FaultKind {
	case "timeout":
		err = &net.OpError{Op: "write", Net: "tcp", Source: c02cwTCPAddr, Addr: c02cwTCPAddr, Err: os.ErrDeadlineExceeded}
	case "sticky":
		err = &net.OpError{Op: "write", Net: "tcp", Source: c02cwTCPAddr, Addr: c02cwTCPAddr, Err: os.NewSyscallError("write", syscall.EPIPE)}
		rc.sticky = err
	default: // transient
		err = &net.OpError{Op: "write", Net: "tcp", Source: c02cwTCPAddr, Addr: c02cwTCPAddr, Err: os.NewSyscallError("write", syscall.ENOBUFS)}
	}
	return n, err
}

func (rc *c02cwConn) Close() error {
	vrt.Yield()
	if !rc.closed {
		rc.closed = true
		rc.o.rawClosedSeq = rc.o.tick()
	}
	return nil
}
func (rc *c02cwConn) LocalAddr() net.Addr                { return c02cwTCPAddr }
func (rc *c02cwConn) RemoteAddr() net.Addr               { return c02cwTCPAddr }
func (rc *c02cwConn) SetDeadline(t time.Time) error      { return nil }
func (rc *c02cwConn) SetReadDeadline(t time.Time) error  { return nil }
func (rc *c02cwConn) SetWriteDeadline(t time.Time) error { return nil }

type c02cwListener struct{ o *c02cwObs }

func (l *c02cwListener) OnEvent(ev api.ConnectionEvent) { l.o.events = append(l.o.events, ev) }

// ---------------------------------------------------------------- one execution

func c02cwBody(c *c02cwCase, o *c02cwObs) {
	*o = c02cwObs{faultSeq: -1, rawClosedSeq: -1, flushSeq: -1, flushRet: -1, noflushSeq: -1}
	call := 0
	for w, k := range c.Writers {
		for j := 0; j < k; j++ {
			o.calls = append(o.calls, c02cwCall{writer: w, k: j, issued: -1, returned: -1})
			call++
		}
	}
	rc := &c02cwConn{o: o, c: c}
	ctx := variable.NewVariableContext(context.Background())
	conn, ok := NewServerConnection(ctx, rc, make(chan struct{})).(*connection)
	if !ok || conn.network != "tcp" {
		o.harness = "NewServerConnection did not return a tcp *connection"
		return
	}
	conn.AddConnectionEventListener(&c02cwListener{o: o})
	lock := c02cwLockChan(conn.tryMutex)
	direct := c.Mode != "loop"
	if c.Mode == "loop" {
		// what connection.Start -> startRWLoop does when checkUseWriteLoop() says yes, minus the read loop.
		// The loop thread is parked where the real one would block in its main select (see the file comment).
		conn.internalLoopStarted = true
		conn.useWriteLoop = true
		work := func() bool {
			return len(conn.writeBufferChan) > 0 || conn.closed == 1 || o.faultSeq >= 0 || (o.flushRet >= 0 && len(conn.writeBufferChan) == 0)
		}
		conn.AddBytesSentListener(func(uint64) {
			vrt.WaitUntil("write loop: something queued or closed", work)
		})
		vutils.GoWithRecover(func() {
			vrt.WaitUntil("write loop: something queued or closed", work)
			conn.startWriteLoop()
		}, func(r interface{}) {
			conn.Close(api.NoFlush, api.LocalClose)
		})
	}
	waitLock := func() {
		if !direct {
			vrt.Yield()
			return
		}
		if c.NoWait {
			vrt.Yield()
			return
		}
		o.waiting++
		vrt.WaitUntil("try-lock free", func() bool { return len(lock) == 0 })
		o.waiting--
	}
	base := 0
	for w, k := range c.Writers {
		w, k, first := w, k, base
		base += k
		vrt.GoNamed(fmt.Sprintf("env:writer%d", w), func() {
			for j := 0; j < k; j++ {
				id := first + j
				f := c02cwFrame(id)
				h := buffer.NewIoBufferBytes(append([]byte(nil), f[:c02cwHdrLen]...))
				b := buffer.NewIoBufferBytes(append([]byte(nil), f[c02cwHdrLen:]...))
				waitLock()
				o.calls[id].issued = o.tick()
				err := conn.Write(h, b)
				o.calls[id].err = err
				o.calls[id].returned = o.tick()
			}
		})
	}
	switch c.Closer {
	case "flush":
		vrt.GoNamed("env:closer", func() {
			waitLock()
			o.flushSeq = o.tick()
			conn.Close(api.FlushWrite, api.LocalClose)
			o.flushRet = o.tick()
		})
	case "noflush":
		vrt.GoNamed("env:closer", func() {
			vrt.Yield()
			o.noflushSeq = o.tick()
			conn.Close(api.NoFlush, api.RemoteClose)
		})
	}
	vrt.Quiesce()
	// everything came to rest; stop the write loop goroutine (bytes written from here on are still judged)
	conn.Close(api.NoFlush, api.LocalClose)
	vrt.Quiesce()
}

// ---------------------------------------------------------------- oracle

type c02cwVerdict struct {
	key, detail string
}

// c02cwJudge parses the wire. shape = the calls found, in order ("3" whole, "3~" truncated tail).
func c02cwJudge(c *c02cwCase, o *c02cwObs) (shape string, bad []c02cwVerdict) {
	add := func(key, format string, a ...interface{}) {
		bad = append(bad, c02cwVerdict{key: key + " [" + c.Mode + " write mode]", detail: fmt.Sprintf(format, a...) + " | wire: " + c02cwWireString(o.wire)})
	}
	n := len(o.calls)
	pos := make([]int, n) // position in the sequence of whole calls, -1 = absent
	for i := range pos {
		pos[i] = -1
	}
	var seqn []string
	w := o.wire
	i := 0
	order := 0
	truncated := -1
	for i < len(w) {
		id := int(w[i]>>4) - 1
		if id < 0 || id >= n {
			add("wire: bytes that no Write call supplied", "byte %#x at offset %d", w[i], i)
			return strings.Join(seqn, ","), bad
		}
		f := c02cwFrame(id)
		m := 0
		for m < len(f) && i+m < len(w) && w[i+m] == f[m] {
			m++
		}
		switch {
		case m == len(f):
			if pos[id] >= 0 {
				add("wire: the bytes of one Write call appear more than once", "call %d appears again at offset %d", id, i)
			}
			pos[id] = order
			order++
			seqn = append(seqn, fmt.Sprint(id))
			i += m
		case i+m == len(w) && m > 0:
			// proper prefix of a call at the very end
			truncated = id
			seqn = append(seqn, fmt.Sprintf("%d~", id))
			i += m
		case m == 0:
			add("wire: a Write call does not start with its first byte (buffers of one call are not contiguous / in order)", "offset %d holds %s where a call must begin", i, c02cwByteName(w[i]))
			return strings.Join(seqn, ","), bad
		default:
			nx := w[i+m]
			if int(nx>>4)-1 != id {
				later := false
				for _, x := range w[i+m:] {
					if int(x>>4)-1 == id {
						later = true
					}
				}
				if later {
					add("wire: the bytes of two Write calls are interleaved (a call's buffers are not contiguous)", "call %d is cut after %d of %d bytes at offset %d and followed by %s", id, m, len(f), i+m, c02cwByteName(nx))
				} else {
					add("wire: a partially written call is followed by the bytes of another call (its rest never follows)", "call %d is cut after %d of %d bytes at offset %d and followed by %s", id, m, len(f), i+m, c02cwByteName(nx))
				}
			} else {
				add("wire: the bytes of one Write call are damaged (lost, repeated or reordered bytes inside the call)", "call %d: %d of %d bytes match, then %s at offset %d", id, m, len(f), c02cwByteName(nx), i+m)
			}
			return strings.Join(seqn, ","), bad
		}
	}
	shape = strings.Join(seqn, ",")
	disturbed := o.faultSeq >= 0 || o.noflushSeq >= 0
	if truncated >= 0 && !disturbed {
		add("wire: a partially written call at the end of the stream although no error was injected and nobody closed without flushing", "call %d is incomplete", truncated)
	}
	// per-caller order
	for a := 0; a < n; a++ {
		for b := a + 1; b < n; b++ {
			if o.calls[a].writer == o.calls[b].writer && pos[a] >= 0 && pos[b] >= 0 && pos[a] > pos[b] {
				add("wire: two calls of one caller appear out of call order", "writer %d: call %d was issued before call %d but comes after it", o.calls[a].writer, a, b)
			}
		}
	}
	// completeness
	if !disturbed {
		for id, cl := range o.calls {
			if cl.returned < 0 || cl.err != nil || pos[id] >= 0 {
				continue
			}
			if o.flushSeq >= 0 && cl.returned > o.flushSeq && c.Mode == "loop" {
				continue // queued behind (or racing with) the flush marker: the statement promises nothing
			}
			if o.flushSeq >= 0 && cl.issued > o.flushSeq {
				continue
			}
			add("wire: a Write call that returned nil is missing or incomplete although no error was injected and nobody closed without flushing", "call %d (writer %d) returned nil", id, cl.writer)
		}
	}
	return shape, bad
}

func c02cwErrName(err error) string {
	switch {
	case err == nil:
		return "ok"
	case err == types.ErrWriteTryLockTimeout:
		return "trylock-timeout"
	case err == types.ErrWriteBufferChanTimeout:
		return "chan-timeout"
	case err == types.ErrConnectionHasClosed:
		return "closed"
	case err == buffer.EOF:
		return "eof"
	}
	if ne, ok := err.(net.Error); ok && ne.Timeout() {
		return "io-timeout"
	}
	return "io-error"
}

// ---------------------------------------------------------------- exploration of one case

func c02cwRun(p *vreport.Part, c c02cwCase, replay bool, deadline time.Time) bool {
	obs := &c02cwObs{}
	opts := vrt.Options{Bound: c.Bound, Delay: c.Delay, MaxSteps: 20000, MaxExecs: vreport.Pick(400000, 4000000), Deadline: deadline}
	if replay {
		opts.Replay = true
		opts.Prefix = c.Choices
	}
	oldMode := UseNetpollMode
	UseNetpollMode = c.Mode == "netpoll"
	defer func() { UseNetpollMode = oldMode }()
	name := c.name()
	st := vrt.Explore(opts, func() { c02cwBody(&c, obs) }, func(r *vrt.Result) {
		p.Eval()
		cc := c
		cc.Choices = r.Choices
		report := func(kind, detail string) {
			p.Violation(kind, "case "+name+": "+detail+fmt.Sprintf(" | schedule=%v", r.Choices), cc)
		}
		if obs.harness != "" {
			report("HARNESS "+obs.harness, r.String())
			return
		}
		if r.Diverged != "" || r.StepLimit || r.Deadlock {
			report("HARNESS execution did not complete normally", r.String()+" "+r.Diverged)
			return
		}
		for _, pn := range r.Panics {
			report("HARNESS uncaught panic in a managed thread", pn)
			return
		}
		if len(r.Recovered) > 0 {
			p.Count("executions_with_a_panic_recovered_by_GoWithRecover", 1)
		}
		if len(r.Blocked) > 0 {
			p.Count("executions_with_a_thread_still_blocked_at_the_end", 1)
		}
		shape, bad := c02cwJudge(&c, obs)
		var rets []string
		for _, cl := range obs.calls {
			if cl.returned < 0 {
				rets = append(rets, "-")
			} else {
				rets = append(rets, c02cwErrName(cl.err))
			}
		}
		out := shape + "|" + strings.Join(rets, ",") + "|" + fmt.Sprint(obs.events)
		p.Distinct(name + "|" + out)
		p.Outcome(out)
		whole := 0
		wr := map[int]bool{}
		for _, s := range strings.Split(shape, ",") {
			if s != "" && !strings.HasSuffix(s, "~") {
				whole++
				var id int
				fmt.Sscan(s, &id)
				wr[obs.calls[id].writer] = true
			}
		}
		if len(wr) >= 2 {
			p.Count("executions_with_whole_calls_of_two_or_more_writers_on_the_wire", 1)
		}
		if obs.contended {
			p.Count("executions_in_which_a_writer_waited_for_the_lock_during_a_raw_write", 1)
		}
		if obs.maxInRaw > 1 {
			p.Count("executions_with_two_threads_inside_the_raw_Write_at_once", 1)
		}
		if obs.afterClose > 0 {
			p.Count("executions_with_a_raw_write_attempted_after_the_raw_close", 1)
		}
		if obs.faultSeq >= 0 {
			p.Count("executions_in_which_the_injected_fault_fired", 1)
		}
		for _, rt := range rets {
			if rt == "trylock-timeout" || rt == "chan-timeout" {
				p.Count("executions_with_a_"+rt+"_return", 1)
				break
			}
		}
		if strings.HasSuffix(shape, "~") {
			p.Count("executions_with_a_truncated_last_call", 1)
		}
		if p.WantSample() {
			p.Sample(map[string]interface{}{"case": name, "schedule": r.Choices, "wire": shape, "returns": rets, "events": fmt.Sprint(obs.events)})
		}
		for _, v := range bad {
			report(v.key, v.detail+" | returns="+strings.Join(rets, ","))
		}
	})
	p.AddTraces(st.Executions)
	if os.Getenv("VERIF_DEBUG") != "" {
		fmt.Fprintf(os.Stderr, "c02cw %-70s bound=%d execs=%d complete=%v\n", name, c.Bound, st.Executions, st.Complete)
	}
	return st.Complete
}

// ---------------------------------------------------------------- cases

func c02cwCases(bound int) []c02cwCase {
	th := vreport.Thorough()
	writers := [][]int{{1, 1}, {2, 1}, {1, 1, 1}, {2, 2}}
	if th {
		writers = append(writers, []int{2, 1, 1}, []int{3, 1})
	}
	var out []c02cwCase
	for _, mode := range []string{"direct", "netpoll", "loop"} {
		for _, ws := range writers {
			calls := 0
			for _, k := range ws {
				calls += k
			}
			for _, closer := range []string{"", "flush", "noflush"} {
				out = append(out, c02cwCase{Mode: mode, Writers: ws, Closer: closer, FaultAt: -1, Bound: bound})
				if mode == "direct" {
					out = append(out, c02cwCase{Mode: mode, NoWait: true, Writers: ws, Closer: closer, FaultAt: -1, Bound: bound})
				}
				// one injected fault: at every raw write position, every kind, 0 or 1 byte accepted
				if mode == "netpoll" && !th {
					continue // same writeDirectly as "direct": the fault grid runs there
				}
				if calls == 4 && !th {
					continue
				}
				for at := 0; at < 2*calls; at++ {
					for _, kind := range []string{"timeout", "sticky", "transient"} {
						for n := 0; n <= 1; n++ {
							// quick: delay bounding (every non-default scheduling choice costs), thorough: preemption bounding
							fc := c02cwCase{Mode: mode, Writers: ws, Closer: closer, FaultAt: at, FaultKind: kind, FaultN: n, Bound: 2, Delay: !th}
							out = append(out, fc)
						}
					}
				}
			}
		}
	}
	return out
}

func TestVerifC02ConnWrite(t *testing.T) {
	p := vreport.Begin(c02cwProp, c02cwPart, 40*time.Minute)
	if msg := c02cwLayoutOK(); msg != "" {
		vreport.HarnessError(c02cwProp, c02cwPart, msg)
		t.Fatal(msg)
	}
	log.DefaultLogger.SetLogLevel(log.FATAL)
	defer log.DefaultLogger.SetLogLevel(log.ERROR)
	oldTry := types.DefaultConnTryTimeout
	types.DefaultConnTryTimeout = time.Nanosecond
	defer func() { types.DefaultConnTryTimeout = oldTry }()
	old := runtime.GOMAXPROCS(1)
	defer runtime.GOMAXPROCS(old)

	if vreport.Replaying() {
		var rc c02cwCase
		if vreport.ReplayFor(c02cwProp, c02cwPart, &rc) {
			c02cwRun(p, rc, true, time.Time{})
			p.End(true, "replay", "replay of one recorded schedule")
		}
		return
	}
	si, sn := vreport.Shard()
	bound := vreport.Pick(2, 3)
	deadline := time.Now().Add(time.Duration(vreport.Pick(10, 35)) * time.Minute)
	complete := true
	n, nf := 0, 0
	for i, c := range c02cwCases(bound) {
		if i%sn != si {
			continue
		}
		if !c02cwRun(p, c, false, deadline) {
			complete = false
			p.Count("cases_cut_by_execution_cap_or_deadline", 1)
		}
		n++
		if c.FaultAt >= 0 {
			nf++
		}
	}
	p.Note("cases", n)
	p.Note("cases_with_an_injected_fault", nf)
	p.End(complete,
		fmt.Sprintf("%d cases (this shard), %d of them with one injected write fault: write modes direct / netpoll / write loop x writer threads with {1,1}, {2,1}, {1,1,1}, {2,2}%s Write(header, body) calls x closer thread {none, Close(FlushWrite), Close(NoFlush)} x {writers wait for the try-lock; direct mode also: contended TryLock times out} x fault {none; the k-th non-empty raw write for every k accepts 0 or 1 byte and fails with a write timeout / a sticky error / a transient error%s}; cases without fault: all schedules with <=%d preemptions; cases with a fault: %s", n, nf,
			map[bool]string{true: ", {2,1,1}, {3,1}", false: ""}[vreport.Thorough()],
			map[bool]string{true: "", false: "; quick tier: not in netpoll mode (same writeDirectly) and not for {2,2}"}[vreport.Thorough()],
			bound,
			map[bool]string{true: "all schedules with <=2 preemptions", false: "all schedules with <=2 deviations from the default scheduler (delay bounding)"}[vreport.Thorough()]),
		"real pkg/network connection over a scripted net.Conn under the controlled scheduler (writers, closer, write loop goroutine are managed threads; every raw write is a scheduling point); every byte names its call, buffer and offset; the accepted byte sequence is parsed into calls; distinct = distinct (case, calls on the wire in order, return value classes, close events)")
}
