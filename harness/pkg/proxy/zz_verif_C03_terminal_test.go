//go:build verif

package proxy

// C03: every downstream request ends exactly once, with one reply, in bounded
// (virtual) time — for every interleaving of upstream response, per-try timeout,
// global timeout, upstream failure/reset, retry and downstream disconnect.

import (
	"fmt"
	"os"
	"sort"
	"strings"
	"testing"
	"time"

	"mosn.io/mosn/pkg/protocol/xprotocol/bolt"
	"mosn.io/mosn/pkg/verifrt/vreport"
	"mosn.io/mosn/pkg/verifrt/vrt"
)

// bolt status a scripted upstream outcome produces downstream when it is the terminal cause
var c03StatusOf = map[string][]uint16{
	upReply200:   {bolt.ResponseStatusSuccess},
	upReplySplit: {bolt.ResponseStatusSuccess},
	upReply5xx:   {bolt.ResponseStatusServerException},
	upReplyBusy:  {bolt.ResponseStatusServerThreadpoolBusy},
	upClose:      {bolt.ResponseStatusUnknown}, // connection termination -> 500 -> bolt "unknown"
	upSilent:     {bolt.ResponseStatusTimeout}, // completed by a timeout
}

func c03Scenarios() []hpScenario {
	var out []hpScenario
	first := []string{upReply200, upReply5xx, upClose, upSilent}
	second := []string{upReply200, upClose, upSilent}
	add := func(sc hpScenario) {
		sc.Name = c03Name(&sc)
		out = append(out, sc)
	}
	for _, oneway := range []bool{false, true} {
		for _, body := range []bool{false, true} {
			for _, retry := range []bool{false, true} {
				for _, try := range []bool{false, true} {
					for _, f := range first {
						seconds := []string{""}
						if retry {
							seconds = second
						}
						for _, s2 := range seconds {
							for _, disc := range []bool{false, true} {
								if !vreport.Thorough() {
									// quick tier: a covering subset (every first outcome with and without
									// retry / per-try timeout / disconnect; bodies and one-way on the main outcomes)
									// (early responses: a retriable 5xx, then a retry nobody answers, no per-try
									// timeout - only the route timeout can complete the request)
									early := f == upReply5xx && s2 == upSilent && !try && !oneway
									if body && (f != upReply200 && f != upSilent) && !(early && !disc) {
										continue
									}
									if oneway && (retry || try || (f != upReply200 && f != upClose)) {
										continue
									}
									if disc && (body || (retry && try)) {
										continue
									}
									if s2 == upSilent && !try && f != upClose && !early {
										continue
									}
								}
								script := []string{f}
								if s2 != "" {
									script = append(script, s2)
								}
								sc := hpScenario{Hosts: 2, RouteTimeoutMs: 1000, DownDisconnect: disc,
									Requests: []hpRequest{{Token: "t1", Oneway: oneway, Body: body, Script: script}}}
								if retry {
									sc.RetryOn = true
									sc.NumRetries = 1
								}
								if try {
									sc.TryTimeoutMs = 100
								}
								add(sc)
							}
						}
					}
				}
			}
		}
	}
	// connection failures: first host unreachable / all hosts unreachable / connect timeout
	for _, retry := range []bool{false, true} {
		sc := hpScenario{Hosts: 2, RouteTimeoutMs: 1000, FailHosts: []int{0}, RetryOn: retry, Requests: []hpRequest{{Token: "t1", Script: []string{upReply200}}}}
		add(sc)
		sc = hpScenario{Hosts: 2, RouteTimeoutMs: 1000, FailHosts: []int{0, 1}, RetryOn: retry, Requests: []hpRequest{{Token: "t1", Script: []string{upReply200}}}}
		add(sc)
		sc = hpScenario{Hosts: 2, RouteTimeoutMs: 1000, TimeoutHosts: []int{0}, RetryOn: retry, Requests: []hpRequest{{Token: "t1", Script: []string{upClose, upReply200}}}}
		add(sc)
	}
	// send failures: the peer is gone when the request (headers, or the frame with the body) is written
	for _, retry := range []bool{false, true} {
		for _, body := range []bool{false, true} {
			for _, oneway := range []bool{false, true} {
				if oneway && retry {
					continue
				}
				sc := hpScenario{Hosts: 2, RouteTimeoutMs: 1000, UpBreakAtWrite: 1, RetryOn: retry, Requests: []hpRequest{{Token: "t1", Oneway: oneway, Body: body, Script: []string{upReply200, upReply200}}}}
				if retry {
					sc.NumRetries = 1
				}
				add(sc)
			}
		}
	}
	// the global deadline falls inside a retry back-off (per-try timeout 100 ms, back-off 10 ms: attempts at
	// 0, 110, 220 ms) or exactly on a retry's send
	for _, g := range []int{105, 110, 215} {
		for _, second := range []string{upReply200, upSilent} {
			add(hpScenario{Hosts: 2, RouteTimeoutMs: g, TryTimeoutMs: 100, RetryOn: true, NumRetries: 3,
				Requests: []hpRequest{{Token: "t1", Script: []string{upSilent, second, second}}}})
		}
	}
	// MOSN-generated errors before any upstream attempt
	add(hpScenario{Hosts: 1, NoRoute: true, RouteTimeoutMs: 1000, Requests: []hpRequest{{Token: "t1", Script: []string{upReply200}}}})
	add(hpScenario{Hosts: 1, NoHosts: true, RouteTimeoutMs: 1000, Requests: []hpRequest{{Token: "t1", Script: []string{upReply200}}}})
	add(hpScenario{Hosts: 2, AllUnhealthy: true, RouteTimeoutMs: 1000, Requests: []hpRequest{{Token: "t1", Script: []string{upReply200}}}})
	// circuit breaker overflow: max_requests 1 with two concurrent requests
	add(hpScenario{Hosts: 1, MaxRequests: 1, RouteTimeoutMs: 1000, Requests: []hpRequest{
		{Token: "t1", Script: []string{upReply200}}, {Token: "t2", Script: []string{upReply200}}}})
	// reply delivered in two reads
	add(hpScenario{Hosts: 1, RouteTimeoutMs: 1000, TryTimeoutMs: 100, Requests: []hpRequest{{Token: "t1", Script: []string{upReplySplit}}}})
	return out
}

// c03Core: the scenarios explored with the full deviation bound in the quick tier
// (two-way, header-only, no disconnect: every first outcome x retry policy x per-try timeout).
func c03Core(sc *hpScenario) bool {
	if len(sc.Requests) != 1 || sc.DownDisconnect || sc.NoRoute || sc.NoHosts || sc.AllUnhealthy || len(sc.FailHosts)+len(sc.TimeoutHosts) > 0 || sc.UpBreakAtWrite > 0 {
		return false
	}
	r := sc.Requests[0]
	if r.Oneway || r.Body {
		return false
	}
	if len(r.Script) > 1 && r.Script[1] == upSilent && r.Script[0] != upClose {
		return false
	}
	return true
}

func c03Name(sc *hpScenario) string { return hpScenarioName(sc) }

// c03EndMs: the virtual clock (ms) when the running execution came to rest (set by thread 0 right
// after hpBody's final Quiesce, which lets every armed timer fire first).
var c03EndMs int64

// c03GlobalTimeoutMs: the global timeout in force for a request (codec-supplied timeout, else the route's).
func c03GlobalTimeoutMs(sc *hpScenario, rq *hpRequest) int64 {
	if rq.TimeoutMs > 0 {
		return int64(rq.TimeoutMs)
	}
	return int64(sc.RouteTimeoutMs)
}

// c03Check evaluates the oracle on one finished execution.
func c03Check(sc *hpScenario, obs *hpObs, r *vrt.Result, report func(kind, detail string)) {
	if r.Diverged != "" {
		report("HARNESS replay divergence", r.Diverged)
		return
	}
	if r.StepLimit {
		report("execution did not terminate within the step limit (livelock)", r.String())
		return
	}
	for _, p := range r.Panics {
		first := strings.SplitN(p, "\n", 2)[0]
		if strings.Contains(first, "(env:") || strings.Contains(first, "(main)") {
			report("HARNESS panic in harness thread", p)
		} else {
			report("uncaught panic in a proxy goroutine", p)
		}
		return
	}
	if f := hpFatal(r); f != "" {
		report("fatal error in a proxy goroutine (sync: unlock of an unlocked mutex): the Go runtime ends the whole process, no recover contains it", f)
		return
	}
	if r.Deadlock {
		report("deadlock: no thread can run", strings.Join(r.Blocked, "; "))
		return
	}
	workerBlocked := ""
	for _, b := range r.Blocked {
		if !strings.Contains(b, "(env:") {
			workerBlocked = b
		}
	}
	silent := false
	if obs.DownGarbage != "" {
		report("undecodable bytes written downstream", obs.DownGarbage)
	}
	byID := map[uint32][]hpFrame{}
	for _, f := range obs.DownFrames {
		byID[f.ID] = append(byID[f.ID], f)
	}
	for i, rq := range sc.Requests {
		id := uint32(100 + i)
		resp := byID[id]
		delete(byID, id)
		if rq.Oneway {
			if len(resp) != 0 {
				report("one-way request got a response", fmt.Sprintf("request %s: %+v", rq.Token, resp))
			}
			continue
		}
		if len(resp) > 1 {
			report("more than one response for one request", fmt.Sprintf("request %s got %d responses: %+v", rq.Token, len(resp), resp))
			continue
		}
		if len(resp) == 0 {
			if sc.DownDisconnect {
				continue // the client itself went away: ending without a reply is allowed
			}
			silent = true
			// root-cause class = what the proxy goroutine is doing + the stream's internal state
			w := "worker goroutine exited"
			if workerBlocked != "" {
				w = "worker goroutine waiting forever (" + workerBlocked[strings.Index(workerBlocked, " at ")+4:] + ")"
			}
			sig, full := "stream no longer tracked", ""
			if len(obs.Stuck) > 0 {
				full = obs.Stuck[0]
				// coarse root-cause class: phase + response-received flag + whether a retry had been set up
				f := strings.Fields(full)
				sig = f[0] + " " + f[1] + " " + f[2] + fmt.Sprintf(" retried=%v", obs.Attempts[rq.Token] > 1)
			}
			sig += fmt.Sprintf(" deviations=%d", r.Cost)
			// "a request whose upstream never answers is completed by the configured timeout": the
			// execution came to rest (no runnable thread, no armed timer) with the worker still waiting
			// although the route timeout of this request never elapsed on the virtual clock - there was
			// no timer left that could complete it (never armed, or stopped). The recorded arbitration
			// defects all let the global timer run out (its callback loses or is swallowed); this class
			// is a different one and gets its own key.
			if lim := c03GlobalTimeoutMs(sc, &rq); workerBlocked != "" && lim > 0 && c03EndMs < lim {
				sig += "; no timer left to complete it: execution at rest before the route timeout elapsed"
				full += fmt.Sprintf(" [virtual clock at rest %dms < timeout %dms]", c03EndMs, lim)
			}
			report("request never completed (no response, client did not disconnect): "+w+"; "+sig,
				fmt.Sprintf("scenario %s, request %s; state: %s; blocked=%v log=%v", sc.Name, rq.Token, full, r.Blocked, obs.Log))
			continue
		}
		f := resp[0]
		allowed := map[uint16]bool{}
		n := obs.Attempts[rq.Token]
		if !(sc.NoRoute || sc.NoHosts || sc.AllUnhealthy) {
			// a timer may complete any routed request (timers are armed before the frame is written upstream)
			allowed[bolt.ResponseStatusTimeout] = true
			// a reset whose reason MOSN does not map (connection termination, or a reason read
			// before it was stored) is answered with 500 -> bolt "unknown": still one MOSN error reply
			allowed[bolt.ResponseStatusUnknown] = true
		}
		for k, s := range rq.Script {
			if k < n {
				for _, st := range c03StatusOf[s] {
					allowed[st] = true
				}
			}
		}
		if n > len(rq.Script) && len(rq.Script) > 0 {
			for _, st := range c03StatusOf[rq.Script[len(rq.Script)-1]] {
				allowed[st] = true
			}
		}
		// no upstream could be reached (connection not established in time, connect failure,
		// no route, no host, none healthy): MOSN's "no healthy upstream"/"router unavailable" reply
		// (a send failure is a connection failure too: MOSN retries it on another host whatever the policy)
		if n == 0 || len(sc.FailHosts) > 0 || len(sc.TimeoutHosts) > 0 || sc.RetryOn || sc.UpBreakAtWrite > 0 {
			allowed[bolt.ResponseStatusNoProcessor] = true
		}
		if sc.NoRoute || sc.NoHosts || sc.AllUnhealthy {
			allowed = map[uint16]bool{bolt.ResponseStatusNoProcessor: true}
		}
		if sc.MaxRequests > 0 {
			allowed[bolt.ResponseStatusServerThreadpoolBusy] = true
		}
		if !allowed[f.Status] {
			var al []int
			for k := range allowed {
				al = append(al, int(k))
			}
			sort.Ints(al)
			report(fmt.Sprintf("response status %d not explained by any cause that occurred", f.Status),
				fmt.Sprintf("request %s: status %d, explained statuses %v, attempts upstream %d, log=%v", rq.Token, f.Status, al, n, obs.Log))
		}
		if f.Status == bolt.ResponseStatusSuccess && (f.Token != rq.Token || f.BodyToken != rq.Token) {
			report("success response carries another exchange's header or body", fmt.Sprintf("request %s: header token %q body token %q", rq.Token, f.Token, f.BodyToken))
		}
		// nothing may be sent upstream for this request after its response went downstream
		for ui, u := range obs.Ups {
			for _, uf := range u.Requests {
				if uf.Token == rq.Token && uf.Seq > f.Seq {
					report("upstream attempt written after the downstream response", fmt.Sprintf("request %s: response seq %d, upstream request on conn %d seq %d", rq.Token, f.Seq, ui, uf.Seq))
				}
			}
		}
	}
	for id, fr := range byID {
		report("response for a request id that was never sent", fmt.Sprintf("id %d: %+v", id, fr))
	}
	if !silent {
		if workerBlocked != "" {
			report("proxy goroutine blocked forever although the request was answered", workerBlocked)
		}
		if obs.Active != 0 {
			report("proxy still tracks an active stream although the request was answered", fmt.Sprintf("activeStreams=%d %v", obs.Active, obs.Stuck))
		}
	}
}

func c03RunScenario(p *vreport.Part, sc hpScenario, replay bool, deadline time.Time) bool {
	obs := &hpObs{}
	opts := vrt.Options{Bound: sc.Bound, Delay: true, MaxSteps: 200000, Deadline: deadline, Trace: os.Getenv("VERIF_DEBUG") == "2" || os.Getenv("VERIF_TRACE_VIOL") != ""}
	// coverage must not depend on machine speed: the search is cut by an execution cap
	// (deterministic DFS order), the deadline is only a safety net
	opts.MaxExecs = vreport.Pick(60000, 150000)
	if os.Getenv("VERIF_DEBUG") != "" {
		opts.MaxExecs = 1
	}
	if replay {
		opts.Replay = true
		opts.Prefix = sc.Choices
	}
	st := vrt.Explore(opts, func() {
		*obs = hpObs{}
		c03EndMs = 0
		hpBody(&sc, obs)
		c03EndMs = int64(vrt.Now() / time.Millisecond)
	}, func(r *vrt.Result) {
		p.Eval()
		if os.Getenv("VERIF_DEBUG") != "" {
			fmt.Printf("EXEC %s\n  down=%+v\n  attempts=%v log=%v active=%d\n", r, obs.DownFrames, obs.Attempts, obs.Log, obs.Active)
			for _, l := range r.Trace {
				fmt.Println("   ", l)
			}
		}
		var down []string
		for _, f := range obs.DownFrames {
			down = append(down, fmt.Sprintf("%d:%d", f.ID, f.Status))
		}
		outcome := fmt.Sprintf("%v attempts=%v", down, obs.Attempts)
		p.Distinct(sc.Name + "|" + outcome + "|" + strings.Join(obs.Log, ","))
		p.Outcome(sc.Name + "|" + outcome)
		cc := sc
		cc.Choices = r.Choices
		if p.WantSample() {
			p.Sample(map[string]interface{}{"scenario": sc.Name, "schedule": r.Choices, "downstream": down, "attempts": obs.Attempts})
		}
		c03Check(&sc, obs, r, func(kind, detail string) {
			if os.Getenv("VERIF_TRACE_VIOL") != "" {
				fmt.Printf("VIOL %s: %s\nEXEC %s\n  log=%v\n", kind, detail, r, obs.Log)
				for _, l := range r.Trace {
					fmt.Println("   ", l)
				}
				os.Exit(3)
			}
			p.Violation(kind, "scenario "+sc.Name+": "+detail+fmt.Sprintf(" | schedule=%v", r.Choices), cc)
		})
	})
	p.AddTraces(st.Executions)
	p.Count("executions_with_deadlock", st.Deadlocks)
	if os.Getenv("VERIF_STATS") != "" {
		fmt.Printf("scenario %-70s execs=%-7d maxdepth=%d complete=%v\n", sc.Name, st.Executions, st.MaxDepth, st.Complete)
	}
	return st.Complete
}

func TestVerifC03Terminal(t *testing.T) {
	const part = "terminal-outcome-interleavings"
	budget := time.Duration(vreport.Pick(600, 3000)) * time.Second // safety net per scenario, not a coverage bound
	p := vreport.Begin("C03", part, budget+time.Minute)
	var rc hpScenario
	if vreport.Replaying() {
		if vreport.ReplayFor("C03", part, &rc) {
			c03RunScenario(p, rc, true, time.Time{})
			p.End(true, "replay", "replay of one recorded schedule")
		}
		return
	}
	scs := c03Scenarios()
	si, sn := vreport.Shard()
	complete := true
	n := 0
	bound := vreport.Pick(2, 3)
	var mine []hpScenario
	for i, sc := range scs {
		if only := os.Getenv("VERIF_C03_ONLY"); only != "" {
			if sc.Name == only && si == 0 {
				mine = append(mine, sc)
			}
			continue
		}
		if i%sn == si {
			mine = append(mine, sc)
		}
	}
	for i, sc := range mine {
		sc.Bound = bound
		if !vreport.Thorough() && !c03Core(&sc) {
			sc.Bound = bound - 1
		}
		if d := hpDeterminism(sc); d != "" {
			vreport.HarnessError("C03", part, "nondeterministic scenario "+sc.Name+": "+d)
			complete = false
			continue
		}
		_ = i
		share := budget
		if !c03RunScenario(p, sc, false, time.Now().Add(share)) {
			complete = false
			p.Count("scenarios_cut_by_execution_cap_or_deadline", 1)
		}
		n++
	}
	p.Note("scenarios", n)
	p.End(complete, fmt.Sprintf("%d scenarios (this shard), all schedules of worker / upstream readers / timers / downstream reader with <=%d deviations from the default scheduler (delay bounding; quick tier: %d for the non-core scenarios); timers fire in virtual-deadline order; per-scenario execution cap %d", n, bound, bound-1, vreport.Pick(60000, 150000)),
		"scenario grid {two-way,one-way}x{body}x{retry policy}x{per-try timeout}x{per-attempt upstream script}x{downstream disconnect} + connect failures, no route/no host/unhealthy, overflow, split reply; early responses: retriable 5xx x silent retry x no per-try timeout (only the route timeout can complete the request; an unanswered request at rest before the route timeout elapsed on the virtual clock is its own finding class); one evaluation = one complete execution of the real proxy stack under one schedule; distinct = distinct (scenario, observed downstream frames, upstream attempts, peer actions)")
}
