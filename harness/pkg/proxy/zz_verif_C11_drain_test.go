//go:build verif

package proxy

// C11 (in-process graceful-stop conjunct): "On graceful stop MOSN lets requests
// already in flight complete, up to the drain timeout, before exiting. No request
// in flight when the signal arrives fails because of the switch - wherever in a
// request's lifetime the signal arrives."
//
// The REAL stop path runs under the controlled scheduler: what
// stagemanager.Stop() does for a graceful stop of a running MOSN is
//
//	runGracefulStopStage: app.Shutdown()  = Mosn.Shutdown  -> server.Shutdown()
//	                                       -> connHandler.GracefulStopListeners(nil)
//	                                       -> (goroutine per listener) network.listener.Shutdown
//	                                       -> listener.Close ; activeListener.OnShutdown
//	                                       -> (goroutine) conn.OnConnectionEvent(OnShutdown) -> proxy.onDownstreamEvent
//	                                          -> serverStreamConn.GoAway()
//	                                       -> waitConnectionsClose(drainTime) polling the listener's request_active gauge
//	app.Close(false)                      = Mosn.Close     -> server.Close() -> CloseListeners ; close(stopChan)
//	                                                       -> Clustermanager.Destroy()
//	return from main                      = process exit: every socket is closed by the kernel
//
// and the harness drives exactly these functions of a real server.NewServer
// with real (never started, hence never bound) network listeners, the H-PROXY
// proxy stack on fake connections as the traffic, and "process exit" = the end
// of the execution: whatever is not on the downstream wire by then is lost.
// The signal is the first step of the thread "env:sigterm"; the explorer places
// it at every scheduling point of the requests' lifetime.

import (
	"context"
	stdjson "encoding/json"
	"fmt"
	"net"
	"os"
	"regexp"
	"strings"
	"sync"
	"testing"
	"time"

	"mosn.io/api"
	v2 "mosn.io/mosn/pkg/config/v2"
	"mosn.io/mosn/pkg/log"
	"mosn.io/mosn/pkg/metrics"
	"mosn.io/mosn/pkg/protocol"
	"mosn.io/mosn/pkg/protocol/xprotocol/bolt"
	"mosn.io/mosn/pkg/router"
	"mosn.io/mosn/pkg/server"
	"mosn.io/mosn/pkg/types"
	"mosn.io/mosn/pkg/upstream/cluster"
	"mosn.io/mosn/pkg/verifrt/vfake"
	"mosn.io/mosn/pkg/verifrt/vreport"
	"mosn.io/mosn/pkg/verifrt/vrt"
	"mosn.io/pkg/variable"
)

// ---------------------------------------------------------------------------
// scenario

type c11Scenario struct {
	hpScenario
	DrainMs   int    `json:"drain_ms"`
	GoAway    bool   `json:"goaway,omitempty"`     // extend_config enable_bolt_goaway
	Listeners int    `json:"listeners"`            // number of listeners of the server
	Conns     []int  `json:"conns"`                // Conns[c] = listener that accepted downstream connection c
	ReqConn   []int  `json:"req_conn"`             // ReqConn[i] = downstream connection carrying request i
	SplitReq  []bool `json:"split_req,omitempty"`  // request i reaches MOSN in two reads
	SigFirst  bool   `json:"sig_first,omitempty"`  // the signal thread is created before the client threads (default order: requests arrive after the signal)
	// The signal cannot arrive before this has happened ("" = it can arrive from the start). The default
	// scheduler runs the signal thread as soon as it may run, deviations delay it: each gate makes the
	// exploration enumerate the arrival points in the neighbourhood of one phase of the requests' lifetime.
	//   upstream-sent     a request frame was written to an upstream connection
	//   reply             an upstream peer is about to deliver its (first) answer
	//   retry-sent        a second request frame was written upstream (the retry)
	//   response-written  a frame was written to a downstream connection
	//   quiesce           nothing can run any more except timers (a request waits for a late reply / a timeout; or all is done)
	SigGate string `json:"sig_gate,omitempty"`
	NoTraffic bool   `json:"no_traffic,omitempty"` // (documentation only)
}

const c11PollMs = 10 // waitConnectionsClose sleeps 10ms between two reads of the gauge

func c11ListenerName(l int) string {
	if l == 0 {
		return hpListener
	}
	return fmt.Sprintf("%s%d", hpListener, l+1)
}

func c11Name(sc *c11Scenario) string {
	s := hpScenarioName(&sc.hpScenario)
	if sc.ReplyDelayMs > 0 {
		s += fmt.Sprintf(" reply-delay=%dms", sc.ReplyDelayMs)
	}
	s += fmt.Sprintf(" route-timeout=%dms drain=%dms", sc.RouteTimeoutMs, sc.DrainMs)
	if sc.TryTimeoutMs > 0 {
		s += fmt.Sprintf(" try-timeout=%dms", sc.TryTimeoutMs)
	}
	if sc.GoAway {
		s += " goaway"
	}
	s += fmt.Sprintf(" listeners=%d conns=%v req_conn=%v", sc.Listeners, sc.Conns, sc.ReqConn)
	for i, b := range sc.SplitReq {
		if b {
			s += fmt.Sprintf(" split-request-%d", i)
		}
	}
	if sc.SigFirst {
		s += " signal-thread-first"
	}
	if sc.SigGate != "" {
		s += " signal-not-before=" + sc.SigGate
	}
	return s
}

// ---------------------------------------------------------------------------
// observations

// c11Stop: what the signal thread records about the stop sequence (shared with the HTTP units).
type c11Stop struct {
	SigSeen  bool
	SigAt    time.Duration
	DrainRet bool          // server.Shutdown() returned
	RetAt    time.Duration // ... at this virtual time
	Exited   bool          // the whole stop sequence returned
	ShutErr  string
	GaugeSig []int64 // per listener: request_active at the signal
}

type c11Obs struct {
	hp        hpObs
	Downs     []*vfake.Conn
	Frames    [][]hpFrame // per downstream connection: decoded frames on the wire at exit
	Garbage   []string    // per downstream connection
	GoAways   []int       // per downstream connection: GoAway frames on the wire at exit
	Sent      []bool      // request i was handed to MOSN completely (last read injected)
	InFlight  []bool      // ... strictly before the signal
	PartAtSig []bool      // request i was partly delivered when the signal arrived
	PhaseSig  []string    // phase of request i at the signal
	c11Stop
	GaugeExit []int64
	Proxies   []*proxy
	// oracle parts that could not be compared in this execution (with the reason)
	NotCompared []string
}

// ---------------------------------------------------------------------------
// one-time initialisation: the network filter factory. pkg/filter/network/proxy
// cannot be imported from package proxy (cycle); this replicates its
// CreateProxyFactory/CreateFilterChain for one configured downstream protocol.

const c11FilterType = "verif_c11_proxy"

var c11Once sync.Once
var c11Created []*proxy // proxies created by the factory in the current execution

type c11ProxyFactory struct {
	Proxy        *v2.Proxy
	extendConfig map[api.ProtocolName]interface{}
	protocols    []api.ProtocolName
}

func (f *c11ProxyFactory) CreateFilterChain(ctx context.Context, callbacks api.NetWorkFilterChainFactoryCallbacks) {
	if f.extendConfig != nil {
		_ = variable.Set(ctx, types.VariableProxyGeneralConfig, f.extendConfig)
	}
	_ = variable.Set(ctx, types.VarProtocolConfig, f.protocols)
	p := NewProxy(ctx, f.Proxy)
	c11Created = append(c11Created, p.(*proxy))
	callbacks.AddReadFilter(p)
}

func c11Init() {
	c11Once.Do(func() {
		if os.Getenv("VERIF_DEBUG") == "" {
			// ten INFO lines per execution (cluster/router/listener set-up) dominate the run time otherwise;
			// replays run with the same level, so schedules stay comparable
			log.DefaultLogger.SetLogLevel(log.ERROR)
			log.StartLogger.SetLogLevel(log.ERROR)
		}
		api.RegisterNetwork(c11FilterType, func(conf map[string]interface{}) (api.NetworkFilterChainFactory, error) {
			pc := &v2.Proxy{}
			data, err := stdjson.Marshal(conf)
			if err != nil {
				return nil, err
			}
			if err := stdjson.Unmarshal(data, pc); err != nil {
				return nil, err
			}
			if pc.RouterHandlerName == "" {
				pc.RouterHandlerName = router.GetDefaultRouteHandlerName()
			}
			f := &c11ProxyFactory{Proxy: pc}
			for _, p := range strings.Split(pc.DownstreamProtocol, ",") {
				f.protocols = append(f.protocols, api.ProtocolName(p))
			}
			if len(pc.ExtendConfig) != 0 {
				f.extendConfig = map[api.ProtocolName]interface{}{}
				proto := f.protocols[0]
				f.extendConfig[proto] = protocol.HandleConfig(proto, pc.ExtendConfig)
			}
			return f, nil
		})
	})
}

var c11Server server.Server

// c11DropListeners removes this harness's listeners from the shared server's handler.
func c11DropListeners(srv server.Server) {
	for l := 0; l < 2; l++ {
		if srv.Handler().FindListenerByName(c11ListenerName(l)) != nil {
			srv.Handler().RemoveListeners(c11ListenerName(l))
		}
	}
}

type c11CMFilter struct{}

func (c11CMFilter) OnCreated(cccb types.ClusterConfigFactoryCb, chcb types.ClusterHostFactoryCb) {}

func c11ListenerConfig(name string, port int, goaway bool) *v2.Listener {
	var extend map[string]interface{}
	if goaway {
		extend = map[string]interface{}{"enable_bolt_goaway": true}
	}
	return c11ListenerConfigFor(name, port, string(bolt.ProtocolName), extend)
}

// c11ListenerConfigFor: a listener whose one filter chain is the proxy for the given downstream = upstream protocol.
func c11ListenerConfigFor(name string, port int, proto string, extend map[string]interface{}) *v2.Listener {
	pcfg := map[string]interface{}{
		"downstream_protocol": proto,
		"upstream_protocol":   proto,
		"router_config_name":  hpRouterName,
	}
	if extend != nil {
		pcfg["extend_config"] = extend
	}
	lc := &v2.Listener{
		ListenerConfig: v2.ListenerConfig{
			Name:       name,
			AddrConfig: fmt.Sprintf("127.0.0.1:%d", port),
			BindToPort: true, // a listener that is not bound is never shut down gracefully (network.listener.Shutdown)
			FilterChains: []v2.FilterChain{{FilterChainConfig: v2.FilterChainConfig{
				Filters: []v2.Filter{{Type: c11FilterType, Config: pcfg}},
			}}},
		},
		Addr: &net.TCPAddr{IP: net.IPv4(127, 0, 0, 1), Port: port},
	}
	return lc
}

// c11Gauge is the gauge the statement's drain loop is about: the listener's request_active.
func c11Gauge(l int) int64 {
	return metrics.NewListenerStats(c11ListenerName(l)).Counter(metrics.DownstreamRequestActive).Count()
}

// ---------------------------------------------------------------------------
// one execution (thread 0)

func c11Body(sc *c11Scenario, obs *c11Obs) {
	hpInit()
	c11Init()
	h := &hpRun{sc: &sc.hpScenario, obs: &obs.hp, attempt: map[string]int{}, reqByTk: map[string]*hpRequest{}}
	obs.hp.Attempts = map[string]int{}
	for i := range sc.Requests {
		h.reqByTk[sc.Requests[i].Token] = &sc.Requests[i]
	}
	n := len(sc.Requests)
	obs.Sent, obs.InFlight, obs.PartAtSig, obs.PhaseSig = make([]bool, n), make([]bool, n), make([]bool, n), make([]string, n)
	vfake.Reset()
	vfake.OnCreate = func(c *vfake.Conn) { h.onUpstreamConn(c) }
	c11Created = nil

	// fresh singletons, as in hpBody
	if cm := cluster.GetClusterMngAdapterInstance().ClusterManager; cm != nil {
		if d, ok := cm.(interface{ Destroy() }); ok {
			d.Destroy()
		}
	}
	cc, hosts := hpClusterConfig(&sc.hpScenario)
	h.cm = cluster.NewClusterManagerSingleton([]v2.Cluster{cc}, map[string][]v2.Host{hpCluster: hosts}, nil)
	for i := 0; i < 8; i++ {
		h.healthPtr[i] = cluster.GetHealthFlagPointer(hpHostAddr(i))
		*h.healthPtr[i] = 0
	}
	if err := router.GetRoutersMangerInstance().AddOrUpdateRouters(hpRouterConfig(&sc.hpScenario)); err != nil {
		panic(err)
	}

	srv, lels, lcs := c11Listeners(h.cm, sc.DrainMs, sc.Listeners, func(l int) *v2.Listener {
		return c11ListenerConfig(c11ListenerName(l), 2045+l, sc.GoAway)
	})
	defer c11DropListeners(srv)

	// accepted connections
	obs.Downs = nil
	for c, l := range sc.Conns {
		obs.Downs = append(obs.Downs, c11Accept(lels[l], lcs[l], l, c))
	}
	obs.hp.Down = obs.Downs[0]
	obs.Proxies = append([]*proxy(nil), c11Created...)
	if len(obs.Proxies) != len(sc.Conns) {
		panic(fmt.Sprintf("C11 harness: %d proxies for %d connections", len(obs.Proxies), len(sc.Conns)))
	}
	h.proxy = obs.Proxies[0]

	sig := func() {
		vrt.GoNamed("env:sigterm", func() {
			switch sc.SigGate {
			case "upstream-sent":
				vrt.WaitUntil("signal gate: a request was written upstream", func() bool {
					for _, u := range obs.hp.Ups {
						if len(u.Conn.Writes) > 0 {
							return true
						}
					}
					return false
				})
			case "reply":
				vrt.WaitUntil("signal gate: an upstream peer delivers its answer", func() bool { return len(obs.hp.Log) > 0 })
			case "retry-sent":
				vrt.WaitUntil("signal gate: the retry was written upstream", func() bool {
					n := 0
					for _, u := range obs.hp.Ups {
						n += len(u.Conn.Writes)
					}
					return n >= 2
				})
			case "response-written":
				vrt.WaitUntil("signal gate: a frame was written downstream", func() bool {
					for _, d := range obs.Downs {
						if len(d.Writes) > 0 {
							return true
						}
					}
					return false
				})
			case "quiesce":
				vrt.QuiesceNoTimers()
			}
			c11StopSequence(srv, h.cm, sc.Listeners, &obs.c11Stop, func() {
				for i := range sc.Requests {
					obs.PhaseSig[i] = c11Phase(sc, obs, h, i)
				}
			})
		})
	}
	clients := func() {
		for c := range sc.Conns {
			c := c
			down := obs.Downs[c]
			vrt.GoNamed(fmt.Sprintf("env:down-reader%d", c), func() {
				for i, r := range sc.Requests {
					if sc.ReqConn[i] != c {
						continue
					}
					b := hpBoltRequest(uint32(100+i), r)
					if i < len(sc.SplitReq) && sc.SplitReq[i] {
						cut := bolt.RequestHeaderLen + 3
						down.InjectRead(b[:cut])
						if !obs.SigSeen {
							obs.PartAtSig[i] = true // (cleared below if the rest also precedes the signal)
						}
						b = b[cut:]
					}
					// "fully received before the signal": the last byte is handed to MOSN's read path
					// strictly before the first step of the signal thread
					obs.InFlight[i] = !obs.SigSeen
					if obs.InFlight[i] {
						obs.PartAtSig[i] = false
					}
					obs.Sent[i] = true
					down.InjectRead(b)
				}
			})
		}
	}
	if sc.SigFirst {
		sig()
		clients()
	} else {
		clients()
		sig()
	}
	// the process exits when the stop sequence returns; nothing runs after that
	vrt.WaitUntil("process exit (stop sequence returned)", func() bool { return obs.Exited })
	h.done = true
	c11Observe(sc, obs, h)
}

// c11Listeners sets the drain time and gives the process' one server this execution's listeners.
// The server: one per process, as in MOSN (server.NewServer keeps every server it creates in a
// package-level list, a server per execution would keep every execution's object graph alive); the
// listeners: real network.listener objects that are never started, so nothing is bound.
func c11Listeners(cm types.ClusterManager, drainMs, n int, cfg func(l int) *v2.Listener) (server.Server, []types.ListenerEventListener, []*v2.Listener) {
	server.SetDrainTime(time.Duration(drainMs) * time.Millisecond)
	if c11Server == nil {
		c11Server = server.NewServer(&server.Config{ServerName: "verifServer"}, c11CMFilter{}, cm)
	}
	srv := c11Server
	c11DropListeners(srv) // (left over if the previous execution was torn down)
	lels := make([]types.ListenerEventListener, n)
	lcs := make([]*v2.Listener, n)
	for l := 0; l < n; l++ {
		// the gauge is process-global (metrics registry, by listener name); executions end by
		// "process exit" with requests possibly still counted: every new process starts at zero
		metrics.NewListenerStats(c11ListenerName(l)).Counter(metrics.DownstreamRequestActive).Clear()
		lcs[l] = cfg(l)
		lel, err := srv.AddListener(lcs[l])
		if err != nil || lel == nil {
			panic(fmt.Sprintf("AddListener: %v", err))
		}
		lels[l] = lel
	}
	return srv, lels, lcs
}

// c11Accept: listener l accepts downstream connection c: the context activeListener.OnAccept/newConnection
// build, then the real OnNewConnection (filter chain factory -> proxy, InitializeReadFilters, conn.Start).
func c11Accept(lel types.ListenerEventListener, lc *v2.Listener, l, c int) *vfake.Conn {
	down := vfake.NewServerSide(fmt.Sprintf("down%d", c))
	ctx := variable.NewVariableContext(context.Background())
	_ = variable.Set(ctx, types.VariableListenerPort, 2045+l)
	_ = variable.Set(ctx, types.VariableListenerType, lc.Type)
	_ = variable.Set(ctx, types.VariableListenerName, c11ListenerName(l))
	_ = variable.Set(ctx, types.VariableConnDefaultReadBufferSize, 0)
	_ = variable.Set(ctx, types.VariableAccessLogs, []api.AccessLog{})
	_ = variable.Set(ctx, types.VariableConnectionID, down.ID())
	_ = variable.Set(ctx, types.VariableConnection, down)
	lel.OnNewConnection(ctx, down)
	return down
}

// c11StopSequence is what the signal thread does from the instant the signal arrives to process exit.
func c11StopSequence(srv server.Server, cm types.ClusterManager, listeners int, st *c11Stop, atSignal func()) {
	// --- the signal arrives
	st.SigSeen = true
	st.SigAt = vrt.Now()
	for l := 0; l < listeners; l++ {
		st.GaugeSig = append(st.GaugeSig, c11Gauge(l))
	}
	if atSignal != nil {
		atSignal()
	}
	// --- stagemanager.Stop(): runGracefulStopStage -> Mosn.Shutdown -> server.Shutdown
	if err := srv.Shutdown(); err != nil {
		st.ShutErr = err.Error()
	}
	st.RetAt = vrt.Now()
	st.DrainRet = true
	// --- Mosn.Close(false): server.Close, Clustermanager.Destroy. server.Close() is
	// "srv.handler.CloseListeners(); close(srv.stopChan)"; the server object is shared by all
	// executions of this process and a channel can be closed once, so its first statement is
	// called directly (stopChan only releases server.Start(), which is not running here)
	srv.Handler().CloseListeners()
	if d, ok := cm.(interface{ Destroy() }); ok {
		d.Destroy()
	}
	st.Exited = true
}

// c11Phase names where request i is in its lifetime (seen from outside the proxy, plus the
// proxy's list of active streams) at the instant the signal arrives. No instrumented code is called.
func c11Phase(sc *c11Scenario, obs *c11Obs, h *hpRun, i int) string {
	if !obs.Sent[i] {
		if obs.PartAtSig[i] {
			return "partly-received"
		}
		return "not-yet-sent"
	}
	tok := sc.Requests[i].Token
	p := obs.Proxies[sc.ReqConn[i]]
	registered := false
	for e := p.activeStreams.Front(); e != nil; e = e.Next() {
		ds := e.Value.(*downStream)
		if ds.downstreamReqHeaders != nil {
			if v, ok := ds.downstreamReqHeaders.Get("token"); ok && v == tok {
				registered = true
			}
		}
	}
	answered := false
	fr, _, _ := hpParse(obs.Downs[sc.ReqConn[i]].Written())
	for _, f := range fr {
		if !f.IsRequest && f.ID == uint32(100+i) {
			answered = true
		}
	}
	up := 0
	for _, u := range obs.hp.Ups {
		ufr, _, _ := hpParse(u.Conn.Written())
		for _, f := range ufr {
			if f.IsRequest && f.Token == tok {
				up++
			}
		}
	}
	switch {
	case answered && registered:
		return "response-written-cleanup-pending"
	case answered:
		return "completed"
	case up > 1:
		return "retry-sent-upstream-waiting-for-reply"
	case up == 1:
		return "sent-upstream-waiting-for-reply"
	case registered:
		return "stream-registered-before-upstream-send"
	default:
		return "read-from-connection-stream-not-yet-registered"
	}
}

func c11Observe(sc *c11Scenario, obs *c11Obs, h *hpRun) {
	for _, d := range obs.Downs {
		w := d.Written()
		frames, n, garbage := hpParse(w)
		end, ga := 0, 0
		for i := range frames {
			start := end
			end += frames[i].Raw
			frames[i].Seq = hpSeqAt(d, end)
			frames[i].AtMs = hpTimeAt(d, end)
			if frames[i].IsRequest && end-start >= 4 {
				if code := uint16(w[start+2])<<8 | uint16(w[start+3]); code == bolt.CmdCodeGoAway {
					ga++
				}
			}
		}
		if garbage == "" && n != len(w) {
			garbage = fmt.Sprintf("%d trailing bytes that are not a complete frame", len(w)-n)
		}
		obs.Frames = append(obs.Frames, frames)
		obs.Garbage = append(obs.Garbage, garbage)
		obs.GoAways = append(obs.GoAways, ga)
	}
	for _, u := range obs.hp.Ups {
		h.parseUp(u)
	}
	for l := 0; l < sc.Listeners; l++ {
		obs.GaugeExit = append(obs.GaugeExit, c11Gauge(l))
	}
}

// ---------------------------------------------------------------------------
// oracle

// c11AllOK: every scripted upstream attempt of the request answers with success.
func c11AllOK(r *hpRequest) bool {
	for _, s := range r.Script {
		if s != upReply200 && s != upDelayOK {
			return false
		}
	}
	return len(r.Script) > 0
}

func c11Check(sc *c11Scenario, obs *c11Obs, r *vrt.Result, timeConsistent func() bool, report func(kind, detail string)) {
	if r.Diverged != "" {
		report("HARNESS replay divergence", r.Diverged)
		return
	}
	for _, p := range r.Panics {
		first := strings.SplitN(p, "\n", 2)[0]
		if strings.Contains(first, "(env:") || strings.Contains(first, "(main)") {
			report("HARNESS panic in harness thread", p)
		} else {
			report("uncaught panic in a MOSN goroutine during graceful stop", p)
		}
		return
	}
	drain := time.Duration(sc.DrainMs) * time.Millisecond
	// (3) the stop sequence terminates, no later than drain time + one poll interval after the signal
	if r.StepLimit || r.Deadlock || !obs.Exited {
		what := "blocked forever"
		if r.StepLimit {
			what = "still running at the step limit (livelock)"
		}
		where := "after the drain (server.Close)"
		if !obs.DrainRet {
			where = "inside server.Shutdown"
		}
		if !obs.SigSeen {
			if sc.SigGate != "" && !r.StepLimit {
				// the phase the gate waits for was never reached: a request hung before any signal
				// (pkg/proxy's timeout/reset/retry arbitration, recorded under C03): nothing to compare
				obs.NotCompared = append(obs.NotCompared, "execution in which the signal gate was never reached (request hung without any signal: C03)")
				return
			}
			report("HARNESS the signal thread never ran", r.String())
			return
		}
		report(fmt.Sprintf("graceful stop never returns: %s %s deviations=%d", what, where, r.Cost),
			fmt.Sprintf("blocked=%v gauges at signal=%v", r.Blocked, obs.GaugeSig))
		return
	}
	// The duration is compared only in executions in which virtual time passes only while no thread
	// can run (otherwise a runnable drain thread was simply not scheduled for a while, which no code
	// can prevent); the others are counted, not compared.
	waited := obs.RetAt - obs.SigAt
	if waited > drain+c11PollMs*time.Millisecond {
		if timeConsistent() {
			report(fmt.Sprintf("graceful stop exceeds the drain time by more than one poll interval deviations=%d", r.Cost),
				fmt.Sprintf("server.Shutdown returned %v after the signal, drain time %v", waited, drain))
		} else {
			obs.NotCompared = append(obs.NotCompared, "duration-of-stop (time passed while a runnable thread was not scheduled)")
		}
	}
	// (4) every downstream byte stream is a sequence of complete frames
	for c, g := range obs.Garbage {
		if g != "" {
			report(fmt.Sprintf("downstream byte stream is not a sequence of complete frames (goaway=%v) deviations=%d", sc.GoAway, r.Cost),
				fmt.Sprintf("connection %d: %s; frames before: %+v", c, g, obs.Frames[c]))
		}
	}
	known := map[uint32]int{}
	for i := range sc.Requests {
		known[uint32(100+i)] = i
	}
	for c, frames := range obs.Frames {
		for _, f := range frames {
			if f.IsRequest {
				continue // GoAway (or any other server-initiated command): not a response
			}
			i, ok := known[f.ID]
			if !ok || sc.ReqConn[i] != c {
				report(fmt.Sprintf("response for a request that was never sent on that connection deviations=%d", r.Cost), fmt.Sprintf("connection %d: %+v", c, f))
			}
		}
	}
	earlyExit := waited <= drain // the drain loop ended because it read gauge==0, not because the drain time ran out
	for i := range sc.Requests {
		rq := &sc.Requests[i]
		var resp []hpFrame
		for _, f := range obs.Frames[sc.ReqConn[i]] {
			if !f.IsRequest && f.ID == uint32(100+i) {
				resp = append(resp, f)
			}
		}
		if len(resp) > 1 {
			report(fmt.Sprintf("more than one response for one request deviations=%d", r.Cost), fmt.Sprintf("request %s: %+v", rq.Token, resp))
			continue
		}
		if len(resp) == 1 {
			f := resp[0]
			if f.Status == bolt.ResponseStatusSuccess && (f.Token != rq.Token || f.BodyToken != rq.Token) {
				report(fmt.Sprintf("success response carries another exchange's header or body deviations=%d", r.Cost), fmt.Sprintf("request %s: %+v", rq.Token, f))
			}
			// an in-flight request whose upstream answers OK, with no timeout that could fire before the
			// process exits, must not be answered with an error
			// (a timeout reply written at a virtual time at which the route timer was due is explained by
			// the timer: the scheduler let that much time pass)
			// (C03 accepts bolt "unknown" next to "timeout" for a request ended by its timer: the reset
			// reason may be read before it is stored)
			timerDue := (f.Status == bolt.ResponseStatusTimeout || f.Status == bolt.ResponseStatusUnknown) && f.AtMs >= int64(sc.RouteTimeoutMs)
			if obs.InFlight[i] && f.Status != bolt.ResponseStatusSuccess && c11AllOK(rq) && sc.TryTimeoutMs == 0 &&
				sc.RouteTimeoutMs > sc.DrainMs+c11PollMs && rq.TimeoutMs == 0 && !timerDue {
				report(fmt.Sprintf("request in flight at the signal answered with an error although its upstream answers OK: status=%d phase-at-signal=%s deviations=%d", f.Status, obs.PhaseSig[i], r.Cost),
					fmt.Sprintf("request %s: %+v; log=%v", rq.Token, f, obs.hp.Log))
			}
			continue
		}
		// no response on the wire at exit
		if !obs.InFlight[i] || rq.Oneway {
			continue // arrived (completely) only after the signal: enumerated, not compared (5)
		}
		// (1)+(2): in flight at the signal, and the process exits before the drain time ran out
		if earlyExit {
			report(fmt.Sprintf("process exits before the drain time with a request in flight at the signal unanswered: phase-at-signal=%s deviations=%d", obs.PhaseSig[i], r.Cost),
				fmt.Sprintf("request %s (script %v): server.Shutdown returned %v after the signal (drain time %v), gauges at signal=%v at exit=%v; downstream frames=%+v; peer log=%v",
					rq.Token, rq.Script, waited, drain, obs.GaugeSig, obs.GaugeExit, obs.Frames[sc.ReqConn[i]], obs.hp.Log))
		}
	}
}

// c11Outcome: the observable outcome class of one execution.
func c11Outcome(sc *c11Scenario, obs *c11Obs) string {
	var parts []string
	for i := range sc.Requests {
		st := "lost"
		for _, f := range obs.Frames[sc.ReqConn[i]] {
			if !f.IsRequest && f.ID == uint32(100+i) {
				st = fmt.Sprintf("status=%d", f.Status)
			}
		}
		when := "after-signal"
		if obs.InFlight[i] {
			when = "in-flight:" + obs.PhaseSig[i]
		} else if obs.PartAtSig[i] {
			when = "partly-received-at-signal"
		}
		parts = append(parts, fmt.Sprintf("%s[%s]=%s", sc.Requests[i].Token, when, st))
	}
	return fmt.Sprintf("%s goaways=%v waited=%v", strings.Join(parts, " "), obs.GoAways, obs.RetAt-obs.SigAt)
}

// ---------------------------------------------------------------------------
// scenarios

func c11Scenarios() []c11Scenario {
	var out []c11Scenario
	th := vreport.Thorough()
	add := func(sc c11Scenario, gates ...string) {
		if sc.DrainMs == 0 {
			sc.DrainMs = 300
		}
		if sc.Listeners == 0 {
			sc.Listeners = 1
		}
		if sc.Conns == nil {
			sc.Conns = []int{0}
		}
		if sc.ReqConn == nil {
			sc.ReqConn = make([]int, len(sc.Requests))
		}
		if sc.Hosts == 0 {
			sc.Hosts = 2
		}
		if sc.RouteTimeoutMs == 0 {
			sc.RouteTimeoutMs = 1000 // beyond the drain time
		}
		if len(gates) == 0 {
			gates = []string{""}
		}
		for i, g := range gates {
			v := sc
			v.SigGate = g
			if i%2 == 1 {
				v.GoAway = !v.GoAway // both settings of the GoAway switch get every kind of scenario
			}
			v.Name = c11Name(&v)
			out = append(out, v)
		}
	}
	one := func(script ...string) []hpRequest { return []hpRequest{{Token: "t1", Script: script}} }
	two := func(s1, s2 []string) []hpRequest {
		return []hpRequest{{Token: "t1", Script: s1}, {Token: "t2", Script: s2}}
	}
	ok, delay, silent := []string{upReply200}, []string{upDelayOK}, []string{upSilent}
	// --- one request on one connection
	add(c11Scenario{hpScenario: hpScenario{Requests: one(upReply200)}}, "", "", "upstream-sent", "reply", "response-written")
	add(c11Scenario{hpScenario: hpScenario{ReplyDelayMs: 55, Requests: one(upDelayOK)}}, "", "", "quiesce", "response-written")
	add(c11Scenario{hpScenario: hpScenario{Requests: one(upSilent)}}, "", "", "quiesce", "upstream-sent")
	// silent upstream, the route timeout fires inside the drain time
	add(c11Scenario{hpScenario: hpScenario{RouteTimeoutMs: 105, Requests: one(upSilent)}, GoAway: true}, "", "quiesce")
	// error reply + retry
	add(c11Scenario{hpScenario: hpScenario{RetryOn: true, NumRetries: 1, Requests: one(upReply5xx, upReply200)}, GoAway: true}, "", "reply", "retry-sent")
	// body, request delivered in two reads; signal thread created first
	add(c11Scenario{hpScenario: hpScenario{Requests: []hpRequest{{Token: "t1", Body: true, Script: ok}}}, SplitReq: []bool{true}, GoAway: true})
	add(c11Scenario{hpScenario: hpScenario{ReplyDelayMs: 55, Requests: one(upDelayOK)}, SigFirst: true, GoAway: true})
	// --- two requests on one connection
	add(c11Scenario{hpScenario: hpScenario{ReplyDelayMs: 55, Requests: two(ok, delay)}, GoAway: true}, "", "quiesce")
	add(c11Scenario{hpScenario: hpScenario{ReplyDelayMs: 55, Requests: two(delay, silent)}}, "", "quiesce")
	// --- two connections of one listener
	add(c11Scenario{hpScenario: hpScenario{ReplyDelayMs: 55, Requests: two(ok, delay)}, Conns: []int{0, 0}, ReqConn: []int{0, 1}, GoAway: true}, "", "response-written")
	// --- two listeners with one connection each: the drain must wait for both
	add(c11Scenario{hpScenario: hpScenario{ReplyDelayMs: 55, Requests: two(ok, delay)}, Listeners: 2, Conns: []int{0, 1}, ReqConn: []int{0, 1}}, "", "quiesce")
	add(c11Scenario{hpScenario: hpScenario{ReplyDelayMs: 55, Requests: two(delay, ok)}, Listeners: 2, Conns: []int{0, 1}, ReqConn: []int{0, 1}, GoAway: true}, "")
	if !th {
		add(c11Scenario{hpScenario: hpScenario{ReplyDelayMs: 55, Requests: two(delay, ok)}, Listeners: 2, Conns: []int{0, 1}, ReqConn: []int{0, 1}}, "response-written")
	}
	// --- an idle second listener next to a busy one
	add(c11Scenario{hpScenario: hpScenario{ReplyDelayMs: 55, Requests: one(upDelayOK)}, Listeners: 2, Conns: []int{1, 0}, ReqConn: []int{0}}, "", "quiesce")
	if th {
		add(c11Scenario{hpScenario: hpScenario{RouteTimeoutMs: 105, Requests: one(upSilent)}}, "", "quiesce")
		add(c11Scenario{hpScenario: hpScenario{RetryOn: true, NumRetries: 1, Requests: one(upReply5xx, upReply200)}}, "", "response-written", "retry-sent")
		add(c11Scenario{hpScenario: hpScenario{TryTimeoutMs: 45, RetryOn: true, NumRetries: 1, Requests: one(upSilent, upReply200)}, GoAway: true}, "", "quiesce")
		add(c11Scenario{hpScenario: hpScenario{ReplyDelayMs: 295, Requests: one(upDelayOK)}, GoAway: true}, "quiesce")
		add(c11Scenario{hpScenario: hpScenario{ReplyDelayMs: 305, Requests: one(upDelayOK)}}, "quiesce")
		add(c11Scenario{hpScenario: hpScenario{Requests: one(upClose)}, GoAway: true}, "", "upstream-sent")
		add(c11Scenario{hpScenario: hpScenario{Requests: []hpRequest{{Token: "t1", Oneway: true, Script: silent}, {Token: "t2", Script: ok}}}, GoAway: true})
		add(c11Scenario{hpScenario: hpScenario{ReplyDelayMs: 55, Requests: two(delay, delay)}, SplitReq: []bool{false, true}, GoAway: true})
	}
	return out
}

// ---------------------------------------------------------------------------
// determinism self-check (as hpDeterminism, for this body)

func c11Determinism(sc c11Scenario) string {
	run := func(prefix []int) ([]string, string) {
		obs := &c11Obs{}
		var tr []string
		var sum string
		vrt.Explore(vrt.Options{Replay: true, Prefix: prefix, Delay: true, MaxSteps: 200000, Trace: true}, func() {
			*obs = c11Obs{}
			c11Body(&sc, obs)
		}, func(r *vrt.Result) {
			tr = r.Trace
			sum = fmt.Sprintf("%v|%v|%v|%v|%v|%v", obs.Frames, obs.hp.Attempts, obs.hp.Log, obs.PhaseSig, obs.RetAt-obs.SigAt, obs.GaugeExit)
		})
		return tr, sum
	}
	cmp := func(prefix []int) string {
		t1, s1 := run(prefix)
		t2, s2 := run(prefix)
		strip := func(t []string) []string {
			for i, l := range t {
				if !strings.HasPrefix(l, "#0 ") {
					return t[i:]
				}
			}
			return nil
		}
		t1, t2 = strip(t1), strip(t2)
		for i := 0; i < len(t1) && i < len(t2); i++ {
			if t1[i] != t2[i] {
				lo := i - 3
				if lo < 0 {
					lo = 0
				}
				return fmt.Sprintf("schedule %v: traces differ at step %d:\n  run1: %v\n  run2: %v", prefix, i, t1[lo:i+1], t2[lo:i+1])
			}
		}
		if len(t1) != len(t2) {
			return fmt.Sprintf("schedule %v: trace lengths differ: %d vs %d", prefix, len(t1), len(t2))
		}
		if s1 != s2 {
			return fmt.Sprintf("schedule %v: observations differ:\n  %s\n  %s", prefix, s1, s2)
		}
		return ""
	}
	if d := cmp(nil); d != "" {
		return d
	}
	pre := make([]int, 12)
	pre[11] = 1
	if d := cmp(pre); d != "" {
		return d
	}
	pre = make([]int, 40)
	pre[39] = 1
	return cmp(pre)
}

// ---------------------------------------------------------------------------
// driver

var c11TimedThread = regexp.MustCompile(`T\d+\([^)]*\)\.sleep\b`)
var c11TimedTimer = regexp.MustCompile(`(^|[\[ ])timer:[^ \]]+`)

// c11TimeConsistent re-runs one schedule with tracing and reports whether virtual time
// advanced only at steps at which no thread could run (timers and sleepers were the only options).
func c11TimeConsistent(sc c11Scenario, choices []int) bool {
	obs := &c11Obs{}
	ok := true
	vrt.Explore(vrt.Options{Replay: true, Prefix: choices, Delay: true, MaxSteps: 200000, Trace: true}, func() {
		*obs = c11Obs{}
		c11Body(&sc, obs)
	}, func(r *vrt.Result) {
		for _, l := range r.Trace {
			a := strings.Index(l, "[")
			b := strings.LastIndex(l, "] -> ")
			if a < 0 || b < a {
				continue
			}
			opts, chosen := l[a:b+1], l[b+5:]
			timed := strings.HasPrefix(chosen, "timer:") || strings.HasSuffix(chosen, ".sleep")
			if !timed {
				continue
			}
			rest := c11TimedThread.ReplaceAllString(opts, "")
			rest = c11TimedTimer.ReplaceAllString(rest, "")
			if strings.Trim(rest, "[] ") != "" {
				ok = false // time passed although a thread was runnable
				return
			}
		}
	})
	return ok
}

type c11Stats struct {
	execs    int
	complete bool
	prefixes [][]int // (collect mode) the choice prefix of every execution with exactly one deviation
}

// c11Explore runs one exploration (or one replay) of a scenario and checks every execution.
func c11Explore(p *vreport.Part, sc c11Scenario, opts vrt.Options, collect bool, evaluate func(r *vrt.Result) bool) c11Stats {
	obs := &c11Obs{}
	var out c11Stats
	opts.Delay = true
	opts.MaxSteps = 200000
	opts.Trace = os.Getenv("VERIF_DEBUG") == "2" || os.Getenv("VERIF_TRACE_VIOL") != ""
	st := vrt.Explore(opts, func() {
		*obs = c11Obs{}
		c11Body(&sc, obs)
	}, func(r *vrt.Result) {
		if collect && r.Cost == 1 {
			last := -1
			for i, c := range r.Choices {
				if c != 0 {
					last = i
				}
			}
			out.prefixes = append(out.prefixes, append([]int(nil), r.Choices[:last+1]...))
		}
		if evaluate != nil && !evaluate(r) {
			return
		}
		p.Eval()
		if len(obs.Frames) == 0 && obs.Downs != nil {
			// the execution ended before thread 0 observed (deadlock / step limit): observe now
			c11Observe(&sc, obs, &hpRun{sc: &sc.hpScenario, obs: &obs.hp})
		}
		for len(obs.Frames) < len(sc.Conns) {
			obs.Frames = append(obs.Frames, nil)
			obs.Garbage = append(obs.Garbage, "")
			obs.GoAways = append(obs.GoAways, 0)
		}
		outcome := c11Outcome(&sc, obs)
		if os.Getenv("VERIF_DEBUG") != "" {
			fmt.Printf("EXEC %s\n  outcome=%s\n  frames=%+v\n  attempts=%v log=%v gaugeSig=%v gaugeExit=%v\n", r, outcome, obs.Frames, obs.hp.Attempts, obs.hp.Log, obs.GaugeSig, obs.GaugeExit)
			for _, l := range r.Trace {
				fmt.Println("   ", l)
			}
		}
		p.Distinct(sc.Name + "|" + outcome + "|" + strings.Join(obs.hp.Log, ","))
		p.Outcome(sc.Name + "|" + outcome)
		for i := range sc.Requests {
			answered := "lost-at-exit"
			for _, f := range obs.Frames[sc.ReqConn[i]] {
				if !f.IsRequest && f.ID == uint32(100+i) {
					answered = "answered"
				}
			}
			if !obs.SigSeen {
				continue
			}
			if obs.InFlight[i] {
				p.Count("signal-at-phase:"+obs.PhaseSig[i], 1)
				if obs.RetAt-obs.SigAt > time.Duration(sc.DrainMs)*time.Millisecond {
					p.Count("in-flight-request-when-the-drain-time-ran-out:"+answered, 1)
				}
			} else if obs.PartAtSig[i] {
				p.Count("signal-at-phase:partly-received (enumerated, not compared):"+answered, 1)
			} else {
				p.Count("signal-at-phase:before-the-request-was-sent (enumerated, not compared):"+answered, 1)
			}
		}
		for _, ga := range obs.GoAways {
			p.Count(fmt.Sprintf("goaway-frames-on-a-connection-at-exit:%d", ga), 1)
		}
		cc := sc
		cc.Choices = r.Choices
		if p.WantSample() {
			p.Sample(map[string]interface{}{"scenario": sc.Name, "schedule": r.Choices, "outcome": outcome})
		}
		tc := func() bool { return r.Cost == 0 || c11TimeConsistent(sc, r.Choices) }
		c11Check(&sc, obs, r, tc, func(kind, detail string) {
			if os.Getenv("VERIF_TRACE_VIOL") != "" {
				fmt.Printf("VIOL %s: %s\nEXEC %s\n  log=%v\n", kind, detail, r, obs.hp.Log)
				for _, l := range r.Trace {
					fmt.Println("   ", l)
				}
				os.Exit(3)
			}
			p.Violation(kind, "scenario "+sc.Name+": "+detail+fmt.Sprintf(" | outcome=%s | schedule=%v", outcome, r.Choices), cc)
		})
		for _, nc := range obs.NotCompared {
			p.Count("not-compared:"+nc, 1)
		}
	})
	p.AddTraces(st.Executions)
	p.Count("executions_with_deadlock", st.Deadlocks)
	out.execs, out.complete = st.Executions, st.Complete
	return out
}

// Second-level budget: below every single-deviation schedule, this many executions (DFS order:
// the second deviation at the earliest following choice points first). 0 = all of them.
func c11Window() int { return vreport.Pick(24, 0) }

// c11RunScenario explores one scenario: every schedule with <=1 deviation, then below each
// single-deviation schedule the schedules with a second deviation (all of them, or the first
// c11Window() in DFS order). With prefix sharding (pi, pn) only the single-deviation schedules
// number j with j%pn==pi are expanded here, and the <=1-deviation executions are evaluated by pi==0.
func c11RunScenario(p *vreport.Part, sc c11Scenario, deadline time.Time, pi, pn int) bool {
	sc.Bound = 1
	l1 := c11Explore(p, sc, vrt.Options{Bound: 1, Deadline: deadline}, true, func(r *vrt.Result) bool { return pi == 0 })
	complete := l1.complete
	execs := l1.execs
	if os.Getenv("VERIF_C11_BOUND") == "1" {
		return complete
	}
	sc.Bound = 2
	w := c11Window()
	for j, pre := range l1.prefixes {
		if j%pn != pi {
			continue
		}
		// the node itself (exactly the prefix, then defaults) was evaluated at level 1: skip it here
		max := 0
		if w > 0 {
			max = w + 1 // the node itself + w schedules with a second deviation
		}
		l2 := c11Explore(p, sc, vrt.Options{Bound: 2, Prefix: pre, MaxExecs: max, Deadline: deadline}, false, func(r *vrt.Result) bool { return r.Cost == 2 })
		if !l2.complete {
			complete = false // the window (or the safety-net deadline) cut this subtree
		}
		execs += l2.execs
	}
	if os.Getenv("VERIF_STATS") != "" {
		fmt.Printf("scenario %-100s single-deviation schedules=%-5d execs=%-7d complete=%v\n", sc.Name, len(l1.prefixes), execs, complete)
	}
	return complete
}

func TestVerifC11Drain(t *testing.T) {
	const part = "graceful-stop-drain-interleavings"
	budget := time.Duration(vreport.Pick(600, 3000)) * time.Second // safety net per scenario, not a coverage bound
	p := vreport.Begin("C11", part, budget+time.Minute)
	var rc c11Scenario
	if vreport.Replaying() {
		if vreport.ReplayFor("C11", part, &rc) {
			c11Explore(p, rc, vrt.Options{Replay: true, Prefix: rc.Choices}, false, nil)
			p.End(true, "replay", "replay of one recorded schedule")
		}
		return
	}
	scs := c11Scenarios()
	si, sn := vreport.Shard()
	type job struct {
		sc     c11Scenario
		pi, pn int
	}
	var mine []job
	for i, sc := range scs {
		if only := os.Getenv("VERIF_C11_ONLY"); only != "" && !strings.Contains(sc.Name, only) {
			continue
		}
		if vreport.Thorough() {
			// every process takes its share of the single-deviation schedules of every scenario
			mine = append(mine, job{sc, si, sn})
		} else if i%sn == si {
			mine = append(mine, job{sc, 0, 1})
		}
	}
	complete := true
	n := 0
	for _, j := range mine {
		if d := c11Determinism(j.sc); d != "" {
			vreport.HarnessError("C11", part, "nondeterministic scenario "+j.sc.Name+": "+d)
			complete = false
			continue
		}
		if !c11RunScenario(p, j.sc, time.Now().Add(budget), j.pi, j.pn) {
			complete = false
			p.Count("scenarios_with_a_windowed_or_cut_second_level", 1)
		}
		n++
	}
	p.Note("scenarios", n)
	second := "and every schedule with 2 deviations"
	if w := c11Window(); w > 0 {
		second = fmt.Sprintf("and, below every single-deviation schedule, the first %d schedules with a second deviation (DFS order: second deviation at the earliest following choice points)", w)
	}
	p.End(complete, fmt.Sprintf("%d scenarios (this process): 1-2 bolt requests on 1-2 downstream connections of 1-2 listeners, upstream scripts {reply-ok, delayed reply inside the drain time, silent with route timeout inside / beyond the drain time, error reply + retry}, bolt GoAway on/off, drain time 300ms (virtual), signal thread started at every scheduling point; every schedule of signal thread / per-listener shutdown goroutines / GoAway goroutine / drain poll / client readers / proxy workers / upstream peers / timers with <=1 deviation from the default scheduler (delay bounding) %s", n, second),
		"one evaluation = one complete execution of the real server.Shutdown()+Close() sequence against the real proxy stack under one schedule, observed at process exit; compared: (1)+(2) if server.Shutdown returns before the drain time ran out, every request completely handed to MOSN before the signal has exactly one complete response on its downstream connection, and not an error if its upstream answers OK; (3) the stop sequence returns, and (in executions where time passes only while nothing can run) at most drain time + one 10ms poll after the signal; (4) every downstream byte stream parses as complete bolt frames, at most one response per request, none for unknown ids; enumerated but NOT compared (the conjunct is silent): requests that reach MOSN partly or completely after the signal (served or lost at exit), number and position of GoAway frames; distinct = distinct (scenario, per-request phase at the signal + outcome, GoAway frames, time waited, peer actions)")
}
