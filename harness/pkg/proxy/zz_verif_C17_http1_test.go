//go:build verif

package proxy

// C17 over HTTP/1.1, end to end (unit http1-actions): the configured route
// actions must be visible ON THE WIRE - in the bytes MOSN writes to an HTTP/1.1
// upstream and in the bytes it writes back to the HTTP/1.1 client.
//
// Stack under test (all real, under the controlled scheduler's deterministic
// default schedule and virtual clock, rewrite set "c09http"): proxy filter,
// HTTP/1 server stream connection (fasthttp parser), router configuration built
// from JSON text by the real decoder, route matching, FinalizeRequestHeaders /
// FinalizeResponseHeaders chains, cluster manager (SIMPLE or STRICT_DNS cluster,
// round robin over two hosts), HTTP/1 connection pool, client stream connection
// (FillRequestHeadersFromCtxVar + fasthttp serialiser), retry state, timers.
// Environment: one client thread (one request), one scripted peer per upstream
// connection. Wire text is built and parsed by the harness' own HTTP/1 code
// (zz_verif_common_hphttp_test.go, independent of fasthttp).
//
// The tests are named TestVerifH1C17… so that the bolt unit's run pattern
// (^TestVerifC17, built without pkg/stream/http instrumentation) does not pick
// them up.
//
// Reference model: the h17Ref… functions below, written from the statement only
// (copied in spirit from harness/pkg/router/zz_verif_C17_ref_test.go, which is
// another package). Nothing in them calls into mosn.

import (
	"context"
	stdjson "encoding/json"
	"fmt"
	"os"
	"runtime"
	"sort"
	"strings"
	"testing"
	"time"

	"mosn.io/api"
	v2 "mosn.io/mosn/pkg/config/v2"
	"mosn.io/mosn/pkg/protocol"
	"mosn.io/mosn/pkg/router"
	_ "mosn.io/mosn/pkg/stream/http"
	"mosn.io/mosn/pkg/streamfilter"
	"mosn.io/mosn/pkg/types"
	"mosn.io/mosn/pkg/upstream/cluster"
	"mosn.io/mosn/pkg/verifrt/vfake"
	"mosn.io/mosn/pkg/verifrt/vreport"
	"mosn.io/mosn/pkg/verifrt/vrt"
	"mosn.io/pkg/variable"
)

// ---------------------------------------------------------------------------
// the grammar

// per-attempt upstream outcomes
const (
	h17OK          = "2xx"            // complete 200 response
	h17OKThenClose = "2xx-then-close" // complete 200 response, then the upstream closes the connection (a response has started: never retried)
	h17S503        = "503"            // complete 503 response (a 5xx, and the code listed in status_codes)
	h17S500        = "500"            // complete 500 response (a 5xx that is not listed)
	h17Close       = "close"          // the upstream closes the connection after it received the request (connection termination)
	h17Silent      = "silent"         // never answers: per-try timeout if one is configured, else the global timeout
	h17ConnFail    = "connect-fail"   // the connection to the attempt's host fails to connect
)

// route actions (one per case)
const (
	h17ActNone       = "none"
	h17ActPrefix     = "prefix_rewrite"
	h17ActRegex      = "regex_rewrite"
	h17ActHost       = "host_rewrite"
	h17ActAutoHost   = "auto_host_rewrite"
	h17ActHostHeader = "auto_host_rewrite_header"
)

const (
	h17PrefixRewrite = "/x"
	h17RegexPattern  = `^/a(.*)$`
	h17RegexSubst    = `/b$1`
	h17HostRewrite   = "h.new"
	h17HostHeader    = "x-host"
	h17HostHeaderVal = "alt.example"
	h17ReqKey        = "x-k" // request header the three levels mutate
	h17RespKey       = "x-r" // response header the three levels mutate
)

var h17Ops = []string{"", "append", "overwrite", "remove"}
var h17LevelValues = [3]string{"r", "v", "g"} // value added by route / virtual host / router level
var h17LevelNames = [3]string{"route", "virtual host", "router"}

type h17Redirect struct {
	Scheme string `json:"scheme,omitempty"`
	Host   string `json:"host,omitempty"`
	Path   string `json:"path,omitempty"`
	Code   int    `json:"code,omitempty"`
}

type h17Direct struct {
	Status int    `json:"status"`
	Body   string `json:"body"`
}

type h17Retry struct {
	RetryOn      bool     `json:"retry_on"`
	NumRetries   int      `json:"num_retries"`
	Codes        []uint32 `json:"status_codes,omitempty"`
	TryTimeoutMs int      `json:"try_timeout_ms,omitempty"`
}

// h17Case is one execution: a configuration, one request, a per-attempt upstream script.
type h17Case struct {
	Kind        string       `json:"kind"` // forward | redirect | direct | retry
	Action      string       `json:"action,omitempty"`
	ClusterType string       `json:"cluster_type,omitempty"` // SIMPLE (default) | STRICT_DNS
	ReqOps      [3]string    `json:"req_ops"`                // route, virtual host, router: "", append, overwrite, remove on x-k
	RespOps     [3]string    `json:"resp_ops"`               // ... on x-r
	MixedKey    bool         `json:"mixed_key,omitempty"`    // the mutations are configured as X-K / X-R (the messages carry x-k / x-r)
	// value class of the addition at each level ("" = the level's letter r/v/g; "empty" = configured value "";
	// "qvar" = "%x-mosn-querystring%", a registered variable the HTTP/1 server stream sets only for a request with a query)
	ReqVals  [3]string `json:"req_vals"`
	RespVals [3]string `json:"resp_vals"`
	Has         bool         `json:"has"`                    // the request carries x-k: 0 and the upstream response carries x-r: 0
	HostHdr     bool         `json:"host_hdr,omitempty"`     // the request carries x-host: alt.example
	URI         string       `json:"uri"`
	Host        string       `json:"host"`
	Body        bool         `json:"body,omitempty"` // POST with a body
	Redirect    *h17Redirect `json:"redirect,omitempty"`
	Direct      *h17Direct   `json:"direct,omitempty"`
	Retry       *h17Retry    `json:"retry,omitempty"`
	TimeoutMs   int          `json:"timeout_ms,omitempty"` // route timeout
	Script      []string     `json:"script,omitempty"`     // attempt k gets Script[k], the last entry repeats
	EjectFirst  bool         `json:"eject_first,omitempty"`
	// kind retry-consistency: Script is [X, 2xx]; a second execution runs Script2 = [P, X, 2xx]
	Script2 []string `json:"script2,omitempty"`
	// kind timeout: the request carries x-mosn-global-timeout / x-mosn-try-timeout (ms; 0 = absent)
	HdrGlobalMs int `json:"hdr_global_ms,omitempty"`
	HdrTryMs    int `json:"hdr_try_ms,omitempty"`
}

func (c *h17Case) script(k int) string {
	if len(c.Script) == 0 {
		return h17OK
	}
	if k >= len(c.Script) {
		k = len(c.Script) - 1
	}
	return c.Script[k]
}

func h17OpsString(o [3]string) string {
	s := make([]string, 3)
	for i, op := range o {
		if op == "" {
			op = "-"
		}
		s[i] = op
	}
	return strings.Join(s, "/")
}

// ---------------------------------------------------------------------------
// reference model (from the statement; independent of mosn)

// h17Split: request-target -> raw path, query (without '?'), has '?'
func h17Split(uri string) (string, string, bool) {
	if i := strings.IndexByte(uri, '?'); i >= 0 {
		return uri[:i], uri[i+1:], true
	}
	return uri, "", false
}

// h17Norm is the path as a router sees it after the usual normalisation of the alphabet's
// paths: %2F decoded, empty segments dropped. The alphabet contains no other escape.
func h17Norm(p string) string {
	p = strings.ReplaceAll(strings.ReplaceAll(p, "%2F", "/"), "%2f", "/")
	for strings.Contains(p, "//") {
		p = strings.ReplaceAll(p, "//", "/")
	}
	return p
}

// h17MatchedPrefix: the configuration has the routes prefix "/a" and prefix "/" (in that order),
// both carrying the same action.
func h17MatchedPrefix(uri string) string {
	p, _, _ := h17Split(uri)
	if strings.HasPrefix(h17Norm(p), "/a") {
		return "/a"
	}
	return "/"
}

// h17RefTargets returns the request-targets the upstream request line may carry.
//
// No path rewrite configured: exactly the received request-target. prefix_rewrite on a route
// matched by prefix P: the rewrite followed by what follows P, regex_rewrite: the substitution;
// the statement does not say whether a rewrite sees the path as received or normalised
// (%2F, //), so both readings are accepted for the two non-normal paths of the alphabet. The
// query is no part of the path: it must come through unchanged.
func h17RefTargets(c *h17Case) []string {
	raw, q, hasQ := h17Split(c.URI)
	paths := []string{raw}
	switch c.Action {
	case h17ActPrefix:
		p := h17MatchedPrefix(c.URI)
		paths = nil
		for _, v := range []string{raw, h17Norm(raw)} {
			if strings.HasPrefix(v, p) {
				paths = append(paths, h17PrefixRewrite+v[len(p):])
			}
		}
	case h17ActRegex: // ^/a(.*)$ -> /b$1, written by hand
		paths = nil
		for _, v := range []string{raw, h17Norm(raw)} {
			if strings.HasPrefix(v, "/a") {
				v = "/b" + v[2:]
			}
			paths = append(paths, v)
		}
	}
	var out []string
	if hasQ && q == "" && len(paths) > 0 && (c.Action == h17ActPrefix || c.Action == h17ActRegex) {
		// an empty query: whether the bare '?' survives a rewrite is not in the statement
		paths = append(paths, paths...)
		for i := 0; i < len(paths)/2; i++ {
			out = append(out, paths[i])
		}
		paths = paths[len(paths)/2:]
	}
	for _, p := range paths {
		if hasQ {
			p += "?" + q
		}
		dup := false
		for _, o := range out {
			dup = dup || o == p
		}
		if !dup {
			out = append(out, p)
		}
	}
	return out
}

func h17HostName(i int) string { return fmt.Sprintf("up%d.internal", i) }

// h17RefHosts returns the Host values an attempt sent to host `host` may carry.
// host_rewrite: the literal; auto_host_rewrite_header: the value of that request header if the
// request has it, else unchanged; auto_host_rewrite: the hostname of the upstream host the attempt
// goes to (decided for a STRICT_DNS cluster, whose hosts have DNS names; on a SIMPLE cluster the
// statement decides nothing: unchanged or the hostname); otherwise unchanged.
func h17RefHosts(c *h17Case, host int) []string {
	switch c.Action {
	case h17ActHost:
		return []string{h17HostRewrite}
	case h17ActHostHeader:
		if c.HostHdr {
			return []string{h17HostHeaderVal}
		}
	case h17ActAutoHost:
		if c.ClusterType == "STRICT_DNS" {
			return []string{h17HostName(host)}
		}
		return []string{c.Host, h17HostName(host)}
	}
	return []string{c.Host}
}

// h17RefHeader applies the three levels in the order route, virtual host, router to the values
// the message carries for the key: append adds after the existing ones, overwrite replaces them
// all, remove deletes them all.
func h17RefHeader(initial []string, ops [3]string, order [3]int) []string {
	vals := append([]string(nil), initial...)
	for _, l := range order {
		switch ops[l] {
		case "append":
			vals = append(vals, h17LevelValues[l])
		case "overwrite":
			vals = []string{h17LevelValues[l]}
		case "remove":
			vals = nil
		}
	}
	return vals
}

var h17Order = [3]int{0, 1, 2}

// --- value alphabet of header additions (part http1-header-values) ---

func (c *h17Case) hasVals() bool { return c.ReqVals != [3]string{} || c.RespVals != [3]string{} }

// h17ValText: the configured value text of a class at a level.
func h17ValText(level int, class string) string {
	switch class {
	case "empty":
		return ""
	case "qvar":
		return "%" + types.VarQueryString + "%"
	}
	return h17LevelValues[level]
}

// h17ValEval: the evaluated value (reference): the configured text; for %x-mosn-querystring% the
// query of the request received, empty when it has none.
func h17ValEval(c *h17Case, level int, class string) string {
	switch class {
	case "empty":
		return ""
	case "qvar":
		_, q, _ := h17Split(c.URI)
		return q
	}
	return h17LevelValues[level]
}

func h17ValClassName(c *h17Case, class string) string {
	switch class {
	case "empty":
		return "empty static value"
	case "qvar":
		if _, q, _ := h17Split(c.URI); q == "" {
			return "%variable% not set for the request"
		}
		return "%variable% set"
	}
	return "static value"
}

// h17RefHeaderVals: route, then virtual host, then router level; overwrite replaces every value by
// the evaluated value (also by an empty one), append adds it after the existing ones. drop: a
// level left out (diagnosis), -1 = none.
func h17RefHeaderVals(c *h17Case, initial []string, ops, vals [3]string, drop int) []string {
	v := append([]string(nil), initial...)
	for l := 0; l < 3; l++ {
		if l == drop {
			continue
		}
		switch ops[l] {
		case "append":
			v = append(v, h17ValEval(c, l, vals[l]))
		case "overwrite":
			v = []string{h17ValEval(c, l, vals[l])}
		case "remove":
			v = nil
		}
	}
	return v
}

func h17NonEmpty(v []string) []string {
	var out []string
	for _, x := range v {
		if x = strings.TrimSpace(x); x != "" {
			out = append(out, x)
		}
	}
	return out
}

// h17CheckHeaderValues compares the NON-EMPTY members of the key's values, in order (accepted both
// ways: an empty header line vs no line after an overwrite with an empty value, "v," vs "v" after
// an append of an empty value).
func h17CheckHeaderValues(c *h17Case, dir string, initial []string, ops, vals [3]string, got []string, report func(key, detail string)) {
	g := strings.Join(h17NonEmpty(got), ",")
	want := h17NonEmpty(h17RefHeaderVals(c, initial, ops, vals, -1))
	if g == strings.Join(want, ",") {
		return
	}
	var desc []string
	for l := 0; l < 3; l++ {
		switch ops[l] {
		case "":
			desc = append(desc, "-")
		case "remove":
			desc = append(desc, "remove")
		default:
			desc = append(desc, fmt.Sprintf("add append=%v, %s", ops[l] == "append", h17ValClassName(c, vals[l])))
		}
	}
	what := "(value alphabet) resulting values differ from route -> virtual host -> router application"
	for l := 0; l < 3; l++ {
		if ops[l] != "" && g == strings.Join(h17NonEmpty(h17RefHeaderVals(c, initial, ops, vals, l)), ",") {
			what = fmt.Sprintf("%s-level %s: not applied (the message keeps what it carried before this level)", h17LevelNames[l], desc[l])
			break
		}
	}
	report(fmt.Sprintf("http1 %s-headers: %s", dir, what),
		fmt.Sprintf("message carried %v; mutations route: %s; virtual host: %s; router: %s: the wire carries %q, expected the non-empty values %q", initial, desc[0], desc[1], desc[2], got, want))
}

// h17GenValues: (route, virtual host, router) each in {none, add append=true, add append=false} x value class
// {static letter, empty static value, %x-mosn-querystring%} x message carries the key or not x request-targets
// with and without a query x {no rewrite, prefix_rewrite}; the response side gets the vector rotated by one level.
func h17GenValues(yield func(h17Case) bool) bool {
	type alt struct{ op, val string }
	alts := []alt{{"", ""}}
	for _, op := range []string{"append", "overwrite"} {
		for _, v := range []string{"", "empty", "qvar"} {
			alts = append(alts, alt{op, v})
		}
	}
	uris := []string{"/a/b?x=1", "/a", "/ab/c?y"}
	actions := []string{h17ActNone, h17ActPrefix}
	if vreport.Thorough() {
		alts = append(alts, alt{"remove", ""})
		uris = append(uris, "/a?", "/", "/a/b/?x=1&y=%2F")
		actions = append(actions, h17ActRegex, h17ActHost)
	}
	for _, act := range actions {
		for _, uri := range uris {
			for _, has := range []bool{false, true} {
				for _, a0 := range alts {
					for _, a1 := range alts {
						for _, a2 := range alts {
							ops, vals := [3]string{a0.op, a1.op, a2.op}, [3]string{a0.val, a1.val, a2.val}
							if vals == [3]string{} {
								continue // the plain grid is part http1-forward-actions
							}
							c := h17Case{Kind: "forward", Action: act, ReqOps: ops, ReqVals: vals,
								RespOps: [3]string{ops[1], ops[2], ops[0]}, RespVals: [3]string{vals[1], vals[2], vals[0]},
								Has: has, URI: uri, Host: "verif.example", TimeoutMs: 1000}
							if !yield(c) {
								return false
							}
						}
					}
				}
			}
		}
	}
	return true
}

func TestVerifH1C17HeaderValues(t *testing.T) {
	h17Part("http1-header-values", h17GenValues,
		"request-header vector (route, virtual host, router) each in {none, add append=true, add append=false} x value class {static letter, empty static value, %x-mosn-querystring% (a registered variable the HTTP/1 server stream sets only for a request with a non-empty query)} on x-k (7^3 minus the all-static vectors; the response header x-r gets the same vector rotated by one level) x {message carries the key, does not} x request-targets {/a/b?x=1, /a, /ab/c?y} (thorough: + /a?, /, /a/b/?x=1&y=%2F, remove at each level) x route action {none, prefix_rewrite} (thorough: + regex_rewrite, host_rewrite); one exchange each through the real proxy on HTTP/1.1 fake connections, deterministic default schedule",
		"full cartesian product. Reference: the evaluated value of an addition is the configured text, for %x-mosn-querystring% the query of the request received (empty when it has none); overwrite replaces every value by the evaluated value - also by an empty one -, append adds it after the existing ones; route, virtual host, router in that order. Compared on the upstream wire (x-k) and the downstream wire (x-r): the NON-EMPTY comma-separated members of the values, in order (accepted both ways: empty header line vs no line after an overwrite with an empty value, 'v,' vs 'v' after an append of an empty value); plus everything part http1-forward-actions compares (request-target, Host, x-other, method, body, status). distinct = the case; outcome = what was seen on both wires")
}

// h17RefLocations: the redirect target is the request's own URL (scheme http on this listener)
// with the configured parts replaced; the query is kept. Where the statement is silent, both
// readings are accepted: a non-normal path that is not replaced (as received / normalised), and a
// default port (:80) of the old scheme left in a host that is not replaced when the scheme changes.
func h17RefLocations(c *h17Case) []string {
	rd := c.Redirect
	raw, q, hasQ := h17Split(c.URI)
	scheme, hosts, paths := "http", []string{c.Host}, []string{raw, h17Norm(raw)}
	if rd.Scheme != "" {
		scheme = rd.Scheme
	}
	if rd.Host != "" {
		hosts = []string{rd.Host}
	} else if scheme != "http" && strings.HasSuffix(c.Host, ":80") {
		hosts = append(hosts, strings.TrimSuffix(c.Host, ":80"))
	}
	if rd.Path != "" {
		paths = []string{rd.Path}
	}
	var out []string
	for _, h := range hosts {
		for _, p := range paths {
			l := scheme + "://" + h + p
			if hasQ && q != "" {
				l += "?" + q
			} else if hasQ {
				out = append(out, l+"?") // a bare '?': kept or not, the statement does not say
			}
			out = append(out, l)
		}
	}
	return out
}

// h17Budget: the retry budget as the code documents it (retrystate.go: a num_retries below 3 is
// raised to 3), the reading of "configured retry budget" the C17 policy unit uses.
func h17Budget(rp *h17Retry) int {
	if rp != nil && rp.NumRetries > 3 {
		return rp.NumRetries
	}
	return 3
}

// h17Retryable: is outcome o one of the configured retry conditions?
// decided=false: the statement does not say, both readings are accepted:
//   - a connection failure without retry_on (retrystate.go retries it "by default");
//   - an HTTP/1 upstream that closes the connection while the request is in flight: the quantifier's
//     "termination". pkg/stream/http classifies a remote close as UpstreamReset (not a retry condition),
//     the xprotocol stream layer as connection termination (retried under retry_on).
func h17Retryable(rp *h17Retry, o string) (retry, decided bool) {
	on := rp != nil && rp.RetryOn
	switch o {
	case h17OK, h17OKThenClose:
		return false, true
	case h17S503:
		return on, true // a 5xx, and the listed code
	case h17S500:
		return on && len(rp.Codes) == 0, true // only 503 is listed
	case h17Close:
		if on {
			return false, false
		}
		return false, true
	case h17Silent:
		// per-try timeout: a retry condition under retry_on; without a per-try timeout the global
		// timeout ends the request, which is never retried
		return on && rp.TryTimeoutMs > 0, true
	case h17ConnFail:
		if on {
			return true, true
		}
		return false, false
	}
	return false, true
}

// h17RefAttempts walks the script: the allowed (number of upstream attempts -> final outcome)
// pairs; more than one where an outcome on the way is undecided.
func h17RefAttempts(c *h17Case) map[int]string {
	budget := h17Budget(c.Retry)
	out := map[int]string{}
	var walk func(attempts int)
	walk = func(attempts int) {
		o := c.script(attempts)
		attempts++
		r, d := h17Retryable(c.Retry, o)
		if !d {
			out[attempts] = o // reading "not a retry condition"
			r = true          // reading "a retry condition"
		}
		if !r || attempts > budget {
			out[attempts] = o
			return
		}
		walk(attempts)
	}
	walk(0)
	return out
}

// h17RefTimeout: the effective timeout of a request to a silent upstream, no retry_on: the global
// timeout is the request's timeout header if present, else the route's, else the default (60 s)
// (HTTP/1 has no protocol-supplied timeout); the per-try timeout is the request's header if present,
// else the route's; a per-try timeout not shorter than the global one is ignored; the request ends at
// the per-try timeout if there is one, else at the global timeout.
func h17RefTimeout(c *h17Case) int64 {
	global := int64(60000)
	switch {
	case c.HdrGlobalMs > 0:
		global = int64(c.HdrGlobalMs)
	case c.TimeoutMs > 0:
		global = int64(c.TimeoutMs)
	}
	try := int64(c.Retry.TryTimeoutMs)
	if c.HdrTryMs > 0 {
		try = int64(c.HdrTryMs)
	}
	if try > 0 && try < global {
		return try
	}
	return global
}

// ---------------------------------------------------------------------------
// configuration text

func h17Key(c *h17Case, k string) string {
	if c.MixedKey {
		return strings.ToUpper(k)
	}
	return k
}

func h17PutMut(c *h17Case, obj map[string]interface{}, level int) {
	for _, d := range []struct {
		dir, key, op, val string
	}{{"request", h17ReqKey, c.ReqOps[level], c.ReqVals[level]}, {"response", h17RespKey, c.RespOps[level], c.RespVals[level]}} {
		switch d.op {
		case "append", "overwrite":
			obj[d.dir+"_headers_to_add"] = []interface{}{map[string]interface{}{
				"header": map[string]interface{}{"key": h17Key(c, d.key), "value": h17ValText(level, d.val)},
				"append": d.op == "append",
			}}
		case "remove":
			obj[d.dir+"_headers_to_remove"] = []interface{}{h17Key(c, d.key)}
		}
	}
}

func h17RouterConfig(c *h17Case) (*v2.RouterConfiguration, string) {
	action := map[string]interface{}{"cluster_name": hpCluster}
	if c.TimeoutMs > 0 {
		action["timeout"] = fmt.Sprintf("%dms", c.TimeoutMs)
	}
	switch c.Action {
	case h17ActPrefix:
		action["prefix_rewrite"] = h17PrefixRewrite
	case h17ActRegex:
		action["regex_rewrite"] = map[string]interface{}{"pattern": map[string]interface{}{"regex": h17RegexPattern}, "substitution": h17RegexSubst}
	case h17ActHost:
		action["host_rewrite"] = h17HostRewrite
	case h17ActAutoHost:
		action["auto_host_rewrite"] = true
	case h17ActHostHeader:
		action["auto_host_rewrite_header"] = h17HostHeader
	}
	if rp := c.Retry; rp != nil {
		m := map[string]interface{}{"retry_on": rp.RetryOn, "num_retries": rp.NumRetries}
		if rp.TryTimeoutMs > 0 {
			m["retry_timeout"] = fmt.Sprintf("%dms", rp.TryTimeoutMs)
		}
		if len(rp.Codes) > 0 {
			m["status_codes"] = rp.Codes
		}
		action["retry_policy"] = m
	}
	h17PutMut(c, action, 0)
	var routes []interface{}
	for _, prefix := range []string{"/a", "/"} {
		r := map[string]interface{}{"match": map[string]interface{}{"prefix": prefix}, "route": action}
		if rd := c.Redirect; rd != nil {
			m := map[string]interface{}{}
			if rd.Scheme != "" {
				m["scheme_redirect"] = rd.Scheme
			}
			if rd.Host != "" {
				m["host_redirect"] = rd.Host
			}
			if rd.Path != "" {
				m["path_redirect"] = rd.Path
			}
			if rd.Code != 0 {
				m["response_code"] = rd.Code
			}
			r["redirect"] = m
		}
		if d := c.Direct; d != nil {
			r["direct_response"] = map[string]interface{}{"status": d.Status, "body": d.Body}
		}
		routes = append(routes, r)
	}
	vh := map[string]interface{}{"name": "vh", "domains": []string{"*"}, "routers": routes}
	h17PutMut(c, vh, 1)
	cfg := map[string]interface{}{"router_config_name": hpRouterName, "virtual_hosts": []interface{}{vh}}
	h17PutMut(c, cfg, 2)
	b, _ := stdjson.Marshal(cfg)
	rc := &v2.RouterConfiguration{}
	if err := stdjson.Unmarshal(b, rc); err != nil {
		panic(err)
	}
	return rc, string(b)
}

func h17ClusterConfig(c *h17Case) (v2.Cluster, []v2.Host) {
	cc := v2.Cluster{Name: hpCluster, ClusterType: v2.SIMPLE_CLUSTER, LbType: v2.LB_ROUNDROBIN}
	if c.ClusterType == "STRICT_DNS" {
		// host addresses are IP literals: the cluster never starts a resolver (strict_dns_cluster.go UpdateHosts)
		cc.ClusterType = v2.STRICT_DNS_CLUSTER
		cc.DnsResolverConfig = v2.DnsResolverConfig{Servers: []string{"127.0.0.1"}, Port: "53"}
	}
	var hosts []v2.Host
	for i := 0; i < 2; i++ {
		hosts = append(hosts, v2.Host{HostConfig: v2.HostConfig{Address: hpHostAddr(i), Hostname: h17HostName(i), Weight: 1}})
	}
	return cc, hosts
}

// ---------------------------------------------------------------------------
// wire text

func h17RequestBytes(c *h17Case) []byte {
	var sb strings.Builder
	method := "GET"
	if c.Body {
		method = "POST"
	}
	fmt.Fprintf(&sb, "%s %s HTTP/1.1\r\nHost: %s\r\nx-other: o\r\n", method, c.URI, c.Host)
	if c.Has {
		fmt.Fprintf(&sb, "%s: 0\r\n", h17ReqKey)
	}
	if c.HostHdr {
		fmt.Fprintf(&sb, "%s: %s\r\n", h17HostHeader, h17HostHeaderVal)
	}
	if c.HdrGlobalMs > 0 {
		fmt.Fprintf(&sb, "x-mosn-global-timeout: %d\r\n", c.HdrGlobalMs)
	}
	if c.HdrTryMs > 0 {
		fmt.Fprintf(&sb, "x-mosn-try-timeout: %d\r\n", c.HdrTryMs)
	}
	if c.Body {
		sb.WriteString("Content-Type: text/plain\r\nContent-Length: 7\r\n\r\nreqbody")
	} else {
		sb.WriteString("\r\n")
	}
	return []byte(sb.String())
}

func h17ResponseBytes(c *h17Case, status, serial int) []byte {
	var sb strings.Builder
	fmt.Fprintf(&sb, "HTTP/1.1 %d Scripted\r\nrserial: %d\r\nx-other-r: o\r\n", status, serial)
	if c.Has {
		fmt.Fprintf(&sb, "%s: 0\r\n", h17RespKey)
	}
	body := fmt.Sprintf("resp-%d", serial)
	fmt.Fprintf(&sb, "Content-Type: text/plain\r\nContent-Length: %d\r\n\r\n%s", len(body), body)
	return []byte(sb.String())
}

// h17Values: the values a parsed message carries for a (lower-case) name, flattened with ','
// ("joined into one line" and "a further line" are the same thing for a list-valued field).
func h17Values(m *hhMsg, name string) []string {
	v, ok := m.Headers[name]
	if !ok {
		return nil
	}
	var out []string
	for _, line := range strings.Split(v, "\n") {
		for _, x := range strings.Split(line, ",") {
			out = append(out, strings.TrimSpace(x))
		}
	}
	return out
}

// ---------------------------------------------------------------------------
// one execution

type h17Attempt struct {
	Host     int
	ConnFail bool
	Req      *hhMsg // nil for a connect failure
	Up       int    // index of the upstream connection
	Script   string
	Serial   int // rserial of the response the peer sent (0: none)
}

type h17Up struct {
	Conn     *vfake.Conn
	Host     int
	Requests []hhMsg
	parsed   int
	acted    int
	Garbage  string
}

type h17Obs struct {
	Down      *vfake.Conn
	Responses []hhMsg
	Garbage   string
	Ups       []*h17Up
	Attempts  []*h17Attempt
	Log       []string
	Active    int
	Unreal    string // the script could not be realised (e.g. connect-fail on an attempt that reuses a pooled connection)
	Config    string
}

type h17Run struct {
	c         *h17Case
	obs       *h17Obs
	done      bool
	serial    int
	healthPtr [2]*uint64
}

func (h *h17Run) logf(f string, a ...interface{}) { h.obs.Log = append(h.obs.Log, fmt.Sprintf(f, a...)) }

// parseAll appends the complete requests MOSN wrote since the last call; every new request is the
// next upstream attempt (attempts of one downstream request are sequential).
func (h *h17Run) parseAll() {
	for ui, u := range h.obs.Ups {
		if u.Garbage != "" || u.Conn == nil {
			continue
		}
		w := u.Conn.Written()
		msgs, _, garbage := hhParseAll(w[u.parsed:], false)
		for i := range msgs {
			m := msgs[i]
			u.parsed += m.Raw
			m.End = u.parsed
			m.Seq = hpSeqAt(u.Conn, u.parsed)
			m.AtMs = hpTimeAt(u.Conn, u.parsed)
			u.Requests = append(u.Requests, m)
			k := len(h.obs.Attempts)
			h.obs.Attempts = append(h.obs.Attempts, &h17Attempt{Host: u.Host, Req: &u.Requests[len(u.Requests)-1], Up: ui, Script: h.c.script(k)})
		}
		u.Garbage = garbage
	}
	// (pointers into u.Requests stay valid only until the next append: re-point them)
	for _, a := range h.obs.Attempts {
		if a.Req != nil {
			u := h.obs.Ups[a.Up]
			for i := range u.Requests {
				if u.Requests[i].Seq == a.Req.Seq {
					a.Req = &u.Requests[i]
				}
			}
		}
	}
}

func (h *h17Run) attemptOf(u *h17Up, n int) (int, *h17Attempt) {
	for k, a := range h.obs.Attempts {
		if a.Req != nil && h.obs.Ups[a.Up] == u && a.Req.Seq == u.Requests[n].Seq {
			return k, a
		}
	}
	return -1, nil
}

func (h *h17Run) onUpstreamConn(c *vfake.Conn) {
	h.parseAll()
	u := &h17Up{Conn: c, Host: hpHostIndex(c.RemoteAddr().String())}
	idx := len(h.obs.Ups)
	h.obs.Ups = append(h.obs.Ups, u)
	k := len(h.obs.Attempts) // the attempt this connection is created for
	if h.c.script(k) == h17ConnFail {
		c.Outcome = vfake.ConnectFail
		h.obs.Attempts = append(h.obs.Attempts, &h17Attempt{Host: u.Host, ConnFail: true, Up: idx, Script: h17ConnFail})
		h.logf("conn%d to host%d (attempt %d): connect fails", idx, u.Host, k)
		if h.c.EjectFirst && k == 0 {
			*h.healthPtr[u.Host] |= uint64(api.FAILED_ACTIVE_HC)
		}
		return
	}
	vrt.GoNamed(fmt.Sprintf("env:up-peer%d", idx), func() {
		for {
			vrt.WaitUntil("upstream peer: next request to act on", func() bool {
				if h.done || c.IsClosed() {
					return false
				}
				h.parseAll()
				return len(u.Requests) > u.acted
			})
			n := u.acted
			u.acted++
			k, a := h.attemptOf(u, n)
			if a == nil {
				h.obs.Unreal = "request on an upstream connection that is no recorded attempt"
				return
			}
			act := a.Script
			h.logf("peer%d(host%d): attempt %d %s %s -> %s", idx, u.Host, k, a.Req.Method, a.Req.Path, act)
			if h.c.EjectFirst && k == 0 {
				// the first attempt's host fails its active health check before the retry is decided
				*h.healthPtr[u.Host] |= uint64(api.FAILED_ACTIVE_HC)
			}
			reply := func(status int) []byte {
				h.serial++
				a.Serial = h.serial
				return h17ResponseBytes(h.c, status, h.serial)
			}
			switch act {
			case h17OK:
				c.InjectRead(reply(200))
			case h17OKThenClose:
				c.InjectRead(reply(200))
				c.RemoteClose()
				return
			case h17S503:
				c.InjectRead(reply(503))
			case h17S500:
				c.InjectRead(reply(500))
			case h17Silent:
			case h17Close:
				c.RemoteClose()
				return
			case h17ConnFail:
				// the attempt reused a pooled connection: a connect failure cannot happen here
				h.obs.Unreal = "connect-fail scripted for an attempt that reused a pooled connection"
				c.RemoteClose()
				return
			}
		}
	})
}

var h17Execs int

// h17Body is the body of thread 0.
func h17Body(c *h17Case, obs *h17Obs) {
	hhInit()
	if h17Execs++; h17Execs%32 == 0 {
		runtime.GC() // (the collector is off during executions, see hhInit)
	}
	*obs = h17Obs{}
	h := &h17Run{c: c, obs: obs}
	vfake.Reset()
	vfake.OnCreate = func(vc *vfake.Conn) { h.onUpstreamConn(vc) }

	if cm := cluster.GetClusterMngAdapterInstance().ClusterManager; cm != nil {
		if d, ok := cm.(interface{ Destroy() }); ok {
			d.Destroy()
		}
	}
	cc, hosts := h17ClusterConfig(c)
	cluster.NewClusterManagerSingleton([]v2.Cluster{cc}, map[string][]v2.Host{hpCluster: hosts}, nil)
	for i := 0; i < 2; i++ {
		h.healthPtr[i] = cluster.GetHealthFlagPointer(hpHostAddr(i))
		*h.healthPtr[i] = 0
	}
	rcfg, text := h17RouterConfig(c)
	obs.Config = text
	if err := router.GetRoutersMangerInstance().AddOrUpdateRouters(rcfg); err != nil {
		panic("h17: router configuration rejected: " + err.Error() + ": " + text)
	}
	streamfilter.GetStreamFilterManager().AddOrUpdateStreamFilterConfig(hpListener, nil)

	ctx := variable.NewVariableContext(context.Background())
	_ = variable.Set(ctx, types.VariableAccessLogs, []api.AccessLog{})
	_ = variable.Set(ctx, types.VariableListenerName, hpListener)
	_ = variable.Set(ctx, types.VarProtocolConfig, []api.ProtocolName{protocol.HTTP1})
	down := vfake.NewServerSide("down")
	_ = variable.Set(ctx, types.VariableConnection, down)
	_ = variable.Set(ctx, types.VariableConnectionID, down.ID())
	obs.Down = down
	p := NewProxy(ctx, &v2.Proxy{DownstreamProtocol: string(protocol.HTTP1), UpstreamProtocol: string(protocol.HTTP1), RouterConfigName: hpRouterName}).(*proxy)
	down.FilterManager().AddReadFilter(p)
	down.FilterManager().InitializeReadFilters()
	if p.serverStreamConn == nil {
		panic("h17: the proxy did not create the server stream connection from its configured protocol")
	}
	vrt.GoNamed("env:down-client", func() { down.InjectRead(h17RequestBytes(c)) })
	vrt.Quiesce()
	h.done = true

	h.parseAll()
	w := down.Written()
	msgs, n, garbage := hhParseAll(w, true)
	end := 0
	for i := range msgs {
		end += msgs[i].Raw
		msgs[i].End = end
		msgs[i].Seq = hpSeqAt(down, end)
		msgs[i].AtMs = hpTimeAt(down, end)
	}
	if garbage == "" && n != len(w) {
		garbage = fmt.Sprintf("%d trailing bytes that are not a complete response: %q", len(w)-n, hhShort(w[n:]))
	}
	obs.Responses, obs.Garbage = msgs, garbage
	obs.Active = p.activeStreams.Len()
}

// ---------------------------------------------------------------------------
// the oracle

func h17In(l []string, s string) bool {
	for _, x := range l {
		if x == s {
			return true
		}
	}
	return false
}

func h17PathClass(uri string) string {
	raw, _, hasQ := h17Split(uri)
	s := "plain path"
	if raw != h17Norm(raw) {
		s = "non-normal path (%2F or //)"
	}
	if hasQ {
		s += " with query"
	}
	return s
}

func h17HeaderDiagnosis(initial []string, ops [3]string, got []string) string {
	g := strings.Join(got, ",")
	if g == strings.Join(initial, ",") {
		return "configured mutations not applied (header unchanged)"
	}
	for _, perm := range [][3]int{{2, 1, 0}, {0, 2, 1}, {1, 0, 2}, {1, 2, 0}, {2, 0, 1}} {
		if g == strings.Join(h17RefHeader(initial, ops, perm), ",") {
			return fmt.Sprintf("result equals the level order %s -> %s -> %s", h17LevelNames[perm[0]], h17LevelNames[perm[1]], h17LevelNames[perm[2]])
		}
	}
	// append treated as overwrite / overwrite as append
	swap := ops
	for i := range swap {
		switch swap[i] {
		case "append":
			swap[i] = "overwrite"
		case "overwrite":
			swap[i] = "append"
		}
	}
	if g == strings.Join(h17RefHeader(initial, swap, h17Order), ",") {
		return "result equals append and overwrite exchanged"
	}
	return "resulting values differ"
}

// h17EvalConsistency: whether an attempt's outcome X is retried must not depend on how an EARLIER
// attempt of the same request ended: the configured conditions are a function of the policy and of
// the attempt's own outcome. Two executions under the same policy: X as the first attempt, and X as
// the second attempt after a first attempt that ended with a retriable response status.
func h17EvalConsistency(p *vreport.Part, c h17Case) {
	run := func(script []string) (*h17Obs, string) {
		cc := c
		cc.Script = script
		obs := &h17Obs{}
		problem := ""
		vrt.Explore(vrt.Options{Bound: 0, Delay: true, MaxSteps: 400000, MaxExecs: 1, Replay: vreport.Replaying()}, func() { h17Body(&cc, obs) }, func(r *vrt.Result) {
			if kind, detail, _ := hhExecProblem(r); kind != "" {
				problem = kind + ": " + detail
			} else if obs.Unreal != "" {
				problem = "unrealisable: " + obs.Unreal
			} else if len(obs.Responses) != 1 {
				problem = fmt.Sprintf("%d responses", len(obs.Responses))
			}
		})
		return obs, problem
	}
	x, pre := c.Script[0], c.Script2[0]
	p.Distinct(fmt.Sprintf("consistency|%+v|%s|after %s", *c.Retry, x, pre))
	o1, p1 := run(c.Script)
	o2, p2 := run(c.Script2)
	if p1 != "" || p2 != "" {
		p.Count("consistency_cases_skipped(an execution did not end with one reply)", 1)
		return
	}
	if len(o2.Attempts) < 2 {
		// the first attempt's status is no retry condition under this policy: X never happened as a second attempt
		p.Count("consistency_cases_not_applicable(first attempt not retried)", 1)
		p.Outcome("consistency|n/a")
		return
	}
	alone, after := len(o1.Attempts) > 1, len(o2.Attempts) > 2
	p.Outcome(fmt.Sprintf("consistency|%s|alone-retried=%v|after-%s-retried=%v", x, alone, pre, after))
	if p.WantSample() {
		p.Sample(map[string]interface{}{"case": c, "retried_as_first_attempt": alone, "retried_after_a_" + pre: after})
	}
	if alone != after {
		what := fmt.Sprintf("an attempt ended by '%s' is retried after an attempt that was answered with a retriable status, but not as the first attempt", x)
		if alone {
			what = fmt.Sprintf("an attempt ended by '%s' is retried as the first attempt, but not after an attempt that was answered with a retriable status", x)
		}
		p.Violation("http1 retry: the decision to retry depends on an earlier attempt's response status: "+what,
			fmt.Sprintf("policy %+v: script %v -> %d attempts %v; script %v -> %d attempts %v | config %s", *c.Retry, c.Script, len(o1.Attempts), o1.Log, c.Script2, len(o2.Attempts), o2.Log, o1.Config), c)
	}
}

func h17Eval(p *vreport.Part, c h17Case) {
	if c.Kind == "retry-consistency" {
		h17EvalConsistency(p, c)
		return
	}
	obs := &h17Obs{}
	opts := vrt.Options{Bound: 0, Delay: true, MaxSteps: 400000, MaxExecs: 1}
	if vreport.Replaying() {
		opts.Replay = true
	}
	vrt.Explore(opts, func() { h17Body(&c, obs) }, func(r *vrt.Result) {
		report := func(key, detail string) {
			var wire []string
			for i, u := range obs.Ups {
				wire = append(wire, fmt.Sprintf("up%d(host%d)=%q", i, u.Host, hhShort(u.Conn.Written())))
			}
			if obs.Down != nil {
				wire = append(wire, fmt.Sprintf("down=%q", hhShort(obs.Down.Written())))
			}
			p.Violation(key, fmt.Sprintf("%s | request %q | config %s | log=%v | wire: %s", detail, hhShort(h17RequestBytes(&c)), obs.Config, obs.Log, strings.Join(wire, " ")), c)
		}
		if hhDebug() {
			cj, _ := stdjson.Marshal(c)
			fmt.Printf("CASE %s\n  config %s\n  log=%v\n", cj, obs.Config, obs.Log)
			for i, u := range obs.Ups {
				fmt.Printf("  up%d(host%d): %q\n", i, u.Host, u.Conn.Written())
			}
			fmt.Printf("  down: %q\n", obs.Down.Written())
		}
		if kind, detail, harness := hhExecProblem(r); kind != "" {
			if harness {
				kind = "HARNESS " + kind
			}
			report("http1 "+c.Kind+": execution did not complete normally: "+kind, detail)
			return
		}
		if obs.Unreal != "" {
			p.Count("scripts_not_realisable("+obs.Unreal+")", 1)
			return
		}
		if obs.Garbage != "" {
			report("http1 "+c.Kind+": undecodable bytes written downstream", obs.Garbage)
			return
		}
		for ui, u := range obs.Ups {
			if u.Garbage != "" {
				report("http1 "+c.Kind+": undecodable bytes written upstream", fmt.Sprintf("connection %d: %s", ui, u.Garbage))
				return
			}
		}
		var hosts []string
		for _, a := range obs.Attempts {
			s := fmt.Sprint(a.Host)
			if a.ConnFail {
				s += "x"
			}
			hosts = append(hosts, s)
		}
		status := -1
		if len(obs.Responses) == 1 {
			status = obs.Responses[0].Status
		}
		switch c.Kind {
		case "forward":
			p.Distinct(fmt.Sprintf("forward|%s|%s|%v|%s|%s|%v|%v|%s|%s|%v", c.Action, c.ClusterType, c.HostHdr, h17OpsString(c.ReqOps), h17OpsString(c.RespOps), c.Has, c.MixedKey, c.URI, c.Host, c.Body)+"|"+strings.Join(c.ReqVals[:], "/")+"|"+strings.Join(c.RespVals[:], "/"))
		case "redirect":
			p.Distinct(fmt.Sprintf("redirect|%+v|%s|%s", *c.Redirect, c.URI, c.Host))
		case "direct":
			p.Distinct(fmt.Sprintf("direct|%+v|%s|%v", *c.Direct, c.URI, c.Body))
		case "timeout":
			p.Distinct(fmt.Sprintf("timeout|%d|%d|%d|%d", c.HdrGlobalMs, c.HdrTryMs, c.TimeoutMs, c.Retry.TryTimeoutMs))
		default:
			p.Distinct(fmt.Sprintf("retry|%+v|%s|%v|%s|%s|%v|%s|%v", *c.Retry, strings.Join(c.Script, ","), c.EjectFirst, c.Action, c.ClusterType, c.HostHdr, h17OpsString(c.ReqOps), c.TimeoutMs))
		}
		if len(obs.Responses) != 1 {
			// a request that does not end with exactly one reply is C03's subject (unit http1-terminal)
			p.Count("executions_skipped_not_exactly_one_response", 1)
			p.Outcome(fmt.Sprintf("%s|responses=%d", c.Kind, len(obs.Responses)))
			return
		}
		resp := &obs.Responses[0]
		switch c.Kind {
		case "forward":
			h17CheckForward(p, &c, obs, resp, report)
		case "redirect", "direct":
			h17CheckLocal(p, &c, obs, resp, report)
		case "retry":
			h17CheckRetry(p, &c, obs, resp, report)
		case "timeout":
			h17CheckTimeout(p, &c, obs, resp, report)
		}
		if p.WantSample() {
			s := map[string]interface{}{"case": c, "attempt_hosts": hosts, "response_status": status}
			if len(obs.Attempts) > 0 && obs.Attempts[0].Req != nil {
				s["upstream_request_line"] = obs.Attempts[0].Req.Method + " " + obs.Attempts[0].Req.Path
				s["upstream_host"] = obs.Attempts[0].Req.Headers["host"]
			}
			if l, ok := resp.Headers["location"]; ok {
				s["location"] = l
			}
			p.Sample(s)
		}
	})
}

// h17CheckRequestOnWire compares one upstream attempt's request with the reference.
func h17CheckRequestOnWire(c *h17Case, a *h17Attempt, report func(key, detail string)) {
	rq := a.Req
	if want := h17RefTargets(c); !h17In(want, rq.Path) {
		what := "upstream request-target differs from the configured rewrite"
		switch {
		case c.Action != h17ActPrefix && c.Action != h17ActRegex:
			what = "request-target changed although no path rewrite is configured"
		case rq.Path == c.URI && !h17In(want, c.URI):
			what = "configured rewrite not applied (request-target forwarded unchanged)"
		default:
			_, q, hasQ := h17Split(c.URI)
			if _, gq, gHas := h17Split(rq.Path); hasQ && (!gHas || gq != q) {
				what = "query changed or lost by the path rewrite"
			}
		}
		report(fmt.Sprintf("http1 path-rewrite: %s, %s: %s", c.Action, h17PathClass(c.URI), what), fmt.Sprintf("request-target %q, expected one of %q", rq.Path, want))
	}
	if want := h17RefHosts(c, a.Host); !h17In(want, rq.Headers["host"]) {
		what := "Host differs from the configured rewrite"
		switch {
		case rq.Headers["host"] == c.Host:
			what = "configured host rewrite not applied (Host forwarded unchanged)"
		case c.Action == h17ActAutoHost && strings.HasSuffix(rq.Headers["host"], ".internal"):
			what = "Host is the hostname of another upstream host than the one the attempt is sent to"
		case c.Action != h17ActHost && c.Action != h17ActAutoHost && c.Action != h17ActHostHeader:
			what = "Host changed although no host rewrite is configured"
		}
		hh := ""
		if c.Action == h17ActHostHeader {
			hh = fmt.Sprintf(" (request carries %s: %v)", h17HostHeader, c.HostHdr)
		}
		report(fmt.Sprintf("http1 host-rewrite: %s%s, cluster type %s: %s", c.Action, hh, h17ClusterTypeOf(c), what), fmt.Sprintf("attempt to host%d (%s): Host %q, expected one of %q", a.Host, h17HostName(a.Host), rq.Headers["host"], want))
	}
	var initial []string
	if c.Has {
		initial = []string{"0"}
	}
	got, want := h17Values(rq, h17ReqKey), h17RefHeader(initial, c.ReqOps, h17Order)
	if c.hasVals() {
		h17CheckHeaderValues(c, "request", initial, c.ReqOps, c.ReqVals, got, report)
	} else if strings.Join(got, ",") != strings.Join(want, ",") || len(got) != len(want) {
		report(fmt.Sprintf("http1 request-headers: %s", h17HeaderDiagnosis(initial, c.ReqOps, got)),
			fmt.Sprintf("request carried %s=%v; mutations (route/vhost/router) %s: upstream request carries %v, expected %v", h17ReqKey, initial, h17OpsString(c.ReqOps), got, want))
	}
	if o := h17Values(rq, "x-other"); len(o) != 1 || o[0] != "o" {
		report("http1 request-headers: header without configured mutation changed", fmt.Sprintf("x-other expected [o], got %v", o))
	}
	wantMethod, wantBody := "GET", ""
	if c.Body {
		wantMethod, wantBody = "POST", "reqbody"
	}
	if rq.Method != wantMethod || rq.Body != wantBody {
		report("http1 forward: method or body of the upstream request differs from the request received", fmt.Sprintf("%s with body %q, expected %s with body %q", rq.Method, rq.Body, wantMethod, wantBody))
	}
}

func h17ClusterTypeOf(c *h17Case) string {
	if c.ClusterType == "" {
		return "SIMPLE"
	}
	return c.ClusterType
}

func h17CheckResponseOnWire(c *h17Case, a *h17Attempt, resp *hhMsg, wantStatus int, report func(key, detail string)) {
	if rs := resp.Headers["rserial"]; rs != fmt.Sprint(a.Serial) || resp.Status != wantStatus || resp.Body != fmt.Sprintf("resp-%d", a.Serial) {
		report("http1 "+c.Kind+": the downstream response is not the last attempt's upstream response", fmt.Sprintf("status %d rserial %q body %q, expected status %d rserial %d", resp.Status, rs, resp.Body, wantStatus, a.Serial))
		return
	}
	var initial []string
	if c.Has {
		initial = []string{"0"}
	}
	got, want := h17Values(resp, h17RespKey), h17RefHeader(initial, c.RespOps, h17Order)
	if c.hasVals() {
		h17CheckHeaderValues(c, "response", initial, c.RespOps, c.RespVals, got, report)
	} else if strings.Join(got, ",") != strings.Join(want, ",") || len(got) != len(want) {
		report(fmt.Sprintf("http1 response-headers: %s", h17HeaderDiagnosis(initial, c.RespOps, got)),
			fmt.Sprintf("upstream response carried %s=%v; mutations (route/vhost/router) %s: downstream response carries %v, expected %v", h17RespKey, initial, h17OpsString(c.RespOps), got, want))
	}
	if o := h17Values(resp, "x-other-r"); len(o) != 1 || o[0] != "o" {
		report("http1 response-headers: header without configured mutation changed", fmt.Sprintf("x-other-r expected [o], got %v", o))
	}
}

func h17CheckForward(p *vreport.Part, c *h17Case, obs *h17Obs, resp *hhMsg, report func(key, detail string)) {
	if len(obs.Attempts) != 1 || obs.Attempts[0].Req == nil {
		report("http1 forward: request not forwarded exactly once", fmt.Sprintf("%d upstream attempts, response status %d", len(obs.Attempts), resp.Status))
		p.Outcome(fmt.Sprintf("forward|attempts=%d|status=%d", len(obs.Attempts), resp.Status))
		return
	}
	a := obs.Attempts[0]
	p.Outcome(fmt.Sprintf("forward|%s|host=%s|%s=%s|%d|%s=%s", a.Req.Path, a.Req.Headers["host"], h17ReqKey, strings.Join(h17Values(a.Req, h17ReqKey), ","), resp.Status, h17RespKey, strings.Join(h17Values(resp, h17RespKey), ",")))
	h17CheckRequestOnWire(c, a, report)
	h17CheckResponseOnWire(c, a, resp, 200, report)
}

func h17CheckLocal(p *vreport.Part, c *h17Case, obs *h17Obs, resp *hhMsg, report func(key, detail string)) {
	p.Outcome(fmt.Sprintf("%s|%d|%s|%q|ups=%d", c.Kind, resp.Status, resp.Headers["location"], resp.Body, len(obs.Ups)))
	if len(obs.Ups) != 0 || len(obs.Attempts) != 0 {
		report("http1 "+c.Kind+": the upstream was contacted although the route answers locally", fmt.Sprintf("%d upstream connections, %d attempts", len(obs.Ups), len(obs.Attempts)))
	}
	if c.Kind == "direct" {
		if resp.Status != c.Direct.Status {
			report("http1 direct response: status differs from the configured one", fmt.Sprintf("status %d, configured %d", resp.Status, c.Direct.Status))
		}
		if resp.Body != c.Direct.Body {
			report("http1 direct response: body differs from the configured one", fmt.Sprintf("body %q, configured %q", resp.Body, c.Direct.Body))
		}
		return
	}
	wantCode := c.Redirect.Code
	if wantCode == 0 {
		wantCode = 301 // documented default
	}
	if resp.Status != wantCode {
		report("http1 redirect: status differs from the configured response code", fmt.Sprintf("status %d, configured %d", resp.Status, wantCode))
	}
	want := h17RefLocations(c)
	if loc, ok := resp.Headers["location"]; !ok {
		report("http1 redirect: response without Location", fmt.Sprintf("expected one of %q", want))
	} else if !h17In(want, loc) {
		what := "Location differs from scheme/host/path/port/query of the configuration and the request"
		_, q, _ := h17Split(c.URI)
		if q != "" && !strings.HasSuffix(loc, "?"+q) {
			what = "Location lost or changed the query of the request"
		} else if c.Redirect.Host == "" && !strings.Contains(loc, "://"+strings.Split(c.Host, ":")[0]) {
			what = "Location does not keep the host of the request"
		} else if c.Redirect.Host == "" && strings.Contains(c.Host, ":") && !strings.HasSuffix(c.Host, ":80") && !strings.Contains(loc, "://"+c.Host) {
			what = "Location lost the non-default port of the request's host"
		}
		report("http1 redirect: "+what, fmt.Sprintf("Location %q, expected one of %q", loc, want))
	}
	if resp.Body != "" {
		report("http1 redirect: response carries a body", fmt.Sprintf("%q", resp.Body))
	}
}

func h17CheckTimeout(p *vreport.Part, c *h17Case, obs *h17Obs, resp *hhMsg, report func(key, detail string)) {
	if len(obs.Attempts) != 1 || obs.Attempts[0].Req == nil {
		report("http1 timeout: request to a silent upstream not forwarded exactly once", fmt.Sprintf("%d attempts, status %d", len(obs.Attempts), resp.Status))
		return
	}
	// the timers are armed at the virtual instant the request is written upstream
	d, want := resp.AtMs-obs.Attempts[0].Req.AtMs, h17RefTimeout(c)
	p.Outcome(fmt.Sprintf("timeout|%dms|%d", d, resp.Status))
	if resp.Headers["rserial"] != "" || (resp.Status >= 200 && resp.Status < 300) {
		report("http1 timeout: silent upstream was not completed by a timeout reply", fmt.Sprintf("status %d", resp.Status))
	} else if d != want {
		report("http1 timeout: effective timeout differs from the documented precedence (request headers, else route, else default)",
			fmt.Sprintf("timeout reply %d ms after the request went upstream, expected %d ms (x-mosn-global-timeout %d, x-mosn-try-timeout %d, route timeout %d, route retry_timeout %d)", d, want, c.HdrGlobalMs, c.HdrTryMs, c.TimeoutMs, c.Retry.TryTimeoutMs))
	}
}

func h17CheckRetry(p *vreport.Part, c *h17Case, obs *h17Obs, resp *hhMsg, report func(key, detail string)) {
	atts := obs.Attempts
	var trace []string
	for _, a := range atts {
		trace = append(trace, fmt.Sprintf("%s@host%d", a.Script, a.Host))
	}
	p.Outcome(fmt.Sprintf("retry|attempts=%d|status=%d|upstream-response=%v", len(atts), resp.Status, resp.Headers["rserial"] != ""))
	detail := func(s string) string { return s + fmt.Sprintf("; attempts %v, downstream status %d", trace, resp.Status) }
	budget := h17Budget(c.Retry)
	if len(atts) > 1+budget {
		report("http1 retry: more upstream attempts than one plus the retry budget", detail(fmt.Sprintf("%d attempts, budget %d", len(atts), budget)))
	}
	// never after a response has started: no request may be written upstream after the response went
	// downstream, and no attempt may follow an attempt whose upstream answered with a response that
	// was passed on
	for _, a := range atts {
		if a.Req != nil && a.Req.Seq > resp.Seq {
			report("http1 retry: upstream attempt written after the downstream response", detail(fmt.Sprintf("attempt write seq %d, response write seq %d", a.Req.Seq, resp.Seq)))
		}
	}
	allowed := h17RefAttempts(c)
	var counts []int
	for n := range allowed {
		counts = append(counts, n)
	}
	sort.Ints(counts)
	final, ok := allowed[len(atts)]
	if !ok {
		min, max := counts[0], counts[len(counts)-1]
		key := "http1 retry: request not retried although the configured condition holds"
		switch {
		case len(atts) > max:
			key = "http1 retry: request retried although no configured condition holds"
			if k := max - 1; k < len(atts) && (atts[k].Script == h17OK || atts[k].Script == h17OKThenClose) {
				key = "http1 retry: request retried after a response had started"
			} else if max == 1+budget {
				key = "http1 retry: more upstream attempts than one plus the retry budget"
			}
		case len(atts) < min && len(atts) == budget && min == 1+budget:
			key = "http1 retry: the retry budget is cut short (fewer attempts than one plus the budget although every attempt failed retriably)"
		case len(atts) > min:
			key = "http1 retry: number of upstream attempts matches no reading of the policy"
		}
		report(key, detail(fmt.Sprintf("%d attempts, expected %v (script %v, policy %+v)", len(atts), counts, c.Script, *c.Retry)))
		return
	}
	if len(atts) > 0 {
		last := atts[len(atts)-1]
		switch final {
		case h17OK, h17OKThenClose, h17S503, h17S500:
			st := map[string]int{h17OK: 200, h17OKThenClose: 200, h17S503: 503, h17S500: 500}[final]
			h17CheckResponseOnWire(c, last, resp, st, report)
		default:
			// MOSN answers by itself; the statement fixes no code, only that it is no success and not an
			// upstream's response
			if resp.Headers["rserial"] != "" || (resp.Status >= 200 && resp.Status < 300) {
				report("http1 retry: final response is not the outcome of the last attempt", detail(fmt.Sprintf("last attempt ended by %s, response status %d rserial %q", final, resp.Status, resp.Headers["rserial"])))
			}
		}
	}
	// freshly chosen host: the first attempt's host was marked unhealthy before the retry was decided
	if c.EjectFirst && len(atts) > 1 && atts[1].Host == atts[0].Host {
		report("http1 retry: the retried attempt was not sent to a freshly chosen host (the first host had been marked unhealthy before the retry)", detail(""))
	}
	// every attempt carries the request with the configured actions applied exactly once
	for _, a := range atts {
		if a.Req != nil {
			h17CheckRequestOnWire(c, a, func(key, d string) {
				if a != atts[0] && a.Req != nil && atts[0].Req != nil {
					key += " [on a retried attempt]"
				}
				report(key, detail(d))
			})
		}
	}
}

// ---------------------------------------------------------------------------
// enumeration

func h17OpVectors() [][3]string {
	var out [][3]string
	for _, a := range h17Ops {
		for _, b := range h17Ops {
			for _, c := range h17Ops {
				out = append(out, [3]string{a, b, c})
			}
		}
	}
	return out
}

type h17ActionVariant struct {
	Action, ClusterType string
	HostHdr             bool
}

var h17ActionVariants = []h17ActionVariant{
	{h17ActNone, "", false}, {h17ActPrefix, "", false}, {h17ActRegex, "", false}, {h17ActHost, "", false},
	{h17ActAutoHost, "STRICT_DNS", false}, {h17ActAutoHost, "SIMPLE", false},
	{h17ActHostHeader, "", true}, {h17ActHostHeader, "", false},
}

func h17URIs() []string {
	u := []string{"/", "/a/b?x=1", "/a%2Fb", "/a//b", "/a", "/ab/c?y", "/b/a", "/a/b/?x=1&y=%2F", "/c//d%2Fe?z"}
	if vreport.Thorough() {
		u = append(u, "/a/", "/a?", "/a/b/c/d.html?x=1&x=2", "/%2Fa/b", "/b//a%2Fa?q=/a")
	}
	return u
}

func h17GenForward(yield func(h17Case) bool) bool {
	mixed, bodies := []bool{false, true}, []bool{false, true}
	for _, av := range h17ActionVariants {
		for _, ops := range h17OpVectors() {
			for _, has := range []bool{false, true} {
				for _, uri := range h17URIs() {
					for _, mk := range mixed {
						for _, body := range bodies {
							// the response side carries the same vector rotated by one level, so that request and
							// response levels are told apart and every response vector occurs too
							c := h17Case{Kind: "forward", Action: av.Action, ClusterType: av.ClusterType, HostHdr: av.HostHdr, ReqOps: ops,
								RespOps: [3]string{ops[1], ops[2], ops[0]}, Has: has, MixedKey: mk, URI: uri, Host: "verif.example", Body: body, TimeoutMs: 1000}
							if !yield(c) {
								return false
							}
						}
					}
				}
			}
		}
	}
	if vreport.Thorough() {
		// request and response vectors independently (the quick tier ties them by a rotation)
		for _, av := range h17ActionVariants {
			for _, uri := range []string{"/a/b?x=1", "/a%2Fb"} {
				for _, ops := range h17OpVectors() {
					for _, rops := range h17OpVectors() {
						if rops == [3]string{ops[1], ops[2], ops[0]} {
							continue // done above
						}
						for _, has := range []bool{false, true} {
							c := h17Case{Kind: "forward", Action: av.Action, ClusterType: av.ClusterType, HostHdr: av.HostHdr, ReqOps: ops, RespOps: rops, Has: has, URI: uri, Host: "verif.example", TimeoutMs: 1000}
							if !yield(c) {
								return false
							}
						}
					}
				}
			}
		}
	}
	return true
}

func h17GenLocal(yield func(h17Case) bool) bool {
	hosts := []string{"verif.example", "verif.example:8080", "verif.example:80"}
	for _, scheme := range []string{"", "https"} {
		for _, host := range []string{"", "r.org", "r.org:443"} {
			for _, path := range []string{"", "/p"} {
				if scheme == "" && host == "" && path == "" {
					continue // redirects nowhere
				}
				for _, code := range []int{0, 301, 302, 303, 307, 308} {
					for _, uri := range h17URIs() {
						for _, rh := range hosts {
							c := h17Case{Kind: "redirect", Redirect: &h17Redirect{Scheme: scheme, Host: host, Path: path, Code: code}, URI: uri, Host: rh, TimeoutMs: 1000,
								// header mutations are configured too: a local reply must not depend on them
								ReqOps: [3]string{"append", "", "overwrite"}, RespOps: [3]string{"", "append", ""}}
							if !yield(c) {
								return false
							}
						}
					}
				}
			}
		}
	}
	statuses := []int{200, 503}
	bodies := []string{"", "x"}
	if vreport.Thorough() {
		statuses = []int{200, 204, 403, 404, 500, 503}
		bodies = []string{"", "x", strings.Repeat("direct response body. ", 200)}
	}
	for _, st := range statuses {
		for _, body := range bodies {
			if st == 204 && body != "" {
				continue // a 204 has no body on the wire
			}
			for _, uri := range h17URIs() {
				for _, rb := range []bool{false, true} {
					c := h17Case{Kind: "direct", Direct: &h17Direct{Status: st, Body: body}, URI: uri, Host: "verif.example", Body: rb, TimeoutMs: 1000}
					if !yield(c) {
						return false
					}
				}
			}
		}
	}
	return true
}

// h17Scripts: every outcome sequence of length <= maxLen (the last entry repeats for all further
// attempts); a sequence ends at the first outcome that is final under every policy (a 2xx).
func h17Scripts(maxLen int) [][]string {
	alphabet := []string{h17OK, h17OKThenClose, h17S503, h17S500, h17Close, h17Silent, h17ConnFail}
	var out [][]string
	var gen func(cur []string)
	gen = func(cur []string) {
		if n := len(cur); n > 0 {
			out = append(out, append([]string(nil), cur...))
			if cur[n-1] == h17OK || cur[n-1] == h17OKThenClose || n == maxLen {
				return
			}
		}
		for _, o := range alphabet {
			gen(append(cur, o))
		}
	}
	gen(nil)
	return out
}

func h17GenRetry(yield func(h17Case) bool) bool {
	numRetries := []int{0, 1, 4}
	maxLen := 3
	if vreport.Thorough() {
		numRetries = []int{0, 1, 2, 4, 5}
		maxLen = 4
	}
	scripts := h17Scripts(maxLen)
	for _, on := range []bool{false, true} {
		for _, nr := range numRetries {
			for _, codes := range [][]uint32{nil, {503}} {
				for _, try := range []int{100, 0} {
					for _, s := range scripts {
						if try == 0 {
							// without a per-try timeout only a silent attempt behaves differently
							silent := false
							for _, o := range s {
								silent = silent || o == h17Silent
							}
							if !silent {
								continue
							}
						}
						if !on && nr != numRetries[0] && len(s) > 1 {
							continue // retry_on=false: num_retries only matters for connect failures; one value with the full scripts
						}
						c := h17Case{Kind: "retry", Action: h17ActNone, Retry: &h17Retry{RetryOn: on, NumRetries: nr, Codes: codes, TryTimeoutMs: try},
							Script: s, URI: "/a/b?x=1", Host: "verif.example", TimeoutMs: 60000, ReqOps: [3]string{"append", "append", ""}, RespOps: [3]string{"", "overwrite", "append"}, Has: true}
						if try == 0 {
							c.TimeoutMs = 1000
						}
						if !yield(c) {
							return false
						}
					}
				}
			}
		}
	}
	// route actions on retried attempts: every attempt must carry the finalised request, and
	// auto_host_rewrite names the host the attempt goes to
	for _, av := range h17ActionVariants {
		for _, first := range []string{h17S503, h17Close, h17Silent, h17ConnFail} {
			for _, ops := range [][3]string{{"append", "append", "append"}, {"overwrite", "", "append"}, {"remove", "append", ""}} {
				c := h17Case{Kind: "retry", Action: av.Action, ClusterType: av.ClusterType, HostHdr: av.HostHdr, Retry: &h17Retry{RetryOn: true, NumRetries: 2, TryTimeoutMs: 100},
					Script: []string{first, first, h17OK}, URI: "/a/b?x=1", Host: "verif.example", TimeoutMs: 60000, ReqOps: ops, RespOps: ops, Has: true, Body: first == h17Close}
				if !yield(c) {
					return false
				}
			}
		}
	}
	// the decision on an outcome does not depend on an earlier attempt's status
	for _, nr := range []int{0, 4} {
		for _, codes := range [][]uint32{nil, {503}} {
			for _, pre := range []string{h17S503, h17S500} {
				for _, x := range []string{h17Close, h17Silent, h17ConnFail, h17S500, h17S503} {
					for _, try := range []int{100, 0} {
						if try == 0 && x != h17Silent {
							continue
						}
						c := h17Case{Kind: "retry-consistency", Action: h17ActNone, Retry: &h17Retry{RetryOn: true, NumRetries: nr, Codes: codes, TryTimeoutMs: try},
							Script: []string{x, h17OK}, Script2: []string{pre, x, h17OK}, URI: "/", Host: "verif.example", TimeoutMs: 60000}
						if try == 0 {
							c.TimeoutMs = 1000
						}
						if !yield(c) {
							return false
						}
					}
				}
			}
		}
	}
	// freshly chosen host
	for _, first := range []string{h17S503, h17S500, h17Close, h17Silent, h17ConnFail} {
		for _, nr := range []int{1, 4} {
			c := h17Case{Kind: "retry", Action: h17ActNone, Retry: &h17Retry{RetryOn: true, NumRetries: nr, TryTimeoutMs: 100}, EjectFirst: true,
				Script: []string{first, h17OK}, URI: "/", Host: "verif.example", TimeoutMs: 60000}
			if !yield(c) {
				return false
			}
		}
	}
	return true
}

func h17GenTimeout(yield func(h17Case) bool) bool {
	for _, hg := range []int{0, 400} {
		for _, ht := range []int{0, 50, 2000} {
			for _, route := range []int{0, 1000} {
				for _, try := range []int{0, 100, 5000} {
					for _, uri := range []string{"/", "/a/b?x=1"} {
						c := h17Case{Kind: "timeout", Action: h17ActNone, HdrGlobalMs: hg, HdrTryMs: ht, TimeoutMs: route, Retry: &h17Retry{TryTimeoutMs: try},
							Script: []string{h17Silent}, URI: uri, Host: "verif.example", Body: uri == "/"}
						if !yield(c) {
							return false
						}
					}
				}
			}
		}
	}
	return true
}

// ---------------------------------------------------------------------------
// the parts

func h17Part(name string, gen func(yield func(h17Case) bool) bool, bound, rule string) {
	p := vreport.Begin("C17", name, time.Duration(vreport.Pick(10, 40))*time.Minute)
	si, sn := vreport.Shard()
	only := os.Getenv("VERIF_H17_ONLY")
	i := 0
	kinds := map[string]int{}
	complete := vreport.Run(p,
		func(yield func(h17Case) bool) {
			gen(func(c h17Case) bool {
				i++
				if (i-1)%sn != si {
					return true
				}
				if only != "" {
					if cj, _ := stdjson.Marshal(c); !strings.Contains(string(cj), only) {
						return true
					}
				}
				kinds[c.Kind]++
				return yield(c)
			})
		},
		func(p *vreport.Part, c h17Case) { h17Eval(p, c) })
	if !vreport.Replaying() {
		var ks []string
		for k, n := range kinds {
			ks = append(ks, fmt.Sprintf("%s=%d", k, n))
		}
		sort.Strings(ks)
		p.Note("cases_this_shard", strings.Join(ks, " "))
	}
	p.End(complete, bound, rule)
}

func TestVerifH1C17Forward(t *testing.T) {
	h17Part("http1-forward-actions", h17GenForward,
		"route action {none, prefix_rewrite /x, regex_rewrite ^/a(.*)$ -> /b$1, host_rewrite h.new, auto_host_rewrite on a STRICT_DNS and on a SIMPLE cluster, auto_host_rewrite_header with and without the header in the request} x request-header op vector (route, virtual host, router) each in {none, add append=true, add append=false, remove} on x-k (4^3; the response header x-r gets the same vector rotated by one level) x {message carries the key, does not} x 9 request-targets {/, /a/b?x=1, /a%2Fb, /a//b, /a, /ab/c?y, /b/a, /a/b/?x=1&y=%2F, /c//d%2Fe?z} (thorough: 14) x configured key spelling {x-k, X-K} x {GET, POST+body} (thorough adds: request vector x response vector independently, 4^3 x 4^3, for every action variant and two targets); routes prefix /a and prefix / with the same action; one exchange each through the real proxy on HTTP/1.1 fake connections, deterministic default schedule",
		"full cartesian product; compared on the upstream wire: request-target (exactly the received one without a path rewrite; rewrite + remainder with both readings 'as received' / 'normalised' for %2F and //; query unchanged), Host, the values of x-k flattened with ',' in order, x-other untouched, method and body; on the downstream wire: status, body and rserial of the upstream response, values of x-r, x-other-r untouched. NOT compared: header name case, Content-Length, Content-Type, Date, Server, x-mosn-original-path and other fields MOSN adds; Host under auto_host_rewrite on a SIMPLE cluster is only required to be the original or the chosen host's hostname. distinct = the case; outcome = what was seen on both wires")
}

func TestVerifH1C17Local(t *testing.T) {
	h17Part("http1-redirect-direct", h17GenLocal,
		"redirect: scheme {-, https} x host {-, r.org, r.org:443} x path {-, /p} (not all absent) x response_code {0, 301, 302, 303, 307, 308} x request-targets x request Host {verif.example, verif.example:8080, verif.example:80}; direct response: status {200, 503} x body {'', x} (thorough: 6 statuses, 3 bodies incl. 4 KiB) x request-targets x {GET, POST+body}; request/response header mutations are configured on the same route",
		"full product; compared on the downstream wire: status (default 301), Location in {scheme://host path ?query} built from configuration and request (both readings for a non-normal path that is not replaced and for a ':80' left in a host that is not replaced when the scheme changes; a non-default port must stay), empty body for redirects; configured status and body for direct responses; and NO upstream connection was created. NOT compared: the request headers MOSN echoes into a local reply")
}

func TestVerifH1C17Timeout(t *testing.T) {
	h17Part("http1-timeout-sources", h17GenTimeout,
		"x-mosn-global-timeout {absent, 400} x x-mosn-try-timeout {absent, 50, 2000} x route timeout {absent, 1000 ms} x route retry_timeout {absent, 100, 5000 ms} x {GET /a/b?x=1, POST /}; silent HTTP/1.1 upstream, no retry_on; virtual clock",
		"full product. Reference: global = request header, else route, else 60 s; per-try = request header, else route; ignored when not shorter than the global one; the request is completed at the per-try timeout if any, else at the global one. Compared: virtual time between the write of the upstream request and the write of the (non-2xx, MOSN-generated) downstream reply equals the reference exactly; the status code is not compared")
}

func TestVerifH1C17Retry(t *testing.T) {
	h17Part("http1-retry-policy", h17GenRetry,
		"retry_on {false, true} x num_retries {0, 1, 4} (thorough {0, 1, 2, 4, 5}) x status_codes {[], [503]} x per-try timeout {100 ms, none} x every per-attempt outcome script of length <= 3 (thorough 4; the last entry repeats for all further attempts) over {2xx, 2xx then close, 503, 500, close after request, silent, connect failure}; route actions (8 variants) x 3 header vectors x first two attempts failing {503, close, silent, connect failure}; consistency pairs ([X, 2xx] against [5xx, X, 2xx], X in {close, silent, connect failure, 500, 503}); fresh-host cases (first host marked unhealthy before the retry is decided); 2 hosts, round robin; virtual clock",
		"full product (retry_on=false with more than one num_retries value only for one-entry scripts; without a per-try timeout only scripts with a silent attempt). Reference: walk the script, retry iff the outcome is a configured condition (5xx resp. listed code, per-try timeout, connect failure under retry_on) and attempts <= budget, budget = max(3, num_retries) as documented in retrystate.go. Two outcomes are NOT decided by the statement and both readings are accepted: a connect failure without retry_on, and an HTTP/1 upstream closing the connection with the request in flight under retry_on (pkg/stream/http reports it as UpstreamReset, which is not in retrystate.go's list, the xprotocol layer as connection termination, which is). Compared: attempts <= 1+budget always; the number of attempts is one the reference allows; no upstream write after the downstream response; the final response is the last attempt's upstream response (status, rserial, body, response header mutations) or, if the last attempt ended without one, a non-2xx reply generated by MOSN (code not compared); every attempt's request carries the configured actions exactly once (request-target, Host incl. auto_host_rewrite = hostname of the host THIS attempt goes to, x-k values); consistency pairs: whether X is retried must be the same as first attempt and after an attempt answered with a retriable status; fresh-host cases: the second attempt goes to the other host. Scripts that cannot be realised (connect failure on an attempt that reuses a pooled connection) are counted, not judged")
}
