//go:build verif

package proxy

// C01 forwarding fidelity, seam (b) level 2: the same exchanges as the
// stream-layer unit (pkg/stream/xprotocol zz_verif_C01_streamlayer_test.go),
// but through the REAL proxy on H-PROXY: proxy read filter on a fake downstream
// connection, real server stream connection, downStream/upstreamRequest glue
// (OnReceive -> route -> choose host -> pool -> appendHeaders/appendData ->
// upstream OnReceive -> downstream appendHeaders/appendData -> giveStream),
// real router (one catch-all route), cluster manager, xprotocol connection pool
// and client stream connection on a fake upstream connection, for bolt, boltv2,
// dubbo, dubbothrift and tars. One execution = the default (sequential)
// schedule of the controlled scheduler (vrt, no deviations): the case's
// exchange, then a small standard exchange on the same connection pair (ids 1
// and 2 upstream; the pooled buffers of the first exchange have been recycled,
// the connections' read buffers are refilled by the second one).
//
// Oracle: bytes written upstream == the reference encoding of the frames the
// downstream sent, carrying the ids the upstream connection allocated (read
// back from the forwarded frame with the reference parser); bytes written
// downstream == the reference encoding of the frames the upstream peer sent,
// carrying the downstream's ids; one-way: nothing downstream; heartbeat:
// answered locally, no upstream connection.

import (
	"bytes"
	"context"
	stdjson "encoding/json"
	"fmt"
	"runtime"
	"strings"
	"sync"
	"testing"
	"time"

	"mosn.io/api"
	v2 "mosn.io/mosn/pkg/config/v2"
	xproto "mosn.io/mosn/pkg/protocol/xprotocol"
	"mosn.io/mosn/pkg/protocol/xprotocol/bolt"
	"mosn.io/mosn/pkg/protocol/xprotocol/boltv2"
	"mosn.io/mosn/pkg/protocol/xprotocol/dubbo"
	"mosn.io/mosn/pkg/protocol/xprotocol/dubbothrift"
	"mosn.io/mosn/pkg/protocol/xprotocol/tars"
	"mosn.io/mosn/pkg/router"
	"mosn.io/mosn/pkg/streamfilter"
	"mosn.io/mosn/pkg/types"
	"mosn.io/mosn/pkg/upstream/cluster"
	"mosn.io/mosn/pkg/verifrt/vc01"
	"mosn.io/mosn/pkg/verifrt/vc01sl"
	"mosn.io/mosn/pkg/verifrt/vfake"
	"mosn.io/mosn/pkg/verifrt/vref"
	"mosn.io/mosn/pkg/verifrt/vreport"
	"mosn.io/mosn/pkg/verifrt/vrt"
	"mosn.io/pkg/variable"
)

const (
	c01xpRouter  = "c01xpRouter"
	c01xpCluster = hpCluster
)

var c01xpOnce sync.Once

func c01xpInit() {
	hpInit() // fake client connections, vrt worker pool shim, bolt + boltv2
	c01xpOnce.Do(func() {
		for _, cd := range []api.XProtocolCodec{&dubbo.XCodec{}, &dubbothrift.XCodec{}, &tars.XCodec{}} {
			_ = xproto.RegisterXProtocolCodec(cd)
		}
		// what pkg/filter/network/proxy does in its init (cannot be imported from here):
		// without it the configured downstream protocol is ignored and auto-detected
		_ = variable.Register(variable.NewVariable(types.VarProtocolConfig, nil, nil, variable.DefaultSetter, 0))
		cfg := map[string]interface{}{
			"router_config_name": c01xpRouter,
			"virtual_hosts": []interface{}{map[string]interface{}{
				"name":    "vh",
				"domains": []string{"*"},
				// no match condition: the rpc rule with an empty header list matches every request
				"routers": []interface{}{map[string]interface{}{
					"match": map[string]interface{}{},
					"route": map[string]interface{}{"cluster_name": c01xpCluster},
				}},
			}},
		}
		b, _ := stdjson.Marshal(cfg)
		rc := &v2.RouterConfiguration{}
		if err := stdjson.Unmarshal(b, rc); err != nil {
			panic(err)
		}
		if err := router.GetRoutersMangerInstance().AddOrUpdateRouters(rc); err != nil {
			panic(err)
		}
		streamfilter.GetStreamFilterManager().AddOrUpdateStreamFilterConfig(hpListener, nil)
	})
}

type c01xpCodec struct {
	sp    *vc01sl.Spec
	proto api.ProtocolName
}

// c01xpStep is one exchange of an execution.
type c01xpStep struct {
	req    func(id uint64) []byte
	resp   func(id uint64) []byte
	downID uint64
	role   string // request | oneway | heartbeat (what the request frame is)
}

type c01xpObs struct {
	down    *vfake.Conn
	ups     []*vfake.Conn
	upIDs   []uint64 // id read from the k-th forwarded request
	upErr   string
	harness string
}

func (o *c01xpObs) summary() string {
	lens := func(c *vfake.Conn) []int {
		var l []int
		for _, w := range c.Writes {
			l = append(l, len(w))
		}
		return l
	}
	s := fmt.Sprintf("observed: downstream Write calls %v (closed %v)", lens(o.down), o.down.IsClosed())
	for i, u := range o.ups {
		s += fmt.Sprintf("; upstream connection %d Write calls %v (closed %v)", i, lens(u), u.IsClosed())
	}
	return s + fmt.Sprintf("; ids read from the forwarded requests %v", o.upIDs)
}

func c01xpBody(cd *c01xpCodec, listener string, steps []c01xpStep, obs *c01xpObs) {
	c01xpInit()
	vfake.Reset()
	done := false
	answered := 0
	vfake.OnCreate = func(c *vfake.Conn) {
		obs.ups = append(obs.ups, c)
		if len(obs.ups) > 1 {
			return
		}
		// the upstream peer: answers every complete request it sees with the scripted
		// response carrying the id of that request
		vrt.GoNamed("env:up-peer", func() {
			parsed := 0
			for {
				vrt.WaitUntil("upstream peer: next request", func() bool {
					return done || c.IsClosed() || len(c.Written()) > parsed
				})
				if done || c.IsClosed() {
					return
				}
				w := c.Written()
				id, n, err := cd.sp.WireID(w[parsed:], false)
				if err != nil {
					obs.upErr = fmt.Sprintf("the bytes written upstream at offset %d are not a well-formed frame: %v", parsed, err)
					return
				}
				parsed += n
				obs.upIDs = append(obs.upIDs, id)
				// which step is this? two-way and one-way steps reach the upstream, in order
				k := -1
				seen := 0
				for i := range steps {
					if steps[i].role == vc01sl.Heartbeat {
						continue
					}
					if seen == len(obs.upIDs)-1 {
						k = i
						break
					}
					seen++
				}
				if k < 0 || steps[k].role != vc01sl.Request {
					continue
				}
				answered++
				c.InjectRead(steps[k].resp(id))
			}
		})
	}
	if cm := cluster.GetClusterMngAdapterInstance().ClusterManager; cm != nil {
		if d, ok := cm.(interface{ Destroy() }); ok {
			d.Destroy()
		}
	}
	cc, hosts := hpClusterConfig(&hpScenario{Hosts: 1})
	cluster.NewClusterManagerSingleton([]v2.Cluster{cc}, map[string][]v2.Host{c01xpCluster: hosts}, nil)
	*cluster.GetHealthFlagPointer(hpHostAddr(0)) = 0

	ctx := variable.NewVariableContext(context.Background())
	_ = variable.Set(ctx, types.VariableAccessLogs, []api.AccessLog{})
	if listener == "" {
		listener = hpListener
	}
	_ = variable.Set(ctx, types.VariableListenerName, listener)
	_ = variable.Set(ctx, types.VarProtocolConfig, []api.ProtocolName{cd.proto})
	down := vfake.NewServerSide("down")
	_ = variable.Set(ctx, types.VariableConnection, down)
	_ = variable.Set(ctx, types.VariableConnectionID, down.ID())
	obs.down = down
	p := NewProxy(ctx, &v2.Proxy{DownstreamProtocol: string(cd.proto), UpstreamProtocol: string(cd.proto), RouterConfigName: c01xpRouter}).(*proxy)
	down.FilterManager().AddReadFilter(p)
	down.FilterManager().InitializeReadFilters()
	if p.serverStreamConn == nil {
		obs.harness = "the proxy did not create the server stream connection from its configured protocol"
		return
	}

	vrt.GoNamed("env:down-client", func() {
		upWrites := func() int {
			n := 0
			for _, u := range obs.ups {
				n += len(u.Writes)
			}
			return n
		}
		for i := range steps {
			dn, un := len(down.Writes), upWrites()
			down.InjectRead(steps[i].req(steps[i].downID))
			// the next request only once this exchange is over (the first request of a
			// connection waits in virtual time for the upstream connect) ...
			if steps[i].role == vc01sl.Oneway {
				vrt.WaitUntil("client: one-way request forwarded", func() bool { return upWrites() > un || down.IsClosed() })
			} else {
				vrt.WaitUntil("client: answer to the request", func() bool { return len(down.Writes) > dn || down.IsClosed() })
			}
			// ... and the proxy went idle (it releases a request's buffers after it wrote the response)
			vrt.QuiesceNoTimers()
			if down.IsClosed() {
				return
			}
		}
	})
	vrt.Quiesce()
	done = true
	_ = answered
}

type c01xpFinding struct{ dir, res, detail string }

// c01xpJudge compares what was written on both sides with the reference frames.
func c01xpJudge(cd *c01xpCodec, c vc01.Case, dirs [][2]string, steps []c01xpStep, obs *c01xpObs) *c01xpFinding {
	sp := cd.sp
	var wantDown []byte
	var up []byte
	if len(obs.ups) > 0 {
		up = obs.ups[0].Written()
	}
	if obs.upErr != "" {
		return &c01xpFinding{dirs[0][0], "forwarded-frame-not-well-formed", obs.upErr}
	}
	if len(obs.ups) > 1 {
		return &c01xpFinding{dirs[0][0], "more-than-one-upstream-connection", fmt.Sprintf("%d upstream connections for sequential exchanges", len(obs.ups))}
	}
	off, k := 0, 0
	downOff := 0
	downW := obs.down.Written()
	for i, st := range steps {
		reqDir, respDir := dirs[i][0], dirs[i][1]
		onCase := i == 0
		classify := func(reqLeg bool, frame func(uint64) []byte, other uint64, want, got []byte) string {
			if onCase && sp.DiffClass != nil {
				if cl := sp.DiffClass(c, want, got); cl != "" {
					return cl
				}
			}
			o := frame(other)
			same := bytes.Equal(got, o)
			if !same && onCase && sp.DiffClass != nil && sp.Unstable != "" {
				same = sp.DiffClass(c, o, got) == sp.Unstable
			}
			if same && !bytes.Equal(want, o) {
				if reqLeg {
					return "forwarded-request-carries-the-downstream-request-id"
				}
				return "forwarded-response-carries-the-upstream-request-id"
			}
			if len(want) != len(got) {
				return "forwarded-frame-length-differs"
			}
			return "forwarded-frame-bytes-differ"
		}
		if st.role == vc01sl.Heartbeat {
			// answered locally: one heartbeat answer downstream, nothing upstream
			rest := downW[downOff:]
			_, n, err := sp.WireID(rest, true)
			if err != nil || n == 0 {
				return &c01xpFinding{reqDir, "heartbeat-not-answered", fmt.Sprintf("exchange %d: %d bytes written downstream after a heartbeat request (%v)", i+1, len(rest), err)}
			}
			if why := sp.CheckAck(c, rest[:n]); why != "" {
				return &c01xpFinding{reqDir, "heartbeat-answer-malformed", fmt.Sprintf("exchange %d: %s", i+1, why)}
			}
			downOff += n
			continue
		}
		// the forwarded request
		if k >= len(obs.upIDs) {
			return &c01xpFinding{reqDir, "request-not-forwarded", fmt.Sprintf("exchange %d: no (further) frame was written upstream; upstream connections %d, bytes upstream %d, bytes downstream %d, downstream closed %v",
				i+1, len(obs.ups), len(up), len(downW), obs.down.IsClosed())}
		}
		uid := obs.upIDs[k]
		k++
		want := st.req(uid)
		end := off + len(want)
		if end > len(up) {
			end = len(up)
		}
		got := up[off:end]
		// the frame as delimited by the reference parser
		if _, n, err := sp.WireID(up[off:], false); err == nil {
			got = up[off : off+n]
		}
		if !bytes.Equal(got, want) {
			return &c01xpFinding{reqDir, classify(true, st.req, st.downID, want, got), fmt.Sprintf("exchange %d: expected the received frame with only the request id replaced by %d (read from the forwarded frame; downstream id %d): %s",
				i+1, uid, st.downID, vref.FirstDiff(want, got))}
		}
		off += len(got)
		if st.role == vc01sl.Oneway {
			continue
		}
		// the forwarded response
		wantDown = st.resp(st.downID)
		rest := downW[downOff:]
		if len(rest) == 0 {
			return &c01xpFinding{respDir, "response-not-forwarded", fmt.Sprintf("exchange %d: the upstream answered request id %d, nothing was written downstream (downstream closed %v)", i+1, uid, obs.down.IsClosed())}
		}
		gotD := rest
		if _, n, err := sp.WireID(rest, true); err == nil {
			gotD = rest[:n]
		} else if len(gotD) > len(wantDown) {
			gotD = gotD[:len(wantDown)]
		}
		if !bytes.Equal(gotD, wantDown) {
			return &c01xpFinding{respDir, classify(false, st.resp, uid, wantDown, gotD), fmt.Sprintf("exchange %d: expected the received response with only the request id replaced by the downstream's %d (the upstream answered with %d): %s",
				i+1, st.downID, uid, vref.FirstDiff(wantDown, rest))}
		}
		downOff += len(gotD)
	}
	if off != len(up) {
		return &c01xpFinding{dirs[0][0], "forwarded-frame-written-more-than-once", fmt.Sprintf("%d bytes written upstream, the forwarded requests account for %d", len(up), off)}
	}
	if downOff != len(downW) {
		d := dirs[0][1]
		if steps[0].role == vc01sl.Oneway {
			return &c01xpFinding{dirs[0][0], "bytes-written-downstream-for-a-one-way-request", fmt.Sprintf("%d bytes written downstream, the expected responses account for %d: %x", len(downW), downOff, downW[downOff:c01xpMin(len(downW), downOff+48)])}
		}
		return &c01xpFinding{d, "forwarded-frame-written-more-than-once", fmt.Sprintf("%d bytes written downstream, the forwarded responses account for %d", len(downW), downOff)}
	}
	return nil
}

func c01xpMin(a, b int) int {
	if a < b {
		return a
	}
	return b
}

func c01xpKey(sp *vc01sl.Spec, c vc01.Case, dir, what string) string {
	if c.Mode != "" {
		return fmt.Sprintf("codec=%s mode=%s dir=%s %s", sp.Name, c.Mode, dir, what)
	}
	return fmt.Sprintf("codec=%s dir=%s %s", sp.Name, dir, what)
}

func c01xpCheck(p *vreport.Part, cd *c01xpCodec, c vc01.Case) {
	sp := cd.sp
	p.Distinct(fmt.Sprintf("%s|%s|%s|%d|%s|%d|%d|%d|%d|%s|%d|%s", c.Codec, c.Dir, c.Kind, c.Class, c.Hdr, c.Body, c.Seed, c.ID, c.NewID, c.Field, c.Val, c.Mode))
	if sp.Skip != nil {
		if why := sp.Skip(c); why != "" {
			p.Outcome("not-compared:" + why)
			p.Count("not_compared_"+why, 1)
			return
		}
	}
	if p.WantSample() {
		p.Sample(c)
	}
	role := sp.Role(c)
	p.Count("role_"+role, 1)
	stdReq := func(id uint64) []byte { return sp.Std(false, id) }
	stdResp := func(id uint64) []byte { return sp.Std(true, id) }
	caseFrame := func(id uint64) []byte { return sp.Frame(c, id) }
	var first c01xpStep
	dirs := [][2]string{{c.Dir, "response"}, {"request", "response"}}
	if role == vc01sl.Response {
		first = c01xpStep{req: stdReq, resp: caseFrame, downID: c.NewID, role: vc01sl.Request}
		dirs[0] = [2]string{"request", c.Dir}
	} else {
		first = c01xpStep{req: caseFrame, resp: stdResp, downID: c.ID, role: role}
	}
	steps := []c01xpStep{first, {req: stdReq, resp: stdResp, downID: 0x7a7b7c7d, role: vc01sl.Request}}
	listener := ""
	if sp.Listener != nil {
		listener = sp.Listener(c)
	}
	tries := 1
	if sp.Tries != nil {
		tries = sp.Tries(c)
		if tries > 16 {
			tries = 16
		}
	}
	var f *c01xpFinding
	lastSummary := ""
	for t := 0; t < tries && f == nil; t++ {
		obs := &c01xpObs{}
		var res *vrt.Result
		vrt.Explore(vrt.Options{Replay: true, Delay: true, MaxSteps: 400000, KeepProcs: true}, func() {
			*obs = c01xpObs{}
			c01xpBody(cd, listener, steps, obs)
		}, func(r *vrt.Result) { res = r })
		if obs.harness != "" {
			vreport.HarnessError(p.Prop, p.Name, obs.harness)
			return
		}
		if res == nil || res.Diverged != "" || res.StepLimit || res.Deadlock {
			vreport.HarnessError(p.Prop, p.Name, fmt.Sprintf("execution did not complete normally for %+v: %v", c, res))
			return
		}
		for _, pn := range res.Panics {
			firstLine := strings.SplitN(pn, "\n", 2)[0]
			if strings.Contains(firstLine, "(env:") || strings.Contains(firstLine, "(main)") {
				vreport.HarnessError(p.Prop, p.Name, "panic in a harness thread: "+pn)
				return
			}
			f = &c01xpFinding{dirs[0][0], "proxy-goroutine-panics", pn}
		}
		if f == nil && len(res.Recovered) > 0 {
			f = &c01xpFinding{dirs[0][0], "proxy-goroutine-panics", "recovered by the proxy's own handler: " + strings.Join(res.Recovered, " | ")}
		}
		if f == nil {
			f = c01xpJudge(cd, c, dirs, steps, obs)
		}
		lastSummary = obs.summary()
	}
	if f == nil {
		p.Outcome(role + ":forwarded-identical")
		return
	}
	f.detail += " | " + lastSummary
	p.Outcome(f.res)
	p.Violation(c01xpKey(sp, c, f.dir, f.res), f.detail, c)
}

// c01xpKeep is the quick-tier restriction of the stream-layer grid.
func c01xpKeep(c vc01.Case, role string) bool {
	if c.Scribble {
		// the connection read buffers are the fake connection's own; their reuse is
		// what the second exchange of every execution does
		return false
	}
	if vreport.Thorough() {
		// thorough: the codec unit's full grid; the id that plays no role at this level
		// (the upstream connection always allocates 1) is fixed
		if c.Kind != "product" && c.Kind != "idwidth" {
			return true
		}
		if role == vc01sl.Response {
			return c.ID == 0
		}
		return c.NewID == 0
	}
	switch c.Kind {
	case "product":
		return (c.Class == 0 || c.Class == 256) && (c.Body == 0 || c.Body == 256 || c.Body == 65536) && c.ID != 1 && c.Hdr.Pairs != 300
	case "byte":
		return c.Val%32 == 7
	case "idwidth":
		return c.ID == c.NewID || c.NewID == 0
	}
	return true
}

const c01xpRule = "one case = one execution of the default schedule (no deviations) of the full proxy stack on fake connections under the controlled scheduler: the downstream client sends the case's request (or, for response cases, a small standard request carrying the case's new id), the upstream peer answers every forwarded two-way request with the small standard response (or the case's response frame) carrying the id read from the forwarded frame by the reference parser; once the proxy is idle a second, standard exchange follows on the same connections. All bytes written upstream must be exactly the reference encodings of the requests with the upstream ids, all bytes written downstream exactly the reference encodings of the responses with the downstream ids (one-way: none; heartbeat: one heartbeat answer, no upstream traffic). Route: one catch-all rpc rule, no retry, no stream filter. tars frames with >= 2 map entries are repeated up to 16 times. distinct = distinct (dir,kind,lengths,shape,ids,field,value,mode)"

func c01xpPart(t *testing.T, name string, cd *c01xpCodec) {
	old := runtime.GOMAXPROCS(1)
	defer runtime.GOMAXPROCS(old)
	p := vreport.Begin("C01", "xproxy-"+name, time.Duration(vreport.Pick(120, 1500))*time.Second)
	si, sn := vreport.Shard()
	idx := 0
	complete := vreport.Run(p,
		func(yield func(vc01.Case) bool) {
			cd.sp.Cases(func(c vc01.Case) bool {
				if !c01xpKeep(c, cd.sp.Role(c)) {
					return true
				}
				k := idx
				idx++
				if sn > 1 && k%sn != si {
					return true
				}
				return yield(c)
			})
		},
		func(p *vreport.Part, c vc01.Case) { c01xpCheck(p, cd, c) })
	p.End(complete, cd.sp.Bound+"; level 2 keeps (quick) class-like length {0,256} x shapes without the 300-pair one x body {0,256,65536} x the id pairs not starting at 1, every sweep/zero/max case, 8 of the 256 one-byte bodies; (thorough) the codec unit's full grid with the id that plays no role at this level fixed to 0; read buffers: the connections' own", c01xpRule)
}

func TestVerifC01XProxyBolt(t *testing.T) {
	c01xpPart(t, "bolt", &c01xpCodec{sp: vc01sl.Bolt(false), proto: bolt.ProtocolName})
}

func TestVerifC01XProxyBoltv2(t *testing.T) {
	c01xpPart(t, "boltv2", &c01xpCodec{sp: vc01sl.Bolt(true), proto: boltv2.ProtocolName})
}

func TestVerifC01XProxyDubbo(t *testing.T) {
	c01xpPart(t, "dubbo", &c01xpCodec{sp: vc01sl.Dubbo(), proto: dubbo.ProtocolName})
}

func TestVerifC01XProxyDubboThrift(t *testing.T) {
	c01xpPart(t, "dubbothrift", &c01xpCodec{sp: vc01sl.DubboThrift(), proto: dubbothrift.ProtocolName})
}

func TestVerifC01XProxyTars(t *testing.T) {
	c01xpPart(t, "tars", &c01xpCodec{sp: vc01sl.Tars(), proto: tars.ProtocolName})
}

var _ = time.Second
