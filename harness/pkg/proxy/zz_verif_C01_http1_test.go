//go:build verif

// C01 seam (c): HTTP/1.1 forwarding fidelity through the REAL proxy.
//
// Per case, on fresh connections: raw request bytes are injected into a fake
// downstream connection whose read filter is the real proxy (NewProxy,
// downstream/upstream protocol Http1). The real HTTP/1 server stream
// connection (its serve goroutine, fasthttp parser) hands the request to the
// real downStream, which runs on the real worker pool, matches the real router
// (a prefix "/" route and a path "*" route to one cluster, no rewrite of any kind configured), takes a connection
// from the real HTTP/1 connection pool of the real cluster manager (the client
// connection is a vfake.Conn made by the registered factory) and sends the
// request through the real client stream (AppendHeaders / AppendData). The bytes
// written upstream are parsed by the harness' own HTTP/1 parser and compared with
// what was sent. Then a scripted response is injected on the upstream
// connection and the bytes written downstream are compared with it.
//
// Goroutines run free (the HTTP/1 serve loops use unbuffered channels); every
// step waits for an observable condition (the request/response is complete on
// the recording connection, the proxy has no active stream left) with a
// generous patience (c01hTimeout, counted on the harness' progress clock, see
// c01hDeadline; a case that runs into it is re-run once alone, c01hRerun) that
// yields a HARNESS error, never a violation. Nothing depends on timing: one
// request is in flight, each side's message is compared only after the whole
// exchange is over.
package proxy

import (
	"bytes"
	"context"
	stdjson "encoding/json"
	"fmt"
	"os"
	"runtime"
	"sort"
	"strconv"
	"strings"
	"sync"
	"sync/atomic"
	"testing"
	"time"

	"mosn.io/api"
	v2 "mosn.io/mosn/pkg/config/v2"
	"mosn.io/mosn/pkg/log"
	"mosn.io/mosn/pkg/protocol"
	"mosn.io/mosn/pkg/router"
	_ "mosn.io/mosn/pkg/stream/http"
	mosnsync "mosn.io/mosn/pkg/sync"
	"mosn.io/mosn/pkg/types"
	"mosn.io/mosn/pkg/upstream/cluster"
	"mosn.io/mosn/pkg/verifrt/vfake"
	"mosn.io/mosn/pkg/verifrt/vreport"
	"mosn.io/pkg/variable"
)

const (
	c01hListener = "c01Listener"
	c01hRouter   = "c01Router"
	c01hCluster  = "c01http"
)

// generous; only ever produces a HARNESS error. Measured on the harness' own
// progress clock (c01hTicks), not on the wall clock: see c01hDeadline.
var c01hTimeout = func() time.Duration {
	if ms, err := strconv.Atoi(os.Getenv("VERIF_C01H_TIMEOUT_MS")); err == nil && ms > 0 {
		return time.Duration(ms) * time.Millisecond
	}
	return 60 * time.Second
}()

// The progress clock: a goroutine of this process that sleeps c01hTick and then
// counts one tick. A wait gives up after c01hTimeout/c01hTick TICKS. On an idle
// machine that is c01hTimeout of wall time. When the whole process is frozen or
// starved (observed on the shared build machine: a neighbour's test binaries
// drove the machine into the OOM killer, everything stalled for tens of seconds
// and a 20 s wall-clock deadline fired twice in a unit that needs 4 s of CPU),
// the ticker is frozen / starved with it: one long sleep is ONE tick, so the
// deadline only advances while goroutines of this process are being scheduled
// (every runnable goroutine of mosn gets the processor between two ticks as
// surely as the ticker does). A genuine hang (a goroutine that waits for
// something that never comes) still runs into the deadline.
const c01hTick = 10 * time.Millisecond

var (
	c01hTicks     int64
	c01hClockOnce sync.Once
)

type c01hDeadline struct{ at int64 }

func c01hNewDeadline() c01hDeadline {
	c01hClockOnce.Do(func() {
		go func() {
			for {
				time.Sleep(c01hTick)
				atomic.AddInt64(&c01hTicks, 1)
			}
		}()
	})
	return c01hDeadline{at: atomic.LoadInt64(&c01hTicks) + int64(c01hPatience()/c01hTick) + 1}
}

// c01hHangConfirmed: a case timed out twice in a row (run + re-run alone). The
// unit's verdict is a harness error from then on; the remaining cases are still
// run, with a short patience and without re-runs, so that the unit ends soon.
var c01hHangConfirmed int32

func c01hPatience() time.Duration {
	if atomic.LoadInt32(&c01hHangConfirmed) != 0 && c01hTimeout > 5*time.Second {
		return 5 * time.Second
	}
	return c01hTimeout
}

func (d c01hDeadline) expired() bool { return atomic.LoadInt64(&c01hTicks) >= d.at }

// c01hRecovered counts cases whose first run timed out and whose re-run (alone,
// on fresh connections) completed: reported per part as timeouts_recovered_by_rerun.
var c01hRecovered int64

func c01hIsTimeout(harness string) bool { return strings.Contains(harness, "timeout") }

// c01hRerun runs a case and, if a wait of it timed out, once more on fresh
// connections before a harness error is declared: a case that hangs because of
// what it IS hangs again; one that was a victim of the machine does not.
func c01hRerun[T any](run func() (T, string)) (T, string) {
	obs, h := run()
	if !c01hIsTimeout(h) || atomic.LoadInt32(&c01hHangConfirmed) != 0 {
		return obs, h
	}
	fmt.Fprintf(os.Stderr, "C01 http: first run timed out (%s); running the case again on fresh connections\n", h)
	obs2, h2 := run()
	if c01hIsTimeout(h2) {
		atomic.StoreInt32(&c01hHangConfirmed, 1)
		return obs2, h2 + " [twice: the case was run again on fresh connections and timed out again; first run: " + h + "]"
	}
	atomic.AddInt64(&c01hRecovered, 1)
	return obs2, h2
}

// c01hReportRecovered is called by every part before End.
func c01hReportRecovered(p *vreport.Part) {
	if n := atomic.SwapInt64(&c01hRecovered, 0); n > 0 {
		p.Count("timeouts_recovered_by_rerun", int(n))
	}
}

var c01hDumpOnce sync.Once

// c01hDump writes the stacks of all goroutines to stderr (the unit's log) the
// first time a wait times out: what tells starvation from a hang.
func c01hDump(what string) {
	c01hDumpOnce.Do(func() {
		buf := make([]byte, 1<<20)
		n := runtime.Stack(buf, true)
		fmt.Fprintf(os.Stderr, "C01 http: TIMEOUT (%s) - goroutines:\n%s\n", what, buf[:n])
	})
}

// ---------------------------------------------------------------------------
// HTTP/1 text: builder and the harness' own parser (independent of fasthttp)

type c01hField struct {
	K string `json:"k"`
	V string `json:"v"`
}

// c01hBody expands a body spec: "" (no body), "z<n>" (n patterned bytes),
// "all" (every byte value 0..255 ascending), "lit:<text>".
func c01hBody(spec string) []byte {
	switch {
	case spec == "":
		return nil
	case spec == "all":
		b := make([]byte, 256)
		for i := range b {
			b[i] = byte(i)
		}
		return b
	case strings.HasPrefix(spec, "lit:"):
		return []byte(spec[4:])
	case strings.HasPrefix(spec, "z"):
		n, _ := strconv.Atoi(spec[1:])
		b := make([]byte, n)
		for i := range b {
			b[i] = byte(i*131 + i/251 + 7)
		}
		return b
	}
	panic("c01h: bad body spec " + spec)
}

// c01hFrame appends the framing headers and the body. framing: "cl"
// (Content-Length), "chunked:<k>" (chunks of k bytes, then the last-chunk),
// "none" (no framing header at all: a request without body).
func c01hFrame(dst []byte, framing string, body []byte) []byte {
	switch {
	case framing == "none":
		return append(dst, "\r\n"...)
	case framing == "cl":
		dst = append(dst, fmt.Sprintf("Content-Length: %d\r\n\r\n", len(body))...)
		return append(dst, body...)
	case strings.HasPrefix(framing, "chunked:"):
		k, _ := strconv.Atoi(framing[8:])
		dst = append(dst, "Transfer-Encoding: chunked\r\n\r\n"...)
		for off := 0; off < len(body); off += k {
			end := off + k
			if end > len(body) {
				end = len(body)
			}
			dst = append(dst, fmt.Sprintf("%x\r\n", end-off)...)
			dst = append(dst, body[off:end]...)
			dst = append(dst, "\r\n"...)
		}
		return append(dst, "0\r\n\r\n"...)
	}
	panic("c01h: bad framing " + framing)
}

var errC01hCloseDelimited = fmt.Errorf("response without content-length or chunked framing (close-delimited)")

type c01hMsg struct {
	Line   string // start line without CRLF
	Fields []c01hField
	Body   []byte
	Raw    int // bytes consumed
}

// c01hParse parses one message from b. complete=false: more bytes needed.
// isResp selects the body rules of a response to reqMethod.
func c01hParse(b []byte, isResp bool, reqMethod string) (m c01hMsg, complete bool, err error) {
	he := bytes.Index(b, []byte("\r\n\r\n"))
	if he < 0 {
		return m, false, nil
	}
	lines := strings.Split(string(b[:he]), "\r\n")
	m.Line = lines[0]
	cl, chunked := -1, false
	for _, l := range lines[1:] {
		i := strings.IndexByte(l, ':')
		if i <= 0 {
			return m, false, fmt.Errorf("malformed header line %q", l)
		}
		k, v := l[:i], strings.Trim(l[i+1:], " \t")
		m.Fields = append(m.Fields, c01hField{k, v})
		switch strings.ToLower(k) {
		case "content-length":
			n, e := strconv.Atoi(v)
			if e != nil || n < 0 {
				return m, false, fmt.Errorf("bad content-length %q", v)
			}
			if cl >= 0 && cl != n {
				return m, false, fmt.Errorf("conflicting content-length fields")
			}
			cl = n
		case "transfer-encoding":
			if strings.EqualFold(v, "chunked") {
				chunked = true
			} else if !strings.EqualFold(v, "identity") {
				return m, false, fmt.Errorf("unexpected transfer-encoding %q", v)
			}
		}
	}
	rest := b[he+4:]
	pos := he + 4
	noBody := false
	if isResp {
		parts := strings.SplitN(m.Line, " ", 3)
		code := 0
		if len(parts) >= 2 {
			code, _ = strconv.Atoi(parts[1])
		}
		if reqMethod == "HEAD" || code == 204 || code == 304 || (code >= 100 && code < 200) {
			noBody = true
		}
	}
	switch {
	case noBody:
	case chunked:
		for {
			le := bytes.Index(rest, []byte("\r\n"))
			if le < 0 {
				return m, false, nil
			}
			szs := string(rest[:le])
			if i := strings.IndexByte(szs, ';'); i >= 0 {
				szs = szs[:i]
			}
			sz, e := strconv.ParseInt(strings.TrimSpace(szs), 16, 32)
			if e != nil || sz < 0 {
				return m, false, fmt.Errorf("bad chunk size %q", rest[:le])
			}
			rest = rest[le+2:]
			pos += le + 2
			if sz == 0 {
				// trailer section (none expected) + final CRLF
				te := bytes.Index(rest, []byte("\r\n"))
				if te < 0 {
					return m, false, nil
				}
				if te != 0 {
					return m, false, fmt.Errorf("unexpected trailer section %q", rest)
				}
				pos += 2
				break
			}
			if int64(len(rest)) < sz+2 {
				return m, false, nil
			}
			m.Body = append(m.Body, rest[:sz]...)
			if string(rest[sz:sz+2]) != "\r\n" {
				return m, false, fmt.Errorf("chunk data not followed by CRLF")
			}
			rest = rest[sz+2:]
			pos += int(sz) + 2
		}
	case cl >= 0:
		if len(rest) < cl {
			return m, false, nil
		}
		m.Body = append(m.Body, rest[:cl]...)
		pos += cl
	default:
		if isResp {
			// close-delimited: the caller decides (complete once the connection is closed)
			m.Body = append(m.Body, rest...)
			m.Raw = len(b)
			return m, false, errC01hCloseDelimited
		}
	}
	m.Raw = pos
	return m, true, nil
}

// ---------------------------------------------------------------------------
// case

type c01hCase struct {
	Part       string      `json:"part"`
	Method     string      `json:"method"`
	Target     string      `json:"target"`
	Host       string      `json:"host"` // "" = no Host field (HTTP/1.0 style; only in the host part)
	ReqFields  []c01hField `json:"req_fields"`
	ReqBody    string      `json:"req_body"`    // body spec
	ReqFraming string      `json:"req_framing"` // none | cl | chunked:<k>
	Status     int         `json:"status"`
	Reason     string      `json:"reason"`
	RespFields []c01hField `json:"resp_fields"`
	RespBody   string      `json:"resp_body"`
	RespFrame  string      `json:"resp_framing"` // cl | chunked:<k>
}

func (c *c01hCase) requestBytes() []byte {
	b := []byte(c.Method + " " + c.Target + " HTTP/1.1\r\n")
	if c.Host != "" {
		b = append(b, ("Host: " + c.Host + "\r\n")...)
	}
	for _, f := range c.ReqFields {
		b = append(b, (f.K + ": " + f.V + "\r\n")...)
	}
	return c01hFrame(b, c.ReqFraming, c01hBody(c.ReqBody))
}

func (c *c01hCase) responseBytes() []byte {
	b := []byte(fmt.Sprintf("HTTP/1.1 %d %s\r\n", c.Status, c.Reason))
	for _, f := range c.RespFields {
		b = append(b, (f.K + ": " + f.V + "\r\n")...)
	}
	return c01hFrame(b, c.RespFrame, c01hBody(c.RespBody))
}

// ---------------------------------------------------------------------------
// environment

var c01hOnce sync.Once

func c01hInit() {
	c01hOnce.Do(func() {
		vfake.Install()
		log.DefaultLogger.SetLogLevel(log.FATAL)
		log.Proxy.SetLogLevel(log.FATAL)
		if os.Getenv("VERIF_DEBUG") == "3" {
			log.DefaultLogger.SetLogLevel(log.DEBUG)
			log.Proxy.SetLogLevel(log.DEBUG)
		}
		initGlobalStats()
		pool = mosnsync.NewWorkerPool(64)
		// what pkg/filter/network/proxy (the filter factory, which cannot be imported from
		// here: import cycle) does in its init: without it Set(VarProtocolConfig) is a no-op
		// and the proxy would auto-detect the protocol instead of using the configured one
		_ = variable.Register(variable.NewVariable(types.VarProtocolConfig, nil, nil, variable.DefaultSetter, 0))
		cc := v2.Cluster{Name: c01hCluster, ClusterType: v2.SIMPLE_CLUSTER, LbType: v2.LB_ROUNDROBIN}
		hosts := []v2.Host{{HostConfig: v2.HostConfig{Address: "127.0.0.1:21080", Weight: 1}}}
		cluster.NewClusterManagerSingleton([]v2.Cluster{cc}, map[string][]v2.Host{c01hCluster: hosts}, nil)
		// three router configurations, no rewrite of any kind: upstream protocol = the
		// listener's (default), or fixed to Http2 / Http1 by the route's upstream_protocol
		for name, upProto := range map[string]string{c01hRouter: "", c01hRouter + "-to-Http2": "Http2", c01hRouter + "-to-Http1": "Http1"} {
			action := func() map[string]interface{} {
				a := map[string]interface{}{"cluster_name": c01hCluster}
				if upProto != "" {
					a["upstream_protocol"] = upProto
				}
				return a
			}
			cfg := map[string]interface{}{
				"router_config_name": name,
				"virtual_hosts": []interface{}{map[string]interface{}{
					"name":    "vh",
					"domains": []string{"*"},
					"routers": []interface{}{map[string]interface{}{
						"match": map[string]interface{}{"prefix": "/"},
						"route": action(),
					}, map[string]interface{}{
						// asterisk-form (OPTIONS *): HTTP/2 hands the path "*" to the router, HTTP/1 "/*"
						"match": map[string]interface{}{"path": "*"},
						"route": action(),
					}},
				}},
			}
			b, _ := stdjson.Marshal(cfg)
			rc := &v2.RouterConfiguration{}
			if err := stdjson.Unmarshal(b, rc); err != nil {
				panic(err)
			}
			if err := router.GetRoutersMangerInstance().AddOrUpdateRouters(rc); err != nil {
				panic(err)
			}
		}
	})
}

type c01hRec struct {
	mu   sync.Mutex
	up   *vfake.Conn
	upB  []byte
	dnB  []byte
	sig  chan struct{}
	ups  int
	done bool
}

// OnEvent: connection events wake the waiting harness goroutine as well
func (r *c01hRec) OnEvent(event api.ConnectionEvent) { r.notify() }

func (r *c01hRec) notify() {
	select {
	case r.sig <- struct{}{}:
	default:
	}
}

// wait blocks until pred (evaluated under the lock) holds.
func (r *c01hRec) wait(what string, pred func() bool) error {
	deadline := c01hNewDeadline()
	poll := time.NewTimer(500 * time.Microsecond)
	defer poll.Stop()
	for {
		r.mu.Lock()
		ok := pred()
		r.mu.Unlock()
		if ok {
			return nil
		}
		if deadline.expired() {
			c01hDump("waiting for: " + what)
			return fmt.Errorf("timeout (%v) waiting for: %s", c01hPatience(), what)
		}
		select {
		case <-r.sig:
		case <-poll.C: // conditions that no connection write / event announces
			poll.Reset(500 * time.Microsecond)
		}
	}
}

type c01hObs struct {
	upReq     c01hMsg
	upRaw     []byte
	gotUp     bool
	dnResp    c01hMsg
	dnRaw     []byte
	local     bool // the proxy answered by itself, nothing was sent upstream
	downClose bool
}

func c01hInject(c *vfake.Conn, b []byte, what string) error {
	done := make(chan struct{})
	go func() {
		defer close(done)
		c.InjectRead(b)
	}()
	deadline := c01hNewDeadline()
	poll := time.NewTimer(c01hTick)
	defer poll.Stop()
	for {
		select {
		case <-done:
			return nil
		case <-poll.C:
			poll.Reset(c01hTick)
		}
		if deadline.expired() {
			select {
			case <-done:
				return nil
			default:
			}
			c01hDump(what + " was not consumed")
			return fmt.Errorf("timeout (%v): %s was not consumed", c01hPatience(), what)
		}
	}
}

// c01hSession is one downstream connection with its proxy (and whatever
// upstream connections the pool creates for it).
type c01hSession struct {
	rec  *c01hRec
	down *vfake.Conn
	p    *proxy
}

func c01hNewSession() (*c01hSession, string) { return c01hNewSessionProto(protocol.HTTP1) }

func c01hNewSessionProto(proto api.ProtocolName) (*c01hSession, string) {
	return c01hNewSessionProtos(proto, proto)
}

func c01hNewSessionProtos(proto, upProto api.ProtocolName) (*c01hSession, string) {
	routerName := c01hRouter
	if upProto != proto {
		routerName = c01hRouter + "-to-" + string(upProto)
	}
	return c01hNewSessionCfg(proto, upProto, c01hListener, routerName)
}

// c01hNewSessionCfg: listener names the stream filter configuration the proxy looks up
// (streamfilter manager, keyed by listener name; none registered for c01hListener),
// routerName one of the router configurations of c01hInit.
func c01hNewSessionCfg(proto, upProto api.ProtocolName, listener, routerName string) (*c01hSession, string) {
	c01hInit()
	rec := &c01hRec{sig: make(chan struct{}, 1)}
	vfake.Reset()
	vfake.OnCreate = func(uc *vfake.Conn) {
		rec.mu.Lock()
		rec.up = uc
		rec.ups++
		rec.mu.Unlock()
		uc.OnWrite = func(_ *vfake.Conn, b []byte) {
			rec.mu.Lock()
			rec.upB = append(rec.upB, b...)
			rec.mu.Unlock()
			rec.notify()
		}
	}
	ctx := variable.NewVariableContext(context.Background())
	_ = variable.Set(ctx, types.VariableAccessLogs, []api.AccessLog{})
	_ = variable.Set(ctx, types.VariableListenerName, listener)
	_ = variable.Set(ctx, types.VarProtocolConfig, []api.ProtocolName{proto})
	down := vfake.NewServerSide("down")
	_ = variable.Set(ctx, types.VariableConnection, down)
	_ = variable.Set(ctx, types.VariableConnectionID, down.ID())
	down.OnWrite = func(_ *vfake.Conn, b []byte) {
		rec.mu.Lock()
		rec.dnB = append(rec.dnB, b...)
		rec.mu.Unlock()
		rec.notify()
	}
	p := NewProxy(ctx, &v2.Proxy{DownstreamProtocol: string(proto), UpstreamProtocol: string(upProto), RouterConfigName: routerName}).(*proxy)
	down.FilterManager().AddReadFilter(p)
	down.FilterManager().InitializeReadFilters()
	down.AddConnectionEventListener(rec)
	if p.serverStreamConn == nil {
		return nil, "the proxy did not create the server stream connection from its configured protocol"
	}
	return &c01hSession{rec: rec, down: down, p: p}, ""
}

// close: both peers go away, the serve goroutines end.
func (s *c01hSession) close() {
	s.rec.mu.Lock()
	up := s.rec.up
	s.rec.mu.Unlock()
	s.down.RemoteClose()
	if up != nil {
		up.RemoteClose()
	}
}

// c01hRun performs one exchange on fresh connections.
func c01hRun(c *c01hCase) (obs c01hObs, harness string) {
	return c01hRerun(func() (c01hObs, string) { return c01hRunOnce(c) })
}

func c01hRunOnce(c *c01hCase) (obs c01hObs, harness string) {
	s, h := c01hNewSession()
	if h != "" {
		return obs, h
	}
	defer s.close()
	return s.exchange(c)
}

// c01hRunSeq performs the exchanges one after the other on the same downstream
// connection (keep-alive; the pool is free to reuse the upstream connection).
func c01hRunSeq(cs []c01hCase) (obs []c01hObs, harness string) {
	return c01hRerun(func() ([]c01hObs, string) { return c01hRunSeqOnce(cs) })
}

func c01hRunSeqOnce(cs []c01hCase) (obs []c01hObs, harness string) {
	s, h := c01hNewSession()
	if h != "" {
		return nil, h
	}
	defer s.close()
	for i := range cs {
		if s.down.IsClosed() {
			return obs, fmt.Sprintf("the downstream connection was closed before exchange %d", i)
		}
		o, h := s.exchange(&cs[i])
		if h != "" {
			return obs, fmt.Sprintf("exchange %d: %s", i, h)
		}
		obs = append(obs, o)
	}
	return obs, ""
}

// exchange sends one request and, once it has arrived upstream, the response.
func (s *c01hSession) exchange(c *c01hCase) (obs c01hObs, harness string) {
	rec, down, p := s.rec, s.down, s.p
	rec.mu.Lock()
	rec.upB, rec.dnB = nil, nil
	rec.mu.Unlock()

	if err := c01hInject(down, c.requestBytes(), "the request"); err != nil {
		return obs, err.Error()
	}
	var perr error
	reqDone := func() bool {
		m, ok, err := c01hParse(rec.upB, false, "")
		if err != nil {
			perr = fmt.Errorf("upstream request does not parse: %v", err)
			return true
		}
		if ok {
			obs.upReq, obs.gotUp = m, true
		}
		return ok
	}
	respDone := func() bool {
		m, ok, err := c01hParse(rec.dnB, true, c.Method)
		if err == errC01hCloseDelimited {
			ok, err = down.IsClosed(), nil
		}
		if err != nil {
			perr = fmt.Errorf("downstream response does not parse: %v", err)
			return true
		}
		if ok {
			obs.dnResp = m
		}
		return ok
	}
	if err := rec.wait("the request on the upstream connection, a local reply, or the connection being closed", func() bool { return reqDone() || respDone() || down.IsClosed() }); err != nil {
		return obs, err.Error()
	}
	if perr == nil && !obs.gotUp && down.IsClosed() {
		rec.mu.Lock()
		done := respDone()
		obs.upRaw, obs.dnRaw = append([]byte{}, rec.upB...), append([]byte{}, rec.dnB...)
		rec.mu.Unlock()
		if !done {
			// closed without a (framed) reply
			obs.local, obs.downClose = true, true
			obs.dnResp.Line = "(connection closed) " + string(obs.dnRaw)
			return obs, ""
		}
	}
	if perr != nil {
		rec.mu.Lock()
		obs.upRaw, obs.dnRaw = append([]byte{}, rec.upB...), append([]byte{}, rec.dnB...)
		rec.mu.Unlock()
		return obs, ""
	}
	if !obs.gotUp {
		obs.local = true
	} else {
		rec.mu.Lock()
		up := rec.up
		rec.mu.Unlock()
		if err := c01hInject(up, c.responseBytes(), "the response"); err != nil {
			return obs, err.Error()
		}
		if err := rec.wait("the response on the downstream connection", respDone); err != nil {
			return obs, err.Error()
		}
	}
	// the exchange is over when the proxy has released the stream
	deadline := c01hNewDeadline()
	for {
		p.asMux.RLock()
		n := p.activeStreams.Len()
		p.asMux.RUnlock()
		if n == 0 {
			break
		}
		if deadline.expired() {
			c01hDump("the proxy still has an active stream")
			return obs, "timeout: the proxy still has an active stream after the response was written"
		}
		time.Sleep(20 * time.Microsecond)
	}
	rec.mu.Lock()
	obs.upRaw, obs.dnRaw = append([]byte{}, rec.upB...), append([]byte{}, rec.dnB...)
	rec.mu.Unlock()
	obs.downClose = down.IsClosed()
	return obs, ""
}

// ---------------------------------------------------------------------------
// oracle

// fields MOSN sets by design / framing: enumerated, never compared
var c01hIgnoredReq = map[string]bool{"connection": true, "content-length": true, "transfer-encoding": true}
var c01hIgnoredResp = map[string]bool{"connection": true, "content-length": true, "transfer-encoding": true}

func c01hNameClass(k string) string {
	switch k {
	case "host", "user-agent", "content-type", "cookie", "server", "date", "accept-encoding", "expect", "trailer", "set-cookie":
		return k
	}
	return "other"
}

func c01hMultiset(fs []c01hField, ignored map[string]bool) map[string][]string {
	m := map[string][]string{}
	for _, f := range fs {
		k := strings.ToLower(f.K)
		if ignored[k] {
			continue
		}
		m[k] = append(m[k], f.V)
	}
	for _, v := range m {
		sort.Strings(v)
	}
	return m
}

type c01hFinding struct{ key, detail string }

// c01hCompareFields: names case-insensitive, values byte-for-byte, as a multiset.
func c01hCompareFields(dir string, sent, got []c01hField, ignored map[string]bool, absentOK map[string]bool) []c01hFinding {
	var out []c01hFinding
	s, g := c01hMultiset(sent, ignored), c01hMultiset(got, ignored)
	var names []string
	for k := range s {
		names = append(names, k)
	}
	for k := range g {
		if _, ok := s[k]; !ok {
			names = append(names, k)
		}
	}
	sort.Strings(names)
	for _, k := range names {
		sv, gv := s[k], g[k]
		if strings.Join(sv, "\x00") == strings.Join(gv, "\x00") && len(sv) == len(gv) {
			continue
		}
		cls := c01hNameClass(k)
		switch {
		case len(sv) == 0:
			if absentOK[k] {
				continue
			}
			out = append(out, c01hFinding{fmt.Sprintf("http1 dir=%s header-added name=%s", dir, cls), fmt.Sprintf("field %q was not sent, forwarded message carries %q", k, gv)})
		case len(gv) == 0:
			out = append(out, c01hFinding{fmt.Sprintf("http1 dir=%s header-dropped name=%s", dir, cls), fmt.Sprintf("field %q sent with %q, absent from the forwarded message", k, sv)})
		case len(gv) < len(sv):
			out = append(out, c01hFinding{fmt.Sprintf("http1 dir=%s repeated-header-collapsed name=%s", dir, cls), fmt.Sprintf("field %q sent %d times %q, forwarded %d times %q", k, len(sv), sv, len(gv), gv)})
		case len(gv) > len(sv):
			out = append(out, c01hFinding{fmt.Sprintf("http1 dir=%s header-duplicated name=%s", dir, cls), fmt.Sprintf("field %q sent %q, forwarded %q", k, sv, gv)})
		default:
			out = append(out, c01hFinding{fmt.Sprintf("http1 dir=%s header-value-changed name=%s", dir, cls), fmt.Sprintf("field %q sent %q, forwarded %q", k, sv, gv)})
		}
	}
	return out
}

func c01hTargetClass(sent, got string) string {
	sp, sq, sHasQ := strings.Cut(sent, "?")
	gp, gq, gHasQ := strings.Cut(got, "?")
	switch {
	case sp != gp && (sq != gq || sHasQ != gHasQ):
		return "path-and-query-changed"
	case sp != gp:
		return "path-changed"
	case sHasQ && !gHasQ && sq == "":
		return "empty-query-question-mark-dropped"
	default:
		return "query-changed"
	}
}

func c01hShort(b []byte) string {
	if len(b) <= 48 {
		return fmt.Sprintf("%q", b)
	}
	return fmt.Sprintf("%q…(%d bytes)", b[:48], len(b))
}

func c01hBodyDiff(sent, got []byte) string {
	i := 0
	for i < len(sent) && i < len(got) && sent[i] == got[i] {
		i++
	}
	return fmt.Sprintf("sent %d bytes, forwarded %d bytes, first difference at offset %d: sent %s, got %s", len(sent), len(got), i, c01hShort(sent[i:]), c01hShort(got[i:]))
}

// c01hJudge compares both directions of one exchange.
func c01hJudge(c *c01hCase, obs *c01hObs) []c01hFinding {
	var out []c01hFinding
	if obs.local {
		if strings.HasPrefix(obs.dnResp.Line, "(connection closed)") {
			return append(out, c01hFinding{"http1 dir=request not-forwarded connection-closed-without-reply",
				fmt.Sprintf("the well-formed request %q was not forwarded; the downstream connection was closed, bytes written: %s", c.Method+" "+c.Target, c01hShort(obs.dnRaw))})
		}
		out = append(out, c01hFinding{"http1 dir=request not-forwarded local-reply status=" + strings.SplitN(obs.dnResp.Line+"  ", " ", 3)[1],
			fmt.Sprintf("the well-formed request %q was answered by the proxy itself with %q, nothing reached the upstream", c.Method+" "+c.Target, obs.dnResp.Line)})
		return out
	}
	if !obs.gotUp {
		out = append(out, c01hFinding{"http1 dir=request forwarded-bytes-are-not-a-well-formed-request", fmt.Sprintf("upstream got %s", c01hShort(obs.upRaw))})
		return out
	}
	// ---- request
	parts := strings.Split(obs.upReq.Line, " ")
	if len(parts) != 3 {
		out = append(out, c01hFinding{"http1 dir=request request-line-malformed", fmt.Sprintf("sent %q, forwarded request line %q", c.Method+" "+c.Target+" HTTP/1.1", obs.upReq.Line)})
	} else {
		if parts[0] != c.Method {
			out = append(out, c01hFinding{"http1 dir=request method-changed", fmt.Sprintf("sent %s %s, forwarded %q", c.Method, c.Target, obs.upReq.Line)})
		}
		if parts[1] != c.Target {
			out = append(out, c01hFinding{"http1 dir=request request-target " + c01hTargetClass(c.Target, parts[1]), fmt.Sprintf("sent target %q, forwarded %q", c.Target, parts[1])})
		}
		// the protocol version is not part of the statement: enumerated only
	}
	sent := append([]c01hField{}, c.ReqFields...)
	absentOK := map[string]bool{}
	if c.Host != "" {
		sent = append(sent, c01hField{"Host", c.Host})
	} else {
		absentOK["host"] = true // Host default is set by design
	}
	out = append(out, c01hCompareFields("request", sent, obs.upReq.Fields, c01hIgnoredReq, absentOK)...)
	if sb := c01hBody(c.ReqBody); !bytes.Equal(sb, obs.upReq.Body) {
		out = append(out, c01hFinding{"http1 dir=request body-changed", c01hBodyDiff(sb, obs.upReq.Body)})
	}
	if obs.upReq.Raw != len(obs.upRaw) {
		out = append(out, c01hFinding{"http1 dir=request extra-bytes-after-the-forwarded-request", fmt.Sprintf("%d bytes follow the request: %s", len(obs.upRaw)-obs.upReq.Raw, c01hShort(obs.upRaw[obs.upReq.Raw:]))})
	}
	// ---- response
	rp := strings.SplitN(obs.dnResp.Line, " ", 3)
	if len(rp) < 2 || rp[1] != strconv.Itoa(c.Status) {
		out = append(out, c01hFinding{"http1 dir=response status-code-changed", fmt.Sprintf("upstream answered %d, downstream got status line %q", c.Status, obs.dnResp.Line)})
	}
	// reason phrase and version: not part of the statement, enumerated only
	// a Date field added to a response that has none is what RFC 7231 7.1.1.2 asks of a
	// forwarding recipient: enumerated, not compared (a Date that was sent is compared)
	out = append(out, c01hCompareFields("response", c.RespFields, obs.dnResp.Fields, c01hIgnoredResp, map[string]bool{"date": true})...)
	wantBody := c01hBody(c.RespBody)
	if c.Method == "HEAD" || c.Status == 204 || c.Status == 304 {
		wantBody = nil
	}
	if !bytes.Equal(wantBody, obs.dnResp.Body) {
		out = append(out, c01hFinding{"http1 dir=response body-changed", c01hBodyDiff(wantBody, obs.dnResp.Body)})
	}
	if obs.dnResp.Raw != len(obs.dnRaw) {
		out = append(out, c01hFinding{"http1 dir=response extra-bytes-after-the-forwarded-response", fmt.Sprintf("%d bytes follow the response: %s", len(obs.dnRaw)-obs.dnResp.Raw, c01hShort(obs.dnRaw[obs.dnResp.Raw:]))})
	}
	return out
}

// ---------------------------------------------------------------------------
// enumeration

var c01hSegs = []string{"a", "%2F", "%20", "%41", "..", ".", "", "*", "a+b", "%C3%A4"}
var c01hQueries = []string{"", "?", "?a=b", "?a=%20&b", "?=", "?a=b?c"}

// c01hPaths: "/" + up to maxSeg segments joined by "/" (0 segments = "/").
func c01hPaths(maxSeg int) []string {
	out := []string{"/"}
	var rec func(prefix string, left int)
	rec = func(prefix string, left int) {
		for _, s := range c01hSegs {
			p := prefix + "/" + s
			if p != "/" { // "/" + "" is the root again
				out = append(out, p)
			}
			if left > 1 {
				rec(p, left-1)
			}
		}
	}
	rec("", maxSeg)
	return out
}

// further request-targets outside the segment alphabet: lower-case hex digits,
// sub-delims, matrix parameters, repeated / bracketed / encoded query keys,
// '?' and '/' and '..' inside the query, runs of slashes, dot segments at the
// edges, an encoded NUL, a long path
var c01hExtraTargets = []string{
	"/%2f", "/%c3%a4", "/%C3%a4/%2F%2f", "/a;p=1", "/a;p=1/b;q", "/a:b@c", "/~a", "/a!$&'()*+,;=", "/a%00b", "/a%25", "/a%252F",
	"/a?%2F=%2f", "/a?a=1&a=2", "/a?a[]=1", "/a?q=a+b", "/a?q=%26%3D", "/a?/../b", "/a/?/b", "/a?&", "/a?&&a", "/a?a", "/a?a=", "/a?=b", "/a?a==b", "/a?;",
	"//", "///a", "/a//", "/a///b", "/./a", "/a/./b", "/a/../..", "/..", "/../..", "/.", "/a/.", "/a/..", "/...", "/.a", "/a.", "/a..b",
	"/" + strings.Repeat("long/", 400) + "x?" + strings.Repeat("k=v&", 200),
}

var c01hReqAlphabet = []c01hField{
	{"X-A", "1"}, {"X-A", "2"}, {"x-b", ""}, {"X-C", "a, b;q=0.5 =?%41\t\"q\""},
	{"Content-Type", "application/x-c01"}, {"User-Agent", "c01-agent/1.0"}, {"Cookie", "k=v; k2=v2"}, {"Accept-Encoding", "gzip"},
	{"X-U", "caf\u00e9 \u4e2d"}, {"Connection", "close"},
}
var c01hRespAlphabet = []c01hField{
	{"X-R", "1"}, {"X-R", "2"}, {"x-e", ""}, {"X-L", "a, b;q=0.5 =?%41"},
	{"Content-Type", "application/x-c01"}, {"Server", "c01-origin"}, {"Set-Cookie", "a=1; Path=/"}, {"Set-Cookie", "b=2"},
	{"Date", "Mon, 01 Jan 2001 00:00:00 GMT"}, {"Connection", "close"},
}

// c01hSubsets: all subsequences of alphabet with at most max elements, in alphabet order.
func c01hSubsets(alphabet []c01hField, max int) [][]c01hField {
	var out [][]c01hField
	var rec func(start int, cur []c01hField)
	rec = func(start int, cur []c01hField) {
		out = append(out, append([]c01hField{}, cur...))
		if len(cur) == max {
			return
		}
		for i := start; i < len(alphabet); i++ {
			rec(i+1, append(cur, alphabet[i]))
		}
	}
	rec(0, nil)
	return out
}

func c01hBase(part string) c01hCase {
	return c01hCase{Part: part, Method: "GET", Target: "/a", Host: "c01.example", ReqFraming: "none",
		Status: 200, Reason: "OK", RespBody: "lit:ok", RespFrame: "cl",
		// a Content-Type is present wherever a body is, so that the two recorded
		// default-Content-Type findings do not fire in every case of every part
		RespFields: []c01hField{{"Content-Type", "application/x-c01"}}}
}

func c01hWithBody(c c01hCase, method, body, framing string) c01hCase {
	c.Method, c.ReqBody, c.ReqFraming = method, body, framing
	c.ReqFields = append(append([]c01hField{}, c.ReqFields...), c01hField{"Content-Type", "application/x-c01"})
	return c
}

func c01hCheck(p *vreport.Part, c c01hCase) {
	obs, harness := c01hRun(&c)
	if harness != "" {
		vreport.HarnessError("C01", p.Name, fmt.Sprintf("%s %s: %s", c.Method, c.Target, harness))
		return
	}
	fs := c01hJudge(&c, &obs)
	var keys []string
	for _, f := range fs {
		keys = append(keys, f.key)
		p.Violation(f.key, fmt.Sprintf("%s %s -> %d: %s", c.Method, c.Target, c.Status, f.detail), c)
	}
	out := "forwarded"
	if obs.local {
		out = "local:" + obs.dnResp.Line
	}
	// the observed forms that are enumerated but not compared
	var names []string
	for _, f := range obs.upReq.Fields {
		names = append(names, f.K)
	}
	p.Outcome(out + "|" + strings.Join(keys, ",") + "|" + strings.Join(names, ",") + "|" + strings.SplitN(obs.upReq.Line+" ", " ", 2)[0])
	if p.WantSample() {
		p.Sample(map[string]interface{}{"case": c, "upstream_got": c01hShort(obs.upRaw), "downstream_got": c01hShort(obs.dnRaw)})
	}
}

func c01hFieldsKey(fs []c01hField) string {
	var sb strings.Builder
	for _, f := range fs {
		sb.WriteString(f.K + ":" + f.V + "\n")
	}
	return sb.String()
}

// Part 1: every request-target x {GET, POST+body}.
func TestVerifC01HTTP1Targets(t *testing.T) {
	p := vreport.Begin("C01", "http1-request-targets", time.Duration(vreport.Pick(3, 15))*time.Minute)
	maxSeg := vreport.Pick(3, 4)
	gen := func(yield func(c01hCase) bool) {
		emit := func(method, target string) bool {
			c := c01hBase("targets")
			c.Target = target
			c.ReqFields = []c01hField{{"X-C01", "t"}}
			if method == "GET" {
				return yield(c)
			}
			return yield(c01hWithBody(c, method, "lit:body of "+target, "cl"))
		}
		for _, path := range c01hPaths(maxSeg) {
			for _, q := range c01hQueries {
				for _, m := range []string{"GET", "POST"} {
					if !emit(m, path+q) {
						return
					}
				}
			}
		}
		for _, tg := range c01hExtraTargets {
			for _, m := range []string{"GET", "POST"} {
				if !emit(m, tg) {
					return
				}
			}
		}
		// asterisk-form
		for _, m := range []string{"OPTIONS", "GET"} {
			c := c01hBase("targets")
			c.Method, c.Target = m, "*"
			if !yield(c) {
				return
			}
		}
	}
	complete := vreport.Run(p, gen, func(p *vreport.Part, c c01hCase) {
		p.Distinct(c.Target)
		c01hCheck(p, c)
	})
	c01hReportRecovered(p)
	p.End(complete,
		fmt.Sprintf("request-targets = (('/' | paths of 1..%d segments over {a,%%2F,%%20,%%41,..,.,\"\",*,a+b,%%C3%%A4}) x queries {absent, ?, ?a=b, ?a=%%20&b, ?=, ?a=b?c} + "+strconv.Itoa(len(c01hExtraTargets))+" further targets (lower-case hex, sub-delims, matrix parameters, query edge forms, slash runs, dot segments, %%00, a 2.8 KB target)) x {GET, POST with a body}, plus asterisk-form '*' with OPTIONS and GET; one full exchange each through the real proxy (HTTP/1 listener side, router prefix '/', HTTP/1 pool, client stream) on fresh connections", maxSeg),
		"complete product; distinct = request-target; compared: method, request-target byte-for-byte, header multiset (names case-insensitive, values byte-for-byte; Connection / Content-Length / Transfer-Encoding framing not compared; Date added when absent and the Host default not compared; header name case and the HTTP version are enumerated, not compared), body; response: status code, header multiset, body (reason phrase not compared)")
}

// Part 2: header field sets in both directions.
func TestVerifC01HTTP1Headers(t *testing.T) {
	p := vreport.Begin("C01", "http1-header-sets", time.Duration(vreport.Pick(3, 15))*time.Minute)
	reqSets := c01hSubsets(c01hReqAlphabet, 3)
	respSets := c01hSubsets(c01hRespAlphabet, 3)
	full := vreport.Thorough()
	gen := func(yield func(c01hCase) bool) {
		emit := func(rs, ps []c01hField) bool {
			for _, m := range []string{"GET", "POST"} {
				c := c01hBase("headers")
				c.Target = "/h?x=1"
				c.ReqFields = rs
				c.RespFields = ps
				if m == "POST" {
					c.Method, c.ReqBody, c.ReqFraming = "POST", "lit:req", "cl"
				}
				if !yield(c) {
					return false
				}
			}
			return true
		}
		// no Host field at all (the Host default is MOSN's by design: not compared)
		nh := c01hBase("headers")
		nh.Host = ""
		if !yield(nh) {
			return
		}
		if full {
			for _, rs := range reqSets {
				for _, ps := range respSets {
					if !emit(rs, ps) {
						return
					}
				}
			}
			return
		}
		// quick: the full product of the sets of <= 2 fields, and every set of 3 fields
		// with two sets of the other direction
		for i, rs := range reqSets {
			for j, ps := range respSets {
				if (len(rs) <= 2 && len(ps) <= 2) || j == 0 || i == 0 || j == i%len(respSets) || i == (j+1)%len(reqSets) {
					if !emit(rs, ps) {
						return
					}
				}
			}
		}
	}
	complete := vreport.Run(p, gen, func(p *vreport.Part, c c01hCase) {
		p.Distinct(c.Method + "\n" + c01hFieldsKey(c.ReqFields) + "--\n" + c01hFieldsKey(c.RespFields))
		c01hCheck(p, c)
	})
	bound := fmt.Sprintf("request field sets = all sub-sequences of <= 3 fields of {X-A:1, X-A:2 (repeated name), x-b:<empty>, X-C:<list/quoted/tab value>, Content-Type, User-Agent, Cookie, Accept-Encoding, X-U:<UTF-8>, Connection:close} (%d), response field sets likewise over {X-R:1, X-R:2, x-e:<empty>, X-L, Content-Type, Server, Set-Cookie x2, Date, Connection:close} (%d), x {GET, POST+body}, plus a request without Host", len(reqSets), len(respSets))
	if full {
		bound += "; full product of request sets x response sets"
	} else {
		bound += "; quick: full product of the request sets x response sets of <= 2 fields, every 3-field set with 2 sets of the other direction (the full product is the thorough tier)"
	}
	c01hReportRecovered(p)
	p.End(complete, bound,
		"distinct = (method, request fields, response fields); header multiset compared as in part http1-request-targets; a body-carrying message without Content-Type and a response carrying Date are part of the alphabet (they expose the recorded default Content-Type / Date findings)")
}

// Part 3: methods, bodies and framings, status codes.
func TestVerifC01HTTP1Bodies(t *testing.T) {
	p := vreport.Begin("C01", "http1-methods-bodies-status", time.Duration(vreport.Pick(3, 15))*time.Minute)
	bodies := []string{"lit:", "z1", "all", "z4096", "z4097", "z8192"}
	if vreport.Thorough() {
		bodies = append(bodies, "z70000", "z1048576")
	}
	framings := []string{"cl", "chunked:1", "chunked:7", "chunked:4096", "chunked:100000"}
	methods := []string{"POST", "PUT", "PATCH", "DELETE", "OPTIONS", "PURGE"}
	statuses := []int{200, 201, 202, 204, 206, 301, 302, 304, 400, 401, 403, 404, 418, 499, 500, 502, 503, 504, 599}
	gen := func(yield func(c01hCase) bool) {
		// request bodies x framings x methods
		for _, m := range methods {
			for _, b := range bodies {
				for _, f := range framings {
					if strings.HasPrefix(f, "chunked:1") && len(f) == 9 && len(c01hBody(b)) > 10000 {
						continue // 1-byte chunks of a large body: same path as of a small one
					}
					c := c01hWithBody(c01hBase("bodies"), m, b, f)
					c.Target = "/b"
					if !yield(c) {
						return
					}
				}
			}
		}
		// methods without a body
		for _, m := range []string{"GET", "HEAD", "DELETE", "OPTIONS", "PURGE", "POST", "PUT"} {
			c := c01hBase("bodies")
			c.Method, c.Target = m, "/m"
			if m == "POST" || m == "PUT" {
				c.ReqFraming, c.ReqBody = "cl", "lit:"
			}
			if !yield(c) {
				return
			}
		}
		// a GET / HEAD request that carries a body (well-formed; no defined semantics)
		for _, m := range []string{"GET", "HEAD"} {
			for _, f := range []string{"cl", "chunked:7"} {
				c := c01hWithBody(c01hBase("bodies"), m, "lit:get-with-body", f)
				c.Target = "/g"
				if !yield(c) {
					return
				}
			}
		}
		// response bodies x framings x (some) status codes, and every status code with and without body
		for _, b := range bodies {
			for _, f := range framings {
				for _, st := range []int{200, 404, 500} {
					c := c01hBase("bodies")
					c.Target = "/r"
					c.Status, c.Reason, c.RespBody, c.RespFrame = st, "Reason", b, f
					if !yield(c) {
						return
					}
				}
			}
		}
		for _, st := range statuses {
			for _, b := range []string{"lit:", "lit:status body"} {
				for _, m := range []string{"GET", "HEAD", "POST"} {
					c := c01hBase("bodies")
					if m == "POST" {
						c = c01hWithBody(c, m, "lit:x", "cl")
					}
					c.Method, c.Target = m, "/s"
					c.Status, c.Reason, c.RespBody = st, "Some Reason", b
					if (st == 204 || st == 304) && b != "lit:" {
						continue // such responses cannot carry a body
					}
					if m == "HEAD" {
						// a HEAD response announces the length but carries no body
						c.RespFrame = "cl"
					}
					if !yield(c) {
						return
					}
				}
			}
		}
	}
	complete := vreport.Run(p, gen, func(p *vreport.Part, c c01hCase) {
		p.Distinct(fmt.Sprintf("%s|%s|%s|%d|%s|%s", c.Method, c.ReqBody, c.ReqFraming, c.Status, c.RespBody, c.RespFrame))
		c01hCheck(p, c)
	})
	c01hReportRecovered(p)
	p.End(complete,
		fmt.Sprintf("methods {POST,PUT,PATCH,DELETE,OPTIONS,PURGE} x request bodies %v (z<n> = n patterned bytes, all = every byte value) x framings %v; body-less {GET,HEAD,DELETE,OPTIONS,PURGE,POST,PUT}; GET/HEAD carrying a body; response bodies x framings x {200,404,500}; status codes %v x {empty, small body} x {GET,HEAD,POST}", bodies, framings, statuses),
		"complete products as listed; distinct = (method, request body, request framing, status, response body, response framing); the body is compared after removing the transfer framing on both sides (Content-Length vs chunked is MOSN's choice, not compared)")
}

// Part 4: consecutive exchanges on one keep-alive connection pair.
type c01hSeqCase struct {
	Seq []c01hCase `json:"seq"`
}

func c01hSeqAlphabet() []c01hCase {
	mk := func(method, target string, rf []c01hField, rb, rfr string, st int, pf []c01hField, pb, pfr string) c01hCase {
		return c01hCase{Part: "keepalive", Method: method, Target: target, Host: "c01.example", ReqFields: rf, ReqBody: rb, ReqFraming: rfr,
			Status: st, Reason: "R", RespFields: pf, RespBody: pb, RespFrame: pfr}
	}
	ct := c01hField{"Content-Type", "application/x-c01"}
	return []c01hCase{
		mk("GET", "/k0", nil, "", "none", 200, []c01hField{ct}, "lit:r0", "cl"),
		mk("GET", "/k1/%2F?a=%20&b", []c01hField{{"X-A", "1"}, {"X-A", "2"}, {"Cookie", "k=v; k2=v2"}}, "", "none", 404, []c01hField{ct, {"X-R", "1"}, {"X-R", "2"}, {"Set-Cookie", "a=1; Path=/"}}, "z4096", "cl"),
		mk("POST", "/k2", []c01hField{ct, {"User-Agent", "c01-agent/1.0"}}, "all", "cl", 201, []c01hField{{"x-e", ""}}, "lit:", "cl"),
		mk("POST", "/k3?x", []c01hField{{"Content-Type", "text/k3"}}, "z8192", "chunked:7", 200, []c01hField{{"Content-Type", "text/k3r"}}, "z4097", "chunked:4096"),
		mk("HEAD", "/k4", nil, "", "none", 200, []c01hField{ct, {"Server", "c01-origin"}}, "lit:head", "cl"),
		mk("PUT", "/k5", []c01hField{ct}, "z1", "cl", 204, nil, "lit:", "cl"),
		mk("DELETE", "/k6?=", nil, "", "none", 500, []c01hField{ct, {"X-L", "a, b"}}, "lit:oops", "cl"),
		mk("OPTIONS", "*", nil, "", "none", 200, nil, "lit:", "cl"),
		mk("GET", "/k8", []c01hField{{"Accept-Encoding", "gzip"}, {"x-b", ""}}, "", "none", 304, []c01hField{{"X-R", "8"}}, "lit:", "cl"),
		mk("POST", "/k9", []c01hField{ct}, "lit:", "cl", 302, []c01hField{ct, {"X-L", "/elsewhere"}}, "lit:moved", "cl"),
	}
}

func TestVerifC01HTTP1KeepAlive(t *testing.T) {
	p := vreport.Begin("C01", "http1-keepalive-sequences", time.Duration(vreport.Pick(3, 15))*time.Minute)
	alpha := c01hSeqAlphabet()
	n := vreport.Pick(3, 4)
	gen := func(yield func(c01hSeqCase) bool) {
		idx := make([]int, n)
		for {
			sc := c01hSeqCase{}
			for _, i := range idx {
				sc.Seq = append(sc.Seq, alpha[i])
			}
			if !yield(sc) {
				return
			}
			k := n - 1
			for k >= 0 {
				idx[k]++
				if idx[k] < len(alpha) {
					break
				}
				idx[k] = 0
				k--
			}
			if k < 0 {
				return
			}
		}
	}
	// what each exchange yields when it is alone on fresh connections
	alone := map[string]map[string]bool{}
	aloneKeys := func(c c01hCase) (map[string]bool, string) {
		id := c.Method + " " + c.Target
		if m, ok := alone[id]; ok {
			return m, ""
		}
		obs, h := c01hRun(&c)
		if h != "" {
			return nil, h
		}
		m := map[string]bool{}
		for _, f := range c01hJudge(&c, &obs) {
			m[f.key] = true
		}
		alone[id] = m
		return m, ""
	}
	complete := vreport.Run(p, gen, func(p *vreport.Part, sc c01hSeqCase) {
		var names []string
		for _, c := range sc.Seq {
			names = append(names, c.Method+" "+c.Target)
		}
		p.Distinct(strings.Join(names, " ; "))
		obs, h := c01hRunSeq(sc.Seq)
		if h != "" {
			vreport.HarnessError("C01", p.Name, strings.Join(names, " ; ")+": "+h)
			return
		}
		out := ""
		for i := range obs {
			base, h := aloneKeys(sc.Seq[i])
			if h != "" {
				vreport.HarnessError("C01", p.Name, names[i]+" alone: "+h)
				return
			}
			for _, f := range c01hJudge(&sc.Seq[i], &obs[i]) {
				key := f.key
				if i > 0 && !base[key] {
					// not a property of this message: something of the earlier exchange leaked into it
					key = "http1 keep-alive reuse: exchange differs from the same exchange on fresh connections: " + strings.TrimPrefix(f.key, "http1 ")
				}
				p.Violation(key, fmt.Sprintf("sequence [%s], exchange %d: %s", strings.Join(names, " ; "), i+1, f.detail), sc)
				out += key + ","
			}
		}
		p.Outcome(out + fmt.Sprint(len(obs)))
		if p.WantSample() {
			p.Sample(map[string]interface{}{"sequence": names})
		}
	})
	c01hReportRecovered(p)
	p.End(complete,
		fmt.Sprintf("all sequences of %d exchanges over an alphabet of %d diverse exchanges (GET/HEAD/POST/PUT/DELETE/OPTIONS, targets with escapes and queries, 0..3 request and 0..4 response fields incl. repeated names / empty values / Cookie / Set-Cookie, bodies none / 0 / 1 / all byte values / 4096 / 4097 / 8192 with Content-Length and chunked, status 200/201/204/302/304/404/500) on ONE keep-alive downstream connection (the HTTP/1 pool may reuse the upstream connection)", n, len(alpha)),
		"complete product; every exchange of a sequence is judged like a single exchange; a finding of a later exchange that the same exchange does not show on fresh connections is reported under its own keep-alive key (state of an earlier message leaking into a later one)")
}
