//go:build verif

// C01, protocol pairings inside the HTTP family: an HTTP/1.1 listener in front
// of an HTTP/2 cluster and an HTTP/2 listener in front of an HTTP/1.1 cluster
// (the statement's "all protocol pairings of listener and cluster"), each
// through BOTH mechanisms by which MOSN can be configured for such a pairing:
//
//	route       the route action carries upstream_protocol, no stream filter
//	transcoder  the listener carries the stream filter "transcoder" with type
//	            http2Tohttp / httpTohttp2 (pkg/filter/stream/transcoder/httpconv):
//	            the filter converts the header object and selects the upstream
//	            protocol; the request line of the upstream request is then rebuilt
//	            from the variables the downstream stream published
//	            (VarPath / VarPathOriginal / VarQueryString)
//
// Same real proxy stack and same observation discipline as the HTTP/1 and
// HTTP/2 harnesses; the harness speaks the listener's protocol downstream and
// the cluster's protocol upstream.
package proxy

import (
	"bytes"
	"fmt"
	"sort"
	"strconv"
	"strings"
	"sync"
	"testing"
	"time"

	"golang.org/x/net/http2"
	"mosn.io/api"
	v2 "mosn.io/mosn/pkg/config/v2"
	_ "mosn.io/mosn/pkg/filter/stream/transcoder"
	_ "mosn.io/mosn/pkg/filter/stream/transcoder/httpconv"
	"mosn.io/mosn/pkg/protocol"
	"mosn.io/mosn/pkg/streamfilter"
	"mosn.io/mosn/pkg/verifrt/vreport"
)

// protocol-neutral view of what arrived
type c01xReq struct {
	Method, Target, Authority string
	HasAuthority              bool
	Fields                    []c01hField
	Body                      []byte
	Notes                     []string
}

type c01xResp struct {
	Status string
	Fields []c01hField
	Body   []byte
	Notes  []string
}

func c01xFromH1Req(m *c01hMsg) *c01xReq {
	r := &c01xReq{Body: m.Body}
	// method = up to the first SP, version = after the last SP, request-target = everything
	// in between: a forwarded target that contains a SP (a decoded %20) is then reported as
	// what it is - a changed request-target - and not only as a malformed line
	first, last := strings.IndexByte(m.Line, ' '), strings.LastIndexByte(m.Line, ' ')
	if first > 0 && last > first && strings.HasPrefix(m.Line[last+1:], "HTTP/") {
		r.Method, r.Target = m.Line[:first], m.Line[first+1:last]
	} else {
		r.Notes = append(r.Notes, "malformed request line "+strconv.Quote(m.Line))
	}
	for _, f := range m.Fields {
		if strings.EqualFold(f.K, "host") && !r.HasAuthority {
			r.Authority, r.HasAuthority = f.V, true
			continue
		}
		r.Fields = append(r.Fields, f)
	}
	return r
}

func c01xFromH2Req(m *c01h2Msg, other []string) *c01xReq {
	r := &c01xReq{Body: m.Body, Notes: other}
	r.Method, _ = c01h2Pseudo(m.Fields, ":method")
	r.Target, _ = c01h2Pseudo(m.Fields, ":path")
	r.Authority, r.HasAuthority = c01h2Pseudo(m.Fields, ":authority")
	r.Fields = c01h2Regular(m.Fields)
	if len(m.Trailers) > 0 {
		r.Notes = append(r.Notes, fmt.Sprintf("trailers %v", m.Trailers))
	}
	return r
}

func c01xFromH1Resp(m *c01hMsg) *c01xResp {
	r := &c01xResp{Body: m.Body, Fields: m.Fields}
	if p := strings.SplitN(m.Line, " ", 3); len(p) >= 2 {
		r.Status = p[1]
	}
	return r
}

func c01xFromH2Resp(m *c01h2Msg, other []string) *c01xResp {
	r := &c01xResp{Body: m.Body, Notes: other}
	r.Status, _ = c01h2Pseudo(m.Fields, ":status")
	r.Fields = c01h2Regular(m.Fields)
	if len(m.Trailers) > 0 {
		r.Notes = append(r.Notes, fmt.Sprintf("trailers %v", m.Trailers))
	}
	return r
}

type c01xObs struct {
	req   *c01xReq
	resp  *c01xResp
	local bool
	info  string
}

var c01xOnce sync.Once

// c01xTranscoderType: the converter of pkg/filter/stream/transcoder/httpconv for a pairing.
func c01xTranscoderType(dp api.ProtocolName) string {
	if dp == protocol.HTTP2 {
		return "http2Tohttp"
	}
	return "httpTohttp2"
}

func c01xTranscoderListener(dp api.ProtocolName) string {
	return c01hListener + "-transcoder-" + c01xTranscoderType(dp)
}

// c01xInit registers, per pairing, a listener whose only stream filter is the transcoder
// in its plain form {"type": <converter>} (what a listener's stream_filters entry
// {"type":"transcoder","config":{"type":"http2Tohttp"}} yields): conversion only, no
// rewrite of any kind, no matcher rule.
func c01xInit() {
	c01hInit()
	c01xOnce.Do(func() {
		for _, dp := range []api.ProtocolName{protocol.HTTP1, protocol.HTTP2} {
			cfg := []v2.Filter{{Type: v2.Transcoder, Config: map[string]interface{}{"type": c01xTranscoderType(dp)}}}
			if err := streamfilter.GetStreamFilterManager().AddOrUpdateStreamFilterConfig(c01xTranscoderListener(dp), cfg); err != nil {
				panic(err)
			}
		}
	})
}

// c01xRun: one exchange through pairing pr.
func c01xRun(c *c01hCase, pr *c01xPair) (obs c01xObs, harness string) {
	return c01hRerun(func() (c01xObs, string) {
		o, h := c01xRunOnce(c, pr)
		if h != "" {
			h = pr.name + " " + c.Method + " " + c.Target + ": " + h
		}
		return o, h
	})
}

func c01xRunOnce(c *c01hCase, pr *c01xPair) (obs c01xObs, harness string) {
	c01xInit()
	dp, up := pr.dp, pr.up
	var s *c01hSession
	var h string
	if pr.mech == "transcoder" {
		// the route says nothing about the upstream protocol: the filter selects it
		s, h = c01hNewSessionCfg(dp, up, c01xTranscoderListener(dp), c01hRouter)
		if h == "" && s.p.streamFilterFactory == nil {
			s.close()
			return obs, "the proxy found no stream filter configuration for the transcoder listener"
		}
	} else {
		s, h = c01hNewSessionProtos(dp, up)
	}
	if h != "" {
		return obs, h
	}
	defer s.close()
	rec, down := s.rec, s.down

	// ---- the request, in the listener's protocol
	var reqBytes []byte
	if dp == protocol.HTTP1 {
		reqBytes = c.requestBytes()
	} else {
		cw := c01h2NewWriter()
		cw.buf.WriteString(http2.ClientPreface)
		cw.must(cw.fr.WriteSettings())
		req := []c01hField{{":method", c.Method}, {":scheme", "http"}, {":authority", c.Host}, {":path", c.Target}}
		req = append(req, c01h2Lower(c01h2NoConn(c.ReqFields))...)
		cw.message(1, req, c01hBody(c.ReqBody), c.ReqFraming != "none")
		reqBytes = cw.take()
	}
	if err := c01hInject(down, reqBytes, "the request"); err != nil {
		return obs, err.Error()
	}

	upR, dnR := c01h2NewReader(len(http2.ClientPreface)), c01h2NewReader(0)
	var upM1, dnM1 c01hMsg
	var perr error
	reqDone := func() bool {
		if up == protocol.HTTP1 {
			m, ok, err := c01hParse(rec.upB, false, "")
			if err != nil {
				perr = fmt.Errorf("upstream request does not parse: %v", err)
				return true
			}
			if ok {
				upM1 = m
				obs.req = c01xFromH1Req(&upM1)
			}
			return ok
		}
		upR.feed(rec.upB)
		if upR.err != nil {
			perr = fmt.Errorf("upstream frames do not parse: %v", upR.err)
			return true
		}
		if m := upR.first(); m != nil && m.End {
			obs.req = c01xFromH2Req(m, upR.other)
			return true
		}
		return false
	}
	respDone := func() bool {
		if dp == protocol.HTTP1 {
			m, ok, err := c01hParse(rec.dnB, true, c.Method)
			if err == errC01hCloseDelimited {
				ok, err = down.IsClosed(), nil
			}
			if err != nil {
				perr = fmt.Errorf("downstream response does not parse: %v", err)
				return true
			}
			if ok {
				dnM1 = m
				obs.resp = c01xFromH1Resp(&dnM1)
			}
			return ok
		}
		dnR.feed(rec.dnB)
		if dnR.err != nil {
			perr = fmt.Errorf("downstream frames do not parse: %v", dnR.err)
			return true
		}
		if m := dnR.first(); (m != nil && m.End) || len(dnR.other) > 0 {
			if m != nil {
				obs.resp = c01xFromH2Resp(m, dnR.other)
			} else {
				obs.info = strings.Join(dnR.other, ", ")
			}
			return true
		}
		return false
	}
	// With an HTTP/2 listener the stream is registered with the proxy before the injected
	// read returns; if the proxy has released it again and neither side was written to, the
	// request was dropped (the worker recovered from a panic and cleaned the stream up).
	dropped := func() bool {
		if dp != protocol.HTTP2 {
			return false
		}
		s.p.asMux.RLock()
		n := s.p.activeStreams.Len()
		s.p.asMux.RUnlock()
		return n == 0
	}
	wasDropped := false
	if err := rec.wait("the request on the upstream connection, a local reply, or the connection being closed", func() bool {
		if reqDone() || respDone() || down.IsClosed() {
			return true
		}
		if dropped() && !reqDone() && !respDone() {
			wasDropped = true
			return true
		}
		return false
	}); err != nil {
		return obs, err.Error()
	}
	if perr != nil {
		return obs, perr.Error()
	}
	if wasDropped {
		obs.local = true
		obs.info = "request-dropped-without-reply: the proxy released the stream, nothing was written upstream or downstream"
		return obs, ""
	}
	if obs.req == nil {
		obs.local = true
		if obs.resp == nil && obs.info == "" {
			rec.mu.Lock()
			obs.info = "connection closed, bytes written: " + c01hShort(rec.dnB)
			rec.mu.Unlock()
		}
		return obs, ""
	}
	// ---- the response, in the cluster's protocol
	rec.mu.Lock()
	uc := rec.up
	rec.mu.Unlock()
	var respBytes []byte
	if up == protocol.HTTP1 {
		cc := *c
		if c.Method == "HEAD" && cc.RespFrame != "cl" {
			cc.RespFrame = "cl"
		}
		if cc.RespFrame == "none" {
			cc.RespFrame, cc.RespBody = "cl", "lit:"
		}
		respBytes = cc.responseBytes()
		if c.Method == "HEAD" { // a HEAD response announces the length but carries no body
			respBytes = respBytes[:len(respBytes)-len(c01hBody(cc.RespBody))]
		}
	} else {
		sw := c01h2NewWriter()
		sw.must(sw.fr.WriteSettings())
		sw.must(sw.fr.WriteSettingsAck())
		resp := []c01hField{{":status", strconv.Itoa(c.Status)}}
		resp = append(resp, c01h2Lower(c01h2NoConn(c.RespFields))...)
		sw.message(upR.order[0], resp, c01hBody(c.RespBody), c.RespFrame != "none" && c.Method != "HEAD")
		respBytes = sw.take()
	}
	if err := c01hInject(uc, respBytes, "the response"); err != nil {
		return obs, err.Error()
	}
	if err := rec.wait("the response on the downstream connection", respDone); err != nil {
		return obs, err.Error()
	}
	if perr != nil {
		return obs, perr.Error()
	}
	deadline := c01hNewDeadline()
	for {
		s.p.asMux.RLock()
		n := s.p.activeStreams.Len()
		s.p.asMux.RUnlock()
		if n == 0 {
			break
		}
		if deadline.expired() {
			c01hDump("the proxy still has an active stream")
			return obs, "timeout: the proxy still has an active stream after the response was written"
		}
		time.Sleep(20 * time.Microsecond)
	}
	// final view of both sides
	rec.mu.Lock()
	reqDone()
	respDone()
	if up == protocol.HTTP1 && upM1.Raw != len(rec.upB) {
		obs.req.Notes = append(obs.req.Notes, fmt.Sprintf("%d extra bytes after the request", len(rec.upB)-upM1.Raw))
	}
	if dp == protocol.HTTP1 && dnM1.Raw != len(rec.dnB) {
		obs.resp.Notes = append(obs.resp.Notes, fmt.Sprintf("%d extra bytes after the response", len(rec.dnB)-dnM1.Raw))
	}
	rec.mu.Unlock()
	if perr != nil {
		return obs, perr.Error()
	}
	if len(upR.order) > 1 || len(dnR.order) > 1 {
		return obs, fmt.Sprintf("more than one stream was written (upstream %v, downstream %v)", upR.order, dnR.order)
	}
	return obs, ""
}

// c01xPctDecode: every %XX triplet replaced by its byte, nothing else touched.
func c01xPctDecode(s string) string {
	hex := func(b byte) int {
		switch {
		case b >= '0' && b <= '9':
			return int(b - '0')
		case b >= 'a' && b <= 'f':
			return int(b-'a') + 10
		case b >= 'A' && b <= 'F':
			return int(b-'A') + 10
		}
		return -1
	}
	var out []byte
	for i := 0; i < len(s); i++ {
		if s[i] == '%' && i+2 < len(s) && hex(s[i+1]) >= 0 && hex(s[i+2]) >= 0 {
			out = append(out, byte(hex(s[i+1])<<4|hex(s[i+2])))
			i += 2
			continue
		}
		out = append(out, s[i])
	}
	return string(out)
}

// c01xTargetClass names how the forwarded request-target differs: the classes of the
// same-protocol parts, plus two that only a conversion produces - the path arrives with its
// percent-escapes decoded (the raw bytes, e.g. a SP, in the request line) or re-encoded
// (same decoded path, other escapes).
func c01xTargetClass(sent, got string) string {
	sp, sq, sHasQ := strings.Cut(sent, "?")
	gp, gq, gHasQ := strings.Cut(got, "?")
	if strings.Contains(sp, "%") && got == c01xPctDecode(sp)+sent[len(sp):] {
		return "path-percent-escapes-decoded" // also when a decoded '?' moves the split point
	}
	if sp != gp && strings.Contains(sp, "%") {
		sameQuery := ""
		if sq != gq || sHasQ != gHasQ {
			sameQuery = "-and-query-changed"
		}
		if gp == c01xPctDecode(sp) {
			return "path-percent-escapes-decoded" + sameQuery
		}
		if c01xPctDecode(gp) == c01xPctDecode(sp) {
			return "path-percent-escapes-re-encoded" + sameQuery
		}
	}
	// a target without '?' whose forwarded form splits at a decoded '?' etc. falls through
	return c01hTargetClass(sent, got)
}

var c01xIgnored = map[string]bool{"connection": true, "content-length": true, "transfer-encoding": true}

func c01xJudge(pair string, c *c01hCase, obs *c01xObs, dp, up api.ProtocolName) []c01hFinding {
	var out []c01hFinding
	add := func(key, detail string) { out = append(out, c01hFinding{pair + " " + key, detail}) }
	if obs.local && c01xIsRawTarget(c.Target) && !strings.HasPrefix(obs.info, "request-dropped-without-reply") {
		return out // not a request URI: refusing it is not forbidden
	}
	if obs.local {
		what := "connection-closed-or-stream-error"
		detail := obs.info
		if strings.HasPrefix(obs.info, "request-dropped-without-reply") {
			what = "request-dropped-without-reply"
		}
		if obs.resp != nil {
			what = "local-reply status=" + obs.resp.Status
			detail = fmt.Sprintf("reply %s %v %s", obs.resp.Status, obs.resp.Fields, c01hShort(obs.resp.Body))
		}
		add("dir=request not-forwarded "+what, fmt.Sprintf("the well-formed request %s %q was not forwarded upstream: %s", c.Method, c.Target, detail))
		return out
	}
	rq := obs.req
	if len(rq.Notes) > 0 {
		add("dir=request unexpected-extras", strings.Join(rq.Notes, "; "))
	}
	if rq.Method != c.Method {
		add("dir=request method-changed", fmt.Sprintf("sent %s %s, forwarded method %q", c.Method, c.Target, rq.Method))
	}
	if rq.Target != c.Target && !c01xIsRawTarget(c.Target) {
		add("dir=request request-target "+c01xTargetClass(c.Target, rq.Target), fmt.Sprintf("sent target %q, forwarded %q", c.Target, rq.Target))
	}
	if c.Host != "" && (!rq.HasAuthority || rq.Authority != c.Host) {
		add("dir=request authority-changed", fmt.Sprintf("sent Host/:authority %q, forwarded %q (present=%v)", c.Host, rq.Authority, rq.HasAuthority))
	}
	sent := c.ReqFields
	if dp == protocol.HTTP2 || up == protocol.HTTP2 {
		sent = c01h2NoConn(sent)
	}
	for _, f := range c01hCompareFields("request", sent, rq.Fields, c01xIgnored, nil) {
		add(strings.TrimPrefix(f.key, "http1 "), f.detail)
	}
	if sb := c01hBody(c.ReqBody); !bytes.Equal(sb, rq.Body) {
		add("dir=request body-changed", c01hBodyDiff(sb, rq.Body))
	}
	rs := obs.resp
	if rs == nil {
		add("dir=response not-forwarded", obs.info)
		return out
	}
	if len(rs.Notes) > 0 {
		add("dir=response unexpected-extras", strings.Join(rs.Notes, "; "))
	}
	if c.Method == "HEAD" && c.Status != 504 && rs.Status == "504" {
		// the upstream's answer to HEAD was injected completely (header section, no body) and the
		// client got the proxy's own timeout reply instead: one key, not the field-by-field
		// difference between two unrelated messages
		add("dir=response not-forwarded head-response-awaits-a-body local-reply status=504", fmt.Sprintf("upstream answered HEAD with %d %v, downstream got the proxy's reply %s %v", c.Status, c.RespFields, rs.Status, rs.Fields))
		return out
	}
	if rs.Status != strconv.Itoa(c.Status) {
		add("dir=response status-code-changed", fmt.Sprintf("upstream answered %d, downstream got %q", c.Status, rs.Status))
	}
	sentR := c.RespFields
	if dp == protocol.HTTP2 || up == protocol.HTTP2 {
		sentR = c01h2NoConn(sentR)
	}
	for _, f := range c01hCompareFields("response", sentR, rs.Fields, c01xIgnored, map[string]bool{"date": true}) {
		add(strings.TrimPrefix(f.key, "http1 "), f.detail)
	}
	wantBody := c01hBody(c.RespBody)
	if c.Method == "HEAD" || c.Status == 204 || c.Status == 304 || c.RespFrame == "none" {
		wantBody = nil
	}
	if !bytes.Equal(wantBody, rs.Body) {
		add("dir=response body-changed", c01hBodyDiff(wantBody, rs.Body))
	}
	return out
}

type c01xPair struct {
	name   string
	dp, up api.ProtocolName
	mech   string // route | transcoder
}

// The route pairings keep their historic names (recorded finding keys). http2->http1 by route
// runs LAST: every exchange of it panics in the proxy worker (recorded finding), and the
// recovered panic leaves a poisoned object behind - downStream.giveStream returns the stream
// to its sync.Pool and the HTTP/2 server stream's reset callback then marks the recycled
// object as reset (observed with debug logs: "giveStream" followed by "[downStream] reset
// stream reason StreamRemoteReset"), so the NEXT request that gets the object from the pool,
// of whatever pairing, ends in processError=downstreamReset without reply. Nothing of this
// unit runs after that part in the test process.
var c01xPairs = []c01xPair{
	{"http1->http2", protocol.HTTP1, protocol.HTTP2, "route"},
	{"http1->http2/transcoder", protocol.HTTP1, protocol.HTTP2, "transcoder"},
	{"http2->http1/transcoder", protocol.HTTP2, protocol.HTTP1, "transcoder"},
	{"http2->http1", protocol.HTTP2, protocol.HTTP1, "route"},
}

type c01xCase struct {
	Pair string   `json:"pair"`
	C    c01hCase `json:"c"`
}

func c01xCheck(p *vreport.Part, xc c01xCase) {
	var pr *c01xPair
	for i := range c01xPairs {
		if c01xPairs[i].name == xc.Pair {
			pr = &c01xPairs[i]
		}
	}
	if pr == nil {
		vreport.HarnessError("C01", p.Name, "unknown pair "+xc.Pair)
		return
	}
	c := xc.C
	obs, harness := c01xRun(&c, pr)
	if harness != "" {
		vreport.HarnessError("C01", p.Name, harness)
		return
	}
	var keys []string
	for _, f := range c01xJudge(pr.name, &c, &obs, pr.dp, pr.up) {
		keys = append(keys, f.key)
		p.Violation(f.key, fmt.Sprintf("%s %s -> %d: %s", c.Method, c.Target, c.Status, f.detail), xc)
	}
	var names []string
	if obs.req != nil {
		for _, f := range obs.req.Fields {
			names = append(names, strings.ToLower(f.K))
		}
	}
	sort.Strings(names)
	raw := ""
	if obs.req != nil && c01xIsRawTarget(c.Target) {
		raw = "|raw-target " + c.Target + " forwarded as " + obs.req.Target
	}
	p.Outcome(fmt.Sprintf("%s|local=%v|%s|%s%s", xc.Pair, obs.local, strings.Join(keys, ","), strings.Join(names, ","), raw))
	if p.WantSample() {
		smp := map[string]interface{}{"case": xc}
		if obs.req != nil {
			smp["upstream_got"] = fmt.Sprintf("%s %s authority=%q %v body %s", obs.req.Method, obs.req.Target, obs.req.Authority, obs.req.Fields, c01hShort(obs.req.Body))
		}
		if obs.resp != nil {
			smp["downstream_got"] = fmt.Sprintf("%s %v body %s", obs.resp.Status, obs.resp.Fields, c01hShort(obs.resp.Body))
		}
		p.Sample(smp)
	}
}

// c01xEscTargets: the escaped-path alphabet beyond the segment alphabet. What matters to a
// conversion that hands the path over in decoded + escaped form (net/url: Path / RawPath /
// EscapedPath; fasthttp: Path / PathOriginal) is whether an escape is the CANONICAL encoding
// of its byte for the library in between (upper-case hex of a byte that must be escaped:
// SP, '"', '<', '>', '`', '{', '}', '|', '\\', '^', '%', non-ASCII) or not (escapes of
// reserved / unreserved bytes: %2F %3B %3F %23 %3A %40 %26 %3D %2B %24 %2C %41 %7E,
// lower-case hex), alone and mixed in one path, with and without a query.
var c01xEscTargets = []string{
	// canonical escapes
	"/a%20b/c", "/%22", "/a%22b%22", "/%3C%3E", "/%60", "/%7B%7D", "/%7C", "/%5C", "/%5E", "/%25", "/%2520", "/%7F", "/%01", "/%E4%B8%AD%E6%96%87/x", "/%E4%B8%AD", "/%F0%9F%98%80", "/%FF%FE", "/%C3%A4/%20/%22",
	"/a%20b?q=%20", "/%E4%B8%AD%E6%96%87/x?q=%20", "/%22?", "/%20?a=b?c",
	// non-canonical escapes (of bytes that need none, or in lower-case hex)
	"/a%2Fb/c", "/a%3Bb", "/semi%3Bcolon%3Fmark", "/a%3Fb", "/a%3Fb?c", "/a%23b", "/a%3Ab%40c", "/a%26b%3Dc", "/a%2Bb", "/a%24%2C", "/%7Ea", "/%2E", "/%2E%2E/a", "/a/%2e%2e/b", "/%e4%b8%ad", "/a%3bb",
	// both kinds in one path
	"/a%20b%2Fc", "/%2F%20", "/%20%2F", "/%E4%B8%AD%2F%E6%96%87", "/a%3Bb%20c", "/%41%20", "/a%20b//c", "/a%20b/../c", "/a%20b/./c", "/%20/..", "//%20",
	"/a%5Bb%5D",
}

// c01xRawTargets: paths with raw bytes outside the path grammar of RFC 3986 ('|' '^' '{' '}'
// '`' '\\' '"' '<' '>' '[' ']') that clients nevertheless send. They are not request URIs in the
// sense of the statement ("every request URI"), and a conversion through net/url escapes such
// a byte ('/a|b' -> '/a%7Cb'): ENUMERATED (must be forwarded or refused, everything else of the
// exchange is compared), the request-target itself is NOT compared, its observed form is
// recorded in the outcome.
var c01xRawTargets = []string{"/a|b", "/a|b%2Fc", "/a|b%20c", "/a^b", "/{a}", "/a`b", "/a\\b", "/a\"b", "/<a>", "/a[b]"}

func c01xIsRawTarget(t string) bool {
	for _, r := range c01xRawTargets {
		if r == t {
			return true
		}
	}
	return false
}

// One part per pairing and mechanism.
func TestVerifC01HTTPXCross(t *testing.T) {
	for _, pr := range c01xPairs {
		pr := pr
		p := vreport.Begin("C01", "http-cross-"+pr.name, time.Duration(vreport.Pick(3, 15))*time.Minute)
		maxSeg := vreport.Pick(2, 3)
		maxFields := vreport.Pick(2, 3)
		ua := c01hField{"User-Agent", "c01-agent/1.0"}
		// HEAD through http2->http1/transcoder ends in MOSN's own 60 s route timeout on the wall
		// clock (recorded finding: the HTTP/1 client stream does not know the method was HEAD and
		// waits for a body): one representative, thorough tier only
		headHangs := pr.name == "http2->http1/transcoder"
		allDropped := pr.name == "http2->http1"
		gen := func(yield func(c01xCase) bool) {
			emit := func(c c01hCase) bool { return yield(c01xCase{Pair: pr.name, C: c}) }
			if allDropped {
				// every exchange of this pairing ends the same way (see the finding): a handful of
				// representatives, so that a repaired tree is noticed, not the full product
				for _, m := range []string{"GET", "POST"} {
					for _, tg := range []string{"/a", "/%2F/a//b/../c?a=%20&b", "/a?", "/a%20b/%E4%B8%AD?q=%22"} {
						c := c01hBase("x")
						c.Target = tg
						c.ReqFields = []c01hField{ua, {"x-a", "1"}}
						if m == "POST" {
							c = c01hWithBody(c, m, "lit:req", "cl")
						}
						if !emit(c) {
							return
						}
					}
				}
				return
			}
			// targets
			var targets []string
			for _, path := range c01hPaths(maxSeg) {
				for _, q := range c01hQueries {
					targets = append(targets, path+q)
				}
			}
			targets = append(targets, c01hExtraTargets...)
			targets = append(targets, c01xEscTargets...)
		targets = append(targets, c01xRawTargets...)
			for _, tg := range targets {
				for _, m := range []string{"GET", "POST"} {
					c := c01hBase("x")
					c.Target = tg
					c.ReqFields = []c01hField{ua}
					if m == "POST" {
						c = c01hWithBody(c, m, "lit:req", "cl")
					}
					if !emit(c) {
						return
					}
				}
			}
			// asterisk-form
			{
				c := c01hBase("x")
				c.Method, c.Target = "OPTIONS", "*"
				c.ReqFields = []c01hField{ua}
				if !emit(c) {
					return
				}
			}
			// header sets
			for _, rs := range c01hSubsets(c01hReqAlphabet, maxFields) {
				for _, ps := range c01hSubsets(c01hRespAlphabet, maxFields) {
					c := c01hBase("x")
					c.Target = "/h?x=1"
					c.ReqFields, c.RespFields = rs, ps
					if !emit(c) {
						return
					}
				}
			}
			// bodies and status codes
			for _, b := range []string{"lit:", "z1", "all", "z4096", "z16385"} {
				c := c01hWithBody(c01hBase("x"), "POST", b, "cl")
				c.ReqFields = append(c.ReqFields, ua)
				c.RespBody = b
				if !emit(c) {
					return
				}
			}
			for _, st := range []int{200, 201, 204, 301, 304, 404, 500, 503} {
				for _, m := range []string{"GET", "HEAD"} {
					if m == "HEAD" && headHangs && !(vreport.Thorough() && st == 200) {
						continue
					}
					c := c01hBase("x")
					c.ReqFields = []c01hField{ua}
					c.Method, c.Status = m, st
					if st == 204 || st == 304 {
						c.RespBody = "lit:"
					}
					if !emit(c) {
						return
					}
				}
			}
		}
		complete := vreport.Run(p, gen, func(p *vreport.Part, xc c01xCase) {
			p.Distinct(fmt.Sprintf("%s|%s|%s|%s|%d|%s", xc.C.Method, xc.C.Target, c01hFieldsKey(xc.C.ReqFields), c01hFieldsKey(xc.C.RespFields), xc.C.Status, xc.C.RespBody))
			c01xCheck(p, xc)
		})
		how := "route upstream_protocol, no stream filter"
		if pr.mech == "transcoder" {
			how = "stream filter transcoder type " + c01xTranscoderType(pr.dp) + " on the listener, route without upstream_protocol"
		}
		headNote := ""
		if headHangs {
			headNote = "; HEAD: only HEAD->200, thorough tier only (each HEAD exchange of this pairing waits for MOSN's 60 s timeout, recorded finding)"
		}
		bound := fmt.Sprintf("pairing %s through the real proxy (%s): request-targets ((paths of <= %d segments over the segment alphabet x 6 query forms) + %d further targets + %d escaped-path targets + %d raw-byte targets whose target is not compared (canonical escapes %%20 %%22 %%3C %%7C %%25 %%E4%%B8%%AD.., non-canonical %%2F %%3B %%3F %%23 %%41 lower-case hex, both mixed, raw bytes net/url would escape, with '//' '..' '.' and queries)) x {GET, POST+body}, OPTIONS *; request x response field sets of <= %d fields (full product); bodies {0,1,all byte values,4096,16385}; status {200,201,204,301,304,404,500,503} x {GET,HEAD}%s", pr.name, how, maxSeg, len(c01hExtraTargets), len(c01xEscTargets), len(c01xRawTargets), maxFields, headNote)
		if allDropped {
			bound = "pairing http2->http1 through the real proxy (route upstream_protocol, no stream filter): 8 representative exchanges ({GET, POST+body} x 4 targets) - every exchange of this pairing ends in the recorded finding (the worker panics before the request line is built); run as the last part, see c01xPairs"
		}
		c01hReportRecovered(p)
		p.End(complete, bound,
			"complete product; compared like the same-protocol parts: method, request-target byte-for-byte (finding classes: path-percent-escapes-decoded / -re-encoded / path-changed / query-changed / empty-query-question-mark-dropped), Host/:authority, header multiset (Connection / Content-Length / Transfer-Encoding not compared, connection-specific fields cannot cross into HTTP/2; Date added when absent not compared), body; status code, header multiset, body")
	}
}
