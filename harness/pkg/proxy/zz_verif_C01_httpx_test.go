//go:build verif

// C01, protocol pairings inside the HTTP family: an HTTP/1.1 listener in front
// of an HTTP/2 cluster and an HTTP/2 listener in front of an HTTP/1.1 cluster
// (MOSN converts between the two without any configured filter: the statement's
// "all protocol pairings of listener and cluster"). Same real proxy stack and
// same observation discipline as the HTTP/1 and HTTP/2 harnesses; the harness
// speaks the listener's protocol downstream and the cluster's protocol upstream.
package proxy

import (
	"bytes"
	"fmt"
	"sort"
	"strconv"
	"strings"
	"testing"
	"time"

	"golang.org/x/net/http2"
	"mosn.io/api"
	"mosn.io/mosn/pkg/protocol"
	"mosn.io/mosn/pkg/verifrt/vreport"
)

// protocol-neutral view of what arrived
type c01xReq struct {
	Method, Target, Authority string
	HasAuthority              bool
	Fields                    []c01hField
	Body                      []byte
	Notes                     []string
}

type c01xResp struct {
	Status string
	Fields []c01hField
	Body   []byte
	Notes  []string
}

func c01xFromH1Req(m *c01hMsg) *c01xReq {
	r := &c01xReq{Body: m.Body}
	parts := strings.Split(m.Line, " ")
	if len(parts) == 3 {
		r.Method, r.Target = parts[0], parts[1]
	} else {
		r.Notes = append(r.Notes, "malformed request line "+strconv.Quote(m.Line))
	}
	for _, f := range m.Fields {
		if strings.EqualFold(f.K, "host") && !r.HasAuthority {
			r.Authority, r.HasAuthority = f.V, true
			continue
		}
		r.Fields = append(r.Fields, f)
	}
	return r
}

func c01xFromH2Req(m *c01h2Msg, other []string) *c01xReq {
	r := &c01xReq{Body: m.Body, Notes: other}
	r.Method, _ = c01h2Pseudo(m.Fields, ":method")
	r.Target, _ = c01h2Pseudo(m.Fields, ":path")
	r.Authority, r.HasAuthority = c01h2Pseudo(m.Fields, ":authority")
	r.Fields = c01h2Regular(m.Fields)
	if len(m.Trailers) > 0 {
		r.Notes = append(r.Notes, fmt.Sprintf("trailers %v", m.Trailers))
	}
	return r
}

func c01xFromH1Resp(m *c01hMsg) *c01xResp {
	r := &c01xResp{Body: m.Body, Fields: m.Fields}
	if p := strings.SplitN(m.Line, " ", 3); len(p) >= 2 {
		r.Status = p[1]
	}
	return r
}

func c01xFromH2Resp(m *c01h2Msg, other []string) *c01xResp {
	r := &c01xResp{Body: m.Body, Notes: other}
	r.Status, _ = c01h2Pseudo(m.Fields, ":status")
	r.Fields = c01h2Regular(m.Fields)
	if len(m.Trailers) > 0 {
		r.Notes = append(r.Notes, fmt.Sprintf("trailers %v", m.Trailers))
	}
	return r
}

type c01xObs struct {
	req   *c01xReq
	resp  *c01xResp
	local bool
	info  string
}

// c01xRun: one exchange, downstream protocol dp, upstream protocol up.
func c01xRun(c *c01hCase, dp, up api.ProtocolName) (obs c01xObs, harness string) {
	return c01hRerun(func() (c01xObs, string) { return c01xRunOnce(c, dp, up) })
}

func c01xRunOnce(c *c01hCase, dp, up api.ProtocolName) (obs c01xObs, harness string) {
	s, h := c01hNewSessionProtos(dp, up)
	if h != "" {
		return obs, h
	}
	defer s.close()
	rec, down := s.rec, s.down

	// ---- the request, in the listener's protocol
	var reqBytes []byte
	if dp == protocol.HTTP1 {
		reqBytes = c.requestBytes()
	} else {
		cw := c01h2NewWriter()
		cw.buf.WriteString(http2.ClientPreface)
		cw.must(cw.fr.WriteSettings())
		req := []c01hField{{":method", c.Method}, {":scheme", "http"}, {":authority", c.Host}, {":path", c.Target}}
		req = append(req, c01h2Lower(c01h2NoConn(c.ReqFields))...)
		cw.message(1, req, c01hBody(c.ReqBody), c.ReqFraming != "none")
		reqBytes = cw.take()
	}
	if err := c01hInject(down, reqBytes, "the request"); err != nil {
		return obs, err.Error()
	}

	upR, dnR := c01h2NewReader(len(http2.ClientPreface)), c01h2NewReader(0)
	var upM1, dnM1 c01hMsg
	var perr error
	reqDone := func() bool {
		if up == protocol.HTTP1 {
			m, ok, err := c01hParse(rec.upB, false, "")
			if err != nil {
				perr = fmt.Errorf("upstream request does not parse: %v", err)
				return true
			}
			if ok {
				upM1 = m
				obs.req = c01xFromH1Req(&upM1)
			}
			return ok
		}
		upR.feed(rec.upB)
		if upR.err != nil {
			perr = fmt.Errorf("upstream frames do not parse: %v", upR.err)
			return true
		}
		if m := upR.first(); m != nil && m.End {
			obs.req = c01xFromH2Req(m, upR.other)
			return true
		}
		return false
	}
	respDone := func() bool {
		if dp == protocol.HTTP1 {
			m, ok, err := c01hParse(rec.dnB, true, c.Method)
			if err == errC01hCloseDelimited {
				ok, err = down.IsClosed(), nil
			}
			if err != nil {
				perr = fmt.Errorf("downstream response does not parse: %v", err)
				return true
			}
			if ok {
				dnM1 = m
				obs.resp = c01xFromH1Resp(&dnM1)
			}
			return ok
		}
		dnR.feed(rec.dnB)
		if dnR.err != nil {
			perr = fmt.Errorf("downstream frames do not parse: %v", dnR.err)
			return true
		}
		if m := dnR.first(); (m != nil && m.End) || len(dnR.other) > 0 {
			if m != nil {
				obs.resp = c01xFromH2Resp(m, dnR.other)
			} else {
				obs.info = strings.Join(dnR.other, ", ")
			}
			return true
		}
		return false
	}
	// With an HTTP/2 listener the stream is registered with the proxy before the injected
	// read returns; if the proxy has released it again and neither side was written to, the
	// request was dropped (the worker recovered from a panic and cleaned the stream up).
	dropped := func() bool {
		if dp != protocol.HTTP2 {
			return false
		}
		s.p.asMux.RLock()
		n := s.p.activeStreams.Len()
		s.p.asMux.RUnlock()
		return n == 0
	}
	wasDropped := false
	if err := rec.wait("the request on the upstream connection, a local reply, or the connection being closed", func() bool {
		if reqDone() || respDone() || down.IsClosed() {
			return true
		}
		if dropped() && !reqDone() && !respDone() {
			wasDropped = true
			return true
		}
		return false
	}); err != nil {
		return obs, err.Error()
	}
	if perr != nil {
		return obs, perr.Error()
	}
	if wasDropped {
		obs.local = true
		obs.info = "request-dropped-without-reply: the proxy released the stream, nothing was written upstream or downstream"
		return obs, ""
	}
	if obs.req == nil {
		obs.local = true
		if obs.resp == nil && obs.info == "" {
			rec.mu.Lock()
			obs.info = "connection closed, bytes written: " + c01hShort(rec.dnB)
			rec.mu.Unlock()
		}
		return obs, ""
	}
	// ---- the response, in the cluster's protocol
	rec.mu.Lock()
	uc := rec.up
	rec.mu.Unlock()
	var respBytes []byte
	if up == protocol.HTTP1 {
		cc := *c
		if c.Method == "HEAD" && cc.RespFrame != "cl" {
			cc.RespFrame = "cl"
		}
		if cc.RespFrame == "none" {
			cc.RespFrame, cc.RespBody = "cl", "lit:"
		}
		respBytes = cc.responseBytes()
		if c.Method == "HEAD" { // a HEAD response announces the length but carries no body
			respBytes = respBytes[:len(respBytes)-len(c01hBody(cc.RespBody))]
		}
	} else {
		sw := c01h2NewWriter()
		sw.must(sw.fr.WriteSettings())
		sw.must(sw.fr.WriteSettingsAck())
		resp := []c01hField{{":status", strconv.Itoa(c.Status)}}
		resp = append(resp, c01h2Lower(c01h2NoConn(c.RespFields))...)
		sw.message(upR.order[0], resp, c01hBody(c.RespBody), c.RespFrame != "none" && c.Method != "HEAD")
		respBytes = sw.take()
	}
	if err := c01hInject(uc, respBytes, "the response"); err != nil {
		return obs, err.Error()
	}
	if err := rec.wait("the response on the downstream connection", respDone); err != nil {
		return obs, err.Error()
	}
	if perr != nil {
		return obs, perr.Error()
	}
	deadline := c01hNewDeadline()
	for {
		s.p.asMux.RLock()
		n := s.p.activeStreams.Len()
		s.p.asMux.RUnlock()
		if n == 0 {
			break
		}
		if deadline.expired() {
			c01hDump("the proxy still has an active stream")
			return obs, "timeout: the proxy still has an active stream after the response was written"
		}
		time.Sleep(20 * time.Microsecond)
	}
	// final view of both sides
	rec.mu.Lock()
	reqDone()
	respDone()
	if up == protocol.HTTP1 && upM1.Raw != len(rec.upB) {
		obs.req.Notes = append(obs.req.Notes, fmt.Sprintf("%d extra bytes after the request", len(rec.upB)-upM1.Raw))
	}
	if dp == protocol.HTTP1 && dnM1.Raw != len(rec.dnB) {
		obs.resp.Notes = append(obs.resp.Notes, fmt.Sprintf("%d extra bytes after the response", len(rec.dnB)-dnM1.Raw))
	}
	rec.mu.Unlock()
	if perr != nil {
		return obs, perr.Error()
	}
	if len(upR.order) > 1 || len(dnR.order) > 1 {
		return obs, fmt.Sprintf("more than one stream was written (upstream %v, downstream %v)", upR.order, dnR.order)
	}
	return obs, ""
}

var c01xIgnored = map[string]bool{"connection": true, "content-length": true, "transfer-encoding": true}

func c01xJudge(pair string, c *c01hCase, obs *c01xObs, dp, up api.ProtocolName) []c01hFinding {
	var out []c01hFinding
	add := func(key, detail string) { out = append(out, c01hFinding{pair + " " + key, detail}) }
	if obs.local {
		what := "connection-closed-or-stream-error"
		detail := obs.info
		if strings.HasPrefix(obs.info, "request-dropped-without-reply") {
			what = "request-dropped-without-reply"
		}
		if obs.resp != nil {
			what = "local-reply status=" + obs.resp.Status
			detail = fmt.Sprintf("reply %s %v %s", obs.resp.Status, obs.resp.Fields, c01hShort(obs.resp.Body))
		}
		add("dir=request not-forwarded "+what, fmt.Sprintf("the well-formed request %s %q was not forwarded upstream: %s", c.Method, c.Target, detail))
		return out
	}
	rq := obs.req
	if len(rq.Notes) > 0 {
		add("dir=request unexpected-extras", strings.Join(rq.Notes, "; "))
	}
	if rq.Method != c.Method {
		add("dir=request method-changed", fmt.Sprintf("sent %s %s, forwarded method %q", c.Method, c.Target, rq.Method))
	}
	if rq.Target != c.Target {
		add("dir=request request-target "+c01hTargetClass(c.Target, rq.Target), fmt.Sprintf("sent target %q, forwarded %q", c.Target, rq.Target))
	}
	if c.Host != "" && (!rq.HasAuthority || rq.Authority != c.Host) {
		add("dir=request authority-changed", fmt.Sprintf("sent Host/:authority %q, forwarded %q (present=%v)", c.Host, rq.Authority, rq.HasAuthority))
	}
	sent := c.ReqFields
	if dp == protocol.HTTP2 || up == protocol.HTTP2 {
		sent = c01h2NoConn(sent)
	}
	for _, f := range c01hCompareFields("request", sent, rq.Fields, c01xIgnored, nil) {
		add(strings.TrimPrefix(f.key, "http1 "), f.detail)
	}
	if sb := c01hBody(c.ReqBody); !bytes.Equal(sb, rq.Body) {
		add("dir=request body-changed", c01hBodyDiff(sb, rq.Body))
	}
	rs := obs.resp
	if rs == nil {
		add("dir=response not-forwarded", obs.info)
		return out
	}
	if len(rs.Notes) > 0 {
		add("dir=response unexpected-extras", strings.Join(rs.Notes, "; "))
	}
	if rs.Status != strconv.Itoa(c.Status) {
		add("dir=response status-code-changed", fmt.Sprintf("upstream answered %d, downstream got %q", c.Status, rs.Status))
	}
	sentR := c.RespFields
	if dp == protocol.HTTP2 || up == protocol.HTTP2 {
		sentR = c01h2NoConn(sentR)
	}
	for _, f := range c01hCompareFields("response", sentR, rs.Fields, c01xIgnored, map[string]bool{"date": true}) {
		add(strings.TrimPrefix(f.key, "http1 "), f.detail)
	}
	wantBody := c01hBody(c.RespBody)
	if c.Method == "HEAD" || c.Status == 204 || c.Status == 304 || c.RespFrame == "none" {
		wantBody = nil
	}
	if !bytes.Equal(wantBody, rs.Body) {
		add("dir=response body-changed", c01hBodyDiff(wantBody, rs.Body))
	}
	return out
}

type c01xPair struct {
	name   string
	dp, up api.ProtocolName
}

var c01xPairs = []c01xPair{{"http1->http2", protocol.HTTP1, protocol.HTTP2}, {"http2->http1", protocol.HTTP2, protocol.HTTP1}}

type c01xCase struct {
	Pair string   `json:"pair"`
	C    c01hCase `json:"c"`
}

func c01xCheck(p *vreport.Part, xc c01xCase) {
	var pr *c01xPair
	for i := range c01xPairs {
		if c01xPairs[i].name == xc.Pair {
			pr = &c01xPairs[i]
		}
	}
	if pr == nil {
		vreport.HarnessError("C01", p.Name, "unknown pair "+xc.Pair)
		return
	}
	c := xc.C
	obs, harness := c01xRun(&c, pr.dp, pr.up)
	if harness != "" {
		vreport.HarnessError("C01", p.Name, fmt.Sprintf("%s %s %s: %s", xc.Pair, c.Method, c.Target, harness))
		return
	}
	var keys []string
	for _, f := range c01xJudge(pr.name, &c, &obs, pr.dp, pr.up) {
		keys = append(keys, f.key)
		p.Violation(f.key, fmt.Sprintf("%s %s -> %d: %s", c.Method, c.Target, c.Status, f.detail), xc)
	}
	var names []string
	if obs.req != nil {
		for _, f := range obs.req.Fields {
			names = append(names, strings.ToLower(f.K))
		}
	}
	sort.Strings(names)
	p.Outcome(fmt.Sprintf("%s|local=%v|%s|%s", xc.Pair, obs.local, strings.Join(keys, ","), strings.Join(names, ",")))
	if p.WantSample() {
		smp := map[string]interface{}{"case": xc}
		if obs.req != nil {
			smp["upstream_got"] = fmt.Sprintf("%s %s authority=%q %v body %s", obs.req.Method, obs.req.Target, obs.req.Authority, obs.req.Fields, c01hShort(obs.req.Body))
		}
		if obs.resp != nil {
			smp["downstream_got"] = fmt.Sprintf("%s %v body %s", obs.resp.Status, obs.resp.Fields, c01hShort(obs.resp.Body))
		}
		p.Sample(smp)
	}
}

// One part per pairing.
func TestVerifC01HTTPXCross(t *testing.T) {
	for _, pr := range c01xPairs {
		pr := pr
		p := vreport.Begin("C01", "http-cross-"+pr.name, time.Duration(vreport.Pick(3, 15))*time.Minute)
		maxSeg := vreport.Pick(1, 2)
		maxFields := vreport.Pick(1, 2)
		ua := c01hField{"User-Agent", "c01-agent/1.0"}
		gen := func(yield func(c01xCase) bool) {
			emit := func(c c01hCase) bool { return yield(c01xCase{Pair: pr.name, C: c}) }
			if pr.name == "http2->http1" {
				// every exchange of this pairing ends the same way (see the finding): a handful of
				// representatives, so that a repaired tree is noticed, not the full product
				for _, m := range []string{"GET", "POST"} {
					for _, tg := range []string{"/a", "/%2F/a//b/../c?a=%20&b", "/a?"} {
						c := c01hBase("x")
						c.Target = tg
						c.ReqFields = []c01hField{ua, {"x-a", "1"}}
						if m == "POST" {
							c = c01hWithBody(c, m, "lit:req", "cl")
						}
						if !emit(c) {
							return
						}
					}
				}
				return
			}
			// targets
			for _, path := range append(c01hPaths(maxSeg), c01hExtraTargets...) {
				qs := c01hQueries
				if strings.Contains(path, "?") {
					qs = []string{""}
				}
				for _, q := range qs {
					for _, m := range []string{"GET", "POST"} {
						c := c01hBase("x")
						c.Target = path + q
						c.ReqFields = []c01hField{ua}
						if m == "POST" {
							c = c01hWithBody(c, m, "lit:req", "cl")
						}
						if !emit(c) {
							return
						}
					}
				}
			}
			// header sets
			for _, rs := range c01hSubsets(c01hReqAlphabet, maxFields) {
				for _, ps := range c01hSubsets(c01hRespAlphabet, maxFields) {
					c := c01hBase("x")
					c.Target = "/h?x=1"
					c.ReqFields, c.RespFields = rs, ps
					if !emit(c) {
						return
					}
				}
			}
			// bodies and status codes
			for _, b := range []string{"lit:", "z1", "all", "z4096", "z16385"} {
				c := c01hWithBody(c01hBase("x"), "POST", b, "cl")
				c.ReqFields = append(c.ReqFields, ua)
				c.RespBody = b
				if !emit(c) {
					return
				}
			}
			for _, st := range []int{200, 201, 204, 301, 304, 404, 500, 503} {
				for _, m := range []string{"GET", "HEAD"} {
					c := c01hBase("x")
					c.ReqFields = []c01hField{ua}
					c.Method, c.Status = m, st
					if st == 204 || st == 304 {
						c.RespBody = "lit:"
					}
					if !emit(c) {
						return
					}
				}
			}
		}
		complete := vreport.Run(p, gen, func(p *vreport.Part, xc c01xCase) {
			p.Distinct(fmt.Sprintf("%s|%s|%s|%s|%d|%s", xc.C.Method, xc.C.Target, c01hFieldsKey(xc.C.ReqFields), c01hFieldsKey(xc.C.RespFields), xc.C.Status, xc.C.RespBody))
			c01xCheck(p, xc)
		})
		bound := fmt.Sprintf("pairing %s through the real proxy (route upstream_protocol), no transcoder filter: targets (paths of <= %d segments x queries + %d further targets) x {GET, POST+body}; request x response field sets of <= %d fields (full product); bodies {0,1,all byte values,4096,16385}; status {200,201,204,301,304,404,500,503} x {GET,HEAD}", pr.name, maxSeg, len(c01hExtraTargets), maxFields)
		if pr.name == "http2->http1" {
			bound = "pairing http2->http1 through the real proxy (route upstream_protocol), no transcoder filter: 6 representative exchanges ({GET, POST+body} x 3 targets) - every exchange of this pairing ends in the recorded finding"
		}
		c01hReportRecovered(p)
		p.End(complete, bound,
			"compared like the same-protocol parts: method, request-target byte-for-byte, Host/:authority, header multiset (Connection / Content-Length / Transfer-Encoding not compared, connection-specific fields cannot cross into HTTP/2; Date added when absent not compared), body; status code, header multiset, body")
	}
}
