//go:build verif

package proxy

// C14, second unit ("builtin"): the REAL built-in denying stream filters
// (fault_inject, ip_access, payload_limit) are configured from JSON through the
// real factory path (api.CreateStreamFilterChainFactory via the stream-filter
// manager) into the H-PROXY listener, alone and in chains with each other and
// with scripted filters; and the filter-manager API paths the first unit's
// scripted filters do not use (SendHijackReplyWithBody, TerminateStream called
// from a receive filter and from another goroutine, the receiver handler's
// Append* methods, Get/Set of request and response parts, the send filter
// replacing the response, GetFilterCurrentPhase, per-stream access log).
//
// What a built-in filter must decide is NOT taken from its code: a small
// reference model per filter is written from the configuration semantics
// (README of ip_access: nginx-like first matching rule, default action last;
// fault_inject: upstream_cluster and header conditions, percentage 0 = never,
// 100 = always, fixed_delay before the decision; payload_limit: body larger
// than max_entity_size is answered with http_status). The oracle is the
// statement: a request a reached filter denies is never sent upstream, the
// client gets exactly one response with the configured status, that response
// passes the send filters once; a request all reached filters allow is
// forwarded once and answered; scripted filters run in configured order.
//
// NOT available in this tree (mosn.io/api v1.6.0): ContinueReceiving /
// ContinueSending. A receive/send filter that returns Stop cannot resume the
// chain later; "stop, then continue asynchronously" therefore has no API to
// exercise. Stop only ends the pass of the current phase (first unit).

import (
	"context"
	stdjson "encoding/json"
	"fmt"
	"net"
	"net/netip"
	"os"
	"sort"
	"strings"
	"sync"
	"testing"
	"time"

	"mosn.io/api"
	v2 "mosn.io/mosn/pkg/config/v2"
	_ "mosn.io/mosn/pkg/filter/stream/faultinject"
	_ "mosn.io/mosn/pkg/filter/stream/ipaccess"
	_ "mosn.io/mosn/pkg/filter/stream/payloadlimit"
	"mosn.io/mosn/pkg/protocol/xprotocol/bolt"
	"mosn.io/mosn/pkg/streamfilter"
	"mosn.io/mosn/pkg/verifrt/vreport"
	"mosn.io/mosn/pkg/verifrt/vrt"
	"mosn.io/pkg/buffer"
)

const (
	c14bScripted = "verif_c14b_scripted"
	c14bObserver = "verif_c14b_observer"
	c14bPart     = "builtin-filters"
)

// ---------------------------------------------------------------------------
// the case (JSON-serialisable: it is the replay case)

type c14bElem struct {
	Kind    string                 `json:"kind"`              // scripted | fault_inject | ip_access | payload_limit
	Phase   string                 `json:"phase,omitempty"`   // scripted: before-route | after-route | after-choose-host | send
	Verdict string                 `json:"verdict,omitempty"` // scripted
	Gate    string                 `json:"gate,omitempty"`    // tstream-async: the terminating goroutine first waits for: try1 | try2 (that many upstream request frames written) | answered (response on the downstream wire)
	Code    int                    `json:"code,omitempty"`    // tstream-async: status passed to TerminateStream (default 503)
	Label   string                 `json:"label,omitempty"`   // built-in: short name of the configuration
	Class   string                 `json:"class,omitempty"`   // built-in: class named in finding keys
	Config  map[string]interface{} `json:"config,omitempty"`  // built-in: the JSON configuration
}

type c14bCase struct {
	Name    string                 `json:"name"`
	Group   string                 `json:"group,omitempty"`
	Sc      hpScenario             `json:"sc"`
	Chain   []c14bElem             `json:"chain"`
	Src     string                 `json:"src,omitempty"`      // downstream remote address (ip:port)
	RoutePF map[string]interface{} `json:"route_pf,omitempty"` // per_filter_config of the route
}

// ---------------------------------------------------------------------------
// per-execution observation of the scripted filters and the access log

type c14bCall struct {
	Kind  string // recv | send
	Idx   int    // chain position
	Req   int    // stream (creation order)
	Phase string // configured phase
	Cur   string // phase the handler reports while the filter runs
	Ret   string
	Extra string
	Seq   int // order of the log entries (filter calls are logged when they return, terminations when TerminateStream returned)
}

func (c c14bCall) String() string {
	s := fmt.Sprintf("%s:%d:%s:%s:r%d", c.Kind, c.Idx, c.Phase, c.Ret, c.Req)
	if c.Extra != "" {
		s += "(" + c.Extra + ")"
	}
	return s
}

type c14bAccess struct {
	Req   int
	Code  int
	Flags string
}

type c14bAsync struct {
	Idx, Req int
	OK       bool
	Attempts int   // upstream request frames of the request on the wire when TerminateStream returned
	AtMs     int64 // virtual time of the call
	Seq      int
}

var c14bCur struct {
	cs      *c14bCase
	run     *hpRun
	created int
	calls   []c14bCall
	access  []c14bAccess
	async   []c14bAsync
	errs    []string
	seq     int
}

type c14bObsFactory struct{}

// The observer is the first entry of every configured chain. It adds no stream
// filter: it numbers the stream, sets the source address of the fake downstream
// connection and registers a per-stream access log (AddStreamAccessLog) that
// records the response code and flags the proxy accounted for the request.
func (c14bObsFactory) CreateFilterChain(ctx context.Context, cb api.StreamFilterChainFactoryCallbacks) {
	cs := c14bCur.cs
	if cs == nil {
		return
	}
	k := c14bCur.created
	c14bCur.created++
	if r := c14bCur.run; r != nil && r.obs.Down != nil && cs.Src != "" {
		if a, err := net.ResolveTCPAddr("tcp", cs.Src); err == nil {
			r.obs.Down.SetRemoteAddr(a)
		} else {
			c14bCur.errs = append(c14bCur.errs, "bad source address "+cs.Src)
		}
	}
	cb.AddStreamAccessLog(&c14bAccessLog{req: k})
}

type c14bAccessLog struct{ req int }

func (l *c14bAccessLog) Log(ctx context.Context, reqHeaders api.HeaderMap, respHeaders api.HeaderMap, ri api.RequestInfo) {
	var fl []string
	for _, f := range []struct {
		n string
		f api.ResponseFlag
	}{{"delay", api.DelayInjected}, {"fault", api.FaultInjected}, {"too-large", api.ReqEntityTooLarge}, {"terminate", api.DownStreamTerminate}} {
		if ri.GetResponseFlag(f.f) {
			fl = append(fl, f.n)
		}
	}
	c14bCur.access = append(c14bCur.access, c14bAccess{Req: l.req, Code: ri.ResponseCode(), Flags: strings.Join(fl, "+")})
}

type c14bFactory struct{ pos int }

func (f c14bFactory) CreateFilterChain(ctx context.Context, cb api.StreamFilterChainFactoryCallbacks) {
	cs := c14bCur.cs
	if cs == nil || f.pos >= len(cs.Chain) {
		return
	}
	e := cs.Chain[f.pos]
	fl := &c14bFilter{idx: f.pos, spec: e, req: c14bCur.created - 1}
	switch e.Phase {
	case "before-route":
		cb.AddStreamReceiverFilter(fl, api.BeforeRoute)
	case "after-route":
		cb.AddStreamReceiverFilter(fl, api.AfterRoute)
	case "after-choose-host":
		cb.AddStreamReceiverFilter(fl, api.AfterChooseHost)
	case "send":
		cb.AddStreamSenderFilter(fl, api.BeforeSend)
	}
}

type c14bFilter struct {
	idx   int
	req   int
	spec  c14bElem
	rh    api.StreamReceiverFilterHandler
	sh    api.StreamSenderFilterHandler
	calls int
}

func (f *c14bFilter) OnDestroy()                                                {}
func (f *c14bFilter) SetReceiveFilterHandler(h api.StreamReceiverFilterHandler) { f.rh = h }
func (f *c14bFilter) SetSenderFilterHandler(h api.StreamSenderFilterHandler)    { f.sh = h }

const c14bScriptedCode = 503 // status the scripted filters answer with

func c14bPhaseName(p api.ReceiverFilterPhase) string {
	switch p {
	case api.BeforeRoute:
		return "before-route"
	case api.AfterRoute:
		return "after-route"
	case api.AfterChooseHost:
		return "after-choose-host"
	}
	return fmt.Sprintf("phase-%d", int(p))
}

func (f *c14bFilter) OnReceive(ctx context.Context, headers api.HeaderMap, buf api.IoBuffer, trailers api.HeaderMap) api.StreamFilterStatus {
	f.calls++
	ret := api.StreamFilterContinue
	extra := ""
	cur := c14bPhaseName(f.rh.GetFilterCurrentPhase())
	// the handler's accessors must describe this request (handler base paths)
	if f.rh.RequestInfo() == nil || f.rh.Connection() == nil {
		extra = "nil-requestinfo-or-connection"
	}
	if f.rh.GetRequestHeaders() != headers {
		extra += "request-headers-differ"
	}
	switch f.spec.Verdict {
	case "continue":
	case "stop":
		ret = api.StreamFilterStop
	case "terminate":
		ret = api.StreamFiltertermination
	case "hijack":
		f.rh.SendHijackReply(c14bScriptedCode, headers)
	case "hijack-stop":
		f.rh.SendHijackReply(c14bScriptedCode, headers)
		ret = api.StreamFilterStop
	case "hijack-body":
		f.rh.SendHijackReplyWithBody(c14bScriptedCode, headers, fmt.Sprintf("resp-of-hijack-body-by-%d", f.idx))
		ret = api.StreamFilterStop
	case "direct":
		resp := bolt.NewRpcResponse(0, bolt.ResponseStatusServerThreadpoolBusy, hpHeader(map[string]string{"token": "direct-by-filter"}), buffer.NewIoBufferString("resp-of-direct-by-filter"))
		f.rh.SendDirectResponse(resp, resp.Content, nil)
		ret = api.StreamFilterStop
	case "tstream", "tstream-continue":
		// TerminateStream called synchronously from the receive filter
		ok := f.rh.TerminateStream(c14bScriptedCode)
		extra += fmt.Sprintf("terminated=%v", ok)
		if f.spec.Verdict == "tstream" {
			ret = api.StreamFilterStop
		}
	case "tstream-async":
		// the documented use of TerminateStream: the filter lets the request pass and another goroutine terminates it
		// at any later time
		idx, req, rh, gate, code := f.idx, f.req, f.rh, f.spec.Gate, f.spec.Code
		if code == 0 {
			code = c14bScriptedCode
		}
		run, token := c14bCur.run, ""
		if cs := c14bCur.cs; cs != nil && req < len(cs.Sc.Requests) {
			token = cs.Sc.Requests[req].Token
		}
		frames := func() int {
			for _, o := range run.obs.Ups {
				run.parseUp(o)
			}
			return run.obs.Attempts[token]
		}
		// (an environment thread: if its gate never opens it just stays parked, like an upstream peer without work)
		vrt.GoNamed("env:terminator", func() {
			if gate != "" {
				vrt.WaitUntil("terminator: gate "+gate, func() bool {
					if run == nil || run.done {
						return false
					}
					switch gate {
					case "try1":
						return frames() >= 1
					case "try2":
						return frames() >= 2
					case "answered":
						return run.downAnswered(token)
					}
					return true
				})
			}
			ok := rh.TerminateStream(code)
			c14bCur.seq++
			c14bCur.async = append(c14bCur.async, c14bAsync{Idx: idx, Req: req, OK: ok, Attempts: frames(), AtMs: int64(vrt.Now() / time.Millisecond), Seq: c14bCur.seq})
		})
	case "append":
		// the receive filter writes the response itself through the handler's Append* methods (the stream ends there)
		resp := bolt.NewRpcResponse(0, bolt.ResponseStatusError, hpHeader(map[string]string{"token": fmt.Sprintf("appended-by-%d", f.idx)}), nil)
		f.rh.AppendHeaders(resp, false)
		f.rh.AppendData(buffer.NewIoBufferString(fmt.Sprintf("resp-of-appended-by-%d", f.idx)), true)
		ret = api.StreamFilterStop
	case "rematch":
		if f.calls == 1 {
			ret = api.StreamFilterReMatchRoute
		}
	case "rechoose":
		if f.calls == 1 {
			ret = api.StreamFilterReChooseHost
		}
	case "setdata":
		// replaces the request body through the handler (Get/SetRequestData): the filters behind it and the upstream see the new body
		old := f.rh.GetRequestData()
		if old != buf {
			extra += "request-data-differs"
		}
		f.rh.SetRequestData(buffer.NewIoBufferString("body-of-" + c14bBigBody))
		f.rh.SetRequestHeaders(f.rh.GetRequestHeaders())
		f.rh.SetRequestTrailers(f.rh.GetRequestTrailers())
	}
	c14bCur.seq++
	c14bCur.calls = append(c14bCur.calls, c14bCall{Kind: "recv", Idx: f.idx, Req: f.req, Phase: f.spec.Phase, Cur: cur, Ret: string(ret), Extra: extra, Seq: c14bCur.seq})
	return ret
}

// body a "setdata" filter installs (24 bytes with the "body-of-" prefix)
const c14bBigBody = "replaced-by-fltr"

func (f *c14bFilter) Append(ctx context.Context, headers api.HeaderMap, buf api.IoBuffer, trailers api.HeaderMap) api.StreamFilterStatus {
	f.calls++
	ret := api.StreamFilterContinue
	extra := ""
	// (after an earlier send filter replaced the response the parameters still are the old parts: not compared then)
	if cs := c14bCur.cs; cs != nil && !c14bHas(cs.Chain, "replace") && f.sh.GetResponseHeaders() != headers {
		extra = "response-headers-differ"
	}
	switch f.spec.Verdict {
	case "stop":
		ret = api.StreamFilterStop
	case "replace":
		// replaces the response (headers and body) through the handler
		resp := bolt.NewRpcResponse(0, bolt.ResponseStatusError, hpHeader(map[string]string{"token": fmt.Sprintf("replaced-by-%d", f.idx)}), nil)
		f.sh.SetResponseHeaders(resp)
		f.sh.SetResponseData(buffer.NewIoBufferString(fmt.Sprintf("resp-of-replaced-by-%d", f.idx)))
		if f.sh.GetResponseHeaders() != api.HeaderMap(resp) || f.sh.GetResponseData() == nil {
			extra += "set-not-readable"
		}
		f.sh.SetResponseTrailers(f.sh.GetResponseTrailers())
	}
	c14bCur.calls = append(c14bCur.calls, c14bCall{Kind: "send", Idx: f.idx, Req: f.req, Phase: "send", Ret: string(ret), Extra: extra})
	return ret
}

var c14bOnce sync.Once

func c14bRegister() {
	c14bOnce.Do(func() {
		api.RegisterStream(c14bScripted, func(config map[string]interface{}) (api.StreamFilterChainFactory, error) {
			return c14bFactory{pos: int(c14bNum(config, "pos"))}, nil
		})
		api.RegisterStream(c14bObserver, func(config map[string]interface{}) (api.StreamFilterChainFactory, error) {
			return c14bObsFactory{}, nil
		})
	})
}

// registered type name (and per_filter_config key) of a built-in filter
func c14bTypeName(kind string) string {
	if kind == "fault_inject" {
		return v2.FaultStream // "fault"
	}
	return kind // v2.IPAccess "ip_access", v2.PayloadLimit "payload_limit"
}

// c14bFilterConfigs is the listener's stream_filters configuration of a case, as JSON text.
func c14bFilterConfigs(cs *c14bCase) []byte {
	list := []map[string]interface{}{{"type": c14bObserver, "config": map[string]interface{}{}}}
	for i, e := range cs.Chain {
		if e.Kind == "scripted" {
			list = append(list, map[string]interface{}{"type": c14bScripted, "config": map[string]interface{}{"pos": i}})
		} else {
			list = append(list, map[string]interface{}{"type": c14bTypeName(e.Kind), "config": e.Config})
		}
	}
	b, err := stdjson.Marshal(list)
	if err != nil {
		panic(err)
	}
	return b
}

// c14bInstall sets the H-PROXY hooks for one case; the returned func removes them.
func c14bInstall(cs *c14bCase) func() {
	c14bRegister()
	hpFilterHook = func(sc *hpScenario, h *hpRun) {
		c14bCur.cs, c14bCur.run, c14bCur.created = cs, h, 0
		c14bCur.calls, c14bCur.access, c14bCur.errs, c14bCur.async, c14bCur.seq = nil, nil, nil, nil, 0
		// JSON text -> []v2.Filter -> stream filter manager -> api.CreateStreamFilterChainFactory(type, config)
		var cfg []v2.Filter
		if err := stdjson.Unmarshal(c14bFilterConfigs(cs), &cfg); err != nil {
			panic(err)
		}
		for _, c := range cfg {
			// the manager drops a filter whose factory fails (and only logs it): the harness' configurations must all be valid
			if _, err := api.CreateStreamFilterChainFactory(c.Type, c.Config); err != nil {
				c14bCur.errs = append(c14bCur.errs, fmt.Sprintf("filter %s not created: %v", c.Type, err))
			}
		}
		if err := streamfilter.GetStreamFilterManager().AddOrUpdateStreamFilterConfig(hpListener, cfg); err != nil {
			panic(err)
		}
	}
	hpRouterHook = func(sc *hpScenario, rc *v2.RouterConfiguration) {
		if cs.RoutePF != nil {
			rc.VirtualHosts[0].Routers[0].PerFilterConfig = cs.RoutePF
		}
	}
	return func() {
		hpFilterHook, hpRouterHook = nil, nil
		c14bCur.cs, c14bCur.run = nil, nil
	}
}

// ---------------------------------------------------------------------------
// reference models of the built-in filters (from their configuration semantics)

func c14bNum(m map[string]interface{}, k string) float64 {
	switch v := m[k].(type) {
	case float64:
		return v
	case int:
		return float64(v)
	case int64:
		return float64(v)
	}
	return 0
}

func c14bStr(m map[string]interface{}, k string) string {
	s, _ := m[k].(string)
	return s
}

func c14bMap(m map[string]interface{}, k string) map[string]interface{} {
	v, _ := m[k].(map[string]interface{})
	return v
}

// phase in which a built-in filter runs (fixed by its factory)
func c14bPhaseOf(e c14bElem) string {
	switch e.Kind {
	case "scripted":
		return e.Phase
	case "ip_access":
		return "before-route"
	default: // fault_inject, payload_limit
		return "after-route"
	}
}

type c14bVerdict struct {
	Kind    string // allow | deny | either
	Code    int    // deny: HTTP status of the answer
	DelayMs int    // allow/deny: the decision is taken only after this (virtual) delay
	Why     string
}

// parseDurationMs: "10ms" style duration of the JSON configuration
func c14bDurMs(s string) int {
	d, err := time.ParseDuration(s)
	if err != nil {
		return 0
	}
	return int(d / time.Millisecond)
}

// request as the filters see it
type c14bReq struct {
	Headers  map[string]string
	BodyLen  int // -1: no body
	SrcIP    string
	Cluster  string
	RoutePF  map[string]interface{}
	Modified bool // an earlier filter replaced the body
}

// fault_inject: the route-level configuration (per_filter_config["fault"]) replaces the filter-level
// one; the fault applies when upstream_cluster (if set) is the routed cluster and every configured header
// matches; the delay is injected with probability delay.percentage, then the abort with abort.percentage.
func c14bModelFault(cfg map[string]interface{}, rq c14bReq) c14bVerdict {
	if o := c14bMap(rq.RoutePF, "fault"); o != nil {
		cfg = o
	}
	if up := c14bStr(cfg, "upstream_cluster"); up != "" && up != rq.Cluster {
		return c14bVerdict{Kind: "allow", Why: "other upstream cluster"}
	}
	if hs, ok := cfg["headers"].([]interface{}); ok {
		for _, h := range hs {
			hm, _ := h.(map[string]interface{})
			if v, ok := rq.Headers[c14bStr(hm, "name")]; !ok || v != c14bStr(hm, "value") {
				return c14bVerdict{Kind: "allow", Why: "header condition not met"}
			}
		}
	}
	out := c14bVerdict{Kind: "allow"}
	if d := c14bMap(cfg, "delay"); d != nil {
		ms := c14bDurMs(c14bStr(d, "fixed_delay"))
		switch p := c14bNum(d, "percentage"); {
		case p <= 0 || ms == 0:
		case p >= 100:
			out.DelayMs = ms
		default:
			return c14bVerdict{Kind: "either", Why: "delay percentage strictly between 0 and 100"}
		}
	}
	if a := c14bMap(cfg, "abort"); a != nil {
		switch p := c14bNum(a, "percentage"); {
		case p <= 0:
		case p >= 100:
			out.Kind, out.Code, out.Why = "deny", int(c14bNum(a, "status")), "abort 100%"
		default:
			return c14bVerdict{Kind: "either", Why: "abort percentage strictly between 0 and 100"}
		}
	}
	return out
}

// ip_access (README: like nginx allow/deny): the address is the value of the configured header if the request
// carries it, else the peer address of the connection; the rules are tried in order, the first rule that lists
// the address decides; no rule: default_action ("deny" denies, anything else allows). Denied = 403.
func c14bModelIP(cfg map[string]interface{}, rq c14bReq) c14bVerdict {
	addr := rq.SrcIP
	if h := c14bStr(cfg, "header"); h != "" {
		if v := rq.Headers[h]; v != "" {
			addr = v
		}
	}
	ip, err := netip.ParseAddr(addr)
	if err != nil {
		if ap, err2 := netip.ParseAddrPort(addr); err2 == nil {
			ip = ap.Addr()
		} else {
			return c14bVerdict{Kind: "either", Why: "address is not an IP: the README does not say"}
		}
	}
	ip = ip.Unmap()
	rules, _ := cfg["ips"].([]interface{})
	for _, r := range rules {
		rm, _ := r.(map[string]interface{})
		addrs, _ := rm["addrs"].([]interface{})
		for _, a := range addrs {
			s, _ := a.(string)
			in := false
			if pfx, err := netip.ParsePrefix(s); err == nil {
				in = pfx.Masked().Contains(ip)
			} else if one, err := netip.ParseAddr(s); err == nil {
				in = one.Unmap() == ip
			}
			if in {
				if c14bStr(rm, "action") == "deny" {
					return c14bVerdict{Kind: "deny", Code: 403, Why: "listed in a deny rule"}
				}
				return c14bVerdict{Kind: "allow", Why: "listed in an allow rule"}
			}
		}
	}
	if c14bStr(cfg, "default_action") == "deny" {
		return c14bVerdict{Kind: "deny", Code: 403, Why: "default action deny"}
	}
	return c14bVerdict{Kind: "allow", Why: "default action allow"}
}

// payload_limit: a request whose body is larger than max_entity_size is answered with http_status; no limit
// configured (0) = unlimited; the route-level configuration replaces the filter-level one.
func c14bModelPayload(cfg map[string]interface{}, rq c14bReq) c14bVerdict {
	if o := c14bMap(rq.RoutePF, "payload_limit"); o != nil {
		cfg = o
	}
	limit := c14bNum(cfg, "max_entity_size")
	if limit <= 0 {
		return c14bVerdict{Kind: "allow", Why: "no limit"}
	}
	if rq.BodyLen > int(limit) {
		return c14bVerdict{Kind: "deny", Code: int(c14bNum(cfg, "http_status")), Why: fmt.Sprintf("body %d > limit %d", rq.BodyLen, int(limit))}
	}
	return c14bVerdict{Kind: "allow", Why: fmt.Sprintf("body %d <= limit %d", rq.BodyLen, int(limit))}
}

// bolt status the proxy's answer with an HTTP-style code carries (protocol table of bolt, trusted)
func c14bBoltStatus(code int) uint16 {
	switch code {
	case 200:
		return bolt.ResponseStatusSuccess
	case 404, 502:
		return bolt.ResponseStatusNoProcessor
	case 503:
		return bolt.ResponseStatusServerThreadpoolBusy
	case 504:
		return bolt.ResponseStatusTimeout
	case 403:
		return bolt.ResponseStatusServerException
	case 0:
		return bolt.ResponseStatusCodecException
	}
	return bolt.ResponseStatusUnknown
}

// ---------------------------------------------------------------------------
// the chain model: which filters are reached, who answers

type c14bAnswer struct {
	Idx    int
	Code   int    // HTTP-style code (0 for a direct response: the wire status is given)
	Wire   uint16 // expected bolt status
	Body   string // expected body token ("" = not compared)
	Token  string // expected token header ("" = not compared)
	Class  string
	Direct bool
	Bypass bool // written by the filter itself (Append*): ends the stream at once, does not pass the send filters
}

type c14bExp struct {
	Unspecified string       // non-empty: the models do not fix the outcome (reason); only the safety oracles apply
	Answers     []c14bAnswer // filters that answer, in call order (the first one that also stops the pass is the last)
	Terminated  bool
	DelayMs     int   // virtual delay before the request may leave / the answer may be given
	Recv        []int // expected calls of scripted receive filters (chain positions, in order)
	BodyLen     int   // body length the upstream must see if forwarded
	Modified    bool
	Bypass      bool // the answer is written by a receive filter itself
	Async       bool // a reached filter hands the request to a goroutine that calls TerminateStream at any time
}

func c14bExpect(cs *c14bCase, k int) c14bExp {
	r := cs.Sc.Requests[k]
	rq := c14bReq{Headers: map[string]string{"service": "svc", "token": r.Token}, BodyLen: -1, Cluster: hpCluster, RoutePF: cs.RoutePF}
	for hk, hv := range r.Headers {
		rq.Headers[hk] = hv
	}
	if r.Body {
		rq.BodyLen = len("body-of-" + r.Token)
	}
	src := cs.Src
	if src == "" {
		src = "127.0.0.1:50001"
	}
	if ap, err := netip.ParseAddrPort(src); err == nil {
		rq.SrcIP = ap.Addr().String()
	}
	var exp c14bExp
	answered := false
	for _, ph := range []string{"before-route", "after-route", "after-choose-host"} {
	pass:
		for i, e := range cs.Chain {
			if c14bPhaseOf(e) != ph {
				continue
			}
			if e.Kind == "scripted" {
				exp.Recv = append(exp.Recv, i)
				switch e.Verdict {
				case "continue":
				case "stop":
					break pass
				case "terminate":
					exp.Terminated = true
					exp.BodyLen = rq.BodyLen
					return exp
				case "hijack", "hijack-stop", "hijack-body":
					a := c14bAnswer{Idx: i, Code: c14bScriptedCode, Wire: c14bBoltStatus(c14bScriptedCode), Class: "scripted " + e.Verdict}
					if e.Verdict == "hijack-body" {
						a.Body = fmt.Sprintf("hijack-body-by-%d", i)
					}
					exp.Answers = append(exp.Answers, a)
					answered = true
					if e.Verdict != "hijack" {
						break pass
					}
				case "direct":
					exp.Answers = append(exp.Answers, c14bAnswer{Idx: i, Wire: bolt.ResponseStatusServerThreadpoolBusy, Body: "direct-by-filter", Token: "direct-by-filter", Class: "scripted direct", Direct: true})
					answered = true
					break pass
				case "tstream-async":
					exp.Async = true
				case "append":
					exp.Answers = append(exp.Answers, c14bAnswer{Idx: i, Wire: bolt.ResponseStatusError, Body: fmt.Sprintf("appended-by-%d", i), Token: fmt.Sprintf("appended-by-%d", i), Class: "scripted append", Direct: true, Bypass: true})
					exp.Bypass = true
					return exp // the stream is over
				case "tstream", "tstream-continue":
					// takes effect unless a response is already set (then TerminateStream reports false)
					if !answered {
						exp.Answers = append(exp.Answers, c14bAnswer{Idx: i, Code: c14bScriptedCode, Wire: c14bBoltStatus(c14bScriptedCode), Class: "scripted " + e.Verdict})
						answered = true
					}
					if e.Verdict == "tstream" {
						break pass
					}
				case "rematch", "rechoose":
					// asks once, the pass resumes at this filter, which then continues
					if (e.Verdict == "rematch" && ph == "after-route") || (e.Verdict == "rechoose" && ph == "after-choose-host") {
						if !answered {
							exp.Recv = append(exp.Recv, i)
						}
					} else {
						// asked in a phase where the request is not honoured: the pass just ends
						break pass
					}
				case "setdata":
					rq.BodyLen = len("body-of-" + c14bBigBody)
					rq.Modified = true
					exp.Modified = true
				}
				continue
			}
			var v c14bVerdict
			switch e.Kind {
			case "fault_inject":
				v = c14bModelFault(e.Config, rq)
			case "ip_access":
				v = c14bModelIP(e.Config, rq)
			case "payload_limit":
				v = c14bModelPayload(e.Config, rq)
			}
			switch v.Kind {
			case "either":
				exp.Unspecified = fmt.Sprintf("filter %d (%s %s): %s", i, e.Kind, e.Label, v.Why)
				exp.BodyLen = rq.BodyLen
				return exp
			case "deny":
				exp.DelayMs += v.DelayMs
				exp.Answers = append(exp.Answers, c14bAnswer{Idx: i, Code: v.Code, Wire: c14bBoltStatus(v.Code), Class: e.Class})
				answered = true
				break pass // a built-in filter that denies answers and stops the pass
			default:
				exp.DelayMs += v.DelayMs
			}
		}
		if answered {
			break
		}
	}
	exp.BodyLen = rq.BodyLen
	return exp
}

// ---------------------------------------------------------------------------
// the oracle

var c14bRes *vrt.Result // result of the execution being checked

func c14bCheck(cs *c14bCase, obs *hpObs, r *vrt.Result, calls []c14bCall, access []c14bAccess, errs []string, report func(kind, detail string)) {
	c14bRes = r
	if r.Diverged != "" || r.StepLimit || r.Deadlock {
		report("HARNESS execution did not complete normally", r.String())
		return
	}
	for _, e := range errs {
		report("HARNESS configuration problem", e)
		return
	}
	for _, pn := range r.Panics {
		first := strings.SplitN(pn, "\n", 2)[0]
		if strings.Contains(first, "(env:terminator") {
			report("asynchronous TerminateStream: panic in the calling goroutine", pn)
		} else if strings.Contains(first, "(env:") || strings.Contains(first, "(main)") {
			report("HARNESS panic in harness thread", pn)
		} else {
			report("uncaught panic in a proxy goroutine", pn)
		}
		return
	}
	for k := range cs.Sc.Requests {
		c14bCheckReq(cs, k, obs, calls, access, report)
	}
}

func c14bCallsStr(cs []c14bCall) string {
	var p []string
	for _, c := range cs {
		p = append(p, c.String())
	}
	return strings.Join(p, " ")
}

func c14bCheckReq(cs *c14bCase, k int, obs *hpObs, allCalls []c14bCall, access []c14bAccess, report func(kind, detail string)) {
	chain := cs.Chain
	token := cs.Sc.Requests[k].Token
	script := upSilent
	if s := cs.Sc.Requests[k].Script; len(s) > 0 {
		script = s[0]
	}
	exp := c14bExpect(cs, k)
	var recv, send []c14bCall
	var mine []c14bCall
	for _, c := range allCalls {
		if c.Req != k {
			continue
		}
		mine = append(mine, c)
		if c.Kind == "recv" {
			recv = append(recv, c)
		} else {
			send = append(send, c)
		}
	}
	logStr := c14bCallsStr(mine)
	if len(cs.Sc.Requests) > 1 {
		pre := report
		report = func(kind, detail string) {
			pre(kind, fmt.Sprintf("request %d of %d: %s", k+1, len(cs.Sc.Requests), detail))
		}
	}
	var down []hpFrame
	for _, f := range obs.DownFrames {
		if f.ID == uint32(100+k) {
			down = append(down, f)
		}
	}
	var acc []c14bAccess
	for _, a := range access {
		if a.Req == k {
			acc = append(acc, a)
		}
	}
	attempts := obs.Attempts[token]
	disconnect := cs.Sc.DownDisconnect

	// --- handler accessors and phases (every call)
	for _, c := range mine {
		if c.Kind == "recv" && c.Cur != c.Phase {
			report("receive filter ran in a phase it was not configured for", fmt.Sprintf("filter %d configured %s, handler reports %s: %s", c.Idx, c.Phase, c.Cur, logStr))
		}
		if strings.Contains(c.Extra, "differ") || strings.Contains(c.Extra, "nil-") || strings.Contains(c.Extra, "set-not-readable") {
			report("filter handler accessor does not describe the request being filtered", fmt.Sprintf("filter %d: %s: %s", c.Idx, c.Extra, logStr))
		}
	}

	// --- generic order of the scripted receive filters: phases do not go back, configured order within a
	// pass, at most once per pass (a pass ends at a phase change or at a re-match / re-choose request)
	phaseRank := map[string]int{"before-route": 0, "after-route": 1, "after-choose-host": 2}
	lastIdx, lastPhase, resumeAt := -1, "", -1
	for _, c := range recv {
		if c.Phase != lastPhase {
			if lastPhase != "" && phaseRank[c.Phase] < phaseRank[lastPhase] && resumeAt < 0 {
				report("receive filters: phase order violated", fmt.Sprintf("phase %s after %s: %s", c.Phase, lastPhase, logStr))
			}
			lastIdx = -1
		}
		if resumeAt >= 0 && c.Phase == chain[resumeAt].Phase {
			if c.Idx != resumeAt {
				report("re-match/re-choose does not resume at the requesting filter", fmt.Sprintf("filter %d asked, next call in that phase is filter %d: %s", resumeAt, c.Idx, logStr))
			}
			resumeAt, lastIdx = -1, -1
		}
		if c.Idx <= lastIdx {
			report("receive filters not run in configured order / more than once per pass", fmt.Sprintf("filter %d after %d in one pass of %s: %s", c.Idx, lastIdx, c.Phase, logStr))
		}
		lastIdx, lastPhase = c.Idx, c.Phase
		if c.Ret == string(api.StreamFilterReMatchRoute) || c.Ret == string(api.StreamFilterReChooseHost) {
			resumeAt = c.Idx
		}
	}
	// --- send filters: configured order, at most once per response
	last := -1
	for _, c := range send {
		// (a retried request: the abandoned try's response passes the send filters before the retry is decided,
		// so the chain runs once per upstream response - checked in c14bCheckAsyncRetry)
		if c.Idx <= last && !cs.Sc.RetryOn {
			report("send filters not run in configured order / more than once per response", logStr)
		}
		last = c.Idx
	}
	if len(down) > 1 {
		report("more than one response for one request", fmt.Sprintf("%d responses; filters: %s", len(down), logStr))
		return
	}

	// expected send-filter calls for a response that reaches the client: the prefix of the send chain up to
	// and including the first filter that does not continue
	var expSend []int
	lastReplace := -1
	for i, e := range chain {
		if e.Kind == "scripted" && e.Phase == "send" {
			expSend = append(expSend, i)
			if e.Verdict == "replace" {
				lastReplace = i
			}
			if e.Verdict == "stop" {
				break
			}
		}
	}
	checkSend := func() {
		var got []int
		for _, c := range send {
			got = append(got, c.Idx)
		}
		if fmt.Sprint(got) != fmt.Sprint(expSend) {
			report("a response reached the client without passing the send filters exactly once in order", fmt.Sprintf("send filters called %v, expected %v; filters: %s", got, expSend, logStr))
		}
	}
	// what the client must see when a send filter replaced the response
	checkReplaced := func(f hpFrame) bool {
		if lastReplace < 0 {
			return false
		}
		want := fmt.Sprintf("replaced-by-%d", lastReplace)
		if f.Status != bolt.ResponseStatusError || f.Token != want || f.BodyToken != want {
			report("the response a send filter installed is not what the client got", fmt.Sprintf("client got status=%d token=%q body=%q, send filter %d installed status=%d token=body=%q; filters: %s", f.Status, f.Token, f.BodyToken, lastReplace, bolt.ResponseStatusError, want, logStr))
		}
		return true
	}

	if exp.Async && cs.Sc.RetryOn {
		c14bCheckAsyncRetry(cs, k, obs, down, send, expSend, logStr, report)
		return
	}
	if exp.Async && exp.Unspecified == "" && !exp.Terminated && !disconnect {
		// TerminateStream from another goroutine races with everything else. Whoever wins, the statement's
		// consequences hold: at most one forward, exactly one response, which passed the send filters once.
		won := false
		for _, a := range c14bCur.async {
			if a.Req == k && a.OK {
				won = true
			}
		}
		if attempts > 0 && c14bTerminatedWhileFiltering(k) {
			report("asynchronous TerminateStream: request forwarded upstream although the termination had succeeded before the receive filters finished", fmt.Sprintf("%+v, %d upstream request frames; filters: %s", c14bCur.async, attempts, logStr))
		}
		if attempts > 1 {
			report("request forwarded upstream more than once", fmt.Sprintf("%d upstream request frames; filters: %s", attempts, logStr))
		}
		if len(down) != 1 {
			report("asynchronous TerminateStream: the client did not get exactly one response", fmt.Sprintf("%d responses, TerminateStream success=%v, %d upstream request frames; filters: %s; log=%v", len(down), won, attempts, logStr, obs.Log))
			return
		}
		checkSend()
		// (which reply wins when the termination races with an upstream reset or a timeout is not fixed by the
		// statement - observed: TerminateStream reports success and the upstream-reset reply overrides it - so the
		// status is recorded in the outcome, not compared)
		_ = won
		return
	}
	if exp.Unspecified != "" {
		// the reference models leave the decision open (stated reason): whatever was decided, the
		// consequences must be consistent
		answeredSeen := len(down) == 1 && attempts == 0
		if attempts > 1 {
			report("request forwarded upstream more than once", fmt.Sprintf("%d upstream request frames; filters: %s", attempts, logStr))
		}
		if answeredSeen && !disconnect {
			checkSend()
		}
		if attempts == 0 && len(down) == 0 && !disconnect {
			report("request neither forwarded nor answered", fmt.Sprintf("open decision (%s); filters: %s", exp.Unspecified, logStr))
		}
		return
	}

	// --- scripted receive filters: exactly the calls the configured order implies
	var gotRecv []int
	for _, c := range recv {
		gotRecv = append(gotRecv, c.Idx)
	}
	if fmt.Sprint(gotRecv) != fmt.Sprint(exp.Recv) && !disconnect {
		// name the class
		kind := "scripted receive filters: calls differ from what the configured order implies"
		if len(gotRecv) > len(exp.Recv) && fmt.Sprint(gotRecv[:len(exp.Recv)]) == fmt.Sprint(exp.Recv) && len(exp.Answers) > 0 {
			la := exp.Answers[len(exp.Answers)-1]
			kind = "a receive filter ran after " + la.Class + " had denied the request and ended the pass"
		} else if len(gotRecv) < len(exp.Recv) {
			kind = "a configured receive filter was not run although every filter before it continued"
		}
		report(kind, fmt.Sprintf("called %v, expected %v; filters: %s", gotRecv, exp.Recv, logStr))
	}

	denied := len(exp.Answers) > 0
	firstClass := ""
	if denied {
		firstClass = exp.Answers[0].Class
	}
	switch {
	case exp.Terminated:
		if attempts > 0 {
			report("request forwarded upstream although a receive filter terminated it", fmt.Sprintf("%d upstream request frame(s); filters: %s", attempts, logStr))
		}
	case denied:
		// (2) never forwarded
		if attempts > 0 {
			report("request forwarded upstream although "+firstClass+" denies it", fmt.Sprintf("%d upstream request frame(s), client got %s; denied by filter %d; filters: %s", attempts, c14bDownStr(down), exp.Answers[0].Idx, logStr))
			return
		}
		if disconnect {
			return // the client may be gone before the answer is written
		}
		// (3) exactly one response, the answering filter's
		if len(down) != 1 {
			report("request denied by "+firstClass+" but the client did not get exactly one response", fmt.Sprintf("%d responses; filters: %s", len(down), logStr))
			return
		}
		if exp.Bypass {
			// written by the receive filter itself: the statement's "passes the send filters" is about hijack / direct
			// responses; this one must be exactly the filter's
			a := exp.Answers[len(exp.Answers)-1]
			if down[0].Status != a.Wire || down[0].Token != a.Token || down[0].BodyToken != a.Body {
				report("denied by "+a.Class+": the response is not the one the answering filter produced", fmt.Sprintf("client got status=%d token=%q body=%q; filters: %s", down[0].Status, down[0].Token, down[0].BodyToken, logStr))
			}
			return
		}
		checkSend()
		if !checkReplaced(down[0]) {
			ok := false
			var want []string
			for _, a := range exp.Answers {
				want = append(want, fmt.Sprintf("%d(by filter %d, code %d)", a.Wire, a.Idx, a.Code))
				if down[0].Status != a.Wire {
					continue
				}
				if a.Body != "" && down[0].BodyToken != a.Body {
					continue
				}
				if a.Token != "" && down[0].Token != a.Token {
					continue
				}
				ok = true
			}
			if !ok {
				report("denied by "+firstClass+": the response is not the one the answering filter produced", fmt.Sprintf("client got status=%d token=%q body=%q, acceptable: %v; filters: %s", down[0].Status, down[0].Token, down[0].BodyToken, want, logStr))
			}
		}
		// the status the proxy accounted for the request (access log): the configured one
		if len(acc) != 1 {
			report("denied request: per-stream access log not written exactly once", fmt.Sprintf("%d records; filters: %s", len(acc), logStr))
		} else {
			ok := false
			for _, a := range exp.Answers {
				if a.Direct || acc[0].Code == a.Code {
					ok = true
				}
			}
			if !ok {
				report("denied by "+firstClass+": the response code recorded for the request is not the configured status", fmt.Sprintf("access log code %d (flags %s), answers %+v; filters: %s", acc[0].Code, acc[0].Flags, exp.Answers, logStr))
			}
		}
		if exp.DelayMs > 0 && down[0].AtMs < int64(exp.DelayMs) {
			report("fault_inject delay: the request was answered before the configured delay elapsed", fmt.Sprintf("answered at %dms, delay %dms; filters: %s", down[0].AtMs, exp.DelayMs, logStr))
		}
	default:
		// every reached filter allows: forwarded once, answered once
		if disconnect {
			if attempts > 1 {
				report("request forwarded upstream more than once", fmt.Sprintf("%d upstream request frames; filters: %s", attempts, logStr))
			}
			return
		}
		// (virtual time may pass at any point: the route timeout can expire before the request left or
		// before the answer came back - then the one response is the proxy's timeout reply)
		if attempts > 1 {
			report("request forwarded upstream more than once", fmt.Sprintf("%d upstream request frames; filters: %s", attempts, logStr))
			return
		}
		if len(down) != 1 {
			report("no filter denies the request but the client did not get exactly one response", fmt.Sprintf("%d responses; filters: %s; log=%v", len(down), logStr, obs.Log))
			return
		}
		checkSend()
		if !checkReplaced(down[0]) {
			switch {
			case down[0].Status == bolt.ResponseStatusSuccess:
				if script != upReply200 || attempts != 1 || down[0].Token != token || down[0].BodyToken != token {
					report("no filter denies the request but the success response the client got is not the upstream's answer", fmt.Sprintf("upstream script %s, %d upstream request frames, client got token=%q body=%q; filters: %s", script, attempts, down[0].Token, down[0].BodyToken, logStr))
				}
			case down[0].Status == bolt.ResponseStatusTimeout:
				// route timeout
			case script == upReply200 || attempts == 0:
				report("no filter denies the request but the client got an error response that is neither the upstream's answer nor a timeout", fmt.Sprintf("client got status=%d, %d upstream request frames; filters: %s", down[0].Status, attempts, logStr))
			}
		}
		// the upstream saw the request as the filters left it
		for _, u := range obs.Ups {
			for _, f := range u.Requests {
				if f.Token != token {
					continue
				}
				if exp.DelayMs > 0 && f.AtMs < int64(exp.DelayMs) {
					report("fault_inject delay: the request was forwarded before the configured delay elapsed", fmt.Sprintf("forwarded at %dms, delay %dms; filters: %s", f.AtMs, exp.DelayMs, logStr))
				}
				// (what the upstream gets after a filter replaced the request body is forwarding fidelity, C01: enumerated,
				// not compared here. Observed: bolt re-sends the original bytes when the body buffer was refilled in place.)
			}
		}
	}
}

func c14bDownStr(down []hpFrame) string {
	var p []string
	for _, f := range down {
		p = append(p, fmt.Sprintf("status=%d", f.Status))
	}
	if len(p) == 0 {
		return "no response"
	}
	return strings.Join(p, ",")
}

// ---------------------------------------------------------------------------
// configurations

func c14bCfg(text string) map[string]interface{} {
	m := map[string]interface{}{}
	if err := stdjson.Unmarshal([]byte(text), &m); err != nil {
		panic(fmt.Sprintf("bad configuration %s: %v", text, err))
	}
	return m
}

func c14bFault(label, text string) c14bElem {
	return c14bElem{Kind: "fault_inject", Label: label, Class: "fault_inject", Config: c14bCfg(text)}
}

func c14bIP(label, text string) c14bElem {
	return c14bElem{Kind: "ip_access", Label: label, Class: "ip_access", Config: c14bCfg(text)}
}

// key: "doc" = the limit is given as "max_entity_size" (the name the package's own test uses); "both" = it is
// given under that name and, with the same value, under the name as spelled in the struct tag of
// v2.StreamPayloadLimit ("max_entity_size " with a trailing blank), the only spelling this tree reads - so that
// the denying path of the filter is exercised on this tree and on one where the tag is corrected.
func c14bPayload(key string, limit, status int) c14bElem {
	cfg := map[string]interface{}{"max_entity_size": float64(limit), "http_status": float64(status)}
	class := "payload_limit[limit given as max_entity_size only]"
	if key == "both" {
		cfg["max_entity_size "] = float64(limit)
		class = "payload_limit"
	}
	return c14bElem{Kind: "payload_limit", Label: fmt.Sprintf("%s:limit=%d,status=%d", key, limit, status), Class: class, Config: cfg}
}

func c14bScr(phase, verdict string) c14bElem {
	return c14bElem{Kind: "scripted", Phase: phase, Verdict: verdict}
}

func c14bElemName(e c14bElem) string {
	if e.Kind == "scripted" {
		n := e.Phase + "=" + e.Verdict
		if e.Gate != "" {
			n += "@" + e.Gate
		}
		if e.Code != 0 {
			n += fmt.Sprintf("/%d", e.Code)
		}
		return n
	}
	return e.Kind + "{" + e.Label + "}"
}

func c14bName(cs *c14bCase) string {
	var p []string
	for _, e := range cs.Chain {
		p = append(p, c14bElemName(e))
	}
	s := "chain[" + strings.Join(p, " ") + "]"
	var rq []string
	for _, r := range cs.Sc.Requests {
		d := "nobody"
		if r.Body {
			d = fmt.Sprintf("body%d", len("body-of-"+r.Token))
		}
		var hk []string
		for k := range r.Headers {
			hk = append(hk, k)
		}
		sort.Strings(hk)
		for _, k := range hk {
			d += " " + k + "=" + r.Headers[k]
		}
		rq = append(rq, d+" up="+strings.Join(r.Script, ","))
	}
	s += " req[" + strings.Join(rq, " | ") + "]"
	if cs.Src != "" {
		s += " src=" + cs.Src
	}
	if cs.RoutePF != nil {
		b, _ := stdjson.Marshal(cs.RoutePF)
		s += " route_pf=" + string(b)
	}
	if cs.Sc.RetryOn {
		s += fmt.Sprintf(" retry_on(%d)", cs.Sc.NumRetries)
	}
	if cs.Sc.DownDisconnect {
		s += " down-disconnect"
	}
	if cs.Sc.OneChunk {
		s += " one-chunk"
	}
	return s
}

func c14bMk(chain []c14bElem, reqs ...hpRequest) c14bCase {
	cs := c14bCase{Chain: append([]c14bElem(nil), chain...)}
	cs.Sc = hpScenario{Hosts: 1, RouteTimeoutMs: 1000, Requests: reqs}
	return cs
}

func c14bReq1(body bool, up string, headers map[string]string) hpRequest {
	return hpRequest{Token: "t1", Body: body, Script: []string{up}, Headers: headers}
}

var c14bFaultConfigs = []c14bElem{
	c14bFault("abort100/503", `{"abort":{"status":503,"percentage":100}}`),
	c14bFault("abort100/404", `{"abort":{"status":404,"percentage":100}}`),
	c14bFault("abort100/429", `{"abort":{"status":429,"percentage":100}}`),
	c14bFault("abort0/503", `{"abort":{"status":503,"percentage":0}}`),
	c14bFault("abort50/503", `{"abort":{"status":503,"percentage":50}}`),
	c14bFault("abort99/503", `{"abort":{"status":503,"percentage":99}}`),
	c14bFault("abort1/503", `{"abort":{"status":503,"percentage":1}}`),
	c14bFault("none", `{}`),
	c14bFault("abort100/503,cluster=routed", `{"abort":{"status":503,"percentage":100},"upstream_cluster":"`+hpCluster+`"}`),
	c14bFault("abort100/503,cluster=other", `{"abort":{"status":503,"percentage":100},"upstream_cluster":"otherCluster"}`),
	c14bFault("abort100/503,fault=yes", `{"abort":{"status":503,"percentage":100},"headers":[{"name":"fault","value":"yes"}]}`),
	c14bFault("abort100/503,fault=yes&kind=x", `{"abort":{"status":503,"percentage":100},"headers":[{"name":"fault","value":"yes"},{"name":"kind","value":"x"}]}`),
	c14bFault("delay100/10ms", `{"delay":{"fixed_delay":"10ms","percentage":100}}`),
	c14bFault("delay0/10ms", `{"delay":{"fixed_delay":"10ms","percentage":0}}`),
	c14bFault("delay100/0ms", `{"delay":{"fixed_delay":"0ms","percentage":100}}`),
	c14bFault("delay50/10ms", `{"delay":{"fixed_delay":"10ms","percentage":50}}`),
	c14bFault("delay100/10ms+abort100/503", `{"delay":{"fixed_delay":"10ms","percentage":100},"abort":{"status":503,"percentage":100}}`),
	c14bFault("delay100/2000ms", `{"delay":{"fixed_delay":"2000ms","percentage":100}}`),
	c14bFault("delay100/10ms,fault=yes", `{"delay":{"fixed_delay":"10ms","percentage":100},"headers":[{"name":"fault","value":"yes"}]}`),
}

var c14bFaultHeaders = []map[string]string{nil, {"fault": "yes"}, {"fault": "no"}, {"fault": "yes", "kind": "x"}}

var c14bIPConfigs = []c14bElem{
	c14bIP("allow-all", `{"default_action":"allow","ips":[]}`),
	c14bIP("deny-all", `{"default_action":"deny","ips":[]}`),
	c14bIP("no-default;deny 10.1.2.0/24", `{"ips":[{"action":"deny","addrs":["10.1.2.0/24"]}]}`),
	c14bIP("allow;deny 10.1.2.0/24", `{"default_action":"allow","ips":[{"action":"deny","addrs":["10.1.2.0/24"]}]}`),
	c14bIP("deny;allow 10.1.2.0/24", `{"default_action":"deny","ips":[{"action":"allow","addrs":["10.1.2.0/24"]}]}`),
	c14bIP("deny;deny 10.1.2.5,allow 10.1.2.0/24", `{"default_action":"deny","ips":[{"action":"deny","addrs":["10.1.2.5"]},{"action":"allow","addrs":["10.1.2.0/24"]}]}`),
	c14bIP("allow;allow 10.1.2.5,deny 10.1.2.0/24", `{"default_action":"allow","ips":[{"action":"allow","addrs":["10.1.2.5"]},{"action":"deny","addrs":["10.1.2.0/24"]}]}`),
	c14bIP("allow;deny 10.1.2.0/24,allow 10.1.2.5", `{"default_action":"allow","ips":[{"action":"deny","addrs":["10.1.2.0/24"]},{"action":"allow","addrs":["10.1.2.5"]}]}`),
	c14bIP("deny;allow 10.1.2.5", `{"default_action":"deny","ips":[{"action":"allow","addrs":["10.1.2.5"]}]}`),
	c14bIP("deny;allow 10.1.2.4/30,10.1.3.0", `{"default_action":"deny","ips":[{"action":"allow","addrs":["10.1.2.4/30","10.1.3.0"]}]}`),
	c14bIP("allow;deny 10.1.2.77/24", `{"default_action":"allow","ips":[{"action":"deny","addrs":["10.1.2.77/24"]}]}`),
	c14bIP("allow;deny 0.0.0.0/0", `{"default_action":"allow","ips":[{"action":"deny","addrs":["0.0.0.0/0"]}]}`),
	c14bIP("deny;allow 10.1.2.5/32", `{"default_action":"deny","ips":[{"action":"allow","addrs":["10.1.2.5/32"]}]}`),
	c14bIP("deny;allow 2001:db8::/32", `{"default_action":"deny","ips":[{"action":"allow","addrs":["2001:db8::/32"]}]}`),
}

var c14bSources = []string{"10.1.1.255:4000", "10.1.2.0:4000", "10.1.2.3:4000", "10.1.2.4:4000", "10.1.2.5:4000", "10.1.2.7:4000", "10.1.2.8:4000", "10.1.2.255:4000", "10.1.3.0:4000", "127.0.0.1:50001", "[2001:db8::1]:4000", "[2001:db7:ffff::1]:4000", "[2001:db9::]:4000"}

// header-based address
var c14bIPHeaderConfigs = []c14bElem{
	c14bIP("hdr x-real-ip;deny;allow 10.1.2.0/24", `{"header":"x-real-ip","default_action":"deny","ips":[{"action":"allow","addrs":["10.1.2.0/24"]}]}`),
	c14bIP("hdr x-real-ip;allow;deny 10.1.2.0/24", `{"header":"x-real-ip","default_action":"allow","ips":[{"action":"deny","addrs":["10.1.2.0/24"]}]}`),
}
var c14bIPHeaderValues = []string{"", "10.1.2.5", "10.1.3.0", "10.1.2.255", "10.1.2.5:80", "not-an-ip"}

// ---------------------------------------------------------------------------
// scenarios

// the forms an upstream event takes for a forwarded request
var c14bUps = []string{upReply200, upClose, upSilent}

// c14bForUps returns the case once per upstream script if the models say it is (or may be) forwarded, once otherwise.
func c14bForUps(cs c14bCase, ups []string) []c14bCase {
	exp := c14bExpect(&cs, 0)
	if exp.Unspecified == "" && (len(exp.Answers) > 0 || exp.Terminated) {
		ups = ups[:1]
	}
	var out []c14bCase
	for _, up := range ups {
		c := cs
		c.Sc.Requests = append([]hpRequest(nil), cs.Sc.Requests...)
		for i := range c.Sc.Requests {
			c.Sc.Requests[i].Script = []string{up}
		}
		c.Name = c14bName(&c)
		out = append(out, c)
	}
	return out
}

// part 1a: every built-in filter alone, full configuration x request grid
func c14bAlone(full bool) []c14bCase {
	var out []c14bCase
	// quick: the forwarded cases see the three upstream behaviours only for one configuration per filter
	rich := true
	add := func(cs c14bCase) {
		ups := c14bUps
		if !full && !rich {
			ups = c14bUps[:1]
		}
		out = append(out, c14bForUps(cs, ups)...)
	}
	for i, f := range c14bFaultConfigs {
		rich = i == 3 || i == 12
		for _, h := range c14bFaultHeaders {
			if h != nil && !strings.Contains(f.Label, "fault=") {
				continue // the header is irrelevant for configurations without a header condition
			}
			add(c14bMk([]c14bElem{f}, c14bReq1(true, upReply200, h)))
		}
	}
	rich = false
	// route-level configuration replaces the filter-level one
	for _, p := range [][2]string{
		{`{"abort":{"status":503,"percentage":100}}`, `{"abort":{"status":503,"percentage":0}}`},
		{`{"abort":{"status":503,"percentage":0}}`, `{"abort":{"status":404,"percentage":100}}`},
		{`{"abort":{"status":503,"percentage":100}}`, `{"abort":{"status":404,"percentage":100}}`},
	} {
		cs := c14bMk([]c14bElem{c14bFault("filter-level", p[0])}, c14bReq1(true, upReply200, nil))
		cs.RoutePF = map[string]interface{}{"fault": c14bCfg(p[1])}
		add(cs)
	}
	for i, ipc := range c14bIPConfigs {
		rich = i == 4
		for _, src := range c14bSources {
			cs := c14bMk([]c14bElem{ipc}, c14bReq1(true, upReply200, nil))
			cs.Src = src
			add(cs)
		}
	}
	rich = false
	for _, ipc := range c14bIPHeaderConfigs {
		for _, src := range []string{"10.1.2.9:4000", "10.9.9.9:4000"} {
			for _, hv := range c14bIPHeaderValues {
				var h map[string]string
				if hv != "" {
					h = map[string]string{"x-real-ip": hv}
				}
				cs := c14bMk([]c14bElem{ipc}, c14bReq1(true, upReply200, h))
				cs.Src = src
				add(cs)
			}
		}
	}
	// payload_limit: body of 10 bytes ("body-of-t1") against limits below / at / above, no body, no limit
	for _, key := range []string{"doc", "both"} {
		for _, limit := range []int{0, 1, 9, 10, 11} {
			for _, status := range []int{413, 503, 404} {
				if !full && status == 404 {
					continue
				}
				rich = limit == 10 && status == 503
				for _, body := range []bool{true, false} {
					add(c14bMk([]c14bElem{c14bPayload(key, limit, status)}, c14bReq1(body, upReply200, nil)))
				}
			}
		}
	}
	for _, p := range [][2]c14bElem{
		{c14bPayload("both", 9, 503), c14bPayload("both", 11, 404)},
		{c14bPayload("both", 11, 503), c14bPayload("both", 9, 404)},
		{c14bPayload("both", 9, 503), c14bPayload("both", 5, 404)},
	} {
		cs := c14bMk([]c14bElem{p[0]}, c14bReq1(true, upReply200, nil))
		cs.RoutePF = map[string]interface{}{"payload_limit": p[1].Config}
		add(cs)
	}
	return out
}

// representative deny / allow variants of each built-in filter for the chains (the request is fixed:
// body of 10 bytes, source 10.1.2.5, no extra header)
func c14bReps(full bool) (f, i, p []c14bElem) {
	f = []c14bElem{c14bFaultConfigs[0], c14bFaultConfigs[3]} // abort100/503, abort0
	i = []c14bElem{c14bIPConfigs[3], c14bIPConfigs[4]}       // allow;deny 10.1.2.0/24 (denies), deny;allow 10.1.2.0/24 (allows)
	p = []c14bElem{c14bPayload("both", 9, 404), c14bPayload("both", 10, 404)}
	if full {
		f = append(f, c14bFaultConfigs[16], c14bFaultConfigs[12], c14bFaultConfigs[4]) // delay+abort, delay, abort50
		i = append(i, c14bIPConfigs[5], c14bIPConfigs[6])
	}
	return
}

func c14bScriptedAlphabet(full bool) []c14bElem {
	var out []c14bElem
	for _, ph := range []string{"before-route", "after-route", "after-choose-host"} {
		vs := []string{"continue", "stop", "terminate", "hijack", "hijack-stop", "hijack-body", "direct", "tstream", "tstream-continue", "setdata", "append"}
		// (a re-match / re-choose request is honoured only in its own phase: first unit)
		if ph == "after-route" {
			vs = append(vs, "rematch")
		}
		if ph == "after-choose-host" {
			vs = append(vs, "rechoose")
		}
		for _, v := range vs {
			out = append(out, c14bScr(ph, v))
		}
	}
	for _, v := range []string{"continue", "stop", "replace"} {
		out = append(out, c14bScr("send", v))
	}
	return out
}

// all ordered selections of n distinct indices out of m
func c14bArrangements(m, n int) [][]int {
	var out [][]int
	var gen func(cur []int)
	gen = func(cur []int) {
		if len(cur) == n {
			out = append(out, append([]int(nil), cur...))
			return
		}
		for i := 0; i < m; i++ {
			used := false
			for _, c := range cur {
				used = used || c == i
			}
			if !used {
				gen(append(cur, i))
			}
		}
	}
	gen(nil)
	return out
}

// part 1b: chains of 2 and 3 out of {fault_inject, ip_access, payload_limit, one scripted filter}, every order,
// every combination of the representative variants
func c14bChains(full bool) []c14bCase {
	f, ip, p := c14bReps(full)
	types := [][]c14bElem{f, ip, p, c14bScriptedAlphabet(full)}
	var out []c14bCase
	for n := 2; n <= 3; n++ {
		if n == 3 && !full {
			// quick: chains of 3 with the scripted verdicts that matter next to a built-in filter
			var small []c14bElem
			for _, e := range types[3] {
				switch e.Verdict {
				case "continue", "hijack", "direct", "tstream", "replace":
					small = append(small, e)
				}
			}
			types[3] = small
		}
		for _, arr := range c14bArrangements(len(types), n) {
			var gen func(cur []c14bElem)
			gen = func(cur []c14bElem) {
				if len(cur) == n {
					cs := c14bMk(cur, c14bReq1(true, upReply200, nil))
					cs.Src = "10.1.2.5:4000"
					ups := c14bUps[:1]
					if n == 2 && full {
						ups = c14bUps
					}
					out = append(out, c14bForUps(cs, ups)...)
					return
				}
				for _, e := range types[arr[len(cur)]] {
					gen(append(cur[:len(cur):len(cur)], e))
				}
			}
			gen(nil)
		}
	}
	return out
}

// part 2: the filter-manager API paths with scripted filters only: every receive verdict of the extended
// alphabet alone and in pairs, followed by send chains that continue / stop / replace the response
func c14bAPI(full bool) []c14bCase {
	var recv, send []c14bElem
	for _, e := range c14bScriptedAlphabet(true) {
		if e.Phase == "send" {
			send = append(send, e)
		} else {
			recv = append(recv, e)
		}
	}
	isNew := func(e c14bElem) bool {
		switch e.Verdict {
		case "hijack-body", "tstream", "tstream-continue", "setdata", "append":
			return true
		}
		return false
	}
	var sendChains [][]c14bElem
	sendChains = append(sendChains, nil)
	for _, a := range send {
		sendChains = append(sendChains, []c14bElem{a})
		for _, b := range send {
			if !full && !(a.Verdict == "replace" || b.Verdict == "replace") {
				continue
			}
			sendChains = append(sendChains, []c14bElem{a, b})
		}
	}
	small := func(e c14bElem) bool {
		switch e.Verdict {
		case "continue", "stop", "hijack", "direct":
			return true
		}
		return false
	}
	var out []c14bCase
	add := func(chain []c14bElem, ups []string) {
		cs := c14bMk(chain, c14bReq1(true, upReply200, nil))
		out = append(out, c14bForUps(cs, ups)...)
	}
	for _, a := range recv {
		for _, sc := range sendChains {
			if !isNew(a) && len(sc) > 0 && !c14bHas(sc, "replace") {
				continue // the first unit has these
			}
			if !full && !isNew(a) && len(sc) > 1 {
				continue
			}
			ups := c14bUps
			if !full && len(sc) > 0 {
				ups = c14bUps[:1]
			}
			add(append([]c14bElem{a}, sc...), ups)
		}
		for _, b := range recv {
			if !isNew(a) && !isNew(b) {
				continue
			}
			if !full && !((isNew(a) || small(a)) && (isNew(b) || small(b))) {
				continue
			}
			scs := sendChains[:1]
			if full {
				scs = [][]c14bElem{nil, {c14bScr("send", "replace")}, {c14bScr("send", "continue"), c14bScr("send", "replace")}}
			}
			for _, sc := range scs {
				add(append([]c14bElem{a, b}, sc...), c14bUps[:1])
			}
		}
	}
	// send chains alone (the upstream's answer is replaced)
	for _, sc := range sendChains[1:] {
		if c14bHas(sc, "replace") {
			add(sc, c14bUps)
		}
	}
	return out
}

func c14bHas(chain []c14bElem, verdict string) bool {
	for _, e := range chain {
		if e.Verdict == verdict {
			return true
		}
	}
	return false
}

// part 1c: two requests on one connection, in flight together: the first is allowed and forwarded, the second
// is denied by the built-in filter (by its header / body size / header-carried address) while the upstream's
// answer to the first may arrive at any time; also in the opposite order
func c14bTwo(full bool) []c14bCase {
	var out []c14bCase
	type pair struct {
		chain  []c14bElem
		allow  hpRequest
		deny   hpRequest
		src    string
		suffix string
	}
	long := "t2-long-token" // body-of-t2-long-token: 21 bytes
	pairs := []pair{
		{chain: []c14bElem{c14bFaultConfigs[10]}, allow: hpRequest{Token: "t1", Body: true}, deny: hpRequest{Token: "t2", Body: true, Headers: map[string]string{"fault": "yes"}}},
		{chain: []c14bElem{c14bFaultConfigs[18], c14bFaultConfigs[10]}, allow: hpRequest{Token: "t1", Body: true}, deny: hpRequest{Token: "t2", Body: true, Headers: map[string]string{"fault": "yes"}}},
		{chain: []c14bElem{c14bIPHeaderConfigs[0]}, allow: hpRequest{Token: "t1", Body: true, Headers: map[string]string{"x-real-ip": "10.1.2.5"}}, deny: hpRequest{Token: "t2", Body: true, Headers: map[string]string{"x-real-ip": "10.1.3.0"}}, src: "10.1.2.9:4000"},
		{chain: []c14bElem{c14bPayload("both", 10, 503)}, allow: hpRequest{Token: "t1", Body: true}, deny: hpRequest{Token: long, Body: true}},
		{chain: []c14bElem{c14bIPHeaderConfigs[1], c14bPayload("both", 10, 503), c14bScr("send", "continue")}, allow: hpRequest{Token: "t1", Body: true}, deny: hpRequest{Token: long, Body: true}, src: "10.9.9.9:4000"},
		{chain: []c14bElem{c14bScr("after-route", "continue"), c14bPayload("both", 10, 503), c14bScr("after-route", "continue"), c14bScr("send", "replace")}, allow: hpRequest{Token: "t1", Body: true}, deny: hpRequest{Token: long, Body: true}},
	}
	for _, p := range pairs {
		for _, order := range []string{"allowed-first", "denied-first"} {
			for _, up := range c14bUps {
				for _, one := range []bool{false, true} {
					if !full && (up == upSilent || one) {
						continue
					}
					a, d := p.allow, p.deny
					a.Script, d.Script = []string{up}, []string{up}
					reqs := []hpRequest{a, d}
					if order == "denied-first" {
						reqs = []hpRequest{d, a}
					}
					cs := c14bMk(p.chain, reqs...)
					cs.Src = p.src
					cs.Sc.OneChunk = one
					cs.Name = "two requests in flight (" + order + "): " + c14bName(&cs)
					out = append(out, cs)
				}
			}
		}
	}
	// the client goes away while the fault_inject delay runs / right after sending
	for _, f := range []c14bElem{c14bFaultConfigs[12], c14bFaultConfigs[16], c14bFaultConfigs[0], c14bFaultConfigs[3]} {
		cs := c14bMk([]c14bElem{f, c14bScr("after-route", "continue")}, c14bReq1(true, upReply200, nil))
		cs.Sc.DownDisconnect = true
		cs.Name = c14bName(&cs)
		out = append(out, cs)
	}
	return out
}

func c14bScenarios() []c14bCase {
	full := vreport.Thorough()
	var out []c14bCase
	add := func(group string, deep bool, l []c14bCase) {
		for _, cs := range l {
			cs.Group = group
			// thorough: scenarios in which every request is denied or terminated before it can leave are explored
			// with up to 2 deviations. (Not the forwarded ones: with 2 deviations an upstream failure racing the
			// route timeout runs into the terminal-outcome arbitration of C03, which is recorded there.)
			if deep && full && c14bAllDenied(&cs) {
				cs.Sc.Bound = 2
			}
			out = append(out, cs)
		}
	}
	add("async", false, c14bAsyncScenarios(full))
	add("async-retry", false, c14bAsyncRetryScenarios(full))
	add("alone", true, c14bAlone(full))
	add("api", true, c14bAPI(full))
	add("two", false, c14bTwo(full))
	add("chains", true, c14bChains(full))
	return out
}

// asynchronous TerminateStream: the filter sits in each phase, alone, behind / before an allowing built-in filter,
// with send filters; the upstream replies, closes or stays silent
func c14bAsyncScenarios(full bool) []c14bCase {
	var out []c14bCase
	for _, ph := range []string{"before-route", "after-route", "after-choose-host"} {
		a := c14bScr(ph, "tstream-async")
		chains := [][]c14bElem{
			{a},
			{a, c14bScr("send", "continue")},
			{c14bPayload("both", 10, 404), a},
			{a, c14bFaultConfigs[3], c14bScr("send", "continue")},
		}
		if full {
			chains = append(chains, []c14bElem{a, c14bScr(ph, "continue"), c14bScr("send", "stop")}, []c14bElem{c14bIPConfigs[4], a, c14bScr("send", "replace")})
		}
		for _, ch := range chains {
			for _, up := range c14bUps {
				cs := c14bMk(ch, c14bReq1(true, up, nil))
				cs.Src = "10.1.2.5:4000"
				cs.Name = c14bName(&cs)
				out = append(out, cs)
			}
		}
	}
	return out
}

// c14bCheckAsyncRetry: TerminateStream from another goroutine against a request that is retried. The oracles are
// the statement's and C03's: exactly one response (the termination's or one produced for an upstream outcome),
// not later than the route timeout on the virtual clock; at quiescence no stream left in activeStreams and no
// request goroutine left blocked; nothing is written upstream for the request after its response or after a
// TerminateStream that succeeded before anything had left; the response passes the send filters once.
func c14bCheckAsyncRetry(cs *c14bCase, k int, obs *hpObs, down []hpFrame, send []c14bCall, expSend []int, logStr string, report func(kind, detail string)) {
	r := c14bRes
	sc := &cs.Sc
	token := sc.Requests[k].Token
	attempts := obs.Attempts[token]
	term := "not-called"
	var ta *c14bAsync
	for i := range c14bCur.async {
		if c14bCur.async[i].Req == k {
			ta = &c14bCur.async[i]
			term = fmt.Sprint(ta.OK)
		}
	}
	workerBlocked := ""
	for _, b := range r.Blocked {
		if !strings.Contains(b, "(env:") {
			workerBlocked = b
		}
	}
	ctx := fmt.Sprintf("TerminateStream=%s %+v, %d upstream request frames; filters: %s; blocked=%v log=%v", term, c14bCur.async, attempts, logStr, r.Blocked, obs.Log)
	if len(down) > 1 {
		report("asynchronous TerminateStream: more than one response for one request", fmt.Sprintf("%d responses %+v; %s", len(down), down, ctx))
		return
	}
	if len(down) == 0 {
		if sc.DownDisconnect {
			return
		}
		// same root-cause class naming as C03: what the request's goroutine does + the stream's internal state
		w := "worker goroutine exited"
		if workerBlocked != "" {
			w = "worker goroutine waiting forever (" + workerBlocked[strings.Index(workerBlocked, " at ")+4:] + ")"
		}
		sig, full := "stream no longer tracked", ""
		if len(obs.Stuck) > 0 {
			full = obs.Stuck[0]
			f := strings.Fields(full)
			sig = f[0] + " " + f[1] + " " + f[2] + fmt.Sprintf(" retried=%v", attempts > 1)
		}
		sig += fmt.Sprintf(" terminate=%s deviations=%d", term, r.Cost)
		report("asynchronous TerminateStream: request never completed (no response, client did not disconnect): "+w+"; "+sig, fmt.Sprintf("state: %s; %s", full, ctx))
		return
	}
	f := down[0]
	if limit := int64(sc.RouteTimeoutMs + 10*sc.NumRetries + 50); f.AtMs > limit {
		report("asynchronous TerminateStream: the response came later than the route timeout allows", fmt.Sprintf("response at %dms, route timeout %dms; %s", f.AtMs, sc.RouteTimeoutMs, ctx))
	}
	if workerBlocked != "" {
		report("asynchronous TerminateStream: a request goroutine is blocked forever although the request was answered", workerBlocked+"; "+ctx)
	}
	if obs.Active != 0 {
		report("asynchronous TerminateStream: the proxy still tracks an active stream although the request was answered", fmt.Sprintf("activeStreams=%d %v; %s", obs.Active, obs.Stuck, ctx))
	}
	for ui, u := range obs.Ups {
		for _, uf := range u.Requests {
			if uf.Token == token && uf.Seq > f.Seq {
				report("asynchronous TerminateStream: upstream attempt written after the downstream response", fmt.Sprintf("response seq %d, upstream request on conn %d seq %d; %s", f.Seq, ui, uf.Seq, ctx))
			}
		}
	}
	// a termination that succeeded while the receive filters were still running (TerminateStream returned before a
	// receive filter of the request returned) is seen by the proxy before it forwards: never forwarded afterwards.
	// (One that succeeds later races with the forward itself - observed with 2 deviations: TerminateStream reports
	// success with nothing written yet and the frame still leaves - there is no order to hold the proxy to.)
	if attempts > 0 && c14bTerminatedWhileFiltering(k) {
		report("asynchronous TerminateStream: request forwarded upstream although the termination had succeeded before the receive filters finished", ctx)
	}
	if f.Status == bolt.ResponseStatusSuccess && (f.Token != token || f.BodyToken != token) && !c14bHas(cs.Chain, "replace") {
		report("asynchronous TerminateStream: success response carries another exchange's header or body", fmt.Sprintf("token %q body %q; %s", f.Token, f.BodyToken, ctx))
	}
	// send filters: once, in order, per response the proxy processed - the delivered one and, before it, the
	// responses of abandoned tries (observed: a retriable 5xx passes the send filters before the retry is decided)
	var got []int
	for _, c := range send {
		got = append(got, c.Idx)
	}
	ok := false
	for n := 1; n <= attempts+1 && !ok; n++ {
		var want []int
		for i := 0; i < n; i++ {
			want = append(want, expSend...)
		}
		ok = fmt.Sprint(got) == fmt.Sprint(want)
	}
	if !ok {
		report("a response reached the client without passing the send filters once in order per processed response", fmt.Sprintf("send filters called %v, chain %v, %d tries; %s", got, expSend, attempts, ctx))
	}
}

// c14bTerminatedWhileFiltering: TerminateStream reported success for request k before one of its receive filters returned
func c14bTerminatedWhileFiltering(k int) bool {
	lastRecv := 0
	for _, c := range c14bCur.calls {
		if c.Kind == "recv" && c.Req == k && c.Seq > lastRecv {
			lastRecv = c.Seq
		}
	}
	for _, a := range c14bCur.async {
		if a.Req == k && a.OK && a.Seq < lastRecv {
			return true
		}
	}
	return false
}

// asynchronous TerminateStream x retries: the route retries (retry_on, 1-2 retries, 2 hosts), the first try is
// answered with a retriable status or the upstream closes, the next try is answered or not; TerminateStream (403 /
// 500) is called from another goroutine at once, once the first / the second upstream request frame is on the wire,
// or once the response is on the downstream wire - and from there at every scheduling point within the bound.
func c14bAsyncRetryScenarios(full bool) []c14bCase {
	var out []c14bCase
	type rs struct {
		script  []string
		retries int
	}
	scripts := []rs{
		{[]string{upReplyBusy, upReply200}, 1}, {[]string{upReply5xx, upReply200}, 1}, {[]string{upClose, upReply200}, 1},
		{[]string{upReplyBusy, upSilent}, 1}, {[]string{upReply5xx, upSilent}, 1},
		{[]string{upReplyBusy, upReplyBusy, upReply200}, 2}, {[]string{upReplyBusy, upClose, upReply200}, 2},
	}
	add := func(ch []c14bElem, s rs, deep bool) {
		cs := c14bMk(ch, hpRequest{Token: "t1", Body: true, Script: s.script})
		cs.Sc.Hosts, cs.Sc.RetryOn, cs.Sc.NumRetries = 2, true, s.retries
		if deep && full {
			cs.Sc.Bound = 2
		}
		cs.Name = c14bName(&cs)
		out = append(out, cs)
	}
	for si, s := range scripts {
		for _, gate := range []string{"", "try1", "try2", "answered"} {
			for _, code := range []int{403, 500} {
				if code == 500 && !(gate == "" || gate == "try2") && !full {
					continue
				}
				a := c14bElem{Kind: "scripted", Phase: "after-route", Verdict: "tstream-async", Gate: gate, Code: code}
				add([]c14bElem{a}, s, si < 4 && code == 403 && (gate == "" || gate == "try2"))
				if code == 403 && (full || gate == "try2") {
					b := a
					b.Phase = "before-route"
					add([]c14bElem{b, c14bScr("send", "continue")}, s, false)
				}
			}
		}
	}
	return out
}

func c14bAllDenied(cs *c14bCase) bool {
	for k := range cs.Sc.Requests {
		exp := c14bExpect(cs, k)
		if exp.Unspecified != "" || (len(exp.Answers) == 0 && !exp.Terminated) {
			return false
		}
	}
	return true
}

// ---------------------------------------------------------------------------
// running

func c14bRun(p *vreport.Part, cs c14bCase, replay bool) bool {
	defer c14bInstall(&cs)()
	obs := &hpObs{}
	opts := vrt.Options{Bound: cs.Sc.Bound, Delay: true, MaxSteps: 200000, MaxExecs: vreport.Pick(3000, 30000), Deadline: time.Now().Add(20 * time.Minute)}
	if cs.Group == "async-retry" {
		opts.MaxExecs = vreport.Pick(3000, 300000) // retried requests have ~250 scheduling points: 2 deviations need more room
	}
	if replay {
		opts.Replay = true
		opts.Prefix = cs.Sc.Choices
		opts.Trace = os.Getenv("VERIF_C14B_TRACE") != ""
	}
	st := vrt.Explore(opts, func() {
		*obs = hpObs{}
		hpBody(&cs.Sc, obs)
	}, func(r *vrt.Result) {
		p.Eval()
		if replay && opts.Trace {
			for _, l := range r.Trace {
				if !strings.HasPrefix(l, "#0 ") {
					fmt.Println(l)
				}
			}
			fmt.Printf("log=%v\ncalls=%s\naccess=%+v\ndown=%+v\nattempts=%v\n", obs.Log, c14bCallsStr(c14bCur.calls), c14bCur.access, obs.DownFrames, obs.Attempts)
		}
		cc := cs
		cc.Sc.Choices = r.Choices
		calls, access, errs := c14bCur.calls, c14bCur.access, c14bCur.errs
		var down []string
		for _, f := range obs.DownFrames {
			down = append(down, fmt.Sprintf("%d:%d", f.ID, f.Status))
		}
		var acc []string
		for _, a := range access {
			acc = append(acc, fmt.Sprintf("r%d:%d:%s", a.Req, a.Code, a.Flags))
		}
		for _, a := range c14bCur.async {
			acc = append(acc, fmt.Sprintf("terminate-async:r%d:%v", a.Req, a.OK))
		}
		p.Distinct(cs.Name + "|" + c14bCallsStr(calls) + "|" + strings.Join(down, ","))
		for k := range cs.Sc.Requests {
			p.Count("requests "+c14bReqClass(&cs, k, obs), 1)
		}
		p.Count("executions of group "+cs.Group, 1)
		for k := range cs.Sc.Requests {
			for _, a := range c14bCur.async {
				if a.Req == k {
					p.Count(fmt.Sprintf("async TerminateStream returned %v with %d upstream frames written", a.OK, a.Attempts), 1)
				}
			}
			if c14bTerminatedWhileFiltering(k) {
				p.Count("async TerminateStream succeeded while the receive filters were still running", 1)
			}
		}
		p.Outcome(c14bOutcomeClass(&cs, obs, calls) + "|" + strings.Join(down, ",") + "|" + strings.Join(acc, ","))
		if p.WantSample() {
			p.Sample(map[string]interface{}{"scenario": cs.Name, "schedule": r.Choices, "filter_calls": c14bCallsStr(calls), "downstream": down, "upstream_attempts": obs.Attempts, "access_log": acc})
		}
		c14bCheck(&cs, obs, r, calls, access, errs, func(kind, detail string) {
			p.Violation(kind, "scenario "+cs.Name+": "+detail+fmt.Sprintf(" | schedule=%v", r.Choices), cc)
		})
	})
	p.AddTraces(st.Executions)
	return st.Complete
}

// outcome class (vacuity guard): who decided, what happened - without the scenario's name
func c14bOutcomeClass(cs *c14bCase, obs *hpObs, calls []c14bCall) string {
	var p []string
	for k := range cs.Sc.Requests {
		exp := c14bExpect(cs, k)
		s := "allowed"
		switch {
		case exp.Unspecified != "":
			s = "open"
		case exp.Terminated:
			s = "terminated"
		case len(exp.Answers) > 0:
			s = "denied-by-" + exp.Answers[0].Class
		}
		p = append(p, fmt.Sprintf("%s/fwd=%d", s, obs.Attempts[cs.Sc.Requests[k].Token]))
	}
	var v []string
	for _, c := range calls {
		v = append(v, fmt.Sprintf("%s:%s:%s", c.Phase, c14bChainVerdict(cs, c.Idx), c.Ret))
	}
	return strings.Join(p, ",") + "|" + strings.Join(v, " ")
}

// class of one request of one execution for the coverage notes: what the models say / what happened
func c14bReqClass(cs *c14bCase, k int, obs *hpObs) string {
	exp := c14bExpect(cs, k)
	s := "allowed by every reached filter"
	switch {
	case exp.Unspecified != "":
		s = "decision left open by the models"
	case exp.Terminated:
		s = "terminated by a scripted filter"
	case len(exp.Answers) > 0:
		s = "denied by " + exp.Answers[0].Class
	}
	n := 0
	for _, f := range obs.DownFrames {
		if f.ID == uint32(100+k) {
			n++
		}
	}
	return fmt.Sprintf("%s: forwarded=%d answered=%d", s, obs.Attempts[cs.Sc.Requests[k].Token], n)
}

func c14bChainVerdict(cs *c14bCase, i int) string {
	if i < len(cs.Chain) {
		return cs.Chain[i].Verdict
	}
	return "?"
}

// c14bDeterminism: the new instrumented packages bring timers (fault_inject delay) and a random source
// (fault_inject percentages): executions must still be a function of the schedule.
func c14bDeterminism(cs c14bCase) string {
	defer c14bInstall(&cs)()
	return hpDeterminism(cs.Sc)
}

func TestVerifXC14Builtin(t *testing.T) {
	p := vreport.Begin("C14", c14bPart, time.Hour)
	var rc c14bCase
	if vreport.Replaying() {
		if vreport.ReplayFor("C14", c14bPart, &rc) {
			c14bRun(p, rc, true)
			p.End(true, "replay", "replay of one recorded schedule")
		}
		return
	}
	si, sn := vreport.Shard()
	scs := c14bScenarios()
	complete := true
	n := 0
	bound := 1
	for i, cs := range scs {
		if only := os.Getenv("VERIF_C14B_ONLY"); only != "" {
			if !strings.Contains(cs.Name, only) || si != 0 {
				continue
			}
		} else if i%sn != si {
			continue
		}
		if cs.Sc.Bound == 0 {
			cs.Sc.Bound = bound
		}
		cs.Sc.Name = cs.Name
		if strings.Contains(cs.Name, "fault_inject{delay") || strings.Contains(cs.Name, "fault_inject{abort50") {
			if d := c14bDeterminism(cs); d != "" {
				vreport.HarnessError("C14", c14bPart, "scenario "+cs.Name+" is not deterministic: "+d)
				complete = false
				continue
			}
		}
		if !c14bRun(p, cs, false) {
			complete = false
			p.Count("scenarios_cut_by_execution_cap", 1)
		}
		n++
	}
	p.Note("scenarios", n)
	p.Note("scenarios_total", len(scs))
	p.End(complete, fmt.Sprintf("%d of %d scenarios (this shard): built-in filters alone (fault_inject %d configurations x headers, ip_access %d configurations x %d sources + header-carried address, payload_limit 2 key spellings x 5 limits x 3 statuses x body/no body, route-level overrides), chains of 2-3 of {fault_inject, ip_access, payload_limit, one scripted filter} in every order, scripted API verdicts (hijack with body, TerminateStream from the filter and from another goroutine, receiver-side Append*, SetRequestData, send-side replacement), two requests in flight, asynchronous TerminateStream (403/500; at once / gated on the 1st / 2nd upstream frame / the response) x retried requests (retry_on 1-2, 2 hosts, first try busy / error / close, then ok / silent); upstream {reply, close, silent}; all schedules with <=%d deviation (thorough: <=2 where every request is denied or terminated and for the core termination x retry scenarios)", n, len(scs), len(c14bFaultConfigs), len(c14bIPConfigs), len(c14bSources), bound),
		"every chain is configured as JSON through the stream-filter manager (real factories) and run on the real proxy; the decision of each built-in filter is predicted by a reference model written from its configuration semantics; upstream bytes, downstream frames, scripted filters' call log and the per-stream access log are compared with the statement; distinct = distinct (scenario, call log, downstream frames)")
}
