//go:build verif

package proxy

// C02 over HTTP/1.1: every response MOSN delivers on a downstream request was
// produced for that very request. HTTP/1 has no request ids: a response answers
// the oldest unanswered request of its connection, downstream (keep-alive,
// pipelining) as well as upstream (ping-pong pool: one request at a time per
// upstream connection, connections reused across requests and across
// downstream connections). What can go wrong is therefore positional: a late,
// unsolicited or half-read upstream response left on (or still being read
// from) a pooled connection is taken for the answer to the next request placed
// on it; per-request buffers shared between the attempts of one request hand a
// stale response to the retry; a response is written twice.
//
// Real proxy, HTTP/1 server and client stream connections and HTTP/1 pool under
// the scheduler (driver: zz_verif_common_hphttp_test.go). The tests are named
// TestVerifH1C02… so that the bolt unit's run pattern (^TestVerifC02) does not
// pick them up.

import (
	"fmt"
	"os"
	"strconv"
	"strings"
	"testing"
	"time"

	_ "mosn.io/mosn/pkg/stream/http"
	_ "mosn.io/mosn/pkg/stream/http2"
	"mosn.io/mosn/pkg/verifrt/vreport"
	"mosn.io/mosn/pkg/verifrt/vrt"
)

func c02hScenarios() []hhScenario {
	var out []hhScenario
	add := func(tag string, sc hhScenario) {
		sc.Proto = "Http1"
		if sc.RouteTimeoutMs == 0 {
			sc.RouteTimeoutMs = 1000
		}
		sc.Name = hhScenarioName(&sc) + " (" + tag + ")"
		out = append(out, sc)
	}
	rq := func(tok string, body bool, script ...string) hhRequest {
		return hhRequest{Token: tok, Body: body, Script: script}
	}
	on := func(conn int, r hhRequest) hhRequest { r.Conn = conn; return r }
	// keep-alive, replies in order; the upstream connection is reused request after request
	add("keep-alive in order", hhScenario{Hosts: 1, Requests: []hhRequest{rq("t1", false, hhOK), rq("t2", true, hhOK)}})
	add("keep-alive in order, three requests", hhScenario{Hosts: 1, Requests: []hhRequest{rq("t1", true, hhOK), rq("t2", false, hhOKNoBody), rq("t3", true, hhOK)}})
	add("pipelined", hhScenario{Hosts: 1, Pipelined: true, Requests: []hhRequest{rq("t1", true, hhOK), rq("t2", false, hhOK)}})
	// two downstream connections share the pool of one host
	add("two clients, one host", hhScenario{Hosts: 1, Requests: []hhRequest{rq("t1", true, hhOK), on(1, rq("t2", true, hhOK))}})
	add("two clients, one host, three requests", hhScenario{Hosts: 1, Requests: []hhRequest{rq("t1", true, hhOK), on(1, rq("t2", false, hhOK)), rq("t3", false, hhOK)}})
	add("two clients, two requests each, pooled connections change hands", hhScenario{Hosts: 1, Requests: []hhRequest{rq("t1", true, hhOK), on(1, rq("t2", false, hhOK)), rq("t3", false, hhOK), on(1, rq("t4", true, hhOK))}})
	add("two clients, one host, one upstream connection allowed", hhScenario{Hosts: 1, MaxConnections: 1, Requests: []hhRequest{rq("t1", true, hhOK), on(1, rq("t2", true, hhOK))}})
	// an upstream that answers late: at the very moment the per-try / global timer fires, or after the timeout reply
	add("reply races the per-try timeout, next request follows", hhScenario{Hosts: 1, TryTimeoutMs: 100, Requests: []hhRequest{rq("t1", true, hhOKAtTry), rq("t2", true, hhOK)}})
	add("reply races the global timeout, next request follows", hhScenario{Hosts: 1, Requests: []hhRequest{rq("t1", false, hhOKAtGlobal), rq("t2", true, hhOK)}})
	add("late reply after the timeout reply, next request follows", hhScenario{Hosts: 1, TryTimeoutMs: 100, Requests: []hhRequest{rq("t1", true, hhLateOK), rq("t2", true, hhOK)}})
	add("reply races the per-try timeout, retried", hhScenario{Hosts: 2, TryTimeoutMs: 100, RetryOn: true, NumRetries: 1, Requests: []hhRequest{rq("t1", true, hhOKAtTry, hhOK), rq("t2", false, hhOK)}})
	add("reply races the per-try timeout, retried on the same host", hhScenario{Hosts: 1, TryTimeoutMs: 100, RetryOn: true, NumRetries: 1, Requests: []hhRequest{rq("t1", true, hhOKAtTry, hhOK), rq("t2", false, hhOK)}})
	add("reply races the per-try timeout while another client uses the pool", hhScenario{Hosts: 1, TryTimeoutMs: 100, Requests: []hhRequest{rq("t1", true, hhOKAtTry), on(1, rq("t2", true, hhOKAtTry))}})
	add("silent upstream, timeout, next request follows", hhScenario{Hosts: 1, TryTimeoutMs: 100, Requests: []hhRequest{rq("t1", true, hhSilent), rq("t2", true, hhOK)}})
	// an upstream that sends a second, unsolicited response
	// (Settle: the next request is sent once everything came to rest, so the unsolicited bytes reach MOSN
	// while the connection is idle. Bytes that arrive while MOSN is already placing the next request on
	// the connection cannot be told from its answer by anybody: HTTP/1 has no ids.)
	add("unsolicited second response in the same read", hhScenario{Hosts: 1, Settle: true, Requests: []hhRequest{rq("t1", true, hhOKPlusExtra), rq("t2", true, hhOK)}})
	add("unsolicited second response in a later read", hhScenario{Hosts: 1, Settle: true, Requests: []hhRequest{rq("t1", true, hhOKThenExtra), rq("t2", true, hhOK)}})
	add("unsolicited second response, other client takes the connection", hhScenario{Hosts: 1, Settle: true, Serial: true, Requests: []hhRequest{rq("t1", true, hhOKPlusExtra), on(1, rq("t2", false, hhOK))}})
	add("unsolicited second response in a later read, other client takes the connection", hhScenario{Hosts: 1, Settle: true, Serial: true, Requests: []hhRequest{rq("t1", true, hhOKThenExtra), on(1, rq("t2", false, hhOK))}})
	// an upstream that closes: instead of answering, mid-response, after answering, or announces it
	add("upstream closes instead of answering", hhScenario{Hosts: 1, Requests: []hhRequest{rq("t1", true, hhClose), rq("t2", true, hhOK)}})
	add("success, then the upstream closes instead of answering", hhScenario{Hosts: 1, Requests: []hhRequest{rq("t1", true, hhOK), rq("t2", true, hhClose), rq("t3", false, hhOK)}})
	add("upstream closes mid-response", hhScenario{Hosts: 1, Requests: []hhRequest{rq("t1", true, hhCloseMid), rq("t2", true, hhOK)}})
	add("upstream closes mid-response, retried", hhScenario{Hosts: 2, RetryOn: true, NumRetries: 1, Requests: []hhRequest{rq("t1", true, hhCloseMid, hhOK), rq("t2", true, hhOK)}})
	add("upstream answers and closes", hhScenario{Hosts: 1, Requests: []hhRequest{rq("t1", true, hhOKThenClose), rq("t2", true, hhOK)}})
	add("upstream answers with Connection: close", hhScenario{Hosts: 1, Requests: []hhRequest{rq("t1", true, hhOKConnClose), rq("t2", true, hhOK)}})
	add("upstream answers with Connection: close, other client", hhScenario{Hosts: 1, Requests: []hhRequest{rq("t1", true, hhOKConnClose), on(1, rq("t2", true, hhOK))}})
	add("response split across reads", hhScenario{Hosts: 1, Requests: []hhRequest{rq("t1", true, hhOKSplit), rq("t2", false, hhOK)}})
	// retries on 5xx
	add("5xx retried, next request follows", hhScenario{Hosts: 2, RetryOn: true, NumRetries: 1, Requests: []hhRequest{rq("t1", true, hhErr, hhOK), rq("t2", true, hhOK)}})
	add("5xx retried on the same host", hhScenario{Hosts: 1, RetryOn: true, NumRetries: 1, Requests: []hhRequest{rq("t1", true, hhErr, hhOK), rq("t2", false, hhOK)}})
	add("5xx retried next to another client", hhScenario{Hosts: 2, RetryOn: true, NumRetries: 1, Requests: []hhRequest{rq("t1", true, hhErr, hhOK), on(1, rq("t2", true, hhOK))}})
	add("5xx retried, retry answered 5xx again", hhScenario{Hosts: 1, RetryOn: true, NumRetries: 1, Requests: []hhRequest{rq("t1", true, hhErr, hhErr, hhErr, hhErr, hhOK), rq("t2", false, hhOK)}})
	// the client asks for the connection to be closed
	add("request with Connection: close", hhScenario{Hosts: 1, Requests: []hhRequest{{Token: "t1", Body: true, Close: true, Script: []string{hhOK}}, on(1, rq("t2", true, hhOK))}})
	return out
}

// c02hUpstreamStatus: is st the status of a scripted upstream reply, and for which request?
func c02hScripted(sc *hhScenario, st int) (idx int, ok bool) {
	for i := range sc.Requests {
		if st == hhOKStatus(i) || st == hhErrStatus(i) {
			return i, true
		}
	}
	return -1, false
}

func c02hCheck(sc *hhScenario, obs *hhObs, r *vrt.Result, report func(kind, detail string), note func(what string)) {
	if kind, detail, _ := hhExecProblem(r); kind != "" {
		if !strings.HasPrefix(kind, "HARNESS") && !strings.HasPrefix(kind, "uncaught panic") {
			// hangs are C03's business; here they only mean that this execution shows nothing
			kind = "HARNESS execution did not complete normally"
		}
		report(kind, detail)
		return
	}
	serialSeen := map[string]string{}
	for ci, d := range obs.Downs {
		if d.Garbage != "" {
			report("undecodable bytes written downstream", fmt.Sprintf("connection %d: %s", ci, d.Garbage))
		}
		for _, f := range d.Orphans {
			if f.Ctl != "" {
				continue // a stream reset for a stream the client never opened: no response
			}
			kind := "downstream received a response that answers no request it sent"
			if obs.Extra[f.Headers["rserial"]] {
				kind += " [the response is one the upstream sent unsolicited on a pooled connection]"
			}
			report(kind, fmt.Sprintf("connection %d: %d requests sent, extra response %s", ci, len(d.Sent), f.String()))
		}
		for k, i := range d.Sent {
			for n, f := range d.Answers[k] {
				if f.Ctl != "" {
					continue // stream reset: no response (C03's business)
				}
				rq := sc.Requests[i]
				where := fmt.Sprintf("connection %d, answer to request %s: %s", ci, rq.Token, f.String())
				if n > 0 {
					report("the same request was answered more than once", where)
				}
				// root-cause class of a misdelivery: what kind of upstream response ended up here
				report := report
				if obs.Extra[f.Headers["rserial"]] {
					inner := report
					report = func(kind, detail string) {
						inner(kind+" [the response is one the upstream sent unsolicited on a pooled connection]", detail)
					}
				}
				// request headers echoed by a MOSN-generated reply
				if tk := f.token(); tk != "" && tk != rq.Token {
					report("reply carries another request's headers", where)
				}
				if rt := f.rtoken(); rt != "" {
					// an upstream response: status, header and body must all be the ones produced for this request
					if rt != rq.Token {
						report("response delivered to a request it was not produced for (header)", where)
					}
					if si, scripted := c02hScripted(sc, f.Status); !scripted || si != i {
						report("response status comes from a different exchange than its headers", where)
					}
					if want := obs.Serials[f.Headers["rserial"]]; want != rt {
						report("response header block mixes two upstream responses", where+fmt.Sprintf(" (rserial %s was produced for %q)", f.Headers["rserial"], want))
					}
					if prev, dup := serialSeen[f.Headers["rserial"]]; dup {
						report("the same upstream response was delivered twice", where+" and "+prev)
					}
					serialSeen[f.Headers["rserial"]] = where
				} else if si, scripted := c02hScripted(sc, f.Status); scripted {
					if si != i {
						report("response status comes from a different exchange than its headers", where+fmt.Sprintf(" (status of a scripted reply to request %s on a MOSN-generated reply)", sc.Requests[si].Token))
					} else {
						// MOSN's own (timeout) reply to this request, labelled with the status of the late upstream
						// response to the same request: both parts were produced for this very request, the
						// statement is silent on mixing them. Enumerated, not compared.
						note("replies_mixing_own_local_reply_and_own_upstream_status")
					}
				}
				switch {
				case f.Body == "":
				case rq.RespBody > 0 && strings.HasPrefix(f.Body, "resp-of-"+rq.Token+":") && f.Body != hhBigBody(rq.Token, rq.RespBody):
					// a large body (several write chunks): it starts as this exchange's body, but not every byte of it is this
					// exchange's - something else was written into the middle of the response
					report("response body is not one exchange's body (own body interrupted by bytes written for another response)", where+fmt.Sprintf("; first foreign byte at body offset %d of %d", c02hFirstDiff(f.Body, hhBigBody(rq.Token, rq.RespBody)), len(f.Body)))
				case strings.HasPrefix(f.Body, "resp-of-"):
					want := "resp-of-" + rq.Token
					if rq.RespBody > 0 {
						want = hhBigBody(rq.Token, rq.RespBody)
					}
					if f.Body != want {
						report("response delivered to a request it was not produced for (body)", where)
					} else if f.rtoken() == "" {
						kind := "response header and body come from different exchanges"
						if obs.Attempts[rq.Token] > 1 {
							kind += " [own body under a header block that is not the upstream's; the request was retried]"
						}
						report(kind, where)
					}
				case strings.HasPrefix(f.Body, "body-of-"):
					if f.Body != "body-of-"+rq.Token {
						report("reply carries another request's body", where)
					}
				default:
					if strings.Contains(f.Body, "-of-") {
						report("response body is not one exchange's body", where)
					}
				}
			}
		}
	}
	// upstream side: every forwarded request carries path, header and body of one exchange
	for ui, u := range obs.Ups {
		if u.Garbage != "" {
			report("undecodable bytes written upstream", fmt.Sprintf("connection %d: %s", ui, u.Garbage))
		}
		for _, f := range u.Requests {
			i := sc.index(f.token())
			if i < 0 {
				report("upstream request with an unknown token", fmt.Sprintf("conn %d: %s", ui, f.String()))
				continue
			}
			rq := sc.Requests[i]
			if f.Path != "/"+rq.Token {
				report("forwarded request line and headers come from different exchanges", fmt.Sprintf("conn %d: %s", ui, f.String()))
			}
			want := ""
			if rq.Body {
				want = "body-of-" + rq.Token
			}
			if f.Body != want {
				report("forwarded request header and body come from different exchanges", fmt.Sprintf("conn %d: %s, want body %q", ui, f.String(), want))
			}
		}
	}
}

func c02hFirstDiff(a, b string) int {
	i := 0
	for i < len(a) && i < len(b) && a[i] == b[i] {
		i++
	}
	return i
}

func c02hRun(p *vreport.Part, sc hhScenario, replay bool, maxExecs int) bool {
	obs := &hhObs{}
	opts := vrt.Options{Bound: sc.Bound, Delay: true, MaxSteps: 300000, MaxExecs: maxExecs, Deadline: time.Now().Add(30 * time.Minute), Trace: os.Getenv("VERIF_DEBUG") == "2" || os.Getenv("VERIF_TRACE_VIOL") != ""}
	if hhDebug() {
		opts.MaxExecs = 1
	}
	if c, err := strconv.Atoi(os.Getenv("VERIF_C02H_CAP")); err == nil {
		opts.MaxExecs = c // experiments only
	}
	if replay {
		opts.Replay = true
		opts.Prefix = sc.Choices
	}
	st := vrt.Explore(opts, func() { hhBody(&sc, obs) }, func(r *vrt.Result) {
		p.Eval()
		cc := sc
		cc.Choices = r.Choices
		outcome := hhOutcome(obs)
		if hhDebug() {
			fmt.Printf("EXEC %s\n  outcome=%s\n  log=%v active=%d\n", r, outcome, obs.Log, obs.Active)
			for ui, u := range obs.Ups {
				fmt.Printf("  up%d wrote: %v\n", ui, hhDumpWrites(u.Conn))
			}
			for di, d := range obs.Downs {
				fmt.Printf("  down%d wrote: %v\n", di, hhDumpWrites(d.Conn))
			}
			for _, l := range r.Trace {
				fmt.Println("   ", l)
			}
		}
		p.Distinct(sc.Name + "|" + outcome + "|" + strings.Join(obs.Log, ","))
		p.Outcome(sc.Name + "|" + outcome)
		if p.WantSample() {
			p.Sample(map[string]interface{}{"scenario": sc.Name, "schedule": r.Choices, "outcome": outcome, "peer": obs.Log})
		}
		c02hCheck(&sc, obs, r, func(kind, detail string) {
			if os.Getenv("VERIF_TRACE_VIOL") != "" && !strings.HasPrefix(kind, "HARNESS") {
				fmt.Printf("VIOL %s: %s\nEXEC %s\n  log=%v\n", kind, detail, r, obs.Log)
				for _, l := range r.Trace {
					fmt.Println("   ", l)
				}
				os.Exit(3)
			}
			if strings.HasPrefix(kind, "HARNESS execution did not complete") {
				// a hang of the proxy (C03's known findings: a request that never completes) is not a
				// correlation verdict; counted, not reported
				p.Count("executions_that_did_not_complete (see C03)", 1)
				return
			}
			p.Violation(kind, "scenario "+sc.Name+": "+detail+fmt.Sprintf(" | log=%v schedule=%v", obs.Log, r.Choices), cc)
		}, func(what string) { p.Count(what, 1) })
	})
	p.AddTraces(st.Executions)
	if os.Getenv("VERIF_STATS") != "" {
		fmt.Printf("scenario %-110s execs=%-7d maxdepth=%d complete=%v\n", sc.Name, st.Executions, st.MaxDepth, st.Complete)
	}
	return st.Complete
}

func TestVerifH1C02Correlation(t *testing.T) {
	c02hMain("http1-proxy-correlation", c02hScenarios(),
		"HTTP/1.1 scenarios (this shard): 2-4 requests with distinct tokens from one or two downstream connections (keep-alive sequential, pipelined) over the ping-pong pool of one or two hosts; upstream replies in order, racing the per-try / global timer, late after the timeout reply, unsolicited second responses, connection closed instead of / in the middle of / after the response, Connection: close, split reads, 5xx retried",
		"the k-th response on a downstream connection answers the k-th request sent on it")
}

// ---------------------------------------------------------------------------
// pipelining and large responses: one exchange at a time per downstream HTTP/1 connection
//
// HTTP/1 has no ids and no frames: the only thing that attributes a byte on a downstream connection to
// a request is its position. MOSN's stream layer writes a response through a 4096-byte bufio.Writer
// (fasthttp Response.WriteTo), i.e. a response larger than that reaches the connection in two Write calls
// (4096 bytes = header block + start of the body, then the rest), and the connection keeps only ONE
// Write call contiguous. What keeps the chunks of response N together, and response N+1 behind it, is
// that the connection's serve goroutine does not parse request N+1 before the proxy is done with
// response N. The scenarios: 2-3 pipelined (or keep-alive) requests on one downstream connection,
// upstream responses with bodies of {default, 4097, 9000} bytes made of the request's own token byte,
// a downstream reader that is slow from its 1st/2nd/3rd write on (hhScenario.DownStallAtWrite: the
// writers blocked on the full socket are released together, in every order within the bound), an
// upstream that answers the first request late.
//
// "Upstream replies reversed" does not exist here: on a downstream HTTP/1 connection request N+1 is not
// even parsed, let alone forwarded, before response N is written (a harness that held reply N until
// request N+1 arrives upstream would wait for ever on a correct MOSN); the late first reply (delay-ok)
// is the closest environment behaviour that terminates on a correct MOSN and lets a MOSN that forwards
// N+1 early deliver response N+1 first.

type c02hDeep struct {
	sc    hhScenario
	bound int
	cap   int
}

func c02hPipeScenarios() []c02hDeep {
	var out []c02hDeep
	b1, cap1 := vreport.Pick(1, 2), vreport.Pick(20000, 60000)
	add := func(tag string, bound, cap int, sc hhScenario) {
		sc.Proto = "Http1"
		if sc.RouteTimeoutMs == 0 {
			sc.RouteTimeoutMs = 1000
		}
		sc.Name = hhScenarioName(&sc) + " (" + tag + ")"
		out = append(out, c02hDeep{sc: sc, bound: bound, cap: cap})
	}
	rq := func(tok string, body bool, n int, script ...string) hhRequest {
		return hhRequest{Token: tok, Body: body, RespBody: n, Script: script}
	}
	const small, mid, big = 0, 4097, 9000
	// the core scenario, one deviation more than the rest (capped)
	add("two large responses, slow reader from the 2nd write on", vreport.Pick(2, 3), vreport.Pick(50000, 200000),
		hhScenario{Hosts: 1, Pipelined: true, DownStallAtWrite: 2, Requests: []hhRequest{rq("t1", true, big, hhOK), rq("t2", false, big, hhOK)}})
	add("two large responses", b1, cap1, hhScenario{Hosts: 1, Pipelined: true, Requests: []hhRequest{rq("t1", true, big, hhOK), rq("t2", false, big, hhOK)}})
	add("4097-byte then small response, slow reader from the 2nd write on", b1, cap1, hhScenario{Hosts: 1, Pipelined: true, DownStallAtWrite: 2, Requests: []hhRequest{rq("t1", false, mid, hhOK), rq("t2", true, small, hhOK)}})
	add("two small responses, slow reader from the 1st write on", b1, cap1, hhScenario{Hosts: 1, Pipelined: true, DownStallAtWrite: 1, Requests: []hhRequest{rq("t1", true, small, hhOK), rq("t2", false, small, hhOK)}})
	add("three responses 9000/4097/small, slow reader from the 2nd write on", b1, cap1, hhScenario{Hosts: 1, Pipelined: true, DownStallAtWrite: 2, Requests: []hhRequest{rq("t1", true, big, hhOK), rq("t2", false, mid, hhOK), rq("t3", true, small, hhOK)}})
	add("three responses 4097/9000/9000, two hosts, slow reader from the 3rd write on", b1, cap1, hhScenario{Hosts: 2, Pipelined: true, DownStallAtWrite: 3, Requests: []hhRequest{rq("t1", false, mid, hhOK), rq("t2", true, big, hhOK), rq("t3", false, big, hhOK)}})
	add("three large responses, slow reader from the 1st write on", b1, cap1, hhScenario{Hosts: 1, Pipelined: true, DownStallAtWrite: 1, Requests: []hhRequest{rq("t1", false, big, hhOK), rq("t2", false, big, hhOK), rq("t3", false, big, hhOK)}})
	add("first reply late, two hosts", b1, cap1, hhScenario{Hosts: 2, Pipelined: true, ReplyDelayMs: 50, Requests: []hhRequest{rq("t1", true, big, hhDelayOK), rq("t2", false, big, hhOK)}})
	add("keep-alive, large responses, slow reader from the 2nd write on", b1, cap1, hhScenario{Hosts: 1, DownStallAtWrite: 2, Requests: []hhRequest{rq("t1", true, big, hhOK), rq("t2", false, mid, hhOK)}})
	add("large 5xx retried, slow reader from the 2nd write on", b1, cap1, hhScenario{Hosts: 2, Pipelined: true, RetryOn: true, NumRetries: 1, DownStallAtWrite: 2, Requests: []hhRequest{rq("t1", true, big, hhErr, hhOK), rq("t2", false, big, hhOK)}})
	if vreport.Thorough() {
		// every size vector over {small, 4097, 9000} for two requests (and the vectors of three that start
		// with a large one), every stall point 0..4
		sizes := []int{small, mid, big}
		for stall := 0; stall <= 4; stall++ {
			for _, a := range sizes {
				for _, b := range sizes {
					add(fmt.Sprintf("sizes %d/%d", a, b), 2, cap1, hhScenario{Hosts: 1, Pipelined: true, DownStallAtWrite: stall, Requests: []hhRequest{rq("t1", true, a, hhOK), rq("t2", false, b, hhOK)}})
					add(fmt.Sprintf("sizes 9000/%d/%d", a, b), 2, cap1, hhScenario{Hosts: 1, Pipelined: true, DownStallAtWrite: stall, Requests: []hhRequest{rq("t1", false, big, hhOK), rq("t2", true, a, hhOK), rq("t3", false, b, hhOK)}})
				}
			}
		}
		add("two clients pipeline large responses over one host", 2, cap1, hhScenario{Hosts: 1, Pipelined: true, DownStallAtWrite: 2, Requests: []hhRequest{rq("t1", true, big, hhOK), {Token: "t2", Conn: 1, RespBody: big, Script: []string{hhOK}}, rq("t3", false, big, hhOK), {Token: "t4", Conn: 1, Body: true, RespBody: mid, Script: []string{hhOK}}}})
	}
	return out
}

func TestVerifH1C02Pipelined(t *testing.T) {
	const part = "http1-pipelined-whole-responses"
	p := vreport.Begin("C02", part, time.Hour)
	var rc hhScenario
	if vreport.Replaying() {
		if vreport.ReplayFor("C02", part, &rc) {
			c02hRun(p, rc, true, 1)
			p.End(true, "replay", "replay of one recorded schedule")
		}
		return
	}
	si, sn := vreport.Shard()
	complete := true
	n, chunked := 0, 0
	for i, d := range c02hPipeScenarios() {
		sc := d.sc
		if only := os.Getenv("VERIF_C02H_ONLY"); only != "" {
			if sc.Name != only || si != 0 {
				continue
			}
		} else if i%sn != si {
			continue
		}
		sc.Bound = d.bound
		if b, err := strconv.Atoi(os.Getenv("VERIF_C02H_BOUND")); err == nil {
			sc.Bound = b // experiments only
		}
		if dt := hhDeterminism(sc); dt != "" {
			vreport.HarnessError("C02", part, "nondeterministic scenario "+sc.Name+": "+dt)
			complete = false
			continue
		}
		// vacuity guard: on the default schedule every response with a body of more than 4096 bytes must have
		// reached the downstream connection in more than one Write call (otherwise the scenario does not
		// exercise what it is there for)
		{
			obs := &hhObs{}
			vrt.Explore(vrt.Options{Replay: true, Delay: true, MaxSteps: 300000}, func() { hhBody(&sc, obs) }, func(r *vrt.Result) {
				for _, dn := range obs.Downs {
					if len(dn.Conn.Writes) > len(dn.Responses) {
						chunked++
						return
					}
				}
			})
		}
		if !c02hRun(p, sc, false, d.cap) {
			complete = false
			p.Count("scenarios_cut_by_execution_cap", 1)
		}
		n++
	}
	p.Note("scenarios", n)
	p.Note("scenarios_with_a_response_written_in_several_write_calls", chunked)
	p.End(complete, fmt.Sprintf("%d HTTP/1.1 scenarios (this shard): 2-3 (thorough: up to 4) requests pipelined (one read) or keep-alive on one downstream connection (thorough: also two connections), scripted upstream responses with bodies of {default, 4097, 9000} bytes (written downstream in one or two Write calls: 4096-byte bufio.Writer), a downstream reader slow from its 1st/2nd/3rd (thorough 0..4th) Write call on, a late first upstream reply, a large 5xx retried; all schedules with <=%d deviations (the core scenario - two 9000-byte responses, slow reader from the 2nd write on - <=%d, first %d executions)", n, vreport.Pick(1, 2), vreport.Pick(2, 3), vreport.Pick(50000, 200000)),
		"the bytes written on a downstream connection must parse as a sequence of complete HTTP/1 responses; the k-th of them must carry status, header token, serial and body of the exchange of the k-th request sent on the connection, and every byte of a large body must be that exchange's (prefix resp-of-<token>: then the token's last byte repeated): no byte written for another response inside it, no response overtaking an earlier one; one evaluation = one complete execution; distinct = distinct (scenario, downstream responses, upstream attempts, peer actions)")
}

// c02h2Scenarios: HTTP/2 downstream and upstream (pkg/stream/http2 + pkg/module/http2, multiplexed
// upstream connection; rewrite set "hphttp2").
func c02h2Scenarios() []hhScenario {
	var out []hhScenario
	add := func(tag string, sc hhScenario) {
		sc.Proto = "Http2"
		if sc.RouteTimeoutMs == 0 {
			sc.RouteTimeoutMs = 1000
		}
		sc.Name = hhScenarioName(&sc) + " (" + tag + ")"
		out = append(out, sc)
	}
	rq := func(tok string, body bool, script ...string) hhRequest {
		return hhRequest{Token: tok, Body: body, Script: script}
	}
	on := func(conn int, r hhRequest) hhRequest { r.Conn = conn; return r }
	for _, body := range []bool{false, true} {
		add("concurrent streams, in order", hhScenario{Hosts: 1, Pipelined: true, Requests: []hhRequest{rq("t1", body, hhOK), rq("t2", body, hhOK)}})
		add("concurrent streams, replies reversed", hhScenario{Hosts: 1, Pipelined: true, Reverse: true, Requests: []hhRequest{rq("t1", body, hhOK), rq("t2", body, hhOK)}})
		add("two reads, replies reversed", hhScenario{Hosts: 1, Concurrent: true, Reverse: true, Requests: []hhRequest{rq("t1", body, hhOK), rq("t2", body, hhOK)}})
	}
	add("three concurrent streams, replies reversed", hhScenario{Hosts: 1, Pipelined: true, Reverse: true, Requests: []hhRequest{rq("t1", true, hhOK), rq("t2", false, hhOKNoBody), rq("t3", true, hhOK)}})
	add("two clients share the upstream connection, replies reversed", hhScenario{Hosts: 1, Reverse: true, Requests: []hhRequest{rq("t1", true, hhOK), on(1, rq("t2", true, hhOK))}})
	add("sequential streams", hhScenario{Hosts: 1, Requests: []hhRequest{rq("t1", true, hhOK), rq("t2", false, hhOK)}})
	// late replies
	add("reply races the per-try timeout, next stream follows", hhScenario{Hosts: 1, TryTimeoutMs: 100, Requests: []hhRequest{rq("t1", true, hhOKAtTry), rq("t2", true, hhOK)}})
	add("late reply after the timeout reply, next stream follows", hhScenario{Hosts: 1, TryTimeoutMs: 100, Requests: []hhRequest{rq("t1", true, hhLateOK), rq("t2", true, hhOK)}})
	add("late reply after the global timeout reply, next stream follows", hhScenario{Hosts: 1, Requests: []hhRequest{rq("t1", false, hhLateOK), rq("t2", false, hhOK)}})
	add("reply races the per-try timeout, retried", hhScenario{Hosts: 1, TryTimeoutMs: 100, RetryOn: true, NumRetries: 1, Requests: []hhRequest{rq("t1", true, hhOKAtTry, hhOK), rq("t2", false, hhOK)}})
	add("reply races the per-try timeout next to a concurrent stream", hhScenario{Hosts: 1, TryTimeoutMs: 100, Pipelined: true, Requests: []hhRequest{rq("t1", true, hhOKAtTry), rq("t2", true, hhOK)}})
	// duplicate / unknown-stream replies
	add("second response on a finished stream", hhScenario{Hosts: 1, Pipelined: true, Requests: []hhRequest{rq("t1", true, hhOKPlusExtra), rq("t2", true, hhOK)}})
	add("second response on a finished stream, in a later read", hhScenario{Hosts: 1, Requests: []hhRequest{rq("t1", true, hhOKThenExtra), rq("t2", true, hhOK)}})
	add("response on a stream nobody opened", hhScenario{Hosts: 1, Pipelined: true, Requests: []hhRequest{rq("t1", true, hhUnknownOK), rq("t2", true, hhOK)}})
	// resets
	add("upstream resets one stream", hhScenario{Hosts: 1, Pipelined: true, Requests: []hhRequest{rq("t1", true, hhRst), rq("t2", true, hhOK)}})
	add("upstream closes the connection between", hhScenario{Hosts: 1, Pipelined: true, Requests: []hhRequest{rq("t1", true, hhClose), rq("t2", true, hhOK)}})
	add("upstream closes the connection, next stream follows", hhScenario{Hosts: 1, Requests: []hhRequest{rq("t1", true, hhClose), rq("t2", true, hhOK)}})
	add("upstream closes mid-response next to a concurrent stream", hhScenario{Hosts: 1, Pipelined: true, Requests: []hhRequest{rq("t1", true, hhCloseMid), rq("t2", true, hhOK)}})
	// retries, split
	add("5xx retried next to a plain stream", hhScenario{Hosts: 2, RetryOn: true, NumRetries: 1, Pipelined: true, Requests: []hhRequest{rq("t1", true, hhErr, hhOK), rq("t2", true, hhOK)}})
	add("5xx retried on the same host", hhScenario{Hosts: 1, RetryOn: true, NumRetries: 1, Requests: []hhRequest{rq("t1", true, hhErr, hhOK), rq("t2", false, hhOK)}})
	add("response split across reads next to a plain stream", hhScenario{Hosts: 1, Pipelined: true, Reverse: true, Requests: []hhRequest{rq("t1", true, hhOKSplit), rq("t2", true, hhOK)}})
	return out
}

func TestVerifH2C02Correlation(t *testing.T) {
	c02hMain("http2-proxy-correlation", c02h2Scenarios(),
		"HTTP/2 scenarios (this shard): 2-3 requests with distinct tokens as concurrent or sequential streams of one or two downstream connections over the multiplexed upstream connection of one or two hosts; upstream replies in order, reversed, racing the per-try timer, late after the timeout reply, a second response on a finished stream, a response on a stream nobody opened, RST_STREAM, connection closed instead of / in the middle of a response, split reads, 5xx retried",
		"a response answers the request whose stream id it carries")
}

// c02hMain is the body of the HTTP correlation tests.
func c02hMain(part string, scenarios []hhScenario, what, how string) {
	p := vreport.Begin("C02", part, time.Hour)
	var rc hhScenario
	if vreport.Replaying() {
		if vreport.ReplayFor("C02", part, &rc) {
			c02hRun(p, rc, true, 1)
			p.End(true, "replay", "replay of one recorded schedule")
		}
		return
	}
	si, sn := vreport.Shard()
	complete := true
	n := 0
	bound := vreport.Pick(1, 2)
	maxExecs := vreport.Pick(20000, 80000)
	for i, sc := range scenarios {
		if only := os.Getenv("VERIF_C02H_ONLY"); only != "" {
			if sc.Name != only || si != 0 {
				continue
			}
		} else if i%sn != si {
			continue
		}
		sc.Bound = bound
		if b, err := strconv.Atoi(os.Getenv("VERIF_C02H_BOUND")); err == nil {
			sc.Bound = b // experiments only
		}
		if d := hhDeterminism(sc); d != "" {
			vreport.HarnessError("C02", part, "nondeterministic scenario "+sc.Name+": "+d)
			complete = false
			continue
		}
		if !c02hRun(p, sc, false, maxExecs) {
			complete = false
			p.Count("scenarios_cut_by_execution_cap", 1)
		}
		n++
	}
	p.Note("scenarios", n)
	p.End(complete, fmt.Sprintf("%d %s; all schedules with <=%d deviations (delay bounding), execution cap %d per scenario", n, what, bound, maxExecs),
		"every request carries a unique token in path, header and body; every scripted upstream response carries the token of the request it answers in a header, in the body and in the status code, plus a serial number unique per injected response; "+how+": its status, headers and body must all belong to that exchange, an upstream response is delivered at most once, no response without a request; forwarded requests are checked the same way; one evaluation = one complete execution; distinct = distinct (scenario, downstream responses with tokens, upstream attempts, peer actions)")
}
