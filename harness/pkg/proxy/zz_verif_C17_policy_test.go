//go:build verif

package proxy

// C17 (proxy seam): the effective timeout follows the documented precedence;
// a request is retried only under the configured conditions, on a freshly
// chosen host, never after a response has started, with at most 1 + budget
// attempts; route-level header mutations and direct responses are applied.

import (
	"fmt"
	"os"
	"strings"
	"testing"
	"time"

	"mosn.io/mosn/pkg/protocol/xprotocol/bolt"
	"mosn.io/mosn/pkg/verifrt/vreport"
	"mosn.io/mosn/pkg/verifrt/vrt"
)

type c17Case struct {
	Kind string     `json:"kind"` // timeout | retry | headers | direct
	Sc   hpScenario `json:"scenario"`
	// expectations computed by the reference model (kept in the case for the replay)
	WantTimeoutMs int64  `json:"want_timeout_ms,omitempty"`
	WantAttempts  int    `json:"want_attempts,omitempty"`
	WantStatus    int    `json:"want_status,omitempty"`
	Note          string `json:"note,omitempty"`
}

// ---------- timeouts ----------

func c17TimeoutCases() []c17Case {
	var out []c17Case
	for _, codec := range []int{0, 300} { // bolt timeout field (ms); 0 = absent
		for _, hdrG := range []int{0, 400} { // x-mosn-global-timeout header
			for _, hdrT := range []int{0, 50, 2000} { // x-mosn-try-timeout header
				for _, route := range []int{0, 1000} {
					for _, try := range []int{0, 100, 5000} { // route retry_policy.retry_timeout
						sc := hpScenario{Hosts: 1, RouteTimeoutMs: route, TryTimeoutMs: try,
							Requests: []hpRequest{{Token: "t1", TimeoutMs: codec, Script: []string{upSilent}, Headers: map[string]string{}}}}
						if hdrG > 0 {
							sc.Requests[0].Headers["x-mosn-global-timeout"] = fmt.Sprint(hdrG)
						}
						if hdrT > 0 {
							sc.Requests[0].Headers["x-mosn-try-timeout"] = fmt.Sprint(hdrT)
						}
						// reference: protocol-supplied, else request headers, else route, else default (60 s)
						global := int64(60000)
						switch {
						case codec > 0:
							global = int64(codec)
						case hdrG > 0:
							global = int64(hdrG)
						case route > 0:
							global = int64(route)
						}
						tryT := int64(try)
						if hdrT > 0 {
							tryT = int64(hdrT)
						}
						if tryT >= global {
							tryT = 0 // a per-try timeout not shorter than the global one is ignored
						}
						// silent upstream, no retry_on: the per-try timeout (if any) ends the request first
						want := global
						if tryT > 0 {
							want = tryT
						}
						sc.Name = fmt.Sprintf("timeout codec=%d hdr-global=%d hdr-try=%d route=%d route-try=%d", codec, hdrG, hdrT, route, try)
						out = append(out, c17Case{Kind: "timeout", Sc: sc, WantTimeoutMs: want})
					}
				}
			}
		}
	}
	return out
}

// ---------- retries ----------

// outcome alphabet of one attempt
var c17Outcomes = []string{upReply200, upReplyBusy, upReply5xx, upClose, upSilent}

func c17RetryCases() []c17Case {
	var out []c17Case
	numRetries := []int{0, 1, 2, 4}
	if !vreport.Thorough() {
		numRetries = []int{0, 4}
	}
	for _, retryOn := range []bool{false, true} {
		for _, nr := range numRetries {
			for _, codes := range [][]uint32{nil, {503}} {
				budget := 3
				if nr > budget {
					budget = nr
				}
				maxLen := budget + 2
				if !vreport.Thorough() && maxLen > 5 {
					maxLen = 5
				}
				alphabet := c17Outcomes
				if !vreport.Thorough() {
					alphabet = []string{upReply200, upReplyBusy, upClose, upSilent}
				}
				var seqs [][]string
				var gen func(cur []string)
				gen = func(cur []string) {
					// a sequence ends at the first outcome that is final under ANY policy (2xx) or at maxLen
					if len(cur) > 0 && (cur[len(cur)-1] == upReply200 || len(cur) == maxLen) {
						seqs = append(seqs, append([]string(nil), cur...))
						return
					}
					for _, o := range alphabet {
						gen(append(cur, o))
					}
				}
				gen(nil)
				for _, seq := range seqs {
					sc := hpScenario{Hosts: 2, RouteTimeoutMs: 60000, TryTimeoutMs: 100, RetryOn: retryOn, NumRetries: nr, RetryCodes: codes,
						Requests: []hpRequest{{Token: "t1", Script: seq}}}
					// reference
					retryable := func(o string) bool {
						switch o {
						case upReply200:
							return false
						case upReplyBusy: // maps to 503
							if !retryOn {
								return false
							}
							if len(codes) > 0 {
								return true // 503 is listed
							}
							return true // >= 500
						case upReply5xx: // maps to 500
							if !retryOn {
								return false
							}
							if len(codes) > 0 {
								return false // only 503 is listed
							}
							return true
						case upClose, upSilent: // connection termination / per-try timeout
							return retryOn
						}
						return false
					}
					attempts := 0
					final := ""
					for i := 0; ; i++ {
						o := seq[len(seq)-1]
						if i < len(seq) {
							o = seq[i]
						}
						attempts++
						final = o
						if !retryable(o) || attempts > budget {
							break
						}
					}
					want := map[string]int{upReply200: int(bolt.ResponseStatusSuccess), upReplyBusy: int(bolt.ResponseStatusServerThreadpoolBusy),
						upReply5xx: int(bolt.ResponseStatusServerException), upClose: int(bolt.ResponseStatusUnknown), upSilent: int(bolt.ResponseStatusTimeout)}[final]
					if attempts > len(seq) && seq[len(seq)-1] != final {
						continue
					}
					sc.Name = fmt.Sprintf("retry retry_on=%v num_retries=%d codes=%v outcomes=%s", retryOn, nr, codes, strings.Join(seq, ","))
					out = append(out, c17Case{Kind: "retry", Sc: sc, WantAttempts: attempts, WantStatus: want})
				}
			}
		}
	}
	// the global timeout covers the whole request, retries included: every attempt silent, per-try 100 ms,
	// retry back-off 10 ms -> attempts at 0, 110, 220 ms; the global timeout answers at 250 ms
	for _, g := range []int{250, 150, 330, 105, 215} { // 105, 215: the deadline falls inside a retry back-off
		sc := hpScenario{Hosts: 2, RouteTimeoutMs: g, TryTimeoutMs: 100, RetryOn: true, NumRetries: 4,
			Requests: []hpRequest{{Token: "t1", Script: []string{upSilent}}}}
		sc.Name = fmt.Sprintf("retry global-timeout-spans-retries global=%d try=100", g)
		out = append(out, c17Case{Kind: "timeout-spans", Sc: sc, WantTimeoutMs: int64(g), WantAttempts: 1 + g/110})
	}
	// a request refused by the circuit breaker (pool overflow) is not one of the configured retry
	// conditions: it is answered at once and never reaches an upstream, whatever the retry policy says.
	// t1 holds the only request slot for 5 ms (virtual), t2 arrives meanwhile.
	for _, nr := range []int{1, 3} {
		sc := hpScenario{Hosts: 1, MaxRequests: 1, RouteTimeoutMs: 60000, RetryOn: true, NumRetries: nr, ReplyDelayMs: 5,
			Requests: []hpRequest{{Token: "t1", Script: []string{upDelayOK}}, {Token: "t2", Script: []string{upReply200}}}}
		sc.Name = fmt.Sprintf("retry overflow-is-not-retried num_retries=%d", nr)
		out = append(out, c17Case{Kind: "overflow", Sc: sc})
	}
	// two outcomes on one attempt: the global timeout fires, one virtual millisecond later the upstream
	// closes the connection. The first one decides: the request ends with the timeout answer and no
	// further attempt is made, whatever the order in which the two events are handled (explored with 1 deviation).
	for _, retryOn := range []bool{false, true} {
		sc := hpScenario{Hosts: 2, RouteTimeoutMs: 100, RetryOn: retryOn, NumRetries: 2, ReplyDelayMs: 101,
			Requests: []hpRequest{{Token: "t1", Script: []string{upDelayClose, upReply200}}}}
		sc.Name = fmt.Sprintf("retry global-timeout-then-late-connection-close retry_on=%v", retryOn)
		out = append(out, c17Case{Kind: "timeout-then-close", Sc: sc, WantTimeoutMs: 100, WantAttempts: 1})
	}
	// per-try timeout fires, one millisecond later the connection closes: one retry for the timeout (if configured), not two
	for _, retryOn := range []bool{false, true} {
		sc := hpScenario{Hosts: 2, RouteTimeoutMs: 60000, TryTimeoutMs: 100, RetryOn: retryOn, NumRetries: 1, ReplyDelayMs: 101,
			Requests: []hpRequest{{Token: "t1", Script: []string{upDelayClose, upReply200}}}}
		sc.Name = fmt.Sprintf("retry per-try-timeout-then-late-connection-close retry_on=%v", retryOn)
		want := 1
		if retryOn {
			want = 2
		}
		out = append(out, c17Case{Kind: "timeout-then-close", Sc: sc, WantAttempts: want})
	}
	// freshly chosen host: the first attempt's host is ejected before the retry is decided
	for _, o := range []string{upReplyBusy, upClose, upSilent} {
		sc := hpScenario{Hosts: 2, RouteTimeoutMs: 60000, TryTimeoutMs: 100, RetryOn: true, NumRetries: 1, EjectFirstHost: true,
			Requests: []hpRequest{{Token: "t1", Script: []string{o, upReply200}}}}
		sc.Name = "retry fresh-host first=" + o
		out = append(out, c17Case{Kind: "retry", Sc: sc, WantAttempts: 2, WantStatus: int(bolt.ResponseStatusSuccess)})
	}
	return out
}

// ---------- route-level header mutations and direct responses (end to end) ----------

func c17ActionCases() []c17Case {
	var out []c17Case
	hv := func(k, v string, app bool) map[string]interface{} {
		return map[string]interface{}{"header": map[string]interface{}{"key": k, "value": v}, "append": app}
	}
	for _, has := range []bool{false, true} {
		for _, mode := range []string{"none", "add-append", "add-overwrite", "remove"} {
			for _, side := range []string{"request", "response"} {
				extra := map[string]interface{}{}
				switch mode {
				case "add-append":
					extra[side+"_headers_to_add"] = []interface{}{hv("k1", "new", true)}
				case "add-overwrite":
					extra[side+"_headers_to_add"] = []interface{}{hv("k1", "new", false)}
				case "remove":
					extra[side+"_headers_to_remove"] = []interface{}{"k1"}
				}
				sc := hpScenario{Hosts: 1, RouteTimeoutMs: 1000, RouteExtra: extra, Requests: []hpRequest{{Token: "t1", Body: true, Script: []string{upReply200}, Headers: map[string]string{}}}}
				if has {
					if side == "request" {
						sc.Requests[0].Headers["k1"] = "old"
					} else {
						sc.Requests[0].Script = []string{"reply-ok+k1"}
					}
				}
				sc.Name = fmt.Sprintf("headers side=%s mode=%s present=%v", side, mode, has)
				out = append(out, c17Case{Kind: "headers", Sc: sc, Note: side + "|" + mode + "|" + fmt.Sprint(has)})
			}
		}
	}
	// the request-side actions are applied once per request, not once per attempt: every retried
	// attempt carries the same finalised request as the first one
	for _, has := range []bool{false, true} {
		for _, mode := range []string{"add-append", "add-overwrite", "remove"} {
			for _, first := range []string{upReplyBusy, upClose, upSilent} {
				extra := map[string]interface{}{}
				switch mode {
				case "add-append":
					extra["request_headers_to_add"] = []interface{}{hv("k1", "new", true)}
				case "add-overwrite":
					extra["request_headers_to_add"] = []interface{}{hv("k1", "new", false)}
				case "remove":
					extra["request_headers_to_remove"] = []interface{}{"k1"}
				}
				sc := hpScenario{Hosts: 2, RouteTimeoutMs: 60000, TryTimeoutMs: 100, RetryOn: true, NumRetries: 2, RouteExtra: extra,
					Requests: []hpRequest{{Token: "t1", Body: true, Script: []string{first, first, upReply200}, Headers: map[string]string{}}}}
				if has {
					sc.Requests[0].Headers["k1"] = "old"
				}
				sc.Name = fmt.Sprintf("headers side=request mode=%s present=%v retried-after=%s", mode, has, first)
				out = append(out, c17Case{Kind: "headers", Sc: sc, WantAttempts: 3, Note: "request|" + mode + "|" + fmt.Sprint(has)})
			}
		}
	}
	for _, st := range []int{200, 503} {
		for _, body := range []string{"", "x"} {
			sc := hpScenario{Hosts: 1, RouteTimeoutMs: 1000, DirectStatus: st, DirectBody: body, Requests: []hpRequest{{Token: "t1", Body: true, Script: []string{upReply200}}}}
			sc.Name = fmt.Sprintf("direct-response status=%d body=%q", st, body)
			out = append(out, c17Case{Kind: "direct", Sc: sc, WantStatus: st})
		}
	}
	return out
}

func c17Eval(p *vreport.Part, c c17Case, bound int) {
	obs := &hpObs{}
	sc := c.Sc
	opts := vrt.Options{Bound: bound, Delay: true, MaxSteps: 400000, MaxExecs: 2000}
	if c.Kind == "timeout-then-close" {
		opts.MaxExecs = vreport.Pick(30000, 400000)
	}
	if len(c.Sc.Choices) > 0 || vreport.Replaying() {
		opts.Replay = true
		opts.Prefix = c.Sc.Choices
	}
	vrt.Explore(opts, func() {
		*obs = hpObs{}
		hpBody(&sc, obs)
	}, func(r *vrt.Result) {
		p.Eval()
		cc := c
		cc.Sc.Choices = r.Choices
		report := func(kind, detail string) {
			p.Violation(kind, "case "+sc.Name+": "+detail+fmt.Sprintf(" | log=%v schedule=%v", obs.Log, r.Choices), cc)
		}
		if r.Diverged != "" || r.StepLimit || r.Deadlock || len(r.Panics) > 0 {
			report("HARNESS execution did not complete normally", r.String()+strings.Join(r.Panics, "\n")+r.StepLimitStack)
			return
		}
		var resp []hpFrame
		for _, f := range obs.DownFrames {
			if f.ID == 100 {
				resp = append(resp, f)
			}
		}
		var hosts []int
		var upFrames []hpFrame
		type att struct {
			seq  uint64
			host int
			f    hpFrame
		}
		var atts []att
		for _, u := range obs.Ups {
			for _, f := range u.Requests {
				atts = append(atts, att{f.Seq, u.Host, f})
			}
		}
		for i := 0; i < len(atts); i++ {
			for j := i + 1; j < len(atts); j++ {
				if atts[j].seq < atts[i].seq {
					atts[i], atts[j] = atts[j], atts[i]
				}
			}
		}
		for _, a := range atts {
			hosts = append(hosts, a.host)
			upFrames = append(upFrames, a.f)
		}
		p.Distinct(sc.Name + fmt.Sprint(hosts, len(resp)))
		st := -1
		if len(resp) == 1 {
			st = int(resp[0].Status)
		}
		p.Outcome(fmt.Sprintf("%s|attempts=%d|status=%d", c.Kind, len(atts), st))
		if p.WantSample() {
			p.Sample(map[string]interface{}{"case": sc.Name, "attempt_hosts": hosts, "response_status": st, "schedule": r.Choices})
		}
		if len(resp) != 1 {
			// a request that did not end with exactly one reply under a scheduling DEVIATION is C03's subject (the
			// recorded arbitration findings all need >= 1 deviation); on the default schedule every case of this
			// grid ends with one reply on the unchanged tree, and none means that the configured timeout / retry
			// policy was not applied (seeded change C17-r6: the attempt after a per-try-timeout retry is never
			// answered and no timeout completes it)
			if r.Cost == 0 {
				report(c.Kind+": the request did not end with exactly one reply on the default schedule (neither the upstream's answer nor the configured timeout completed it)", fmt.Sprintf("%d replies, %d upstream attempts on hosts %v", len(resp), len(atts), hosts))
			}
			p.Count("executions_skipped_not_exactly_one_response", 1)
			return
		}
		switch c.Kind {
		case "timeout":
			if resp[0].Status != bolt.ResponseStatusTimeout {
				report("timeout: silent upstream was not completed by a timeout reply", fmt.Sprintf("status %d", resp[0].Status))
			} else if len(atts) == 0 {
				p.Count("timeout_cases_without_upstream_frame", 1)
			} else if d := resp[0].AtMs - atts[0].f.AtMs; d != c.WantTimeoutMs {
				// the timers are armed at the virtual instant the request is written upstream
				_ = d
				report("timeout: effective timeout differs from the documented precedence (protocol-supplied, else request headers, else route, else default)",
					fmt.Sprintf("timeout reply %d ms after the request went upstream, expected %d ms", resp[0].AtMs-atts[0].f.AtMs, c.WantTimeoutMs))
			}
		case "timeout-spans":
			if resp[0].Status != bolt.ResponseStatusTimeout {
				report("timeout: silent upstream was not completed by a timeout reply", fmt.Sprintf("status %d", resp[0].Status))
			} else if len(atts) > 0 {
				// a deadline that falls inside the 10 ms retry back-off is acted on when the back-off sleep
				// ends: up to one back-off late is the proxy's timer granularity, not another timeout
				if d := resp[0].AtMs - atts[0].f.AtMs; d < c.WantTimeoutMs || d > c.WantTimeoutMs+10 {
					report("timeout: the global timeout does not cover the whole request including its retries", fmt.Sprintf("reply %d ms after the first attempt, configured %d ms; %d attempts", d, c.WantTimeoutMs, len(atts)))
				}
				if len(atts) != c.WantAttempts {
					report("timeout: number of attempts within the global timeout differs", fmt.Sprintf("%d attempts, expected %d", len(atts), c.WantAttempts))
				}
			}
		case "retry":
			budget := 3
			if sc.NumRetries > budget {
				budget = sc.NumRetries
			}
			if len(atts) > 1+budget {
				report("retry: more upstream attempts than one plus the retry budget", fmt.Sprintf("%d attempts, budget %d", len(atts), budget))
			}
			if r.Cost == 0 {
				// exact comparison on the default schedule only (a timer that fires early changes the outcome sequence)
				if len(atts) != c.WantAttempts {
					kind := "retry: request not retried although the configured condition holds"
					if len(atts) > c.WantAttempts {
						kind = "retry: request retried although no configured condition holds"
					}
					report(kind, fmt.Sprintf("%d attempts, expected %d; final status %d (expected %d)", len(atts), c.WantAttempts, st, c.WantStatus))
				} else if st != c.WantStatus {
					report("retry: final response is not the outcome of the last attempt", fmt.Sprintf("status %d, expected %d", st, c.WantStatus))
				}
			}
			if sc.EjectFirstHost && len(hosts) > 1 && hosts[1] == hosts[0] {
				report("retry: the retried attempt was not sent to a freshly chosen host (the first host had been marked unhealthy before the retry)", fmt.Sprintf("attempt hosts %v", hosts))
			}
			for _, a := range atts {
				if a.seq > resp[0].Seq {
					report("retry: upstream attempt after the response went downstream", fmt.Sprintf("attempt seq %d, response seq %d", a.seq, resp[0].Seq))
				}
			}
		case "headers":
			parts := strings.Split(c.Note, "|")
			side, mode, has := parts[0], parts[1], parts[2] == "true"
			var got string
			var present bool
			if side == "request" {
				wantN := 1
				if c.WantAttempts > 0 {
					wantN = c.WantAttempts
				}
				if len(upFrames) != wantN && (wantN == 1 || r.Cost == 0) {
					report("headers: request not forwarded the expected number of times", fmt.Sprintf("%d attempts, expected %d", len(upFrames), wantN))
					return
				}
				if len(upFrames) == 0 {
					return
				}
				for i, f := range upFrames[1:] {
					if fmt.Sprint(f.Headers) != fmt.Sprint(upFrames[0].Headers) || f.BodyToken != upFrames[0].BodyToken {
						report("headers: a retried attempt does not carry the same finalised request as the first attempt", fmt.Sprintf("attempt 1: %v %q, attempt %d: %v %q", upFrames[0].Headers, upFrames[0].BodyToken, i+2, f.Headers, f.BodyToken))
						return
					}
				}
				got, present = upFrames[0].Headers["k1"]
			} else {
				got, present = resp[0].Headers["k1"]
			}
			wantPresent, want := has, "old"
			switch mode {
			case "add-append":
				wantPresent = true
				if has {
					want = "old,new"
				} else {
					want = "new"
				}
			case "add-overwrite":
				wantPresent, want = true, "new"
			case "remove":
				wantPresent = false
			}
			if present != wantPresent || (present && got != want) {
				report(fmt.Sprintf("headers: route-level %s header %s not applied as configured", side, mode), fmt.Sprintf("present=%v value=%q, expected present=%v value=%q", present, got, wantPresent, want))
			}
		case "timeout-then-close":
			// the two events are 1 ms of virtual time apart; judged in the executions where the first attempt
			// was written before any virtual time passed (a worker stalled for a whole try timeout before it
			// even sends is the timer-vs-send arbitration recorded under C03, not this case's subject)
			if len(atts) == 0 || atts[0].f.AtMs != 0 {
				p.Count("executions_skipped_first_attempt_delayed_by_the_schedule", 1)
				return
			}
			// exact attempt count: default schedule only (under deviations the count also varies with the
			// timer-vs-send arbitration recorded under C03); the time-based statements below hold on every schedule
			if r.Cost == 0 && len(atts) != c.WantAttempts {
				kind := "retry: an attempt that already ended (timeout) was ended a second time by a later connection event and the request retried again"
				if len(atts) < c.WantAttempts {
					kind = "retry: request not retried although the configured condition holds"
				}
				report(kind, fmt.Sprintf("%d attempts, expected %d; final status %d", len(atts), c.WantAttempts, st))
			}
			if c.WantTimeoutMs > 0 && len(atts) > 0 {
				for i, a := range atts {
					if a.f.AtMs-atts[0].f.AtMs > c.WantTimeoutMs {
						report("retry: an upstream attempt was started after the global timeout had elapsed", fmt.Sprintf("attempt %d at +%d ms, global timeout %d ms", i+1, a.f.AtMs-atts[0].f.AtMs, c.WantTimeoutMs))
					}
				}
				if st == int(bolt.ResponseStatusSuccess) {
					report("timeout: the request was answered with a later attempt's reply although the global timeout had elapsed", fmt.Sprintf("status %d", st))
				}
			}
		case "overflow":
			if r.Cost != 0 {
				return // the default schedule puts t2 behind t1's admission; other orders are C10's subject
			}
			var second []hpFrame
			for _, f := range obs.DownFrames {
				if f.ID == 101 {
					second = append(second, f)
				}
			}
			if obs.Attempts["t2"] != 0 {
				report("retry: a request refused by the circuit breaker (overflow) was retried / sent upstream", fmt.Sprintf("%d upstream frames for t2, downstream %v", obs.Attempts["t2"], second))
			} else if len(second) == 1 && second[0].Status == uint16(bolt.ResponseStatusSuccess) {
				report("retry: a request refused by the circuit breaker (overflow) was answered as success", fmt.Sprint(second))
			}
		case "direct":
			if len(atts) != 0 {
				report("direct response route still forwarded the request upstream", fmt.Sprintf("%d attempts", len(atts)))
			}
			wantSt := int(bolt.ResponseStatusSuccess)
			if c.WantStatus != 200 {
				wantSt = int(bolt.ResponseStatusUnknown) // 503 is not in bolt's mapping table: "unknown"; compared only for not-success
				if st == int(bolt.ResponseStatusSuccess) {
					report("direct response: configured error status answered as success", fmt.Sprintf("status %d", st))
				}
			} else if st != wantSt {
				report("direct response: configured status 200 not answered as success", fmt.Sprintf("status %d", st))
			}
		}
	})
}

func TestVerifC17Policy(t *testing.T) {
	const part = "timeouts-retries-actions"
	p := vreport.Begin("C17", part, time.Hour)
	if vreport.Replaying() {
		var rc c17Case
		if vreport.ReplayFor("C17", part, &rc) {
			c17Eval(p, rc, 0)
			p.End(true, "replay", "replay of one recorded case")
		}
		return
	}
	var cases []c17Case
	cases = append(cases, c17TimeoutCases()...)
	cases = append(cases, c17ActionCases()...)
	cases = append(cases, c17RetryCases()...)
	si, sn := vreport.Shard()
	n := 0
	kinds := map[string]int{}
	for i, c := range cases {
		if only := os.Getenv("VERIF_C17_ONLY"); only != "" {
			if c.Sc.Name != only || si != 0 {
				continue
			}
		} else if i%sn != si {
			continue
		}
		bound := 0
		if vreport.Thorough() && c.Kind == "retry" {
			bound = 1
		}
		if c.Kind == "timeout-then-close" {
			bound = vreport.Pick(1, 2) // the order in which the two outcomes are handled is a scheduling matter
		}
		c17Eval(p, c, bound)
		kinds[c.Kind]++
		n++
	}
	p.Note("cases_by_kind", kinds)
	p.End(true, fmt.Sprintf("%d cases (this shard): timeout sources {codec, request headers, route, default} x per-try timeout; retry_on x num_retries x status_codes x every outcome sequence up to budget+2 over {2xx, 503, 500, connection termination, per-try timeout}; route-level header add(append/overwrite)/remove on request and response; direct responses; default schedule (thorough: retry cases also with 1 deviation)", n),
		"each case runs the real proxy stack once on the deterministic default schedule of the controlled scheduler (virtual clock: the time of the timeout reply is the effective timeout); reference models written from the statement; distinct = distinct (case, hosts per attempt, number of responses)")
}
