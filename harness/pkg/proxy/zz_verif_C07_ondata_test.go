//go:build verif

package proxy

// C07 through the real proxy read filter: proxy.OnData(buf) with one persistent
// read buffer filled like network.connection.doRead (GetIoBuffer + ReadOnce per
// read). This includes protocol auto-detection (stream.SelectStreamFactoryProtocol
// with the listener's protocol scope) and, below it, the real server stream
// connection created by stream.CreateServerStreamConnection with the proxy
// itself as ServerStreamConnectionEventListener.
//
// The proxy is built by hand with exactly the fields OnData / NewStreamDetect /
// downStream.OnReceive touch; its per-proxy worker pool is a recorder that never
// runs the scheduled task, so nothing is routed or sent upstream: the
// observation is the list of active streams (one per request handed up, with the
// headers and data the proxy received), the heartbeat acknowledgements written
// to the connection, whether the connection was closed, and the unconsumed rest
// of the read buffer after every read.

import (
	"container/list"
	"encoding/hex"
	"fmt"
	"net"
	"reflect"
	"sort"
	"strings"
	"testing"
	"time"

	metrics "github.com/rcrowley/go-metrics"
	"mosn.io/api"
	v2 "mosn.io/mosn/pkg/config/v2"
	"mosn.io/mosn/pkg/network"
	"mosn.io/mosn/pkg/protocol"
	"mosn.io/mosn/pkg/protocol/xprotocol"
	"mosn.io/mosn/pkg/protocol/xprotocol/bolt"
	"mosn.io/mosn/pkg/protocol/xprotocol/boltv2"
	"mosn.io/mosn/pkg/protocol/xprotocol/dubbo"
	"mosn.io/mosn/pkg/protocol/xprotocol/dubbothrift"
	"mosn.io/mosn/pkg/protocol/xprotocol/tars"
	_ "mosn.io/mosn/pkg/stream/http"
	_ "mosn.io/mosn/pkg/stream/http2"
	xstream "mosn.io/mosn/pkg/stream/xprotocol"
	"mosn.io/mosn/pkg/verifrt/c07frames"
	"mosn.io/mosn/pkg/verifrt/vreport"
	"mosn.io/pkg/buffer"
)

func init() {
	// the same registration cmd/mosn/main/control.go performs
	xprotocol.RegisterXProtocolAction(xstream.NewConnPool, xstream.NewStreamFactory, nil)
	_ = xprotocol.RegisterXProtocolCodec(&bolt.XCodec{})
	_ = xprotocol.RegisterXProtocolCodec(&boltv2.XCodec{})
	_ = xprotocol.RegisterXProtocolCodec(&dubbo.XCodec{})
	_ = xprotocol.RegisterXProtocolCodec(&dubbothrift.XCodec{})
	_ = xprotocol.RegisterXProtocolCodec(&tars.XCodec{})
	initGlobalStats()
}

type c07PConn struct {
	api.Connection // nil: unforeseen calls panic (harness problem)
	writes         [][]byte
	closed         []string
}

var c07PAddr = &net.TCPAddr{IP: net.IPv4(127, 0, 0, 1), Port: 1107}

func (c *c07PConn) ID() uint64                                             { return 7 }
func (c *c07PConn) LocalAddr() net.Addr                                    { return c07PAddr }
func (c *c07PConn) RemoteAddr() net.Addr                                   { return c07PAddr }
func (c *c07PConn) RawConn() net.Conn                                      { return nil }
func (c *c07PConn) SetTransferEventListener(func() bool)                   {}
func (c *c07PConn) AddConnectionEventListener(api.ConnectionEventListener) {}
func (c *c07PConn) SetCollector(read, write metrics.Counter)               {}
func (c *c07PConn) Write(bufs ...buffer.IoBuffer) error {
	var b []byte
	for _, x := range bufs {
		if x != nil {
			b = append(b, x.Bytes()...)
		}
	}
	c.writes = append(c.writes, b)
	return nil
}
func (c *c07PConn) Close(t api.ConnectionCloseType, e api.ConnectionEvent) error {
	c.closed = append(c.closed, string(e))
	return nil
}

type c07PCallbacks struct {
	api.ReadFilterCallbacks
	conn *c07PConn
}

func (c *c07PCallbacks) Connection() api.Connection { return c.conn }

// c07Pool records the scheduled downstream tasks and never runs them.
type c07Pool struct{ tasks int }

func (p *c07Pool) Schedule(task func())       { p.tasks++ }
func (p *c07Pool) ScheduleAlways(task func()) { p.tasks++ }
func (p *c07Pool) ScheduleAuto(task func())   { p.tasks++ }

type c07PHanded struct {
	Hdr    string
	Data   string
	OneWay bool
}

func c07PHdr(h api.HeaderMap) string {
	if h == nil {
		return "<nil>"
	}
	var kv []string
	h.Range(func(k, v string) bool {
		kv = append(kv, k+"="+v)
		return true
	})
	sort.Strings(kv)
	return strings.Join(kv, "&")
}

func c07PBuf(b buffer.IoBuffer) string {
	if b == nil || reflect.ValueOf(b).IsNil() {
		return "<nil>"
	}
	return hex.EncodeToString(b.Bytes())
}

type c07PCase struct {
	Proto  string   `json:"proto"`
	Scope  string   `json:"scope"` // "auto": [Auto]; "own": [proto] (stream connection created up front); "all": the 7 registered names listed explicitly
	Frames []int    `json:"frames"`
	Names  []string `json:"names,omitempty"`
	Feed   string   `json:"feed"`
	Cuts   []int    `json:"cuts"`
	Len    int      `json:"len"`
}

type c07PFail struct{ key, detail string }

// c07PGuardBuf is the read buffer as the proxy sees it: a transparent delegate
// that counts Len() calls so that a Dispatch loop which never terminates (a
// decoder that returns frames without consuming them) is aborted instead of
// eating all memory.
type c07PGuardBuf struct {
	buffer.IoBuffer
	budget int
}

type c07PAbort struct{}

func (g *c07PGuardBuf) Len() int {
	g.budget--
	if g.budget < 0 {
		panic(c07PAbort{})
	}
	return g.IoBuffer.Len()
}

type c07PResult struct {
	fail    *c07PFail
	harness string
	perFeed []string
	handed  []c07PHanded
	writes  int
}

type c07PReader struct{ rest []byte }

func (r *c07PReader) Read(p []byte) (int, error) {
	n := copy(p, r.rest)
	r.rest = r.rest[n:]
	return n, nil
}

func c07PFill(buf buffer.IoBuffer) {
	b := buf.Bytes()
	spare := b[len(b):cap(b)]
	for i := range spare {
		spare[i] = 0xA5
	}
}

var c07AllNames []api.ProtocolName

func c07PScopes(scope string, own api.ProtocolName) []api.ProtocolName {
	switch scope {
	case "auto":
		return []api.ProtocolName{protocol.Auto}
	case "own":
		return []api.ProtocolName{own}
	}
	if c07AllNames == nil {
		protocol.RangeAllRegisteredProtocol(func(n api.ProtocolName) { c07AllNames = append(c07AllNames, n) })
		sort.Slice(c07AllNames, func(i, j int) bool { return c07AllNames[i] < c07AllNames[j] })
	}
	return c07AllNames
}

// expected view of each alphabet frame at the proxy: filled by validation (frame alone, whole)
type c07PExp struct {
	handed []c07PHanded
	writes int
}

var c07PExpected = map[string]*c07PExp{}

func c07PExec(a *c07frames.Alphabet, c c07PCase, validating bool) (res c07PResult) {
	stream, ends := c07frames.Stream(a, c.Frames)
	failf := func(what, format string, args ...interface{}) {
		if res.fail == nil {
			res.fail = &c07PFail{key: fmt.Sprintf("proxy.OnData/%s: %s", a.Proto, what), detail: fmt.Sprintf(format, args...)}
		}
	}
	conn := &c07PConn{}
	pool := &c07Pool{}
	p := &proxy{
		config:        &v2.Proxy{},
		activeStreams: list.New(),
		stats:         globalStats,
		listenerStats: newListenerStats("c07"),
		context:       c07frames.Ctx(),
		protocols:     c07PScopes(c.Scope, a.Proto),
		workerpool:    pool,
	}
	p.InitializeReadFilterCallbacks(&c07PCallbacks{conn: conn})
	if (c.Scope == "own") != (p.serverStreamConn != nil) {
		res.harness = "stream connection creation at InitializeReadFilterCallbacks not as expected"
		return
	}
	fed := 0
	var buf buffer.IoBuffer
	var prevObs []c07PHanded
	observe := func() []c07PHanded {
		var out []c07PHanded
		for e := p.activeStreams.Front(); e != nil; e = e.Next() {
			ds := e.Value.(*downStream)
			out = append(out, c07PHanded{Hdr: c07PHdr(ds.downstreamReqHeaders), Data: c07PBuf(ds.downstreamReqDataBuf), OneWay: ds.oneway})
		}
		return out
	}
	check := func() bool {
		func() {
			defer func() {
				if x := recover(); x != nil {
					if _, ok := x.(c07PAbort); ok {
						failf("OnData does not return: keeps extracting frames without consuming the buffer (livelock)",
							"%d bytes fed, %d bytes buffered, %d active streams created so far", fed, buf.Len(), p.activeStreams.Len())
						return
					}
					failf("panic while reading a valid stream", "%d bytes fed: %v", fed, x)
				}
			}()
			// filterManager.onContinueReading calls OnData only when the read buffer is not empty
			if buf.Len() > 0 {
				p.OnData(&c07PGuardBuf{IoBuffer: buf, budget: 400})
			}
		}()
		if res.fail != nil {
			return false
		}
		f := 0
		for f < len(ends) && ends[f] <= fed {
			f++
		}
		detected := "-"
		if p.serverStreamConn != nil {
			detected = string(p.serverStreamConn.Protocol())
		}
		res.perFeed = append(res.perFeed, fmt.Sprintf("%s:%d", detected, p.activeStreams.Len()))
		if len(conn.closed) > 0 {
			failf("connection closed on a valid stream", "%d bytes fed, detected %s: %v", fed, detected, conn.closed)
			return false
		}
		if p.fallback {
			failf("proxy fell back to raw TCP on a valid stream", "%d bytes fed", fed)
			return false
		}
		if p.serverStreamConn != nil && detected != string(a.Proto) {
			failf("a prefix of the stream is detected as another protocol", "%d bytes fed (%x): detected %s", fed, stream[:fed], detected)
			return false
		}
		if f > 0 && p.serverStreamConn == nil {
			failf("protocol still undecided with a complete frame in the buffer", "%d bytes fed = %d complete frames", fed, f)
			return false
		}
		start := 0
		if f > 0 {
			start = ends[f-1]
		}
		if got, want := buf.Bytes(), stream[start:fed]; string(got) != string(want) {
			failf("unconsumed buffer is not the unparsed rest of the stream", "%d bytes fed, %d complete frames, detected %s: buffer holds %x, want %x", fed, f, detected, got, want)
			return false
		}
		if validating {
			return true
		}
		var want []c07PHanded
		wantWrites := 0
		for i := 0; i < f; i++ {
			e := c07PExpected[fmt.Sprintf("%s/%d", a.Proto, c.Frames[i])]
			want = append(want, e.handed...)
			wantWrites += e.writes
		}
		got := observe()
		for i := range prevObs {
			if i < len(got) && got[i] != prevObs[i] {
				failf("request content changed after it was handed to the proxy (frame aliases the connection read buffer)",
					"%d bytes fed: active stream #%d was %+v after the previous read, is %+v now", fed, i, prevObs[i], got[i])
				return false
			}
		}
		prevObs = got
		if !reflect.DeepEqual(got, want) {
			failf("requests handed to the proxy differ from the frames sent", "%d bytes fed, %d complete frames: proxy has %+v, want %+v", fed, f, got, want)
			return false
		}
		if len(conn.writes) != wantWrites {
			failf("heartbeat acknowledgements differ from the heartbeats sent", "%d bytes fed: %d writes, want %d", fed, len(conn.writes), wantWrites)
			return false
		}
		if pool.tasks != len(want) {
			failf("scheduled downstream tasks differ from the requests sent", "%d tasks, %d requests", pool.tasks, len(want))
			return false
		}
		return true
	}
	if c.Feed == "write" {
		buf = buffer.GetIoBuffer(len(stream))
		buf.Write(stream)
		fed = len(stream)
		c07PFill(buf)
		check()
	} else {
		buf = buffer.GetIoBuffer(network.DefaultReadBufferSize)
		rd := &c07PReader{}
		prev := 0
		cuts := append(append([]int(nil), c.Cuts...), len(stream))
	feed:
		for _, cut := range cuts {
			if cut <= prev || cut > len(stream) {
				res.harness = fmt.Sprintf("bad cut list %v for stream of %d bytes", c.Cuts, len(stream))
				return
			}
			rd.rest = stream[prev:cut]
			prev = cut
			for len(rd.rest) > 0 {
				n, err := buf.ReadOnce(rd)
				if err != nil || n == 0 {
					res.harness = fmt.Sprintf("ReadOnce: n=%d err=%v", n, err)
					return
				}
				fed += int(n)
				c07PFill(buf)
				if !check() {
					break feed
				}
			}
		}
	}
	res.handed = observe()
	res.writes = len(conn.writes)
	if res.fail == nil && !validating {
		// stability: the proxy's view of each request after the rest of the stream was read
		var want []c07PHanded
		for _, fi := range c.Frames {
			want = append(want, c07PExpected[fmt.Sprintf("%s/%d", a.Proto, fi)].handed...)
		}
		if !reflect.DeepEqual(res.handed, want) {
			failf("request content changed after it was handed to the proxy", "proxy has %+v, want %+v", res.handed, want)
		}
	}
	return
}

var c07PValidated bool

// frames that the proxy does not handle even when delivered alone and whole
// (none on the unchanged tree): reported as violations, cases containing them are skipped
type c07PValFail struct {
	key, detail string
	c           c07PCase
}

var c07PValFails []c07PValFail
var c07PBroken = map[string]bool{}

func c07PValidate(t *testing.T) {
	if c07PValidated {
		return
	}
	for _, a := range c07frames.Alphabets() {
		for i := range a.Frames {
			fr := &a.Frames[i]
			c := c07PCase{Proto: string(a.Proto), Scope: "own", Frames: []int{i}, Names: []string{fr.Name}, Feed: "write", Len: len(fr.Bytes)}
			res := c07PExec(a, c, true)
			if res.harness == "" && res.fail != nil {
				c07PValFails = append(c07PValFails, c07PValFail{key: res.fail.key, detail: "frame delivered alone: " + res.fail.detail, c: c})
				c07PBroken[fmt.Sprintf("%s/%d", a.Proto, i)] = true
				continue
			}
			wantHanded, wantWrites := 0, 0
			switch fr.Kind {
			case c07frames.Req, c07frames.OneWay:
				wantHanded = 1
			case c07frames.HB:
				wantWrites = 1
			}
			if res.harness != "" || len(res.handed) != wantHanded || res.writes != wantWrites ||
				(wantHanded == 1 && res.handed[0].OneWay != (fr.Kind == c07frames.OneWay)) {
				msg := fmt.Sprintf("alphabet frame %s/%s is not handled alone by the proxy as a %s (the harness alphabet no longer fits the code): harness=%q handed=%+v writes=%d", a.Proto, fr.Name, fr.Kind, res.harness, res.handed, res.writes)
				vreport.HarnessError("C07", "proxy-ondata", msg)
				t.Fatal(msg)
			}
			c07PExpected[fmt.Sprintf("%s/%d", a.Proto, i)] = &c07PExp{handed: res.handed, writes: res.writes}
		}
	}
	c07PValidated = true
}

func TestVerifC07ProxyOnData(t *testing.T) {
	c07PValidate(t)
	p := vreport.Begin("C07", "proxy-ondata", 8*time.Minute)
	if !vreport.Replaying() {
		for _, f := range c07PValFails {
			p.Violation(f.key, f.detail, f.c)
		}
	}
	maxCuts := func(nframes int) int {
		if vreport.Thorough() || nframes == 1 {
			return 2
		}
		return 1
	}
	gen := func(yield func(c07PCase) bool) {
		for _, a := range c07frames.Alphabets() {
			for _, scope := range []string{"auto", "own", "all"} {
				ok := c07frames.Sequences(a.Server, 2, func(frames []int) bool {
					stream, _ := c07frames.Stream(a, frames)
					names := make([]string, len(frames))
					for i, f := range frames {
						names[i] = a.Frames[f].Name
					}
					return c07frames.Segmentations(len(stream), maxCuts(len(frames)), func(feed string, cuts []int) bool {
						return yield(c07PCase{Proto: string(a.Proto), Scope: scope, Frames: frames, Names: names, Feed: feed, Cuts: cuts, Len: len(stream)})
					})
				})
				if !ok {
					return
				}
			}
		}
	}
	complete := vreport.Run(p, gen, func(p *vreport.Part, c c07PCase) {
		a := c07frames.Of(c.Proto)
		for _, f := range c.Frames {
			if f < 0 || f >= len(a.Frames) {
				vreport.HarnessError("C07", "proxy-ondata", "bad frame index in case")
				return
			}
		}
		for _, f := range c.Frames {
			if c07PBroken[fmt.Sprintf("%s/%d", a.Proto, f)] {
				if len(c.Frames) == 1 && c.Feed == "write" && c.Scope == "own" {
					// the validation case itself (also reached in replay mode): run it in validating mode
					if res := c07PExec(a, c, true); res.fail != nil {
						p.Violation(res.fail.key, "frame delivered alone: "+res.fail.detail, c)
					}
				}
				p.Count("cases_skipped_frame_broken_even_alone", 1)
				return
			}
		}
		res := c07PExec(a, c, false)
		if res.harness != "" {
			vreport.HarnessError("C07", "proxy-ondata", fmt.Sprintf("%s (case %+v)", res.harness, c))
			return
		}
		_, ends := c07frames.Stream(a, c.Frames)
		var cls []string
		if len(c.Cuts) <= 3 {
			for _, cut := range c.Cuts {
				cls = append(cls, c07frames.CutClass(a, c.Frames, ends, cut))
			}
		} else {
			cls = []string{"many"}
		}
		p.Distinct(fmt.Sprintf("%s|%s|%v|%s|%v", c.Proto, c.Scope, c.Frames, c.Feed, cls))
		p.Outcome(fmt.Sprintf("%s|%v|%v", c.Proto, c.Frames, res.perFeed))
		if p.WantSample() {
			p.Sample(map[string]interface{}{"case": c, "detected:streams_after_each_read": res.perFeed})
		}
		if res.fail != nil {
			p.Violation(res.fail.key, res.fail.detail, c)
		}
	})
	bound := "server-side streams of 1-2 frames over each xprotocol alphabet x protocol scope {Auto, [own], all 7 registered names}; 1-frame streams: every segmentation with 0,1,2 cuts; 2-frame streams: 0,1 cuts"
	if vreport.Thorough() {
		bound = "server-side streams of 1-2 frames over each xprotocol alphabet x protocol scope {Auto, [own], all 7 registered names}; every segmentation with 0,1,2 cuts"
	}
	p.End(complete, bound+"; always the all-single-bytes segmentation and whole delivery as initial buffer",
		"case = (protocol, scope, frames, cut list); after every read: detected protocol is undecided or the stream's own, connection open, no fallback, active streams of the proxy = the requests whose last byte arrived (headers, data, one-way flag as when the frame is delivered alone), heartbeat acks written = heartbeats completed, read buffer = unparsed rest. The scheduled downstream tasks are recorded, not run (routing/upstream is not part of C07). Responses on a downstream connection are dropped by the stream layer and only observed through the buffer.")
}
