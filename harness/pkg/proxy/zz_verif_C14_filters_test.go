//go:build verif

package proxy

// C14: stream filters run in configured order; a receive filter that answers
// (hijack / direct response) or terminates the request guarantees it is never
// sent upstream; an answered request gets exactly that one response, which also
// passes the send filters; re-match-route / re-choose-host resume at the
// requesting filter.

import (
	"context"
	"fmt"
	"os"
	"strings"
	"sync"
	"testing"
	"time"

	"mosn.io/api"
	v2 "mosn.io/mosn/pkg/config/v2"
	"mosn.io/mosn/pkg/protocol/xprotocol/bolt"
	"mosn.io/mosn/pkg/streamfilter"
	"mosn.io/mosn/pkg/types"
	"mosn.io/mosn/pkg/verifrt/vreport"
	"mosn.io/mosn/pkg/verifrt/vrt"
	"mosn.io/pkg/buffer"
)

const c14FilterType = "verif_scripted"

// current scenario / run, read by the scripted filters (one execution at a time)
var c14Cur struct {
	sc      *hpScenario
	run     *hpRun
	created int // stream filter chains created in this execution
}

// c14Chain is the configured chain of the k-th stream.
func c14Chain(sc *hpScenario, k int) []hpFilter {
	if sc.FiltersPer == nil {
		return sc.Filters
	}
	if k < len(sc.FiltersPer) {
		return sc.FiltersPer[k]
	}
	return nil
}

var c14Once sync.Once

type c14Factory struct{}

func (c14Factory) CreateFilterChain(ctx context.Context, cb api.StreamFilterChainFactoryCallbacks) {
	sc := c14Cur.sc
	if sc == nil {
		return
	}
	k := c14Cur.created
	c14Cur.created++
	for i, f := range c14Chain(sc, k) {
		fl := &c14Filter{idx: i, spec: f, req: k}
		switch f.Phase {
		case "before-route":
			cb.AddStreamReceiverFilter(fl, api.BeforeRoute)
		case "after-route":
			cb.AddStreamReceiverFilter(fl, api.AfterRoute)
		case "after-choose-host":
			cb.AddStreamReceiverFilter(fl, api.AfterChooseHost)
		case "send":
			cb.AddStreamSenderFilter(fl, api.BeforeSend)
		}
	}
}

type c14Filter struct {
	idx   int
	req   int // which stream (in creation order) the filter belongs to
	spec  hpFilter
	rh    api.StreamReceiverFilterHandler
	sh    api.StreamSenderFilterHandler
	calls int
}

func (f *c14Filter) OnDestroy()                                                {}
func (f *c14Filter) SetReceiveFilterHandler(h api.StreamReceiverFilterHandler) { f.rh = h }
func (f *c14Filter) SetSenderFilterHandler(h api.StreamSenderFilterHandler)    { f.sh = h }

func (f *c14Filter) log(kind, ret string) {
	if r := c14Cur.run; r != nil {
		r.obs.FilterLog = append(r.obs.FilterLog, fmt.Sprintf("%s:%d:%s:%s:%d", kind, f.idx, f.spec.Phase, ret, f.req))
	}
}

func (f *c14Filter) OnReceive(ctx context.Context, headers api.HeaderMap, buf api.IoBuffer, trailers api.HeaderMap) api.StreamFilterStatus {
	f.calls++
	ret := api.StreamFilterContinue
	if redo, n, ok := c14RedoN(f.spec.Verdict); ok {
		// asks again on each of the first n calls (every resumed pass starts with this filter), then continues
		if f.calls <= n {
			ret = redo
		}
		f.log("recv", string(ret))
		return ret
	}
	switch f.spec.Verdict {
	case "continue":
	case "stop":
		ret = api.StreamFilterStop
	case "terminate":
		ret = api.StreamFiltertermination
	case "hijack":
		f.rh.SendHijackReply(c14HijackCode(), headers)
	case "hijack-stop":
		f.rh.SendHijackReply(c14HijackCode(), headers)
		ret = api.StreamFilterStop
	case "direct":
		resp := bolt.NewRpcResponse(0, bolt.ResponseStatusServerThreadpoolBusy, hpHeader(map[string]string{"token": "direct-by-filter"}), buffer.NewIoBufferString("resp-of-direct-by-filter"))
		f.rh.SendDirectResponse(resp, resp.Content, nil)
		ret = api.StreamFilterStop
	case "direct-cont":
		// answers with a complete response (headers + body) and lets the chain go on: a later filter may
		// answer again (a body-less hijack then has to replace the WHOLE stored response; seeded change C14-r6)
		resp := bolt.NewRpcResponse(0, bolt.ResponseStatusServerThreadpoolBusy, hpHeader(map[string]string{"token": "direct-by-filter"}), buffer.NewIoBufferString("resp-of-direct-by-filter"))
		f.rh.SendDirectResponse(resp, resp.Content, nil)
	case "rematch":
		if f.calls == 1 {
			ret = api.StreamFilterReMatchRoute
		}
	case "rechoose":
		if f.calls == 1 {
			ret = api.StreamFilterReChooseHost
		}
	case "rematch2":
		// asks again on the resumed pass
		if f.calls <= 2 {
			ret = api.StreamFilterReMatchRoute
		}
	case "rechoose2":
		if f.calls <= 2 {
			ret = api.StreamFilterReChooseHost
		}
	case "rematch-noroute":
		// the usual reason for a re-match: the filter rewrote what routes match on - here to
		// something no route matches, so the proxy ends the request while the pass is suspended
		if f.calls == 1 {
			headers.Set("service", "gone")
			ret = api.StreamFilterReMatchRoute
		}
	case "rechoose-nohost":
		// ... and for a re-choose: the chosen host is found bad; here every host is, so the
		// second choice fails and the proxy ends the request while the pass is suspended
		if f.calls == 1 {
			if r := c14Cur.run; r != nil {
				r.cm.GetClusterSnapshot(ctx, hpCluster).HostSet().Range(func(h types.Host) bool {
					h.SetHealthFlag(api.FAILED_ACTIVE_HC)
					return true
				})
			}
			ret = api.StreamFilterReChooseHost
		}
	}
	f.log("recv", string(ret))
	return ret
}

// c14RedoN decodes the parameterised verdicts "rematch*N" / "rechoose*N": the filter asks for a
// re-match of the route / a re-choice of the host on each of its first N calls of one request.
func c14RedoN(v string) (api.StreamFilterStatus, int, bool) {
	for _, k := range []struct {
		pre string
		st  api.StreamFilterStatus
	}{{"rematch*", api.StreamFilterReMatchRoute}, {"rechoose*", api.StreamFilterReChooseHost}} {
		if strings.HasPrefix(v, k.pre) {
			n := 0
			if _, err := fmt.Sscanf(v[len(k.pre):], "%d", &n); err == nil && n > 0 {
				return k.st, n, true
			}
		}
	}
	return "", 0, false
}

// c14RedoScenarios: REPEATED redo requests inside one request. A filter R asks n times (n over ns) for a
// re-match (after-route) / re-choice (after-choose-host), alone, behind a continuing filter of its phase, in
// front of a later filter of its phase with the verdicts continue / hijack+stop / direct response, with a
// filter of a LATER phase configured BEFORE it (index order != phase order; continuing or denying) and with
// a filter of an EARLIER phase configured AFTER it; and two asking filters (re-match x a in after-route,
// re-choose x b in after-choose-host, a and b over mixed) sharing one request in both configured orders,
// with and without a denying filter behind them.
func c14RedoScenarios(ns, mixed []int) []hpScenario {
	var out []hpScenario
	mk := func(fs ...hpFilter) {
		sc := hpScenario{Hosts: 1, RouteTimeoutMs: 1000, Requests: []hpRequest{{Token: "t1", Body: true, Script: []string{upReply200}}}}
		sc.Filters = append([]hpFilter(nil), fs...)
		sc.Name = c14Name(&sc) + " redo-rounds"
		out = append(out, sc)
	}
	laters := []string{"continue", "hijack-stop", "direct"}
	for _, n := range ns {
		for _, k := range []struct{ phase, verb string }{{"after-route", "rematch"}, {"after-choose-host", "rechoose"}} {
			R := hpFilter{Phase: k.phase, Verdict: fmt.Sprintf("%s*%d", k.verb, n)}
			P := hpFilter{Phase: k.phase, Verdict: "continue"}
			mk(R)
			mk(P, R)
			for _, l := range laters {
				L := hpFilter{Phase: k.phase, Verdict: l}
				mk(R, L)
				mk(P, R, L)
				if k.phase == "after-route" {
					mk(hpFilter{Phase: "after-choose-host", Verdict: "continue"}, R, L)
				}
			}
			if k.phase == "after-route" {
				mk(hpFilter{Phase: "after-choose-host", Verdict: "continue"}, R)
				mk(hpFilter{Phase: "after-choose-host", Verdict: "hijack-stop"}, R)
				mk(R, hpFilter{Phase: "before-route", Verdict: "continue"})
			} else {
				mk(R, hpFilter{Phase: "after-route", Verdict: "continue"})
			}
		}
	}
	for _, a := range mixed {
		for _, b := range mixed {
			M := hpFilter{Phase: "after-route", Verdict: fmt.Sprintf("rematch*%d", a)}
			C := hpFilter{Phase: "after-choose-host", Verdict: fmt.Sprintf("rechoose*%d", b)}
			D := hpFilter{Phase: "after-choose-host", Verdict: "hijack-stop"}
			mk(M, C)
			mk(C, M)
			mk(M, C, D)
			mk(C, M, D)
		}
	}
	return out
}

func (f *c14Filter) Append(ctx context.Context, headers api.HeaderMap, buf api.IoBuffer, trailers api.HeaderMap) api.StreamFilterStatus {
	f.calls++
	ret := api.StreamFilterContinue
	if f.spec.Verdict == "stop" {
		ret = api.StreamFilterStop
	}
	f.log("send", string(ret))
	return ret
}

func c14HijackCode() int {
	if sc := c14Cur.sc; sc != nil && sc.HijackCode != 0 {
		return sc.HijackCode
	}
	return api.RouterUnavailableCode
}

// bolt status the hijack reply carries
func c14HijackStatus(sc *hpScenario) uint16 {
	if sc.HijackCode == 503 {
		return bolt.ResponseStatusServerThreadpoolBusy
	}
	return bolt.ResponseStatusNoProcessor
}

func c14Install() {
	c14Once.Do(func() {
		api.RegisterStream(c14FilterType, func(config map[string]interface{}) (api.StreamFilterChainFactory, error) {
			return c14Factory{}, nil
		})
	})
	hpFilterHook = func(sc *hpScenario, h *hpRun) {
		c14Cur.sc, c14Cur.run, c14Cur.created = sc, h, 0
		streamfilter.GetStreamFilterManager().AddOrUpdateStreamFilterConfig(hpListener, []v2.Filter{{Type: c14FilterType, Config: map[string]interface{}{"n": len(sc.Filters)}}})
	}
}

func c14Name(sc *hpScenario) string {
	var p []string
	for _, f := range sc.Filters {
		p = append(p, f.Phase+"="+f.Verdict)
	}
	return "filters[" + strings.Join(p, " ") + "] upstream=" + strings.Join(sc.Requests[0].Script, ",")
}

// c14Scenarios enumerates every receive chain of length 0..maxRecv (every phase assignment in
// non-decreasing or arbitrary configured order, every verdict valid in that phase) x every send chain of
// length 0..maxSend x upstream script.
func c14Scenarios(maxRecv, maxSend int, scripts []string) []hpScenario {
	phases := []string{"before-route", "after-route", "after-choose-host"}
	verdicts := map[string][]string{
		"before-route":      {"continue", "stop", "terminate", "hijack", "hijack-stop", "direct", "direct-cont"},
		// "rechoose" from an after-route filter and "rematch" from an after-choose-host filter are the
		// two verdicts outside their documented phase: the statement does not say whether they are
		// honoured (this tree ignores them), only that an honoured one resumes at the requesting filter
		"after-route":       {"continue", "stop", "terminate", "hijack", "hijack-stop", "direct", "direct-cont", "rematch", "rematch-noroute", "rechoose"},
		"after-choose-host": {"continue", "stop", "terminate", "hijack", "hijack-stop", "direct", "direct-cont", "rechoose", "rechoose-nohost", "rematch"},
	}
	var recvChains [][]hpFilter
	var gen func(cur []hpFilter, n int)
	gen = func(cur []hpFilter, n int) {
		if len(cur) == n {
			recvChains = append(recvChains, append([]hpFilter(nil), cur...))
			return
		}
		for _, ph := range phases {
			for _, v := range verdicts[ph] {
				gen(append(cur, hpFilter{Phase: ph, Verdict: v}), n)
			}
		}
	}
	for n := 0; n <= maxRecv; n++ {
		gen(nil, n)
	}
	var sendChains [][]hpFilter
	var gens func(cur []hpFilter, n int)
	gens = func(cur []hpFilter, n int) {
		if len(cur) == n {
			sendChains = append(sendChains, append([]hpFilter(nil), cur...))
			return
		}
		for _, v := range []string{"continue", "stop"} {
			gens(append(cur, hpFilter{Phase: "send", Verdict: v}), n)
		}
	}
	for n := 0; n <= maxSend; n++ {
		gens(nil, n)
	}
	var out []hpScenario
	for _, rc := range recvChains {
		for _, sc := range sendChains {
			for _, up := range scripts {
				s := hpScenario{Hosts: 1, RouteTimeoutMs: 1000, Requests: []hpRequest{{Token: "t1", Body: true, Script: []string{up}}}}
				s.Filters = append(append([]hpFilter(nil), rc...), sc...)
				s.Name = c14Name(&s)
				out = append(out, s)
			}
		}
	}
	return out
}

func c14Check(sc *hpScenario, obs *hpObs, r *vrt.Result, report func(kind, detail string)) {
	if r.Diverged != "" || r.StepLimit || r.Deadlock {
		report("HARNESS execution did not complete normally", r.String())
		return
	}
	for _, pn := range r.Panics {
		first := strings.SplitN(pn, "\n", 2)[0]
		if strings.Contains(first, "(env:") || strings.Contains(first, "(main)") {
			report("HARNESS panic in harness thread", pn)
		} else {
			report("uncaught panic in a proxy goroutine", pn)
		}
		return
	}
	for k := range sc.Requests {
		c14CheckReq(sc, k, obs, report)
	}
}

// c14CheckReq applies the statement to the k-th request (stream k in creation order: the
// scenarios with more than one request send them sequentially).
func c14CheckReq(sc *hpScenario, k int, obs *hpObs, report func(kind, detail string)) {
	filters := c14Chain(sc, k)
	token := sc.Requests[k].Token
	type ent struct {
		kind  string
		idx   int
		phase string
		ret   string
	}
	var recv, send []ent
	var mine []string
	for _, l := range obs.FilterLog {
		p := strings.SplitN(l, ":", 5)
		var i, rq int
		fmt.Sscanf(p[1], "%d", &i)
		fmt.Sscanf(p[4], "%d", &rq)
		if rq != k {
			continue
		}
		mine = append(mine, l)
		e := ent{p[0], i, p[2], p[3]}
		if e.kind == "recv" {
			recv = append(recv, e)
		} else {
			send = append(send, e)
		}
	}
	if len(sc.Requests) > 1 {
		pre := report
		report = func(kind, detail string) {
			pre(kind, fmt.Sprintf("request %d of %d: %s", k+1, len(sc.Requests), detail))
		}
	}
	logStr := strings.Join(mine, " ")
	// redo requests of this request given in their documented phase (the ones the proxy honours). The
	// proxy's OnReceive grants a request 10 rounds of its state machine and every redo uses one up: what
	// happens to a request with >= 9 of them is named apart in the finding keys (findings/C14-redo-round-limit.md)
	nRedo := 0
	for _, e := range recv {
		if (e.ret == string(api.StreamFilterReMatchRoute) && e.phase == "after-route") || (e.ret == string(api.StreamFilterReChooseHost) && e.phase == "after-choose-host") {
			nRedo++
		}
	}
	if nRedo >= 9 {
		pre := report
		report = func(kind, detail string) {
			pre(kind+" [request with >= 9 re-match / re-choose requests: the 10 state-machine rounds OnReceive grants a request are used up]", detail)
		}
	}
	// --- (1) receive order. A pass of a phase ends at a phase change or at a re-match / re-choose
	// request; within a pass configured order (strictly increasing index), so at most once per pass.
	answered, terminated := false, false
	phaseRank := map[string]int{"before-route": 0, "after-route": 1, "after-choose-host": 2}
	lastIdx, lastPhase := -1, ""
	resumeAt := -1 // index that asked for re-match/re-choose: the next pass of its phase must start there
	resumePhase := ""
	resumeOptional := false // the verdict was given outside its documented phase: it may be ignored
	for _, e := range recv {
		switch {
		case e.phase != lastPhase:
			if lastPhase != "" && phaseRank[e.phase] < phaseRank[lastPhase] && resumeAt < 0 {
				report("receive filters: phase order violated", fmt.Sprintf("phase %s after %s without a re-match/re-choose: %s", e.phase, lastPhase, logStr))
			}
			lastIdx = -1
		}
		if resumeAt >= 0 && resumeOptional && (phaseRank[e.phase] > phaseRank[resumePhase] || (e.phase == resumePhase && e.idx > resumeAt)) {
			// a verdict outside its documented phase was ignored: the pass simply went on
			resumeAt = -1
		}
		if resumeAt >= 0 && e.phase == resumePhase {
			if e.idx != resumeAt {
				report("re-match/re-choose does not resume at the requesting filter", fmt.Sprintf("filter %d asked in phase %s, next call in that phase is filter %d: %s", resumeAt, resumePhase, e.idx, logStr))
			}
			resumeAt = -1
			lastIdx = -1
		} else if resumeAt >= 0 && phaseRank[e.phase] < phaseRank[resumePhase] {
			report("re-match/re-choose re-runs filters of an earlier phase", fmt.Sprintf("filter %d (%s) ran again after filter %d asked in phase %s: %s", e.idx, e.phase, resumeAt, resumePhase, logStr))
		} else if resumeAt >= 0 && !resumeOptional {
			// a request given in its documented phase is honoured by re-entering that phase's pass AT the
			// requesting filter: a filter of a later phase cannot run while that resume is outstanding
			report("re-match/re-choose request dropped: the request went on to a later phase without resuming the pass at the requesting filter", fmt.Sprintf("filter %d asked in phase %s, next receive call is filter %d of phase %s: %s", resumeAt, resumePhase, e.idx, e.phase, logStr))
			resumeAt = -1
		}
		if e.idx <= lastIdx {
			report("receive filters not run in configured order / more than once per pass", fmt.Sprintf("filter %d after %d in one pass of %s: %s", e.idx, lastIdx, e.phase, logStr))
		}
		lastIdx, lastPhase = e.idx, e.phase
		v := filters[e.idx].Verdict
		if v == "hijack" || v == "hijack-stop" || v == "direct" || v == "direct-cont" {
			answered = true
		}
		if v == "terminate" {
			terminated = true
		}
		if e.ret == string(api.StreamFilterReMatchRoute) || e.ret == string(api.StreamFilterReChooseHost) {
			resumeAt, resumePhase = e.idx, e.phase
			resumeOptional = (e.ret == string(api.StreamFilterReMatchRoute)) != (e.phase == "after-route")
		}
	}
	if resumeAt >= 0 && !resumeOptional && obs.Attempts[token] > 0 {
		report("re-match/re-choose request dropped: request forwarded upstream without resuming the pass at the requesting filter", fmt.Sprintf("filter %d asked in phase %s and was not called again, %d upstream request frame(s): %s", resumeAt, resumePhase, obs.Attempts[token], logStr))
	}
	// --- (1b) configured order leaves nobody out: a pass starts at the first configured filter of
	// its phase (or at the filter that asked for the re-match / re-choose) and goes on with the
	// next configured filter of that phase while the verdicts are "continue"
	// a re-match / re-choose verdict given outside its documented phase is ignored by the proxy but
	// still ends the chain's pass with the cursor left where it was (pkg/streamfilter/chain.go
	// RunReceiverFilter): what is skipped because of THAT is named apart in the finding keys
	oop := ""
	for _, e := range recv {
		if (e.ret == string(api.StreamFilterReMatchRoute) && e.phase != "after-route") || (e.ret == string(api.StreamFilterReChooseHost) && e.phase != "after-choose-host") {
			oop = " [after a re-match / re-choose verdict given outside its documented phase]"
		}
	}
	phaseIdx := map[string][]int{}
	for i, f := range filters {
		if f.Phase != "send" {
			phaseIdx[f.Phase] = append(phaseIdx[f.Phase], i)
		}
	}
	nextOf := func(ph string, i int) int {
		for _, j := range phaseIdx[ph] {
			if j > i {
				return j
			}
		}
		return -1
	}
	for n, e := range recv {
		samePass := n > 0 && recv[n-1].phase == e.phase && recv[n-1].ret == string(api.StreamFilterContinue)
		switch {
		case samePass:
			if want := nextOf(e.phase, recv[n-1].idx); want >= 0 && e.idx > want {
				report("receive filter skipped: a later filter of the phase ran although an earlier configured one did not"+oop, fmt.Sprintf("phase %s: filter %d ran after filter %d, configured filter %d was jumped over: %s", e.phase, e.idx, recv[n-1].idx, want, logStr))
			}
		case n > 0 && (recv[n-1].ret == string(api.StreamFilterReMatchRoute) || recv[n-1].ret == string(api.StreamFilterReChooseHost)) && recv[n-1].phase == e.phase:
			// resumed pass: checked above
		default:
			if first := phaseIdx[e.phase][0]; e.idx > first {
				report("receive filter skipped: a later filter of the phase ran although an earlier configured one did not"+oop, fmt.Sprintf("phase %s: the pass starts at filter %d, configured filter %d was jumped over: %s", e.phase, e.idx, first, logStr))
			}
		}
	}
	stopped := false // "stop" ends the filter pass, not the request: the rest of the chain is left out by design
	for _, e := range recv {
		stopped = stopped || e.ret == string(api.StreamFilterStop)
	}
	if obs.Attempts[token] > 0 && !stopped {
		ran := map[int]bool{}
		for _, e := range recv {
			ran[e.idx] = true
		}
		for i, f := range filters {
			if f.Phase != "send" && !ran[i] {
				report("request forwarded upstream although a configured receive filter never ran"+oop, fmt.Sprintf("filter %d (%s) has no call; filters: %s", i, f.Phase, logStr))
				break
			}
		}
	}
	// --- (2) a denied request is never forwarded
	if (answered || terminated) && obs.Attempts[token] > 0 {
		report("request forwarded upstream although a receive filter answered or terminated it", fmt.Sprintf("%d upstream request frame(s); filters: %s", obs.Attempts[token], logStr))
	}
	// --- (3) responses
	var down []hpFrame
	for _, f := range obs.DownFrames {
		if f.ID == uint32(100+k) {
			down = append(down, f)
		}
	}
	if len(down) > 1 {
		report("more than one response for one request", fmt.Sprintf("%+v; filters: %s", down, logStr))
	}
	oneway := sc.Requests[k].Oneway
	if oneway && len(down) > 0 {
		report("a one-way request was answered", fmt.Sprintf("%+v; filters: %s", down, logStr))
	}
	if answered && !terminated && !oneway {
		// the first answering filter in call order decides the reply
		if len(down) != 1 {
			report("request answered by a filter but the client did not get exactly that one response", fmt.Sprintf("%d responses; filters: %s", len(down), logStr))
		} else {
			want := uint16(0)
			for _, e := range recv {
				v := filters[e.idx].Verdict
				if v == "hijack" || v == "hijack-stop" {
					want = c14HijackStatus(sc)
				} else if v == "direct" || v == "direct-cont" {
					want = bolt.ResponseStatusServerThreadpoolBusy
				} else {
					continue
				}
				break
			}
			// a later answering filter of the same pass may overwrite an earlier hijack+continue: accept any answering filter's status
			ok := false
			for _, e := range recv {
				v := filters[e.idx].Verdict
				if (v == "hijack" || v == "hijack-stop") && down[0].Status == c14HijackStatus(sc) {
					ok = true
				}
				if (v == "direct" || v == "direct-cont") && down[0].Status == bolt.ResponseStatusServerThreadpoolBusy {
					ok = true
				}
			}
			// ... and the response is ONE answer as a whole: the filter's direct response carries its own header
			// token and body, a hijack reply has no body and never the direct response's header (whenever both
			// kinds of answer were given in one request, the client must not get a mixture of the two)
			hij, dir := false, false
			for _, e := range recv {
				v := filters[e.idx].Verdict
				hij = hij || v == "hijack" || v == "hijack-stop"
				dir = dir || v == "direct" || v == "direct-cont"
			}
			isDir := down[0].Token == "direct-by-filter" && down[0].BodyToken == "direct-by-filter" // hpFrame strips the "resp-of-" prefix
			isHij := down[0].Token != "direct-by-filter" && down[0].BodyToken == ""
			if ok && !((dir && down[0].Status == bolt.ResponseStatusServerThreadpoolBusy && isDir) || (hij && down[0].Status == c14HijackStatus(sc) && isHij)) {
				report("the response mixes parts of different answers (status / headers / body not from one answering filter)", fmt.Sprintf("status %d header token %q body %q; filters: %s", down[0].Status, down[0].Token, down[0].BodyToken, logStr))
			}
			if !ok {
				report("the response is not the one the answering filter produced", fmt.Sprintf("status %d, first answering filter would give %d; filters: %s", down[0].Status, want, logStr))
			}
		}
	}
	if !answered && !terminated && !oneway && len(down) != 1 {
		// (C03 territory, but with filters in the chain it is a C14 concern too)
		report("no filter denied the request but the client did not get exactly one response", fmt.Sprintf("%d responses; filters: %s; log=%v", len(down), logStr, obs.Log))
	}
	// --- (4) send filters: configured order, at most once per response, exactly once while all earlier continued
	var sendIdx []int
	for i, f := range filters {
		if f.Phase == "send" {
			sendIdx = append(sendIdx, i)
		}
	}
	last := -1
	for _, e := range send {
		if e.idx <= last {
			report("send filters not run in configured order / more than once per response", logStr)
		}
		last = e.idx
	}
	if len(down) == 1 {
		// expected calls: prefix of the send chain up to and including the first non-continue
		var exp []int
		for _, i := range sendIdx {
			exp = append(exp, i)
			if filters[i].Verdict != "continue" {
				break
			}
		}
		var got []int
		for _, e := range send {
			got = append(got, e.idx)
		}
		if fmt.Sprint(got) != fmt.Sprint(exp) {
			report("a response reached the client without passing the send filters exactly once in order", fmt.Sprintf("send filters called %v, expected %v; filters: %s", got, exp, logStr))
		}
	}
}

func c14Run(p *vreport.Part, sc hpScenario, replay bool) bool {
	c14Install()
	obs := &hpObs{}
	opts := vrt.Options{Bound: sc.Bound, Delay: true, MaxSteps: 200000, MaxExecs: vreport.Pick(3000, 30000), Deadline: time.Now().Add(20 * time.Minute)}
	if replay {
		opts.Replay = true
		opts.Prefix = sc.Choices
	}
	st := vrt.Explore(opts, func() {
		*obs = hpObs{}
		hpBody(&sc, obs)
	}, func(r *vrt.Result) {
		p.Eval()
		cc := sc
		cc.Choices = r.Choices
		var down []string
		for _, f := range obs.DownFrames {
			down = append(down, fmt.Sprintf("%d:%d", f.ID, f.Status))
		}
		p.Distinct(sc.Name + "|" + strings.Join(obs.FilterLog, " ") + "|" + strings.Join(down, ","))
		p.Outcome(strings.Join(obs.FilterLog, " ") + "|" + strings.Join(down, ",") + fmt.Sprint(obs.Attempts))
		if p.WantSample() {
			p.Sample(map[string]interface{}{"scenario": sc.Name, "schedule": r.Choices, "filter_calls": obs.FilterLog, "downstream": down, "upstream_attempts": obs.Attempts})
		}
		c14Check(&sc, obs, r, func(kind, detail string) {
			p.Violation(kind, "scenario "+sc.Name+": "+detail+fmt.Sprintf(" | schedule=%v", r.Choices), cc)
		})
	})
	p.AddTraces(st.Executions)
	return st.Complete
}

func TestVerifC14Filters(t *testing.T) {
	const part = "filter-chains"
	p := vreport.Begin("C14", part, time.Hour)
	var rc hpScenario
	if vreport.Replaying() {
		if vreport.ReplayFor("C14", part, &rc) {
			c14Run(p, rc, true)
			p.End(true, "replay", "replay of one recorded schedule")
		}
		return
	}
	si, sn := vreport.Shard()
	complete := true
	n := 0
	// quick: receive chains 0..2, send chains 0..2, upstream {reply-ok}; silent upstream for chains <=1;
	// thorough: receive chains 0..3
	scs := c14Scenarios(vreport.Pick(2, 3), 2, []string{upReply200})
	scs = append(scs, c14Scenarios(1, 1, []string{upSilent, upClose})...)
	// a filter's own denial must not be taken for a failed upstream try: the same chains under a
	// retry policy, with a hijack status the policy would retry (503)
	for _, sc := range c14Scenarios(vreport.Pick(1, 2), 1, []string{upReply200}) {
		sc.RetryOn, sc.NumRetries, sc.HijackCode, sc.Hosts = true, 1, 503, 2
		sc.Name += " retry_on hijack=503"
		scs = append(scs, sc)
	}
	// repeated re-match / re-choose: the request comes from a filter that is not the first of the chain, on a
	// pass that was itself resumed (the resume position has to be absolute, not relative to where the pass started)
	{
		again := []hpFilter{{Phase: "after-route", Verdict: "rematch"}, {Phase: "after-route", Verdict: "rematch2"},
			{Phase: "after-choose-host", Verdict: "rechoose"}, {Phase: "after-choose-host", Verdict: "rechoose2"}}
		for _, ph := range []string{"before-route", "after-route", "after-choose-host"} {
			for _, a := range again {
				for _, b := range again {
					sc := hpScenario{Hosts: 1, RouteTimeoutMs: 1000, Requests: []hpRequest{{Token: "t1", Body: true, Script: []string{upReply200}}}}
					sc.Filters = []hpFilter{{Phase: ph, Verdict: "continue"}, a, b}
					sc.Name = c14Name(&sc) + " repeated-resume"
					scs = append(scs, sc)
				}
			}
		}
	}
	// REPEATED redo requests inside one request (n rounds; the proxy itself gives up after 10 rounds of its state machine)
	redoFrom := len(scs)
	redoNs, redoMixed := []int{1, 2, 3, 5, 6, 7, 9, 10, 11}, []int{1, 2, 3, 5, 6}
	if vreport.Thorough() {
		redoNs, redoMixed = []int{1, 2, 3, 4, 5, 6, 7, 8, 9, 10, 11, 12, 13}, []int{1, 2, 3, 4, 5, 6, 7, 8, 9}
	}
	scs = append(scs, c14RedoScenarios(redoNs, redoMixed)...)
	p.Note("redo_round_scenarios_all_shards", len(scs)-redoFrom)
	// one-way requests have no response sender: a filter's denial must still keep them from the upstream
	for _, sc := range c14Scenarios(vreport.Pick(1, 2), 1, []string{upReply200}) {
		if len(sc.Filters) == 0 {
			continue
		}
		sc.Requests[0].Oneway = true
		sc.Name += " oneway"
		scs = append(scs, sc)
	}
	// recycled per-stream state: the chain object of a finished stream is handed to the next one
	// (streamfilter chain pool, made LIFO and per-execution by the vsync.Pool shim): request 1 ends in
	// every way a chain of <=2 filters can end it (also in the middle of a suspended pass), request 2
	// follows on the same connection once the proxy is idle and must see its own chain from the start
	seconds := [][]hpFilter{
		{{Phase: "before-route", Verdict: "hijack-stop"}, {Phase: "before-route", Verdict: "continue"}},
		{{Phase: "before-route", Verdict: "continue"}, {Phase: "after-route", Verdict: "continue"}, {Phase: "after-choose-host", Verdict: "continue"}},
		{{Phase: "after-route", Verdict: "continue"}, {Phase: "after-route", Verdict: "direct"}},
	}
	for _, first := range c14Scenarios(2, 0, []string{upReply200}) {
		if len(first.Filters) == 0 {
			continue
		}
		for _, snd := range seconds {
			sc := hpScenario{Hosts: 1, RouteTimeoutMs: 1000, Sequential: true, Settle: true,
				Requests:   []hpRequest{{Token: "t1", Body: true, Script: []string{upReply200}}, {Token: "t2", Body: true, Script: []string{upReply200}}},
				FiltersPer: [][]hpFilter{first.Filters, snd}}
			a, b := hpScenario{Filters: first.Filters, Requests: sc.Requests[:1]}, hpScenario{Filters: snd, Requests: sc.Requests[1:]}
			sc.Name = "two requests: " + c14Name(&a) + " then " + c14Name(&b)
			scs = append(scs, sc)
		}
	}
	bound := vreport.Pick(1, 1)
	for i, sc := range scs {
		if only := os.Getenv("VERIF_C14_ONLY"); only != "" {
			if sc.Name != only || si != 0 {
				continue
			}
		} else if i%sn != si {
			continue
		}
		sc.Bound = bound
		if !c14Run(p, sc, false) {
			complete = false
			p.Count("scenarios_cut_by_execution_cap", 1)
		}
		n++
	}
	p.Note("scenarios", n)
	p.End(complete, fmt.Sprintf("%d filter configurations (this shard): receive chains of length 0..%d over 3 phases x {continue, stop, terminate, hijack, hijack+stop, direct response, re-match, re-choose}, send chains 0..2 x {continue, stop}; repeated redo requests inside one request: re-match / re-choose x n for n in %v (mixed re-match x a + re-choose x b for a,b in %v) with later same-phase filters {continue, hijack+stop, direct}, a later-phase filter configured before and an earlier-phase filter configured after; upstream reply vs filter execution: all schedules with <=%d deviation", n, vreport.Pick(2, 3), redoNs, redoMixed, bound),
		"every chain configuration is run on the real proxy with scripted filters registered through the public stream-filter factory API; call log + upstream byte stream + downstream frames compared with the statement; distinct = distinct (configuration, call log, downstream frames)")
}
