//go:build verif

package proxy

// C03 over HTTP/1.1: every downstream request ends exactly once, with one reply,
// in bounded (virtual) time. The C03 grid of zz_verif_C03_terminal_test.go
// (bolt, multiplex pool) replayed on the HTTP/1 stack: real server and client
// stream connections of pkg/stream/http (serve goroutines, unbuffered
// hand-offs) and the real HTTP/1 connection pool, all under the scheduler.
// The tests are named TestVerifH1C03… so that the bolt unit's run pattern
// (^TestVerifC03, built without pkg/stream/http instrumentation) does not pick
// them up.

import (
	"fmt"
	"os"
	"sort"
	"strconv"
	"strings"
	"testing"
	"time"

	_ "mosn.io/mosn/pkg/stream/http"
	_ "mosn.io/mosn/pkg/stream/http2"
	"mosn.io/mosn/pkg/verifrt/vreport"
	"mosn.io/mosn/pkg/verifrt/vrt"
)

func c03hScenarios(proto string) []hhScenario {
	var out []hhScenario
	h1 := proto == "Http1"
	add := func(sc hhScenario) {
		sc.Proto = proto
		sc.Name = hhScenarioName(&sc)
		out = append(out, sc)
	}
	first := []string{hhOK, hhErr, hhClose, hhSilent}
	second := []string{hhOK, hhClose, hhSilent}
	for _, body := range []bool{false, true} {
		for _, retry := range []bool{false, true} {
			for _, try := range []bool{false, true} {
				for _, f := range first {
					seconds := []string{""}
					if retry {
						seconds = second
					}
					for _, s2 := range seconds {
						for _, disc := range []string{"", "sent", "upstream"} {
							if !vreport.Thorough() {
								// quick tier: a covering subset (every first outcome with and without retry /
								// per-try timeout; bodies and disconnects on the main outcomes)
								// (early responses: a retriable 5xx, then a retry nobody answers, no per-try timeout -
								// only the route timeout can complete the request; also with a body: HTTP/2 writes
								// HEADERS and DATA one after the other)
								early := f == hhErr && s2 == hhSilent && !try && disc == ""
								if body && (f != hhOK && f != hhSilent) && !early {
									continue
								}
								if disc != "" && (body || (retry && try) || f == hhErr) {
									continue
								}
								if s2 == hhSilent && !try && f != hhClose && !early {
									continue
								}
							}
							script := []string{f}
							if s2 != "" {
								script = append(script, s2)
							}
							sc := hhScenario{Hosts: 2, RouteTimeoutMs: 1000, Disconnect: disc,
								Requests: []hhRequest{{Token: "t1", Body: body, Script: script}}}
							if retry {
								sc.RetryOn, sc.NumRetries = true, 1
							}
							if try {
								sc.TryTimeoutMs = 100
							}
							add(sc)
						}
					}
				}
			}
		}
	}
	one := func(script ...string) []hhRequest { return []hhRequest{{Token: "t1", Script: script}} }
	// connection failures: first host unreachable / all hosts unreachable / connect timeout
	for _, retry := range []bool{false, true} {
		add(hhScenario{Hosts: 2, RouteTimeoutMs: 1000, FailHosts: []int{0}, RetryOn: retry, Requests: one(hhOK)})
		add(hhScenario{Hosts: 2, RouteTimeoutMs: 1000, FailHosts: []int{0, 1}, RetryOn: retry, Requests: one(hhOK)})
		add(hhScenario{Hosts: 2, RouteTimeoutMs: 1000, TimeoutHosts: []int{0}, RetryOn: retry, Requests: one(hhClose, hhOK)})
	}
	// send failures: the peer is gone when the request is written
	for _, retry := range []bool{false, true} {
		for _, body := range []bool{false, true} {
			sc := hhScenario{Hosts: 2, RouteTimeoutMs: 1000, UpBreakAtWrite: 1, RetryOn: retry, Requests: []hhRequest{{Token: "t1", Body: body, Script: []string{hhOK, hhOK}}}}
			if retry {
				sc.NumRetries = 1
			}
			add(sc)
		}
	}
	// MOSN-generated errors before any upstream attempt
	add(hhScenario{Hosts: 1, NoRoute: true, RouteTimeoutMs: 1000, Requests: one(hhOK)})
	add(hhScenario{Hosts: 1, NoHosts: true, RouteTimeoutMs: 1000, Requests: one(hhOK)})
	add(hhScenario{Hosts: 2, AllUnhealthy: true, RouteTimeoutMs: 1000, Requests: one(hhOK)})
	// overflow: max_requests 1 / max_connections 1 with two requests in flight (two downstream connections)
	add(hhScenario{Hosts: 1, MaxRequests: 1, RouteTimeoutMs: 1000, Requests: []hhRequest{{Token: "t1", Script: []string{hhOK}}, {Token: "t2", Conn: 1, Script: []string{hhOK}}}})
	add(hhScenario{Hosts: 1, MaxConnections: 1, RouteTimeoutMs: 1000, Requests: []hhRequest{{Token: "t1", Script: []string{hhOK}}, {Token: "t2", Conn: 1, Script: []string{hhOK}}}})
	// HTTP/1 specific endings
	add(hhScenario{Hosts: 1, RouteTimeoutMs: 1000, TryTimeoutMs: 100, Requests: one(hhOKSplit)})
	for _, retry := range []bool{false, true} {
		sc := hhScenario{Hosts: 2, RouteTimeoutMs: 1000, RetryOn: retry, Requests: one(hhCloseMid, hhOK)}
		if retry {
			sc.NumRetries = 1
		}
		add(sc)
	}
	if h1 {
		add(hhScenario{Hosts: 1, RouteTimeoutMs: 1000, Requests: one(hhOKConnClose)})
		add(hhScenario{Hosts: 1, RouteTimeoutMs: 1000, Requests: []hhRequest{{Token: "t1", Close: true, Script: []string{hhOK}}}})
	} else {
		// HTTP/2 specific endings: stream reset by the upstream, replies on finished / unknown streams
		for _, retry := range []bool{false, true} {
			sc := hhScenario{Hosts: 2, RouteTimeoutMs: 1000, RetryOn: retry, Requests: one(hhRst, hhOK)}
			if retry {
				sc.NumRetries = 1
			}
			add(sc)
		}
		add(hhScenario{Hosts: 1, RouteTimeoutMs: 1000, Requests: one(hhOKPlusExtra)})
		add(hhScenario{Hosts: 1, RouteTimeoutMs: 1000, Requests: one(hhUnknownOK)})
	}
	add(hhScenario{Hosts: 1, RouteTimeoutMs: 1000, Requests: one(hhOKThenClose)})
	// a reply that races the per-try / the global timer
	for _, retry := range []bool{false, true} {
		sc := hhScenario{Hosts: 2, RouteTimeoutMs: 1000, TryTimeoutMs: 100, RetryOn: retry, Requests: one(hhOKAtTry, hhOK)}
		if retry {
			sc.NumRetries = 1
		}
		add(sc)
	}
	add(hhScenario{Hosts: 1, RouteTimeoutMs: 1000, Requests: one(hhOKAtGlobal)})
	// keep-alive: the outcome of request 1 must not cost request 2 its reply
	for _, f := range []string{hhOK, hhErr, hhClose, hhSilent, hhOKConnClose, hhOKThenClose} {
		if !h1 && f == hhOKConnClose {
			continue
		}
		add(hhScenario{Hosts: 1, RouteTimeoutMs: 1000, TryTimeoutMs: 100, Requests: []hhRequest{{Token: "t1", Script: []string{f}}, {Token: "t2", Body: true, Script: []string{hhOK}}}})
	}
	add(hhScenario{Hosts: 1, RouteTimeoutMs: 1000, Pipelined: true, Requests: []hhRequest{{Token: "t1", Script: []string{hhOK}}, {Token: "t2", Body: true, Script: []string{hhOK}}}})
	return out
}

// c03hCore: the scenarios explored with the full deviation bound in the quick tier.
func c03hCore(sc *hhScenario) bool {
	if len(sc.Requests) != 1 || sc.Disconnect != "" || sc.NoRoute || sc.NoHosts || sc.AllUnhealthy || len(sc.FailHosts)+len(sc.TimeoutHosts) > 0 || sc.UpBreakAtWrite > 0 {
		return false
	}
	r := sc.Requests[0]
	if r.Body || r.Close {
		return false
	}
	if len(r.Script) > 1 && r.Script[1] == hhSilent && r.Script[0] != hhClose && !(r.Script[0] == hhErr && sc.TryTimeoutMs == 0) {
		return false
	}
	return true
}

// status a scripted upstream outcome produces downstream when it is the terminal cause (request index i)
func c03hStatusOf(act string, i int) []int {
	switch act {
	case hhOK, hhOKNoBody, hhOKAtTry, hhOKAtGlobal, hhLateOK, hhOKPlusExtra, hhOKThenExtra, hhOKConnClose, hhOKSplit, hhOKThenClose, hhUnknownOK:
		return []int{hhOKStatus(i)}
	case hhErr:
		return []int{hhErrStatus(i)}
	case hhCloseMid:
		// the upstream did send this status before it went away (HTTP/2 delivers the header block on its
		// own): a reply that carries it is explained by a cause that occurred - the statement fixes no codes
		return []int{hhOKStatus(i)}
	}
	return nil // close / silent / rst end in a MOSN-generated reply
}

// c03hCheck evaluates the oracle on one finished execution.
func c03hCheck(sc *hhScenario, obs *hhObs, r *vrt.Result, report func(kind, detail string)) {
	if kind, detail, _ := hhExecProblem(r); kind != "" {
		report(kind, detail)
		return
	}
	reqBlocked, serveBlocked := hhBlocked(r)
	silent := false
	open := 0
	for ci, d := range obs.Downs {
		if !d.Closed {
			open++
		}
		if d.Garbage != "" {
			report("undecodable bytes written downstream", fmt.Sprintf("connection %d: %s", ci, d.Garbage))
		}
		if len(d.Orphans) > 0 {
			report("more than one response for one request", fmt.Sprintf("connection %d: %d requests sent, responses that answer none of them: %v (all: %v)", ci, len(d.Sent), d.Orphans, d.Responses))
		}
		for k, i := range d.Sent {
			rq := sc.Requests[i]
			if len(d.Answers[k]) > 1 {
				report("more than one response for one request", fmt.Sprintf("connection %d, request %s: %v", ci, rq.Token, d.Answers[k]))
				continue
			}
			if len(d.Answers[k]) == 0 {
				// root-cause class = what the request's goroutine is doing + the stream's internal state
				w := "worker goroutine exited"
				if len(reqBlocked) > 0 {
					b := reqBlocked[0]
					w = "worker goroutine waiting forever (" + b[strings.Index(b, " at ")+4:] + ")"
				}
				sig, full := "stream no longer tracked", ""
				if len(obs.Stuck) > 0 {
					full = obs.Stuck[0]
					f := strings.Fields(full)
					sig = f[0] + " " + f[1] + " " + f[2] + fmt.Sprintf(" retried=%v", obs.Attempts[rq.Token] > 1)
				}
				sig += fmt.Sprintf(" deviations=%d", r.Cost)
				// the execution came to rest (no runnable thread, no armed timer) with the request's goroutine
				// still waiting although the route timeout never elapsed on the virtual clock since the request
				// was sent: no timer was left that could complete it (see c03Check)
				if lim := d.SentAtMs[k] + int64(sc.RouteTimeoutMs); len(reqBlocked) > 0 && sc.RouteTimeoutMs > 0 && c03EndMs < lim {
					sig += "; no timer left to complete it: execution at rest before the route timeout elapsed"
					full += fmt.Sprintf(" [virtual clock at rest %dms < sent %dms + timeout %dms]", c03EndMs, d.SentAtMs[k], sc.RouteTimeoutMs)
				}
				detail := fmt.Sprintf("scenario %s, request %s on connection %d; state: %s; blocked=%v log=%v", sc.Name, rq.Token, ci, full, r.Blocked, obs.Log)
				if d.ByClient {
					// the client itself went away: ending without a reply is allowed - but the exchange has to END
					if len(reqBlocked) > 0 || obs.Active != 0 {
						silent = true
						report("request never ended after the client disconnected (stream still tracked or its goroutine still waiting): "+w+"; "+sig, detail)
					}
					continue
				}
				silent = true
				what := "request never completed (no response, client did not disconnect)"
				if d.Closed {
					what = "downstream connection closed by MOSN without a response (client did not disconnect)"
				}
				report(what+": "+w+"; "+sig, detail)
				continue
			}
			f := d.Answers[k][0]
			if f.Ctl != "" {
				// HTTP/2: MOSN reset the stream instead of answering
				if !d.ByClient {
					silent = true
					report(fmt.Sprintf("stream reset by MOSN without a response (client did not disconnect); retried=%v deviations=%d", obs.Attempts[rq.Token] > 1, r.Cost), fmt.Sprintf("scenario %s, request %s on connection %d: %s; log=%v", sc.Name, rq.Token, ci, f.String(), obs.Log))
				}
				continue
			}
			allowed := map[int]bool{}
			n := obs.Attempts[rq.Token]
			switch {
			case sc.NoRoute:
				allowed[404] = true
			case sc.NoHosts || sc.AllUnhealthy:
				allowed[502] = true
			default:
				// a timer may complete any routed request; a reset is answered 502 (mapped reasons) or 500 (unmapped)
				allowed[504], allowed[502], allowed[500] = true, true, true
				for a := 0; a < n; a++ {
					s := rq.Script[len(rq.Script)-1]
					if a < len(rq.Script) {
						s = rq.Script[a]
					}
					for _, st := range c03hStatusOf(s, i) {
						allowed[st] = true
					}
				}
				if sc.MaxRequests > 0 || sc.MaxConnections > 0 {
					allowed[503] = true
				}
			}
			if !allowed[f.Status] {
				var al []int
				for k := range allowed {
					al = append(al, k)
				}
				sort.Ints(al)
				report(fmt.Sprintf("response status %d not explained by any cause that occurred", c03hStatusClass(f.Status, sc)),
					fmt.Sprintf("request %s: response %s, explained statuses %v, attempts upstream %d, log=%v", rq.Token, f.String(), al, n, obs.Log))
			}
			if f.rtoken() != "" && (f.rtoken() != rq.Token || (f.Body != "" && f.Body != "resp-of-"+rq.Token)) {
				report("upstream response carries another exchange's header or body", fmt.Sprintf("request %s: %s", rq.Token, f.String()))
			}
			// bounded time, counted from the moment the request was handed to MOSN. The statement asks for
			// "bounded", not for a particular bound: an attempt that is under way when the global timer fires
			// may still complete the request (the callback gives way to the retry being set up), so the bound
			// checked is the route timeout plus the retry cycles (10ms back-off + per-try timeout) MOSN can
			// still run: retryState grants max(3, num_retries) retries
			// (HTTP/1 handles the requests of a connection one after the other: a pipelined request's
			// time starts when its predecessor has been answered)
			start := d.SentAtMs[k]
			if k > 0 && sc.Proto != "Http2" && len(d.Answers[k-1]) > 0 && d.Answers[k-1][0].AtMs > start {
				start = d.Answers[k-1][0].AtMs
			}
			// (every deviation may let one timer fire - and the virtual clock jump by up to a route timeout -
			// while the request's own goroutine could have run: that is the scheduler starving a thread,
			// not MOSN being late)
			if lim := c03hTimeBound(sc) + int64(r.Cost*sc.RouteTimeoutMs); c03hTimeBound(sc) > 0 && f.AtMs-start > lim {
				report("response later than the route timeout plus every retry cycle that could still run", fmt.Sprintf("request %s handed to MOSN at %dms, answered at %dms, bound %dms: %s", rq.Token, start, f.AtMs, lim, f.String()))
			}
			// nothing may be sent upstream for this request after its response went downstream
			for ui, u := range obs.Ups {
				for _, uf := range u.Requests {
					if uf.token() == rq.Token && uf.Seq > f.Seq {
						report("upstream attempt written after the downstream response", fmt.Sprintf("request %s: response seq %d, upstream request on conn %d seq %d", rq.Token, f.Seq, ui, uf.Seq))
					}
				}
			}
		}
	}
	for ui, u := range obs.Ups {
		if u.Garbage != "" {
			report("undecodable bytes written upstream", fmt.Sprintf("connection %d: %s", ui, u.Garbage))
		}
		if !u.Conn.IsClosed() && u.Conn.Connected() {
			open++
		}
	}
	if !silent {
		if len(reqBlocked) > 0 {
			report("proxy goroutine blocked forever although the request was answered", strings.Join(reqBlocked, "; "))
		}
		if obs.Active != 0 {
			report("proxy still tracks an active stream although the request was answered", fmt.Sprintf("activeStreams=%d %v", obs.Active, obs.Stuck))
		}
		// one serve goroutine per open connection may wait for the next message; any further one is a goroutine
		// that outlived its connection
		if len(serveBlocked) > open {
			report("connection goroutine left blocked after its connection was closed", fmt.Sprintf("%d connections open, %d serve goroutines blocked: %v", open, len(serveBlocked), serveBlocked))
		}
	}
}

// c03hTimeBound is the virtual time (ms) within which every request must have its reply.
func c03hTimeBound(sc *hhScenario) int64 {
	if sc.RouteTimeoutMs <= 0 {
		return 0
	}
	retries := 3
	if sc.NumRetries > retries {
		retries = sc.NumRetries
	}
	return int64(sc.RouteTimeoutMs + (retries+1)*(10+sc.TryTimeoutMs))
}

// c03hStatusClass keeps scripted statuses (which carry the request index) out of finding keys.
func c03hStatusClass(st int, sc *hhScenario) int {
	for i := range sc.Requests {
		if st == hhOKStatus(i) {
			return 200
		}
		if st == hhErrStatus(i) {
			return 520
		}
	}
	return st
}

func c03hRunScenario(p *vreport.Part, sc hhScenario, replay bool, deadline time.Time, maxExecs int) bool {
	obs := &hhObs{}
	opts := vrt.Options{Bound: sc.Bound, Delay: true, MaxSteps: 200000, Deadline: deadline, Trace: os.Getenv("VERIF_DEBUG") == "2" || os.Getenv("VERIF_TRACE_VIOL") != ""}
	// coverage must not depend on machine speed: the search is cut by an execution cap
	// (deterministic DFS order), the deadline is only a safety net
	opts.MaxExecs = maxExecs
	if hhDebug() {
		opts.MaxExecs = 1
	}
	if c, err := strconv.Atoi(os.Getenv("VERIF_C03H_CAP")); err == nil {
		opts.MaxExecs = c // experiments only
	}
	if replay {
		opts.Replay = true
		opts.Prefix = sc.Choices
	}
	st := vrt.Explore(opts, func() {
		c03EndMs = 0
		hhBody(&sc, obs)
		c03EndMs = int64(vrt.Now() / time.Millisecond)
	}, func(r *vrt.Result) {
		p.Eval()
		if hhDebug() {
			fmt.Printf("EXEC %s\n  outcome=%s\n  log=%v active=%d\n", r, hhOutcome(obs), obs.Log, obs.Active)
			for _, l := range r.Trace {
				fmt.Println("   ", l)
			}
		}
		outcome := hhOutcome(obs)
		p.Distinct(sc.Name + "|" + outcome + "|" + strings.Join(obs.Log, ","))
		p.Outcome(sc.Name + "|" + outcome)
		cc := sc
		cc.Choices = r.Choices
		if p.WantSample() {
			p.Sample(map[string]interface{}{"scenario": sc.Name, "schedule": r.Choices, "outcome": outcome})
		}
		c03hCheck(&sc, obs, r, func(kind, detail string) {
			if os.Getenv("VERIF_TRACE_VIOL") != "" {
				fmt.Printf("VIOL %s: %s\nEXEC %s\n  log=%v\n", kind, detail, r, obs.Log)
				for _, l := range r.Trace {
					fmt.Println("   ", l)
				}
				os.Exit(3)
			}
			p.Violation(kind, "scenario "+sc.Name+": "+detail+fmt.Sprintf(" | schedule=%v", r.Choices), cc)
		})
	})
	p.AddTraces(st.Executions)
	p.Count("executions_with_deadlock", st.Deadlocks)
	if os.Getenv("VERIF_STATS") != "" {
		fmt.Printf("scenario %-90s execs=%-7d maxdepth=%d complete=%v\n", sc.Name, st.Executions, st.MaxDepth, st.Complete)
	}
	return st.Complete
}

func TestVerifH1C03Terminal(t *testing.T) {
	c03hMain("http1-terminal-outcome-interleavings", "Http1")
}

func TestVerifH2C03Terminal(t *testing.T) {
	c03hMain("http2-terminal-outcome-interleavings", "Http2")
}

func c03hMain(part, proto string) {
	budget := time.Duration(vreport.Pick(600, 3000)) * time.Second // safety net per scenario, not a coverage bound
	p := vreport.Begin("C03", part, budget+time.Minute)
	var rc hhScenario
	if vreport.Replaying() {
		if vreport.ReplayFor("C03", part, &rc) {
			c03hRunScenario(p, rc, true, time.Time{}, 1)
			p.End(true, "replay", "replay of one recorded schedule")
		}
		return
	}
	scs := c03hScenarios(proto)
	si, sn := vreport.Shard()
	complete := true
	n := 0
	// every scenario: all schedules within `bound` deviations (the cap is a safety net that the
	// scenarios of the grid stay below in the quick tier); the core scenarios additionally one
	// deviation deeper, cut by a deterministic execution cap
	bound := vreport.Pick(1, 2)
	capFull, capDeep := vreport.Pick(20000, 50000), vreport.Pick(5000, 15000)
	var mine []hhScenario
	for i, sc := range scs {
		if only := os.Getenv("VERIF_C03H_ONLY"); only != "" {
			if sc.Name == only && si == 0 {
				mine = append(mine, sc)
			}
			continue
		}
		if i%sn == si {
			mine = append(mine, sc)
		}
	}
	deep := 0
	for _, sc := range mine {
		sc.Bound = bound
		if b, err := strconv.Atoi(os.Getenv("VERIF_C03H_BOUND")); err == nil {
			sc.Bound = b // experiments only
		}
		if d := hhDeterminism(sc); d != "" {
			vreport.HarnessError("C03", part, "nondeterministic scenario "+sc.Name+": "+d)
			complete = false
			continue
		}
		if !c03hRunScenario(p, sc, false, time.Now().Add(budget), capFull) {
			complete = false
			p.Count("scenarios_cut_by_execution_cap_or_deadline", 1)
		}
		n++
		if c03hCore(&sc) && os.Getenv("VERIF_C03H_BOUND") == "" {
			sc.Bound = bound + 1
			deep++
			if !c03hRunScenario(p, sc, false, time.Now().Add(budget), capDeep) {
				p.Count("core_scenarios_deeper_search_cut_by_execution_cap", 1)
			}
		}
	}
	p.Note("scenarios", n)
	p.End(complete, fmt.Sprintf("%d "+proto+" scenarios (this shard), all schedules of workers / stream connection goroutines / timers / clients / upstream peers with <=%d deviations from the default scheduler (delay bounding; safety cap %d executions per scenario); %d core scenarios additionally with <=%d deviations, first %d executions in DFS order (not exhaustive); timers fire in virtual-deadline order", n, bound, capFull, deep, bound+1, capDeep),
		"scenario grid {GET,POST+body}x{retry policy}x{per-try timeout}x{per-attempt upstream script: ok, 5xx, close, silent}x{client disconnect: none, after sending, after the request reached an upstream} + early responses (retriable 5xx x silent retry x no per-try timeout, GET and POST+body: only the route timeout can complete the request; an unanswered request at rest before the route timeout elapsed on the virtual clock is its own finding class) + connect failures, send failure, no route/no host/unhealthy, overflow, split / truncated / Connection: close replies, replies racing the timers, keep-alive and pipelined / concurrent second requests (HTTP/2: RST_STREAM, replies on finished / unknown streams instead of the Connection: close cases); one evaluation = one complete execution of the real proxy + HTTP stream and pool code under one schedule; distinct = distinct (scenario, downstream responses, upstream attempts, peer actions)")
}
