//go:build verif

package proxy

// C02 (part B2): a decoded frame that MOSN writes more than once keeps its own
// bytes. A request that is retried is encoded and written once per attempt; the
// bolt codec forwards the frame as it was received (the pooled buffer it was
// decoded into, only the request id patched in place) and the connection gives
// one reference to that buffer back after every write. Whatever MOSN decodes,
// recycles or allocates between two attempts - another request of the same size
// arriving on the downstream connection, the replies to earlier attempts, the
// read buffer of a fresh upstream connection - attempt k must carry the header
// AND body of the request it belongs to, and each client must get the answer
// produced for its own request.
//
// Family: request A (retry budget N) whose first k attempts fail (connection
// closed by the upstream after the write / retriable error reply / per-try
// timeout) and request B, of the same length, which the client sends once
// attempt i of A is on the upstream wire (every i in 1..k), answered or never
// answered. The harness' own frame encoder / parser keep their hands off MOSN's
// buffer pools (hpScenario.PoolNeutral), the fake connection returns every
// written buffer to the pool as network.connection does, the pools are emptied
// before every execution and the collector is off during it, so that pool reuse
// is a function of the execution alone.

import (
	"fmt"
	"os"
	"runtime"
	"runtime/debug"
	"strings"
	"testing"
	"time"

	"mosn.io/api"
	"mosn.io/mosn/pkg/protocol/xprotocol/bolt"
	"mosn.io/mosn/pkg/verifrt/vfake"
	"mosn.io/mosn/pkg/verifrt/vreport"
	"mosn.io/pkg/buffer"
)

const (
	c02bTokA = "tA"
	c02bTokB = "tB"
)

// failure kinds of A's failing attempts
const (
	c02bClose   = "close"   // upstream closes the connection after receiving the attempt (reset -> retry)
	c02bErr     = "err"     // retriable error reply (5xx)
	c02bTimeout = "timeout" // never answered: per-try timeout -> retry
)

func c02bScenario(budget int, kinds []string, bAfter int, bScript string, hosts int) hpScenario {
	sc := hpScenario{Hosts: hosts, RouteTimeoutMs: 1000, RetryOn: true, NumRetries: budget, PoolNeutral: true}
	var script []string
	settle := false
	for _, k := range kinds {
		switch k {
		case c02bClose:
			script = append(script, upClose)
			settle = true
		case c02bErr:
			script = append(script, upReply5xx)
		case c02bTimeout:
			script = append(script, upSilent)
			sc.TryTimeoutMs = 100
		}
	}
	script = append(script, upReply200)
	sc.Requests = []hpRequest{
		{Token: c02bTokA, Body: true, Script: script},
		{Token: c02bTokB, Body: true, Script: []string{bScript}, AfterToken: c02bTokA, AfterAttempts: bAfter, AfterSettle: settle},
	}
	sc.Name = hpScenarioName(&sc) + fmt.Sprintf(" hosts=%d retried frame keeps its bytes", hosts)
	return sc
}

// c02bKindSets: the sequences of failure kinds of A's k failing attempts when B arrives after attempt
// bAfter. A connection close resets every stream of the connection in the iteration order of a Go map
// (streamConn.Reset; not under the scheduler's control in rewrite set "proxy"), so the family keeps
// closes to attempts <= bAfter and lets B arrive only once the close was delivered (AfterSettle): at
// most one stream is in flight on a connection that is closed.
func c02bKindSets(k, bAfter int) [][]string {
	uni := func(kind string) []string {
		s := make([]string, k)
		for i := range s {
			s[i] = kind
		}
		return s
	}
	sets := [][]string{uni(c02bErr), uni(c02bTimeout)}
	cl := uni(c02bErr)
	for i := 0; i < bAfter; i++ {
		cl[i] = c02bClose
	}
	sets = append(sets, cl)
	if !vreport.Thorough() {
		return sets
	}
	ct := uni(c02bTimeout)
	for i := 0; i < bAfter; i++ {
		ct[i] = c02bClose
	}
	sets = append(sets, ct)
	if k > 3 {
		return sets
	}
	// thorough, k <= 3: every sequence of the three kinds with closes at attempts <= bAfter only
	all := []string{c02bClose, c02bErr, c02bTimeout}
	n := 1
	for i := 0; i < k; i++ {
		n *= len(all)
	}
	for x := 0; x < n; x++ {
		s := make([]string, k)
		ok := true
		for i, y := 0, x; i < k; i, y = i+1, y/len(all) {
			s[i] = all[y%len(all)]
			if s[i] == c02bClose && i >= bAfter {
				ok = false
			}
		}
		dup := false
		for _, o := range sets {
			if strings.Join(o, ",") == strings.Join(s, ",") {
				dup = true
			}
		}
		if ok && !dup {
			sets = append(sets, s)
		}
	}
	return sets
}

// c02bCase: a scenario of the family; Core = member of the quick tier's family (searched deeper in the
// thorough tier).
type c02bCase struct {
	sc   hpScenario
	core bool
}

func c02bScenarios() []c02bCase {
	var out []c02bCase
	// MOSN grants max(3, num_retries) retries (proxy.newRetryState): num_retries 2 = four writes of A at most
	budgets := []int{2}
	if vreport.Thorough() {
		budgets = []int{2, 4}
	}
	for _, budget := range budgets {
		eff := budget
		if eff < 3 {
			eff = 3
		}
		// k failing attempts: 1..eff (A is answered by attempt k+1) and eff+1 (A is never answered: MOSN's
		// own error reply)
		for k := 1; k <= eff+1; k++ {
			if budget > 3 && k < eff {
				continue // the larger budget only where it differs: A written budget+1 times
			}
			for bAfter := 1; bAfter <= k; bAfter++ {
				quick := !(k == eff+1 && bAfter < eff) // quick: with every attempt failing, B only after one of the last two
				if !vreport.Thorough() && !quick {
					continue
				}
				for ki, kinds := range c02bKindSets(k, bAfter) {
					for _, bScript := range []string{upReply200, upSilent} {
						for _, hosts := range []int{1, 2} {
							if hosts == 2 && (!vreport.Thorough() || ki >= 3) {
								continue // two hosts: thorough, with the quick tier's failure sequences
							}
							out = append(out, c02bCase{sc: c02bScenario(budget, kinds, bAfter, bScript, hosts), core: quick && ki < 3 && hosts == 1 && budget == 2})
						}
					}
				}
			}
		}
	}
	return out
}

// c02bTrack watches the IoBuffer objects handed to the fake connections' Write: the vacuity guard of
// the family (an execution in which one pooled IoBuffer object went over the wire holding two different
// frames is one in which a buffer MOSN gave back to the pool was handed out again).
type c02bTrack struct {
	seen   map[buffer.IoBuffer]string
	reused bool
	writes int
}

type c02bFilter struct{ t *c02bTrack }

func (f c02bFilter) OnWrite(bufs []buffer.IoBuffer) api.FilterStatus {
	for _, b := range bufs {
		if b == nil || b.Len() == 0 {
			continue
		}
		f.t.writes++
		d := b.Bytes()
		// the frame without its id field
		sig := string(d)
		if len(d) >= 9 {
			sig = string(d[:5]) + string(d[9:])
		}
		if old, ok := f.t.seen[b]; ok && old != sig {
			f.t.reused = true
		}
		f.t.seen[b] = sig
	}
	return api.Continue
}

var c02bCur *c02bTrack

// c02bInstall arms the per-execution set-up of the family (pool hygiene, write tracking).
func c02bInstall() (restore func()) {
	gc := debug.SetGCPercent(-1)
	hpExecPrologue = func() {
		// empty every sync.Pool of the process (primary -> victim -> dropped): each execution starts with
		// the pools of a fresh process, nothing is collected (no pool is cleared) while it runs
		runtime.GC()
		runtime.GC()
	}
	hpRunHook = func(h *hpRun) {
		t := &c02bTrack{seen: map[buffer.IoBuffer]string{}}
		c02bCur = t
		inner := vfake.OnCreate
		vfake.OnCreate = func(c *vfake.Conn) {
			if len(h.obs.Ups) == 0 && h.obs.Down != nil {
				h.obs.Down.FilterManager().AddWriteFilter(c02bFilter{t})
			}
			c.FilterManager().AddWriteFilter(c02bFilter{t})
			inner(c)
		}
	}
	return func() {
		hpExecPrologue, hpRunHook, c02bCur = nil, nil, nil
		debug.SetGCPercent(gc)
	}
}

// c02bExtra: oracles on top of the correlation oracle of c02Run.
func c02bExtra(p *vreport.Part, sc *hpScenario, obs *hpObs, report func(kind, detail string)) {
	if t := c02bCur; t != nil {
		if t.reused {
			p.Count("executions_with_a_recycled_buffer_reused", 1)
		}
	}
	// everything MOSN wrote upstream is a sequence of whole request frames
	var seqA []uint64
	var seqB uint64
	for ui, u := range obs.Ups {
		w := u.Conn.Written()
		frames, n, garbage := hpParse(w)
		if garbage != "" {
			report("undecodable bytes written upstream", fmt.Sprintf("conn %d: %s", ui, garbage))
		} else if n != len(w) {
			report("undecodable bytes written upstream", fmt.Sprintf("conn %d: %d trailing bytes that are not a complete frame", ui, len(w)-n))
		}
		for _, f := range frames {
			if !f.IsRequest {
				report("a frame that is not a request was written upstream", fmt.Sprintf("conn %d: response frame id=%d status=%d header token %q body token %q", ui, f.ID, f.Status, f.Token, f.BodyToken))
			}
		}
		ids := map[uint32]string{}
		for _, f := range u.Requests {
			if o, dup := ids[f.ID]; dup && o != f.Token {
				report("two different requests were written upstream under the same id", fmt.Sprintf("conn %d: id %d carries token %q and token %q", ui, f.ID, o, f.Token))
			}
			ids[f.ID] = f.Token
			switch f.Token {
			case c02bTokA:
				seqA = append(seqA, f.Seq)
			case c02bTokB:
				if seqB == 0 || f.Seq < seqB {
					seqB = f.Seq
				}
			}
		}
	}
	// vacuity guard: B went upstream between two attempts of A
	if seqB != 0 {
		before, after := 0, 0
		for _, s := range seqA {
			if s < seqB {
				before++
			} else {
				after++
			}
		}
		if before > 0 && after > 0 {
			p.Count("executions_with_B_forwarded_between_two_attempts_of_A", 1)
		}
		if before >= 2 && after > 0 {
			p.Count("executions_with_B_forwarded_between_attempt_2_or_later_and_the_next", 1)
		}
	}
}

// c02bSelfTest: the hand-written frame encoder / parser agree with the codec-based ones.
func c02bSelfTest() string {
	defer func() { hpPoolNeutral = false }()
	for _, r := range []hpRequest{{Token: c02bTokA, Body: true}, {Token: c02bTokB}, {Token: "x", Oneway: true, Body: true, TimeoutMs: 70, Headers: map[string]string{"k": "v"}}} {
		hpPoolNeutral = false
		want := hpBoltRequest(7, r)
		fw, nw, gw := hpParse(want)
		hpPoolNeutral = true
		got := hpBoltRequest(7, r)
		fg, ng, gg := hpParse(want)
		if string(want) != string(got) {
			return fmt.Sprintf("request %+v: raw encoder %x, codec %x", r, got, want)
		}
		if fmt.Sprint(fw, nw, gw) != fmt.Sprint(fg, ng, gg) {
			return fmt.Sprintf("request %+v: raw parser %v, codec %v", r, fg, fw)
		}
	}
	for _, body := range []bool{false, true} {
		hpPoolNeutral = false
		want := hpBoltResponse(9, bolt.ResponseStatusServerException, c02bTokA, body)
		fw, nw, gw := hpParse(append(append([]byte(nil), want...), want[:10]...))
		hpPoolNeutral = true
		got := hpBoltResponse(9, bolt.ResponseStatusServerException, c02bTokA, body)
		fg, ng, gg := hpParse(append(append([]byte(nil), want...), want[:10]...))
		if string(want) != string(got) {
			return fmt.Sprintf("response body=%v: raw encoder %x, codec %x", body, got, want)
		}
		if fmt.Sprint(fw, nw, gw) != fmt.Sprint(fg, ng, gg) {
			return fmt.Sprintf("response body=%v: raw parser %v, codec %v", body, fg, fw)
		}
	}
	return ""
}

func c02bPickS(q, th string) string {
	if vreport.Thorough() {
		return th
	}
	return q
}

func TestVerifC02RetriedFrameKeepsItsBytes(t *testing.T) {
	const part = "proxy-retry-buffer-lifetime"
	p := vreport.Begin("C02", part, time.Hour)
	restore := c02bInstall()
	defer restore()
	var rc hpScenario
	if vreport.Replaying() {
		if vreport.ReplayFor("C02", part, &rc) {
			c02RunX(p, rc, true, 0, c02bExtra)
			p.End(true, "replay", "replay of one recorded schedule")
		}
		return
	}
	if d := c02bSelfTest(); d != "" {
		vreport.HarnessError("C02", part, "harness frame codec self-test: "+d)
		p.End(false, "self-test failed", "")
		return
	}
	si, sn := vreport.Shard()
	complete := true
	n := 0
	all := c02bScenarios()
	idx := [2]int{}
	for _, cs := range all {
		sc := cs.sc
		// shards: the core scenarios (searched deeper in the thorough tier) and the others are dealt out separately
		ci := 0
		if cs.core {
			ci = 1
		}
		i := idx[ci]
		idx[ci]++
		if only := os.Getenv("VERIF_C02_ONLY"); only != "" {
			if !strings.Contains(sc.Name, only) || si != 0 {
				continue
			}
		} else if (i+sn/2)%sn != si {
			continue
		}
		// every schedule with <=1 deviation; thorough: the quick tier's scenarios also with <=2
		// deviations (first 4000 executions)
		bounds := []int{1}
		if vreport.Thorough() && cs.core {
			bounds = []int{1, 2}
		}
		sc.Bound = 1
		if d := hpDeterminism(sc); d != "" {
			vreport.HarnessError("C02", part, "nondeterministic scenario "+sc.Name+": "+d)
			complete = false
			continue
		}
		for _, bound := range bounds {
			sc.Bound = bound
			if !c02RunX(p, sc, false, 4000, c02bExtra) {
				if bound == 1 {
					complete = false
				}
				p.Count(fmt.Sprintf("scenarios_cut_by_execution_cap_at_%d_deviations", bound), 1)
			}
		}
		n++
	}
	p.Note("scenarios", n)
	p.End(complete, fmt.Sprintf("%d scenarios (this shard of %d): request A (num_retries 2%s; MOSN grants max(3, num_retries) retries) whose first k=1..retries+1 attempts fail {all by a retriable error reply, all by the per-try timeout, the first i by the upstream closing the connection after the write and the rest by an error reply%s} and request B (same frame length, own token) sent by the client once attempt i of A is on the upstream wire, i=1..k, B answered / never answered%s; all schedules with <=1 deviation (delay bounding)%s", n, len(all), c02bPickS("", " or 4"), c02bPickS("", "; k<=3: every sequence of the three kinds with closes at attempts <= i, k>3: also closes then per-try timeouts"), c02bPickS("; one upstream host", "; one or two upstream hosts"), c02bPickS("", ", the quick tier's scenarios also with <=2 deviations (first 4000 executions each; not counted in 'exhaustive')")),
		"the correlation oracle of part proxy-correlation (every frame written downstream carries, in header and body, the token of the request whose id it answers, at most once; every request frame written upstream carries header and body of one exchange) plus: everything written upstream is a sequence of whole request frames, no two different requests under one id on one upstream connection; pools emptied before and no collection during an execution, the harness' own frame codec does not use MOSN's buffer pools; counters executions_with_* are the vacuity guards (a pooled buffer really was reused; B really went upstream between two attempts of A)")
}
