//go:build verif

package proxy

// H-PROXY: the shared full-stack harness (DESIGN.md section 3). A real proxy
// filter on a fake downstream connection, real routers, real cluster manager,
// real load balancer, real xprotocol pools and stream clients on fake upstream
// connections; the goroutines of the code under test run as threads of the
// controlled scheduler (vrt). Observations are taken from the outside: bytes on
// the fake connections, connection events, exported resource/gauge accessors.

import (
	"context"
	"encoding/binary"
	stdjson "encoding/json"
	"fmt"
	"os"
	"sort"
	"strings"
	"sync"
	"time"

	"mosn.io/api"
	v2 "mosn.io/mosn/pkg/config/v2"
	"mosn.io/mosn/pkg/log"
	xproto "mosn.io/mosn/pkg/protocol/xprotocol"
	"mosn.io/mosn/pkg/protocol/xprotocol/bolt"
	"mosn.io/mosn/pkg/protocol/xprotocol/boltv2"
	"mosn.io/mosn/pkg/router"
	xstream "mosn.io/mosn/pkg/stream/xprotocol"
	"mosn.io/mosn/pkg/streamfilter"
	"mosn.io/mosn/pkg/types"
	"mosn.io/mosn/pkg/upstream/cluster"
	"mosn.io/mosn/pkg/verifrt/vfake"
	"mosn.io/mosn/pkg/verifrt/vrt"
	"mosn.io/pkg/buffer"
	"mosn.io/pkg/variable"
)

// ---------------------------------------------------------------------------
// scenario description (JSON-serialisable: it is the replay case)

// Outcome of one upstream attempt, as scripted for the upstream peer.
const (
	upReply200    = "reply-ok"                     // bolt success response
	upReply5xx    = "reply-err"                    // bolt response with status ServerException (maps to 500)
	upReplyBusy   = "reply-busy"                   // bolt ServerThreadpoolBusy (maps to 503)
	upClose       = "remote-close"                 // upstream closes the connection after receiving the request
	upSilent      = "silent"                       // never answers
	upConnectFail = "connect-fail"                 // the connection to this attempt's host fails to connect
	upConnectTO   = "connect-timeout"              // ... times out
	upReplySplit  = "reply-ok-split"               // success response delivered in two reads (header part / rest)
	upReplyDup    = "reply-ok-dup"                 // the success response is delivered twice
	upReplyUnk    = "reply-unknown-then-ok"        // a response with an id nobody is waiting for, then the real one
	upLateOK      = "late-ok"                      // answers only after the downstream already got its (timeout) reply: a late reply
	upReplyNoBody = "reply-ok-nobody"              // success response without a body
	upUnkNoBody   = "reply-unknown-then-ok-nobody" // a response (with body) nobody waits for, then the real, body-less one
	upDelayOK     = "delay-ok"                     // success response ReplyDelayMs of virtual time after the request was seen (C11)
	upDelayClose  = "delay-close"                  // the upstream closes the connection ReplyDelayMs of virtual time after the request was seen
)

type hpRequest struct {
	Token  string `json:"token"`            // unique marker carried in a header and in the body
	Oneway bool   `json:"oneway,omitempty"` // bolt oneway request
	Body   bool   `json:"body,omitempty"`
	// per-attempt upstream script for this request (attempt k uses Script[k], the last entry repeats)
	Script []string `json:"script"`
	// bolt timeout field in ms (codec-supplied timeout; 0 = absent)
	TimeoutMs int `json:"timeout_ms,omitempty"`
	// extra request headers
	Headers map[string]string `json:"headers,omitempty"`
	// optional (default: old behaviour): the client sends this request only once AfterAttempts upstream
	// request frames carrying the token AfterToken have been written (or that request was answered /
	// the connection closed): a request that arrives BETWEEN two attempts of another one
	AfterToken    string `json:"after_token,omitempty"`
	AfterAttempts int    `json:"after_attempts,omitempty"`
	// ... and, with AfterSettle, once everything but timers came to rest after that (the peer acted on
	// the attempt, a closed connection's streams were reset, the retry is waiting for its back-off)
	AfterSettle bool `json:"after_settle,omitempty"`
}

type hpScenario struct {
	Name           string      `json:"name"`
	Requests       []hpRequest `json:"requests"`
	OneChunk       bool        `json:"one_chunk,omitempty"`         // all requests delivered in one read
	Sequential     bool        `json:"sequential,omitempty"`        // request i+1 is sent only after the response to request i arrived
	UpBreakAtWrite int         `json:"up_break_at_write,omitempty"` // the n-th write to an upstream connection (1-based, over all of them) finds the peer gone: it fails, the close event follows
	Settle         bool        `json:"settle,omitempty"`            // with Sequential: ... and after the proxy went idle (its clean-up of request i ran)
	Reverse        bool        `json:"reverse,omitempty"`           // the upstream answers only once all requests arrived, last request first
	RouteTimeoutMs int         `json:"route_timeout_ms,omitempty"`
	TryTimeoutMs   int         `json:"try_timeout_ms,omitempty"`
	RetryOn        bool        `json:"retry_on,omitempty"`
	NumRetries     int         `json:"num_retries,omitempty"`
	RetryCodes     []uint32    `json:"retry_codes,omitempty"`
	Hosts          int         `json:"hosts"`
	// hosts whose connection fails to connect (index into the host list) / times out
	FailHosts      []int        `json:"fail_hosts,omitempty"`
	TimeoutHosts   []int        `json:"timeout_hosts,omitempty"`
	MaxRequests    uint32       `json:"max_requests,omitempty"`
	MaxRetries     uint32       `json:"max_retries,omitempty"`
	MaxConnections uint32       `json:"max_connections,omitempty"`
	DownDisconnect bool         `json:"down_disconnect,omitempty"` // the client closes the connection at some point after sending
	NoRoute        bool         `json:"no_route,omitempty"`        // request does not match any route
	NoHosts        bool         `json:"no_hosts,omitempty"`        // cluster without hosts
	AllUnhealthy   bool         `json:"all_unhealthy,omitempty"`
	Filters        []hpFilter   `json:"filters,omitempty"`
	FiltersPer     [][]hpFilter `json:"filters_per,omitempty"` // chain of the k-th stream created (overrides Filters)
	// extra JSON merged into the route's "route" action (request_headers_to_add, …) and a direct response
	RouteExtra   map[string]interface{} `json:"route_extra,omitempty"`
	DirectStatus int                    `json:"direct_status,omitempty"`
	// the host that served the first attempt is marked unhealthy (active health check failed) just before
	// the peer acts on that attempt: a retry that re-runs host selection must avoid it
	HijackCode     int    `json:"hijack_code,omitempty"` // status the scripted filters answer with (default 404)
	EjectFirstHost bool   `json:"eject_first_host,omitempty"`
	DirectBody     string `json:"direct_body,omitempty"`
	ReplyDelayMs   int    `json:"reply_delay_ms,omitempty"` // virtual delay of a "delay-ok" upstream reply (C11)
	// optional (default: old behaviour): the harness' own frame encoder / parser do not touch the
	// process-wide buffer pools (mosn.io/pkg/buffer) MOSN's codecs draw from - a client and an upstream
	// in other processes do not take or return MOSN's pooled buffers (see hpParseRaw)
	PoolNeutral bool  `json:"pool_neutral,omitempty"`
	Bound       int   `json:"bound"`
	Choices     []int `json:"choices,omitempty"`
}

type hpFilter struct {
	Phase   string `json:"phase"`   // before-route | after-route | after-choose-host | send
	Verdict string `json:"verdict"` // continue | stop | terminate | hijack | hijack-stop | direct | rematch | rechoose
}

// ---------------------------------------------------------------------------
// observations

type hpFrame struct {
	IsRequest bool
	ID        uint32
	Status    uint16
	Token     string // header "token"
	BodyToken string
	Oneway    bool
	Heartbeat bool
	Raw       int
	Seq       uint64 // global write sequence number of the Write call that completed the frame
	AtMs      int64  // virtual time (ms) of that Write call
	Headers   map[string]string
}

type hpUpConn struct {
	Conn     *vfake.Conn
	Host     int
	Requests []hpFrame // request frames seen so far (decoded from the written bytes)
	parsed   int       // bytes of Written() already parsed
	answered int       // requests already acted upon by the peer (in arrival order, unless Reverse)
	done     map[int]bool
}

type hpObs struct {
	Down        *vfake.Conn
	DownFrames  []hpFrame
	DownGarbage string
	Ups         []*hpUpConn
	Attempts    map[string]int // token -> number of upstream request frames carrying it
	Log         []string
	ResCur      map[string]int64 // resource name -> Cur() at the end
	ResMin      map[string]int64 // minimum observed at scheduling points
	ResMax      map[string]int64
	Active      int              // proxy active streams at the end
	Gauges      map[string]int64 // gauge deltas (end - start)
	FilterLog   []string
	Recovered   []string // panics recovered by the proxy's own handlers (from the proxy log)
	Stuck       []string // internal-state signature of every stream the proxy still tracks at quiescence
}

// ---------------------------------------------------------------------------
// one-time global initialisation

var hpOnce sync.Once

type hpPool struct{}

func (hpPool) Schedule(task func())       { vrt.GoNamed("worker", task) }
func (hpPool) ScheduleAlways(task func()) { vrt.GoNamed("worker", task) }
func (hpPool) ScheduleAuto(task func())   { vrt.GoNamed("worker", task) }
func (hpPool) Init()                      {}

func hpInit() {
	hpOnce.Do(func() {
		vfake.Install()
		if os.Getenv("VERIF_DEBUG") == "3" {
			log.DefaultLogger.SetLogLevel(log.DEBUG)
			log.Proxy.SetLogLevel(log.DEBUG)
		}
		initGlobalStats()
		pool = hpPool{}
		xproto.RegisterXProtocolAction(xstream.NewConnPool, xstream.NewStreamFactory, func(codec api.XProtocolCodec) {})
		if err := xproto.RegisterXProtocolCodec(&bolt.XCodec{}); err != nil {
			panic(err)
		}
		if err := xproto.RegisterXProtocolCodec(&boltv2.XCodec{}); err != nil {
			panic(err)
		}
	})
}

const hpListener = "verifListener"
const hpRouterName = "verifRouter"
const hpCluster = "verifCluster"

func hpHostAddr(i int) string { return fmt.Sprintf("127.0.0.1:%d", 21000+i) }

func hpHostIndex(addr string) int {
	for i := 0; i < 16; i++ {
		if hpHostAddr(i) == addr {
			return i
		}
	}
	return -1
}

func hpRouterConfig(sc *hpScenario) *v2.RouterConfiguration {
	action := map[string]interface{}{"cluster_name": hpCluster}
	if sc.RouteTimeoutMs > 0 {
		action["timeout"] = fmt.Sprintf("%dms", sc.RouteTimeoutMs)
	}
	if sc.RetryOn || sc.NumRetries > 0 || sc.TryTimeoutMs > 0 {
		rp := map[string]interface{}{"retry_on": sc.RetryOn, "num_retries": sc.NumRetries}
		if sc.TryTimeoutMs > 0 {
			rp["retry_timeout"] = fmt.Sprintf("%dms", sc.TryTimeoutMs)
		}
		if len(sc.RetryCodes) > 0 {
			rp["status_codes"] = sc.RetryCodes
		}
		action["retry_policy"] = rp
	}
	for k, v := range sc.RouteExtra {
		action[k] = v
	}
	routerEntry := map[string]interface{}{
		"match": map[string]interface{}{"headers": []interface{}{map[string]interface{}{"name": "service", "value": "svc"}}},
		"route": action,
	}
	if sc.DirectStatus != 0 {
		routerEntry["direct_response"] = map[string]interface{}{"status": sc.DirectStatus, "body": sc.DirectBody}
	}
	cfg := map[string]interface{}{
		"router_config_name": hpRouterName,
		"virtual_hosts": []interface{}{map[string]interface{}{
			"name":    "vh",
			"domains": []string{"*"},
			"routers": []interface{}{routerEntry},
		}},
	}
	b, _ := stdjson.Marshal(cfg)
	rc := &v2.RouterConfiguration{}
	if err := stdjson.Unmarshal(b, rc); err != nil {
		panic(err)
	}
	return rc
}

func hpClusterConfig(sc *hpScenario) (v2.Cluster, []v2.Host) {
	c := v2.Cluster{Name: hpCluster, ClusterType: v2.SIMPLE_CLUSTER, LbType: v2.LB_ROUNDROBIN}
	if sc.MaxRequests > 0 || sc.MaxRetries > 0 || sc.MaxConnections > 0 {
		c.CirBreThresholds = v2.CircuitBreakers{Thresholds: []v2.Thresholds{{MaxRequests: sc.MaxRequests, MaxRetries: sc.MaxRetries, MaxConnections: sc.MaxConnections}}}
	}
	var hosts []v2.Host
	if !sc.NoHosts {
		for i := 0; i < sc.Hosts; i++ {
			hosts = append(hosts, v2.Host{HostConfig: v2.HostConfig{Address: hpHostAddr(i), Weight: 1}})
		}
	}
	return c, hosts
}

// ---------------------------------------------------------------------------
// bolt frames

func hpBoltRequest(id uint32, r hpRequest) []byte {
	h := map[string]string{"service": "svc", "token": r.Token}
	for k, v := range r.Headers {
		h[k] = v
	}
	var body buffer.IoBuffer
	if r.Body {
		body = buffer.NewIoBufferString("body-of-" + r.Token)
	}
	req := bolt.NewRpcRequest(id, hpHeader(h), body)
	if r.Oneway {
		req.CmdType = bolt.CmdTypeRequestOneway
	}
	// bolt.NewRpcRequest presets Timeout=-1; the harness always states the codec-supplied
	// timeout explicitly (0 = absent, so that the route timeout applies)
	req.Timeout = int32(r.TimeoutMs)
	return hpEncode(req)
}

type hpHeader map[string]string

func (h hpHeader) Get(k string) (string, bool) { v, ok := h[k]; return v, ok }
func (h hpHeader) Set(k, v string)             { h[k] = v }
func (h hpHeader) Add(k, v string)             { h[k] = v }
func (h hpHeader) Del(k string)                { delete(h, k) }
func (h hpHeader) Range(f func(k, v string) bool) {
	keys := make([]string, 0, len(h))
	for k := range h {
		keys = append(keys, k)
	}
	sort.Strings(keys)
	for _, k := range keys {
		if !f(k, h[k]) {
			return
		}
	}
}
func (h hpHeader) Clone() api.HeaderMap {
	c := hpHeader{}
	for k, v := range h {
		c[k] = v
	}
	return c
}
func (h hpHeader) ByteSize() uint64 {
	var n uint64
	for k, v := range h {
		n += uint64(len(k) + len(v))
	}
	return n
}

func hpBoltResponse(id uint32, status uint16, token string, withBody bool) []byte {
	h := map[string]string{"token": token}
	var body buffer.IoBuffer
	if withBody {
		body = buffer.NewIoBufferString("resp-of-" + token)
	}
	return hpEncode(bolt.NewRpcResponse(id, status, hpHeader(h), body))
}

func hpEncode(frame interface{}) []byte {
	if hpPoolNeutral {
		return hpEncodeRaw(frame)
	}
	proto := (&bolt.XCodec{}).NewXProtocol(context.Background())
	b, err := proto.Encode(context.Background(), frame)
	if err != nil {
		panic(err)
	}
	out := append([]byte(nil), b.Bytes()...)
	return out
}

// hpParse decodes as many complete bolt frames as b holds; returns the frames
// and the number of bytes consumed. Undecodable bytes are reported as garbage.
func hpParse(b []byte) (frames []hpFrame, consumed int, garbage string) {
	if hpPoolNeutral {
		return hpParseRaw(b)
	}
	proto := (&bolt.XCodec{}).NewXProtocol(context.Background())
	buf := buffer.NewIoBufferBytes(append([]byte(nil), b...))
	for buf.Len() > 0 {
		before := buf.Len()
		f, err := proto.Decode(context.Background(), buf)
		if err != nil {
			return frames, consumed, fmt.Sprintf("undecodable bytes at offset %d: %v", consumed, err)
		}
		if f == nil {
			break
		}
		n := before - buf.Len()
		consumed += n
		fr := hpFrame{Raw: n, Headers: map[string]string{}}
		switch x := f.(type) {
		case *bolt.Request:
			fr.IsRequest = true
			fr.ID = x.RequestId
			fr.Oneway = x.CmdType == bolt.CmdTypeRequestOneway
			fr.Heartbeat = x.CmdCode == bolt.CmdCodeHeartbeat
			fr.Token, _ = x.Get("token")
			x.Range(func(k, v string) bool { fr.Headers[k] = v; return true })
			if x.Content != nil {
				fr.BodyToken = strings.TrimPrefix(x.Content.String(), "body-of-")
			}
		case *bolt.Response:
			fr.ID = x.RequestId
			fr.Status = x.ResponseStatus
			fr.Token, _ = x.Get("token")
			x.Range(func(k, v string) bool { fr.Headers[k] = v; return true })
			if x.Content != nil {
				fr.BodyToken = strings.TrimPrefix(x.Content.String(), "resp-of-")
			}
		default:
			return frames, consumed, fmt.Sprintf("unexpected frame type %T", f)
		}
		frames = append(frames, fr)
	}
	return
}

// hpSeqAt returns the global write sequence number of the Write call that
// delivered byte offset off (exclusive end of a frame) on conn c.
func hpSeqAt(c *vfake.Conn, end int) uint64 {
	n := 0
	for i, w := range c.Writes {
		n += len(w)
		if n >= end {
			return c.WriteSeq[i]
		}
	}
	return 0
}

// hpTimeAt is hpSeqAt for the virtual time (ms) of the write.
func hpTimeAt(c *vfake.Conn, end int) int64 {
	n := 0
	for i, w := range c.Writes {
		n += len(w)
		if n >= end {
			return int64(c.WriteAt[i] / 1e6)
		}
	}
	return -1
}

// ---------------------------------------------------------------------------
// running one execution of a scenario

type hpRun struct {
	sc       *hpScenario
	obs      *hpObs
	proxy    *proxy
	cm       types.ClusterManager
	upWrites int
	done     bool
	// per token: attempts seen upstream (assigned when the request frame is observed)
	attempt   map[string]int
	reqByTk   map[string]*hpRequest
	gauge0    map[string]int64
	healthPtr [8]*uint64
}

func (h *hpRun) logf(f string, a ...interface{}) { h.obs.Log = append(h.obs.Log, fmt.Sprintf(f, a...)) }

func hasInt(l []int, x int) bool {
	for _, v := range l {
		if v == x {
			return true
		}
	}
	return false
}

// hpBody is the body of thread 0.
func hpBody(sc *hpScenario, obs *hpObs) {
	hpInit()
	hpPoolNeutral = sc.PoolNeutral
	if hpExecPrologue != nil {
		hpExecPrologue()
	}
	h := &hpRun{sc: sc, obs: obs, attempt: map[string]int{}, reqByTk: map[string]*hpRequest{}}
	obs.Attempts = map[string]int{}
	for i := range sc.Requests {
		h.reqByTk[sc.Requests[i].Token] = &sc.Requests[i]
	}
	vfake.Reset()
	vfake.OnCreate = func(c *vfake.Conn) { h.onUpstreamConn(c) }
	if hpRunHook != nil {
		hpRunHook(h)
	}

	// fresh singletons
	if cm := cluster.GetClusterMngAdapterInstance().ClusterManager; cm != nil {
		if d, ok := cm.(interface{ Destroy() }); ok {
			d.Destroy()
		}
	}
	cc, hosts := hpClusterConfig(sc)
	h.cm = cluster.NewClusterManagerSingleton([]v2.Cluster{cc}, map[string][]v2.Host{hpCluster: hosts}, nil)
	if sc.AllUnhealthy {
		snap := h.cm.GetClusterSnapshot(context.Background(), hpCluster)
		snap.HostSet().Range(func(host types.Host) bool {
			host.SetHealthFlag(api.FAILED_ACTIVE_HC)
			return true
		})
	} else {
		// health flag words are process-global per address (cluster.healthStore): start every
		// execution with all conditions cleared, as a fresh process would
		for i := 0; i < 8; i++ {
			h.healthPtr[i] = cluster.GetHealthFlagPointer(hpHostAddr(i))
			*h.healthPtr[i] = 0
		}
	}
	rcfg := hpRouterConfig(sc)
	if sc.NoRoute {
		rcfg.VirtualHosts[0].Routers[0].Match.Headers[0].Value = "other"
	}
	if hpRouterHook != nil {
		hpRouterHook(sc, rcfg)
	}
	if err := router.GetRoutersMangerInstance().AddOrUpdateRouters(rcfg); err != nil {
		panic(err)
	}
	hpInstallFilters(sc, h)

	ctx := variable.NewVariableContext(context.Background())
	_ = variable.Set(ctx, types.VariableAccessLogs, []api.AccessLog{})
	_ = variable.Set(ctx, types.VariableListenerName, hpListener)
	_ = variable.Set(ctx, types.VarProtocolConfig, []api.ProtocolName{bolt.ProtocolName})
	down := vfake.NewServerSide("down")
	_ = variable.Set(ctx, types.VariableConnection, down)
	_ = variable.Set(ctx, types.VariableConnectionID, down.ID())
	obs.Down = down
	h.gauge0 = hpGauges(h)
	hpTimeoutBase = hpTimeoutCount(h.cm)
	p := NewProxy(ctx, &v2.Proxy{DownstreamProtocol: string(bolt.ProtocolName), UpstreamProtocol: string(bolt.ProtocolName), RouterConfigName: hpRouterName}).(*proxy)
	h.proxy = p
	down.FilterManager().AddReadFilter(p)
	down.FilterManager().InitializeReadFilters()

	// the downstream client: one reader thread delivering the requests, then (optionally) closing
	vrt.GoNamed("env:down-reader", func() {
		var all []byte
		for i, r := range sc.Requests {
			if r.AfterAttempts > 0 && !sc.OneChunk {
				tok, n := r.AfterToken, r.AfterAttempts
				vrt.WaitUntil("client: attempts of another request written upstream", func() bool {
					for _, o := range obs.Ups {
						h.parseUp(o)
					}
					return obs.Attempts[tok] >= n || h.downAnswered(tok) || down.IsClosed()
				})
				if r.AfterSettle {
					vrt.QuiesceNoTimers()
				}
			}
			b := hpBoltRequest(uint32(100+i), r)
			if sc.OneChunk {
				all = append(all, b...)
				continue
			}
			down.InjectRead(b)
			if sc.Sequential && !r.Oneway {
				want := i + 1
				vrt.WaitUntil("client: response to previous request", func() bool {
					fr, _, _ := hpParse(down.Written())
					if sc.Settle && p.activeStreams.Len() == 0 {
						// ended without a response (a filter terminated it): nothing to wait for
						return true
					}
					return len(fr) >= want || down.IsClosed()
				})
				if sc.Settle {
					// the proxy releases a request's resources after it wrote the response: a client that
					// wants the freed capacity has to give it that moment
					vrt.QuiesceNoTimers()
				}
			}
		}
		if sc.OneChunk {
			down.InjectRead(all)
		}
		if sc.DownDisconnect {
			down.RemoteClose()
		}
	})
	vrt.Quiesce()
	h.done = true
	// final observation
	frames, n, garbage := hpParse(down.Written())
	end := 0
	for i := range frames {
		end += frames[i].Raw
		frames[i].Seq = hpSeqAt(down, end)
		frames[i].AtMs = hpTimeAt(down, end)
	}
	obs.DownFrames = frames
	if garbage == "" && n != len(down.Written()) {
		garbage = fmt.Sprintf("%d trailing bytes that are not a complete frame", len(down.Written())-n)
	}
	obs.DownGarbage = garbage
	for _, u := range obs.Ups {
		h.parseUp(u)
	}
	obs.Active = p.activeStreams.Len()
	for e := p.activeStreams.Front(); e != nil; e = e.Next() {
		obs.Stuck = append(obs.Stuck, hpStuckSignature(e.Value.(*downStream)))
	}
	obs.ResCur = hpResources(h)
	g1 := hpGauges(h)
	obs.Gauges = map[string]int64{}
	for k, v := range g1 {
		obs.Gauges[k] = v - h.gauge0[k]
	}
}

func hpResources(h *hpRun) map[string]int64 {
	out := map[string]int64{}
	snap := h.cm.GetClusterSnapshot(context.Background(), hpCluster)
	if snap == nil {
		return out
	}
	rm := snap.ClusterInfo().ResourceManager()
	out["requests"] = rm.Requests().Cur()
	out["pending"] = rm.PendingRequests().Cur()
	out["retries"] = rm.Retries().Cur()
	out["connections"] = rm.Connections().Cur()
	return out
}

func hpGauges(h *hpRun) map[string]int64 {
	out := map[string]int64{}
	out["downstream_request_active"] = globalStats.DownstreamRequestActive.Count()
	if h.cm != nil {
		if snap := h.cm.GetClusterSnapshot(context.Background(), hpCluster); snap != nil {
			st := snap.ClusterInfo().Stats()
			out["upstream_request_active"] = st.UpstreamRequestActive.Count()
			out["upstream_connection_active"] = st.UpstreamConnectionActive.Count()
		}
	}
	return out
}

func (h *hpRun) parseUp(u *hpUpConn) {
	w := u.Conn.Written()
	frames, _, _ := hpParse(w[u.parsed:])
	for _, f := range frames {
		u.parsed += f.Raw
		f.Seq = hpSeqAt(u.Conn, u.parsed)
		f.AtMs = hpTimeAt(u.Conn, u.parsed)
		if f.IsRequest && !f.Heartbeat {
			u.Requests = append(u.Requests, f)
			h.obs.Attempts[f.Token]++
		}
	}
}

// attemptOf numbers the upstream attempts of one downstream request by the global
// order in which their request frames were written (0-based).
func (h *hpRun) attemptOf(u *hpUpConn, i int) int {
	me := u.Requests[i]
	k := 0
	for _, o := range h.obs.Ups {
		for _, f := range o.Requests {
			if f.Token == me.Token && f.Seq < me.Seq {
				k++
			}
		}
	}
	return k
}

// downAnswered reports whether a response for the request with that token is on the downstream wire.
func (h *hpRun) downAnswered(token string) bool {
	frames, _, _ := hpParse(h.obs.Down.Written())
	for i, r := range h.sc.Requests {
		if r.Token != token {
			continue
		}
		for _, f := range frames {
			if f.ID == uint32(100+i) {
				return true
			}
		}
	}
	return false
}

// scriptFor returns the scripted outcome of attempt k (0-based) of the request with that token.
func (h *hpRun) scriptFor(token string, k int) string {
	r := h.reqByTk[token]
	if r == nil || len(r.Script) == 0 {
		return upSilent
	}
	if k >= len(r.Script) {
		k = len(r.Script) - 1
	}
	return r.Script[k]
}

// onUpstreamConn is called when a host creates a client connection: decide its
// connect outcome from the scenario and start its peer (reader) thread.
func (h *hpRun) onUpstreamConn(c *vfake.Conn) {
	u := &hpUpConn{Conn: c, Host: hpHostIndex(c.RemoteAddr().String())}
	idx := len(h.obs.Ups)
	h.obs.Ups = append(h.obs.Ups, u)
	if hasInt(h.sc.FailHosts, u.Host) {
		c.Outcome = vfake.ConnectFail
	} else if hasInt(h.sc.TimeoutHosts, u.Host) {
		c.Outcome = vfake.ConnectTimeout
	}
	if c.Outcome != vfake.ConnectOK {
		h.logf("conn%d to host%d: connect fails", idx, u.Host)
		return
	}
	if h.sc.UpBreakAtWrite > 0 {
		c.PreWrite = func(c *vfake.Conn) {
			h.upWrites++
			if h.upWrites == h.sc.UpBreakAtWrite && c.BreakPipe() {
				h.logf("conn%d to host%d: peer gone before write %d", idx, u.Host, h.upWrites)
				vrt.GoNamed("env:up-peer-close", func() { c.DeliverBroken() })
			}
		}
	}
	vrt.GoNamed(fmt.Sprintf("env:up-peer%d", idx), func() {
		for {
			var act string
			var fr hpFrame
			pick := -1
			vrt.WaitUntil("upstream peer: next request to act on", func() bool {
				if h.done || c.IsClosed() {
					return false
				}
				for _, o := range h.obs.Ups {
					h.parseUp(o)
				}
				if u.done == nil {
					u.done = map[int]bool{}
				}
				if h.sc.Reverse {
					// hold every reply until all two-way requests of the scenario are here
					want := 0
					for _, r := range h.sc.Requests {
						if !r.Oneway {
							want++
						}
					}
					have := 0
					for _, f := range u.Requests {
						if !f.Oneway {
							have++
						}
					}
					if have < want {
						return false
					}
				}
				for n := 0; n < len(u.Requests); n++ {
					i := n
					if h.sc.Reverse {
						i = len(u.Requests) - 1 - n
					}
					if u.done[i] {
						continue
					}
					fr = u.Requests[i]
					k := h.attemptOf(u, i)
					act = h.scriptFor(fr.Token, k)
					if fr.Oneway || act == upSilent {
						if h.sc.EjectFirstHost && k == 0 {
							*h.healthPtr[u.Host] |= uint64(api.FAILED_ACTIVE_HC) // (no instrumented call inside a predicate)
						}
						u.done[i] = true // nothing to do for this request, ever
						continue
					}
					if act == upLateOK && !h.downAnswered(fr.Token) {
						continue // not yet: the downstream has not been answered (by a timeout) so far
					}
					pick = i
					return true
				}
				return false
			})
			u.done[pick] = true
			h.logf("peer%d(host%d): request id=%d token=%s -> %s", idx, u.Host, fr.ID, fr.Token, act)
			if h.sc.EjectFirstHost && h.attemptOf(u, pick) == 0 {
				*h.healthPtr[u.Host] |= uint64(api.FAILED_ACTIVE_HC)
			}
			switch act {
			case upReply200, upLateOK:
				c.InjectRead(hpBoltResponse(fr.ID, bolt.ResponseStatusSuccess, fr.Token, true))
			case upDelayOK:
				vrt.Sleep(time.Duration(h.sc.ReplyDelayMs) * time.Millisecond)
				c.InjectRead(hpBoltResponse(fr.ID, bolt.ResponseStatusSuccess, fr.Token, true))
			case upDelayClose:
				vrt.Sleep(time.Duration(h.sc.ReplyDelayMs) * time.Millisecond)
				c.RemoteClose()
				return
			case "reply-ok+k1":
				b := hpEncode(bolt.NewRpcResponse(fr.ID, bolt.ResponseStatusSuccess, hpHeader(map[string]string{"token": fr.Token, "k1": "old"}), buffer.NewIoBufferString("resp-of-"+fr.Token)))
				c.InjectRead(b)
			case upReplyNoBody:
				c.InjectRead(hpBoltResponse(fr.ID, bolt.ResponseStatusSuccess, fr.Token, false))
			case upUnkNoBody:
				// both frames in one read, as they would sit in the socket buffer
				b := append(hpBoltResponse(fr.ID+7777, bolt.ResponseStatusSuccess, "nobody", true), hpBoltResponse(fr.ID, bolt.ResponseStatusSuccess, fr.Token, false)...)
				c.InjectRead(b)
			case upReplyDup:
				c.InjectRead(hpBoltResponse(fr.ID, bolt.ResponseStatusSuccess, fr.Token, true))
				c.InjectRead(hpBoltResponse(fr.ID, bolt.ResponseStatusSuccess, fr.Token, true))
			case upReplyUnk:
				c.InjectRead(hpBoltResponse(fr.ID+7777, bolt.ResponseStatusSuccess, "nobody", true))
				c.InjectRead(hpBoltResponse(fr.ID, bolt.ResponseStatusSuccess, fr.Token, true))
			case upReplySplit:
				b := hpBoltResponse(fr.ID, bolt.ResponseStatusSuccess, fr.Token, true)
				c.InjectRead(b[:bolt.ResponseHeaderLen])
				c.InjectRead(b[bolt.ResponseHeaderLen:])
			case upReply5xx:
				c.InjectRead(hpBoltResponse(fr.ID, bolt.ResponseStatusServerException, fr.Token, false))
			case upReplyBusy:
				c.InjectRead(hpBoltResponse(fr.ID, bolt.ResponseStatusServerThreadpoolBusy, fr.Token, false))
			default:
				c.RemoteClose()
				return
			}
		}
	})
}

func hpInstallFilters(sc *hpScenario, h *hpRun) {
	// (filters are installed by the C14 harness through hpFilterHook)
	if hpFilterHook != nil {
		hpFilterHook(sc, h)
		return
	}
	streamfilter.GetStreamFilterManager().AddOrUpdateStreamFilterConfig(hpListener, nil)
}

var hpFilterHook func(sc *hpScenario, h *hpRun)
var hpRunHook func(h *hpRun)

// hpExecPrologue, if set, runs at the very start of every execution (thread 0, before anything of the
// execution exists).
var hpExecPrologue func()

// hpPoolNeutral is the running scenario's PoolNeutral.
var hpPoolNeutral bool

// hpEncodeRaw / hpParseRaw: the bolt v1 wire format written and read by hand (no codec of /repo, no
// pooled buffer). The codec-based hpEncode / hpParse take an IoBuffer from MOSN's process-wide pool
// for every frame they build or decode and never give it back: harmless for what MOSN does, but it
// hides what MOSN does with a buffer it gave back too early (the harness would pick up the recycled
// buffer before MOSN's next decode does, and refill it with the very frame it held).
func hpEncodeRaw(frame interface{}) []byte {
	var meta, class, hdr, content []byte
	kv := func(h interface {
		Range(func(k, v string) bool)
	}) {
		h.Range(func(k, v string) bool {
			hdr = binary.BigEndian.AppendUint32(hdr, uint32(len(k)))
			hdr = append(hdr, k...)
			hdr = binary.BigEndian.AppendUint32(hdr, uint32(len(v)))
			hdr = append(hdr, v...)
			return true
		})
	}
	switch x := frame.(type) {
	case *bolt.Request:
		kv(x)
		class = []byte(x.Class)
		if x.Content != nil {
			content = x.Content.Bytes()
		}
		meta = append(meta, x.Protocol, x.CmdType)
		meta = binary.BigEndian.AppendUint16(meta, x.CmdCode)
		meta = append(meta, x.Version)
		meta = binary.BigEndian.AppendUint32(meta, x.RequestId)
		meta = append(meta, x.Codec)
		meta = binary.BigEndian.AppendUint32(meta, uint32(x.Timeout))
	case *bolt.Response:
		kv(x)
		class = []byte(x.Class)
		if x.Content != nil {
			content = x.Content.Bytes()
		}
		meta = append(meta, x.Protocol, x.CmdType)
		meta = binary.BigEndian.AppendUint16(meta, x.CmdCode)
		meta = append(meta, x.Version)
		meta = binary.BigEndian.AppendUint32(meta, x.RequestId)
		meta = append(meta, x.Codec)
		meta = binary.BigEndian.AppendUint16(meta, x.ResponseStatus)
	default:
		panic(fmt.Sprintf("hpEncodeRaw: unexpected frame type %T", frame))
	}
	meta = binary.BigEndian.AppendUint16(meta, uint16(len(class)))
	meta = binary.BigEndian.AppendUint16(meta, uint16(len(hdr)))
	meta = binary.BigEndian.AppendUint32(meta, uint32(len(content)))
	out := append(meta, class...)
	out = append(out, hdr...)
	return append(out, content...)
}

func hpParseRaw(b []byte) (frames []hpFrame, consumed int, garbage string) {
	for len(b)-consumed > 0 {
		d := b[consumed:]
		if d[0] != bolt.ProtocolCode {
			return frames, consumed, fmt.Sprintf("undecodable bytes at offset %d: protocol code %d", consumed, d[0])
		}
		if len(d) < bolt.LessLen {
			break
		}
		fr := hpFrame{Headers: map[string]string{}}
		var fixed int
		switch d[1] {
		case bolt.CmdTypeRequest, bolt.CmdTypeRequestOneway:
			fixed = bolt.RequestHeaderLen
			fr.IsRequest = true
			fr.Oneway = d[1] == bolt.CmdTypeRequestOneway
			fr.Heartbeat = binary.BigEndian.Uint16(d[2:4]) == bolt.CmdCodeHeartbeat
		case bolt.CmdTypeResponse:
			fixed = bolt.ResponseHeaderLen
			fr.Status = binary.BigEndian.Uint16(d[10:12])
		default:
			return frames, consumed, fmt.Sprintf("undecodable bytes at offset %d: unknown cmd type %d", consumed, d[1])
		}
		if len(d) < fixed {
			break
		}
		fr.ID = binary.BigEndian.Uint32(d[5:9])
		classLen := int(binary.BigEndian.Uint16(d[fixed-8:]))
		headerLen := int(binary.BigEndian.Uint16(d[fixed-6:]))
		contentLen := int(binary.BigEndian.Uint32(d[fixed-4:]))
		n := fixed + classLen + headerLen + contentLen
		if len(d) < n {
			break
		}
		hb := d[fixed+classLen : fixed+classLen+headerLen]
		var strs []string
		for len(hb) > 0 {
			if len(hb) < 4 || int(binary.BigEndian.Uint32(hb)) > len(hb)-4 {
				return frames, consumed, fmt.Sprintf("undecodable bytes at offset %d: malformed header block", consumed)
			}
			l := int(binary.BigEndian.Uint32(hb))
			strs = append(strs, string(hb[4:4+l]))
			hb = hb[4+l:]
		}
		if len(strs)%2 != 0 {
			return frames, consumed, fmt.Sprintf("undecodable bytes at offset %d: header key without a value", consumed)
		}
		for i := 0; i < len(strs); i += 2 {
			fr.Headers[strs[i]] = strs[i+1]
		}
		fr.Token = fr.Headers["token"]
		if contentLen > 0 {
			c := string(d[n-contentLen : n])
			if fr.IsRequest {
				fr.BodyToken = strings.TrimPrefix(c, "body-of-")
			} else {
				fr.BodyToken = strings.TrimPrefix(c, "resp-of-")
			}
		}
		fr.Raw = n
		consumed += n
		frames = append(frames, fr)
	}
	return
}

var hpRouterHook func(sc *hpScenario, rc *v2.RouterConfiguration)

// hpDeterminism replays the default schedule of a scenario twice (and one
// deviating schedule) and compares the full scheduling traces: a harness whose
// executions are not a function of the choice sequence must not be trusted.
// Returns "" or a description of the first difference.
func hpDeterminism(sc hpScenario) string {
	run := func(prefix []int) ([]string, string) {
		obs := &hpObs{}
		var tr []string
		var sum string
		vrt.Explore(vrt.Options{Replay: true, Prefix: prefix, Delay: true, MaxSteps: 200000, Trace: true}, func() {
			*obs = hpObs{}
			hpBody(&sc, obs)
		}, func(r *vrt.Result) {
			tr = r.Trace
			sum = fmt.Sprintf("%v|%v|%v|%d", obs.DownFrames, obs.Attempts, obs.Log, obs.Active)
		})
		return tr, sum
	}
	cmp := func(prefix []int) string {
		t1, s1 := run(prefix)
		t2, s2 := run(prefix)
		// the single-threaded set-up before the first choice point (lines "#0 …") legitimately
		// differs between the first execution of a process and later ones (caches, metric
		// registration, router add vs update): compare from the first choice point on
		strip := func(t []string) []string {
			for i, l := range t {
				if !strings.HasPrefix(l, "#0 ") {
					return t[i:]
				}
			}
			return nil
		}
		t1, t2 = strip(t1), strip(t2)
		for i := 0; i < len(t1) && i < len(t2); i++ {
			if t1[i] != t2[i] {
				lo := i - 3
				if lo < 0 {
					lo = 0
				}
				return fmt.Sprintf("schedule %v: traces differ at step %d:\n  run1: %v\n  run2: %v", prefix, i, t1[lo:i+1], t2[lo:i+1])
			}
		}
		if len(t1) != len(t2) {
			return fmt.Sprintf("schedule %v: trace lengths differ: %d vs %d", prefix, len(t1), len(t2))
		}
		if s1 != s2 {
			return fmt.Sprintf("schedule %v: observations differ:\n  %s\n  %s", prefix, s1, s2)
		}
		return ""
	}
	if d := cmp(nil); d != "" {
		return d
	}
	// one deviating schedule: deviate at the 40th choice point
	pre := make([]int, 40)
	pre[39] = 1
	return cmp(pre)
}

// hpTimeoutBase is the cluster's upstream_request_timeout counter at the start of the
// running execution (the metrics registry outlives executions).
var hpTimeoutBase int64

func hpTimeoutCount(cm types.ClusterManager) int64 {
	if cm == nil {
		return 0
	}
	if snap := cm.GetClusterSnapshot(context.Background(), hpCluster); snap != nil {
		return snap.ClusterInfo().Stats().UpstreamRequestTimeout.Count()
	}
	return 0
}

// hpStuckSignature describes the internal state of a stream that never
// completed; it names the root cause class in finding keys (scenario-independent).
func hpStuckSignature(ds *downStream) string {
	b := func(v uint32) int { return int(v) }
	setupRetry := false
	if ds.upstreamRequest != nil {
		setupRetry = ds.upstreamRequest.setupRetry
	}
	// timeoutCallbacks: how many per-try / global timer callbacks WON the outcome token in this
	// execution (each counts itself in upstream_request_timeout before it acts). It separates the
	// recorded arbitration defects, which all need a timer callback that won and was then swallowed,
	// from any other way of losing a request (e.g. a lost wake-up with no timer involved).
	tmo := int64(0)
	if ds.cluster != nil {
		tmo = ds.cluster.Stats().UpstreamRequestTimeout.Count() - hpTimeoutBase
	}
	return fmt.Sprintf("phase=%s upstreamResponseReceived=%d timeoutCallbacks=%d upstreamReset=%d downstreamReset=%d cleaned=%d directResponse=%v responseStarted=%v upstreamProcessDone=%v setupRetry=%v perTryTimerSet=%v globalTimerSet=%v",
		types.PhaseName[ds.phase], b(ds.upstreamResponseReceived), tmo, b(ds.upstreamReset), b(ds.downstreamReset), b(ds.downstreamCleaned),
		ds.directResponse, ds.downstreamResponseStarted, ds.upstreamProcessDone.Load(), setupRetry, ds.perRetryTimer != nil, ds.responseTimer != nil)
}

// hpScenarioName is the systematic name of a scenario (used in finding keys and samples).
func hpScenarioName(sc *hpScenario) string {
	var parts []string
	for _, r := range sc.Requests {
		k := "twoway"
		if r.Oneway {
			k = "oneway"
		}
		if r.Body {
			k += "+body"
		}
		if r.AfterAttempts > 0 {
			k += fmt.Sprintf("@after-%d-attempts-of-%s", r.AfterAttempts, r.AfterToken)
			if r.AfterSettle {
				k += "-settled"
			}
		}
		parts = append(parts, k+"["+strings.Join(r.Script, ",")+"]")
	}
	s := strings.Join(parts, "|")
	if sc.RetryOn {
		s += fmt.Sprintf(" retry_on(%d)", sc.NumRetries)
	}
	if sc.TryTimeoutMs > 0 {
		s += " try-timeout"
	}
	if sc.RouteTimeoutMs != 0 && sc.RouteTimeoutMs != 1000 {
		s += fmt.Sprintf(" global-timeout=%dms", sc.RouteTimeoutMs)
	}
	if sc.DownDisconnect {
		s += " down-disconnect"
	}
	if len(sc.FailHosts) > 0 {
		s += fmt.Sprintf(" connect-fail-hosts=%v/%d", sc.FailHosts, sc.Hosts)
	}
	if len(sc.TimeoutHosts) > 0 {
		s += fmt.Sprintf(" connect-timeout-hosts=%v/%d", sc.TimeoutHosts, sc.Hosts)
	}
	if sc.UpBreakAtWrite > 0 {
		s += fmt.Sprintf(" up-break-at-write=%d", sc.UpBreakAtWrite)
	}
	if sc.NoRoute {
		s += " no-route"
	}
	if sc.NoHosts {
		s += " no-hosts"
	}
	if sc.AllUnhealthy {
		s += " all-unhealthy"
	}
	if sc.MaxRequests > 0 {
		s += fmt.Sprintf(" max_requests=%d", sc.MaxRequests)
	}
	return s
}
