//go:build verif

package proxy

// C17 (retry decision input): when two outcomes of one attempt race (a timeout and a connection event, two
// connection events, ...), exactly one of them ends the attempt, and the outcome the request's goroutine acts
// on - retry or not, which answer - is that one: once the goroutine has been notified, the recorded reset
// reason does not change any more. All interleavings of two upstreamRequest.OnResetStream calls and the
// notified reader (real upstreamRequest / downStream fields, real sendNotify), every ordered pair of reasons.

import (
	"fmt"
	"testing"
	"time"

	"mosn.io/mosn/pkg/types"
	"mosn.io/mosn/pkg/verifrt/vreport"
	"mosn.io/mosn/pkg/verifrt/vrt"
)

type c17ArbCase struct {
	R1      string `json:"r1"`
	R2      string `json:"r2"`
	Choices []int  `json:"choices,omitempty"`
}

func c17ArbRun(p *vreport.Part, c c17ArbCase, replay bool) bool {
	var seen, final string
	var notified int
	opts := vrt.Options{Bound: -1, MaxSteps: 5000}
	if replay {
		opts.Replay, opts.Prefix = true, c.Choices
	}
	st := vrt.Explore(opts, func() {
		seen, final, notified = "", "", 0
		s := &downStream{notify: make(chan struct{}, 1)}
		r := &upstreamRequest{downStream: s}
		s.upstreamRequest = r
		vrt.GoNamed("outcome1", func() { r.OnResetStream(types.StreamResetReason(c.R1)) })
		vrt.GoNamed("outcome2", func() { r.OnResetStream(types.StreamResetReason(c.R2)) })
		vrt.GoNamed("request-goroutine", func() {
			vrt.WaitUntil("notified", func() bool { return len(s.notify) > 0 })
			notified = len(s.notify)
			seen = s.resetReason.Load()
		})
		vrt.Quiesce()
		final = s.resetReason.Load()
	}, func(r *vrt.Result) {
		p.Eval()
		p.Distinct(fmt.Sprintf("%s|%s|%s|%s", c.R1, c.R2, seen, final))
		p.Outcome(fmt.Sprintf("%v/%v", seen == c.R1, final == seen))
		cc := c
		cc.Choices = r.Choices
		if r.Deadlock || r.StepLimit || r.Diverged != "" || len(r.Panics) > 0 {
			p.Violation("HARNESS execution did not complete normally", r.String()+fmt.Sprint(r.Panics), cc)
			return
		}
		if p.WantSample() {
			p.Sample(map[string]interface{}{"outcomes": []string{c.R1, c.R2}, "acted_on": seen, "recorded_at_the_end": final, "schedule": r.Choices})
		}
		if notified != 1 {
			p.Violation("reset arbitration: the request's goroutine was not notified exactly once for two racing outcomes", fmt.Sprintf("%d notifications pending; outcomes %s, %s", notified, c.R1, c.R2), cc)
		}
		if seen != c.R1 && seen != c.R2 {
			p.Violation("reset arbitration: the request's goroutine was notified before a reason was recorded", fmt.Sprintf("reads %q; outcomes %s, %s | schedule=%v", seen, c.R1, c.R2, r.Choices), cc)
		} else if final != seen {
			p.Violation("reset arbitration: the recorded outcome changes after the request's goroutine was notified (the losing outcome overwrites the winner's reason)", fmt.Sprintf("notified with %q, later %q; outcomes %s, %s | schedule=%v", seen, final, c.R1, c.R2, r.Choices), cc)
		}
	})
	p.AddTraces(st.Executions)
	return st.Complete
}

func TestVerifC17Arbitration(t *testing.T) {
	const part = "reset-arbitration"
	p := vreport.Begin("C17", part, 10*time.Minute)
	if vreport.Replaying() {
		var rc c17ArbCase
		if vreport.ReplayFor("C17", part, &rc) {
			c17ArbRun(p, rc, true)
			p.End(true, "replay", "replay of one recorded schedule")
		}
		return
	}
	if si, _ := vreport.Shard(); si != 0 {
		p.End(true, "-", "runs in shard 0")
		return
	}
	reasons := []types.StreamResetReason{types.UpstreamGlobalTimeout, types.UpstreamPerTryTimeout, types.StreamConnectionTermination,
		types.StreamConnectionFailed, types.StreamRemoteReset, types.StreamOverflow}
	complete := true
	n := 0
	for _, a := range reasons {
		for _, b := range reasons {
			if a == b {
				continue
			}
			if !c17ArbRun(p, c17ArbCase{R1: string(a), R2: string(b)}, false) {
				complete = false
			}
			n++
		}
	}
	p.End(complete, fmt.Sprintf("%d ordered pairs of distinct reset reasons; two racing OnResetStream calls and the notified reader: ALL interleavings (unbounded)", n),
		"stateless DFS over every interleaving of the three threads' atomic / channel steps on the real upstreamRequest and downStream; judged: exactly one notification, the reason read at notification is one of the two and is still the recorded one at quiescence")
}
