//go:build verif

package proxy

import (
	stdjson "encoding/json"
	"fmt"
	"os"
	"testing"

	"mosn.io/mosn/pkg/verifrt/vrt"
)

// TestVerifDebugC17: VERIF_DBG_REPLAY=<C17 replay file>: runs the recorded schedule once with the scheduling
// trace on and prints the trace from shortly before the first deviation, the peers' log and the upstream frames.
func TestVerifDebugC17(t *testing.T) {
	fn := os.Getenv("VERIF_DBG_REPLAY")
	if fn == "" {
		return
	}
	b, _ := os.ReadFile(fn)
	var rf struct {
		Case c17Case `json:"case"`
	}
	if err := stdjson.Unmarshal(b, &rf); err != nil {
		t.Fatal(err)
	}
	sc := rf.Case.Sc
	obs := &hpObs{}
	vrt.Explore(vrt.Options{Replay: true, Prefix: sc.Choices, Delay: true, MaxSteps: 400000, Trace: true}, func() {
		*obs = hpObs{}
		hpBody(&sc, obs)
	}, func(r *vrt.Result) {
		first := len(r.Trace)
		for i, c := range r.Choices {
			if c != 0 {
				first = i
				break
			}
		}
		lo := first - 6
		if lo < 0 {
			lo = 0
		}
		for i := lo; i < len(r.Trace); i++ {
			fmt.Println(r.Trace[i])
		}
		fmt.Printf("log=%v\n", obs.Log)
		for _, u := range obs.Ups {
			for _, f := range u.Requests {
				fmt.Printf("upstream host%d: id=%d token=%s at=%dms seq=%d\n", u.Host, f.ID, f.Token, f.AtMs, f.Seq)
			}
		}
		for _, f := range obs.DownFrames {
			fmt.Printf("downstream: id=%d status=%d at=%dms\n", f.ID, f.Status, f.AtMs)
		}
	})
}

// TestVerifDebugC17Explore: VERIF_DBG_CASE=<case name>: explores the case with bound VERIF_DBG_BOUND (default 1)
// and prints the distinct (attempt count, attempt times, final status) outcomes with one schedule each.
func TestVerifDebugC17Explore(t *testing.T) {
	name := os.Getenv("VERIF_DBG_CASE")
	if name == "" {
		return
	}
	bound := 1
	fmt.Sscanf(os.Getenv("VERIF_DBG_BOUND"), "%d", &bound)
	for _, c := range c17RetryCases() {
		if c.Sc.Name != name {
			continue
		}
		sc := c.Sc
		obs := &hpObs{}
		seen := map[string]bool{}
		st := vrt.Explore(vrt.Options{Bound: bound, Delay: true, MaxSteps: 400000, MaxExecs: 400000}, func() {
			*obs = hpObs{}
			hpBody(&sc, obs)
		}, func(r *vrt.Result) {
			var at []int64
			for _, u := range obs.Ups {
				for _, f := range u.Requests {
					at = append(at, f.AtMs)
				}
			}
			var down []string
			for _, f := range obs.DownFrames {
				down = append(down, fmt.Sprintf("%d@%d", f.Status, f.AtMs))
			}
			k := fmt.Sprintf("attempts=%v down=%v", at, down)
			if !seen[k] {
				seen[k] = true
				dev := -1
				for i, ch := range r.Choices {
					if ch != 0 {
						dev = i
						break
					}
				}
				fmt.Printf("%s cost=%d first-deviation@%d/%d\n", k, r.Cost, dev, len(r.Choices))
			}
		})
		fmt.Printf("executions=%d complete=%v\n", st.Executions, st.Complete)
	}
}
