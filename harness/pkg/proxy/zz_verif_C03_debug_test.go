//go:build verif

package proxy

import (
	stdjson "encoding/json"
	"fmt"
	"os"
	"strings"
	"testing"

	"mosn.io/mosn/pkg/verifrt/vrt"
)

// TestVerifDebugC03Determinism: VERIF_DBG_REPLAY=<replay file>: runs the recorded schedule 3 times
// in this process and prints where the traces differ.
func TestVerifDebugC03Determinism(t *testing.T) {
	fn := os.Getenv("VERIF_DBG_REPLAY")
	if fn == "" {
		return
	}
	b, _ := os.ReadFile(fn)
	var rf struct {
		Case hpScenario `json:"case"`
	}
	if err := stdjson.Unmarshal(b, &rf); err != nil {
		t.Fatal(err)
	}
	sc := rf.Case
	var traces [][]string
	for i := 0; i < 3; i++ {
		obs := &hpObs{}
		vrt.Explore(vrt.Options{Replay: true, Prefix: sc.Choices, Delay: true, MaxSteps: 200000, Trace: true}, func() {
			*obs = hpObs{}
			hpBody(&sc, obs)
		}, func(r *vrt.Result) {
			var tr []string
			for _, l := range r.Trace {
				if !strings.HasPrefix(l, "#0 ") {
					tr = append(tr, l)
				}
			}
			traces = append(traces, tr)
			fmt.Printf("run %d: steps=%d points=%d diverged=%q log=%v\n", i, r.Steps, len(r.Choices), r.Diverged, obs.Log)
		})
	}
	for k := 1; k < 3; k++ {
		a, b := traces[0], traces[k]
		for i := 0; i < len(a) && i < len(b); i++ {
			if a[i] != b[i] {
				lo := i - 5
				if lo < 0 {
					lo = 0
				}
				fmt.Printf("run0 vs run%d differ at %d\n", k, i)
				for j := lo; j <= i; j++ {
					fmt.Printf("   A %s\n   B %s\n", a[j], b[j])
				}
				break
			}
		}
	}
}
