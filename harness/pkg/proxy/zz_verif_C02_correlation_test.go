//go:build verif

package proxy

// C02 (part B): every response MOSN delivers on a downstream request was
// produced for that very request — concurrent requests sharing the downstream
// and the upstream connection, any upstream reply order, late replies after a
// timeout, duplicate and unknown-id replies, retries, connection resets.

import (
	"fmt"
	"os"
	"strings"
	"testing"
	"time"

	"mosn.io/mosn/pkg/protocol/xprotocol/bolt"
	"mosn.io/mosn/pkg/verifrt/vreport"
	"mosn.io/mosn/pkg/verifrt/vrt"
)

func c02Scenarios() []hpScenario {
	var out []hpScenario
	add := func(tag string, sc hpScenario) {
		sc.Name = hpScenarioName(&sc) + " " + tag
		out = append(out, sc)
	}
	rq := func(tok string, body bool, script ...string) hpRequest {
		return hpRequest{Token: tok, Body: body, Script: script}
	}
	for _, body := range []bool{false, true} {
		add("concurrent in-order", hpScenario{Hosts: 1, RouteTimeoutMs: 1000, OneChunk: true, Requests: []hpRequest{rq("t1", body, upReply200), rq("t2", body, upReply200)}})
		add("concurrent reversed", hpScenario{Hosts: 1, RouteTimeoutMs: 1000, OneChunk: true, Reverse: true, Requests: []hpRequest{rq("t1", body, upReply200), rq("t2", body, upReply200)}})
		add("two reads reversed", hpScenario{Hosts: 1, RouteTimeoutMs: 1000, Reverse: true, Requests: []hpRequest{rq("t1", body, upReply200), rq("t2", body, upReply200)}})
	}
	add("three concurrent reversed", hpScenario{Hosts: 1, RouteTimeoutMs: 1000, OneChunk: true, Reverse: true, Requests: []hpRequest{rq("t1", true, upReply200), rq("t2", false, upReply200), rq("t3", true, upReply200)}})
	// a late reply after the per-try/global timeout, while the next request (which may reuse the
	// pooled downStream object and buffers) is in flight
	add("late reply meets next request", hpScenario{Hosts: 1, RouteTimeoutMs: 1000, TryTimeoutMs: 100, Sequential: true, Requests: []hpRequest{rq("t1", true, upLateOK), rq("t2", true, upReply200)}})
	add("late reply meets next request (global timeout)", hpScenario{Hosts: 1, RouteTimeoutMs: 1000, Sequential: true, Requests: []hpRequest{rq("t1", false, upLateOK), rq("t2", false, upReply200)}})
	add("duplicate reply", hpScenario{Hosts: 1, RouteTimeoutMs: 1000, OneChunk: true, Requests: []hpRequest{rq("t1", true, upReplyDup), rq("t2", true, upReply200)}})
	add("duplicate reply sequential", hpScenario{Hosts: 1, RouteTimeoutMs: 1000, Sequential: true, Requests: []hpRequest{rq("t1", true, upReplyDup), rq("t2", true, upReply200)}})
	add("unknown id reply", hpScenario{Hosts: 1, RouteTimeoutMs: 1000, OneChunk: true, Requests: []hpRequest{rq("t1", true, upReplyUnk), rq("t2", true, upReply200)}})
	add("upstream closes between", hpScenario{Hosts: 1, RouteTimeoutMs: 1000, OneChunk: true, Requests: []hpRequest{rq("t1", true, upClose), rq("t2", true, upReply200)}})
	add("upstream closes between sequential", hpScenario{Hosts: 1, RouteTimeoutMs: 1000, Sequential: true, Requests: []hpRequest{rq("t1", true, upClose), rq("t2", true, upReply200)}})
	add("retry next to a plain request", hpScenario{Hosts: 2, RouteTimeoutMs: 1000, RetryOn: true, NumRetries: 1, OneChunk: true, Requests: []hpRequest{rq("t1", true, upReply5xx, upReply200), rq("t2", true, upReply200)}})
	add("split reply next to a plain request", hpScenario{Hosts: 1, RouteTimeoutMs: 1000, OneChunk: true, Reverse: true, Requests: []hpRequest{rq("t1", true, upReplySplit), rq("t2", true, upReply200)}})
	reenc := map[string]interface{}{"response_headers_to_add": []interface{}{map[string]interface{}{"header": map[string]interface{}{"key": "via", "value": "mosn"}, "append": false}}}
	add("unknown id reply then body-less reply (response re-encoded)", hpScenario{Hosts: 1, RouteTimeoutMs: 1000, RouteExtra: reenc, Requests: []hpRequest{rq("t1", true, upUnkNoBody)}})
	add("late reply then body-less reply (response re-encoded)", hpScenario{Hosts: 1, RouteTimeoutMs: 1000, TryTimeoutMs: 100, RouteExtra: reenc, Sequential: true, Requests: []hpRequest{rq("t1", true, upLateOK), rq("t2", true, upReplyNoBody)}})
	add("duplicate reply then body-less reply (response re-encoded)", hpScenario{Hosts: 1, RouteTimeoutMs: 1000, RouteExtra: reenc, Sequential: true, Requests: []hpRequest{rq("t1", true, upReplyDup), rq("t2", true, upReplyNoBody)}})
	add("body-less replies reversed (response re-encoded)", hpScenario{Hosts: 1, RouteTimeoutMs: 1000, RouteExtra: reenc, OneChunk: true, Reverse: true, Requests: []hpRequest{rq("t1", true, upReply200), rq("t2", true, upReplyNoBody)}})
	add("one-way next to two-way", hpScenario{Hosts: 1, RouteTimeoutMs: 1000, OneChunk: true, Requests: []hpRequest{{Token: "t1", Oneway: true, Body: true, Script: []string{upReply200}}, rq("t2", true, upReply200)}})
	return out
}

func c02Run(p *vreport.Part, sc hpScenario, replay bool) bool {
	return c02RunX(p, sc, replay, 0, nil)
}

// c02RunX: c02Run with an execution cap of its own (0: the default) and additional oracles.
func c02RunX(p *vreport.Part, sc hpScenario, replay bool, maxExecs int, extra func(p *vreport.Part, sc *hpScenario, obs *hpObs, report func(kind, detail string))) bool {
	obs := &hpObs{}
	if maxExecs == 0 {
		maxExecs = vreport.Pick(40000, 400000)
	}
	opts := vrt.Options{Bound: sc.Bound, Delay: true, MaxSteps: 300000, MaxExecs: maxExecs, Deadline: time.Now().Add(30 * time.Minute)}
	if replay {
		opts.Replay = true
		opts.Prefix = sc.Choices
	}
	st := vrt.Explore(opts, func() {
		*obs = hpObs{}
		hpBody(&sc, obs)
	}, func(r *vrt.Result) {
		p.Eval()
		cc := sc
		cc.Choices = r.Choices
		report := func(kind, detail string) {
			p.Violation(kind, "scenario "+sc.Name+": "+detail+fmt.Sprintf(" | log=%v schedule=%v", obs.Log, r.Choices), cc)
		}
		if r.Diverged != "" || r.StepLimit || r.Deadlock {
			report("HARNESS execution did not complete normally", r.String())
			return
		}
		for _, pn := range r.Panics {
			first := strings.SplitN(pn, "\n", 2)[0]
			if strings.Contains(first, "(env:") || strings.Contains(first, "(main)") {
				report("HARNESS panic in harness thread", pn)
			} else {
				report("uncaught panic in a proxy goroutine", pn)
			}
			return
		}
		var down []string
		for _, f := range obs.DownFrames {
			down = append(down, fmt.Sprintf("%d:%d:%s/%s", f.ID, f.Status, f.Token, f.BodyToken))
		}
		p.Distinct(sc.Name + "|" + strings.Join(down, ",") + "|" + strings.Join(obs.Log, ","))
		p.Outcome(sc.Name + "|" + strings.Join(down, ","))
		if p.WantSample() {
			p.Sample(map[string]interface{}{"scenario": sc.Name, "schedule": r.Choices, "downstream": down, "peer": obs.Log})
		}
		if obs.DownGarbage != "" {
			report("undecodable bytes written downstream", obs.DownGarbage)
		}
		count := map[uint32]int{}
		for _, f := range obs.DownFrames {
			idx := int(f.ID) - 100
			if f.IsRequest || idx < 0 || idx >= len(sc.Requests) {
				report("downstream received a frame that answers no request it sent", fmt.Sprintf("%+v", f))
				continue
			}
			rq := sc.Requests[idx]
			count[f.ID]++
			if rq.Oneway {
				report("one-way request got a response", fmt.Sprintf("%+v", f))
				continue
			}
			want := rq.Token
			if f.Status == bolt.ResponseStatusSuccess {
				// an upstream response: header and body must both be the ones produced for this request
				if f.Token != want {
					report("response delivered to a request it was not produced for (header)", fmt.Sprintf("request %s (id %d) got header token %q body token %q", want, f.ID, f.Token, f.BodyToken))
				}
				wantBody := want
				for _, a := range rq.Script {
					if a == upReplyNoBody || a == upUnkNoBody {
						wantBody = "" // the scripted reply has no body
					}
				}
				if f.BodyToken != wantBody {
					report("response header and body come from different exchanges", fmt.Sprintf("request %s (id %d) got header token %q body token %q", want, f.ID, f.Token, f.BodyToken))
				}
			} else {
				// a MOSN-generated error reply is built from the request's own headers: it must not carry
				// another request's token or any upstream body
				if f.Token != "" && f.Token != want {
					report("error reply carries another request's headers", fmt.Sprintf("request %s (id %d) got header token %q", want, f.ID, f.Token))
				}
				if f.BodyToken != "" && f.BodyToken != want {
					report("error reply carries another exchange's body", fmt.Sprintf("request %s (id %d) got body token %q", want, f.ID, f.BodyToken))
				}
			}
		}
		for id, n := range count {
			if n > 1 {
				report("the same request was answered more than once", fmt.Sprintf("id %d answered %d times: %v", id, n, down))
			}
		}
		// upstream side: every forwarded request frame carries header and body of one exchange
		for ui, u := range obs.Ups {
			for _, f := range u.Requests {
				rq := (*hpRequest)(nil)
				for i := range sc.Requests {
					if sc.Requests[i].Token == f.Token {
						rq = &sc.Requests[i]
					}
				}
				if rq == nil {
					report("upstream request frame with an unknown token", fmt.Sprintf("conn %d: %+v", ui, f))
					continue
				}
				if rq.Body && f.BodyToken != f.Token {
					report("forwarded request header and body come from different exchanges", fmt.Sprintf("conn %d: header token %q body token %q", ui, f.Token, f.BodyToken))
				}
				if !rq.Body && f.BodyToken != "" {
					report("forwarded header-only request carries a body", fmt.Sprintf("conn %d: header token %q body token %q", ui, f.Token, f.BodyToken))
				}
			}
		}
		if extra != nil {
			extra(p, &sc, obs, report)
		}
	})
	p.AddTraces(st.Executions)
	if os.Getenv("VERIF_STATS") != "" {
		fmt.Printf("scenario %-90s execs=%-7d complete=%v\n", sc.Name, st.Executions, st.Complete)
	}
	return st.Complete
}

func TestVerifC02Correlation(t *testing.T) {
	const part = "proxy-correlation"
	p := vreport.Begin("C02", part, time.Hour)
	var rc hpScenario
	if vreport.Replaying() {
		if vreport.ReplayFor("C02", part, &rc) {
			c02Run(p, rc, true)
			p.End(true, "replay", "replay of one recorded schedule")
		}
		return
	}
	si, sn := vreport.Shard()
	complete := true
	n := 0
	bound := vreport.Pick(2, 3)
	for i, sc := range c02Scenarios() {
		if only := os.Getenv("VERIF_C02_ONLY"); only != "" {
			if sc.Name != only || si != 0 {
				continue
			}
		} else if i%sn != si {
			continue
		}
		sc.Bound = bound
		if d := hpDeterminism(sc); d != "" {
			vreport.HarnessError("C02", part, "nondeterministic scenario "+sc.Name+": "+d)
			complete = false
			continue
		}
		if !c02Run(p, sc, false) {
			complete = false
			p.Count("scenarios_cut_by_execution_cap", 1)
		}
		n++
	}
	p.Note("scenarios", n)
	p.End(complete, fmt.Sprintf("%d scenarios (this shard): 2-3 requests sharing one downstream and one upstream connection; reply orders {in order, reversed}, late / duplicate / unknown-id / split replies, upstream close, retry; all schedules with <=%d deviations (delay bounding)", n, bound),
		"every request carries a unique token in a header and in its body, every scripted reply carries the token of the request it answers; one evaluation = one complete execution; distinct = distinct (scenario, downstream frames with tokens, peer actions)")
}
