//go:build verif

// C01 seam (d): HTTP/2 forwarding fidelity through the REAL proxy, with the
// harness as both peers. Frames the harness sends are written by
// golang.org/x/net/http2's Framer + hpack encoder (trusted reference); frames
// MOSN writes are split by the harness' own frame reader (RFC 7540 4.1 layout)
// and their header blocks decoded by x/net's hpack decoder.
//
// Per case, on fresh connections: client preface + SETTINGS + HEADERS
// (+ DATA) are injected on the downstream fake connection of a real proxy
// configured Http2 -> Http2; the real HTTP/2 server stream connection
// (pkg/stream/http2 over pkg/module/http2) hands the request to the real
// downStream (worker pool, router, cluster manager, HTTP/2 pool, client stream
// connection on a vfake client connection). The request MOSN writes upstream is
// compared with the one sent; the harness then answers as the upstream server
// (SETTINGS, SETTINGS ack, HEADERS, DATA) and the response MOSN writes
// downstream is compared with it. Waiting is by observation only (see the
// HTTP/1 harness); a timeout is a HARNESS error.
package proxy

import (
	"bytes"
	"encoding/binary"
	"fmt"
	"sort"
	"strconv"
	"strings"
	"testing"
	"time"

	"golang.org/x/net/http2"
	"golang.org/x/net/http2/hpack"
	"mosn.io/mosn/pkg/protocol"
	_ "mosn.io/mosn/pkg/stream/http2"
	"mosn.io/mosn/pkg/verifrt/vreport"
)

// ---------------------------------------------------------------------------
// reading what MOSN wrote

type c01h2Msg struct {
	Fields   []c01hField // pseudo-header fields included, in order
	Trailers []c01hField
	Body     []byte
	HdrDone  bool
	End      bool
}

type c01h2Reader struct {
	preface  int // bytes of connection preface to skip (24 when MOSN is the client)
	off      int
	dec      *hpack.Decoder
	cur      []c01hField
	block    []byte
	blockSID uint32
	blockEnd bool
	streams  map[uint32]*c01h2Msg
	order    []uint32
	settings int
	acks     int
	other    []string // RST_STREAM / GOAWAY / unexpected frames
	err      error
}

func c01h2NewReader(preface int) *c01h2Reader {
	r := &c01h2Reader{preface: preface, streams: map[uint32]*c01h2Msg{}}
	r.dec = hpack.NewDecoder(4096, func(f hpack.HeaderField) { r.cur = append(r.cur, c01hField{f.Name, f.Value}) })
	return r
}

func (r *c01h2Reader) stream(id uint32) *c01h2Msg {
	m := r.streams[id]
	if m == nil {
		m = &c01h2Msg{}
		r.streams[id] = m
		r.order = append(r.order, id)
	}
	return m
}

func (r *c01h2Reader) endBlock() {
	r.cur = nil
	if _, err := r.dec.Write(r.block); err != nil {
		r.err = fmt.Errorf("hpack: %v", err)
		return
	}
	if err := r.dec.Close(); err != nil {
		r.err = fmt.Errorf("hpack: %v", err)
		return
	}
	m := r.stream(r.blockSID)
	if !m.HdrDone {
		m.Fields, m.HdrDone = r.cur, true
	} else {
		m.Trailers = r.cur
	}
	if r.blockEnd {
		m.End = true
	}
	r.block = nil
}

// feed parses every complete frame of all[r.off:].
func (r *c01h2Reader) feed(all []byte) {
	if r.err != nil {
		return
	}
	if r.off < r.preface {
		if len(all) < r.preface {
			return
		}
		if string(all[:r.preface]) != http2.ClientPreface {
			r.err = fmt.Errorf("bad client preface %q", all[:r.preface])
			return
		}
		r.off = r.preface
	}
	for r.err == nil && len(all)-r.off >= 9 {
		h := all[r.off:]
		n := int(h[0])<<16 | int(h[1])<<8 | int(h[2])
		if len(h) < 9+n {
			return
		}
		typ, flags := http2.FrameType(h[3]), http2.Flags(h[4])
		sid := binary.BigEndian.Uint32(h[5:9]) & 0x7fffffff
		pl := h[9 : 9+n]
		r.off += 9 + n
		if r.block != nil && typ != http2.FrameContinuation {
			r.err = fmt.Errorf("frame %v inside a header block", typ)
			return
		}
		switch typ {
		case http2.FrameSettings:
			if flags&http2.FlagSettingsAck != 0 {
				r.acks++
			} else {
				r.settings++
			}
		case http2.FrameHeaders:
			if flags&http2.FlagHeadersPadded != 0 {
				if len(pl) < 1 || int(pl[0]) > len(pl)-1 {
					r.err = fmt.Errorf("bad padding")
					return
				}
				pl = pl[1 : len(pl)-int(pl[0])]
			}
			if flags&http2.FlagHeadersPriority != 0 {
				if len(pl) < 5 {
					r.err = fmt.Errorf("short priority")
					return
				}
				pl = pl[5:]
			}
			r.block = append([]byte{}, pl...)
			r.blockSID = sid
			r.blockEnd = flags&http2.FlagHeadersEndStream != 0
			if flags&http2.FlagHeadersEndHeaders != 0 {
				r.endBlock()
			}
		case http2.FrameContinuation:
			if r.block == nil || sid != r.blockSID {
				r.err = fmt.Errorf("unexpected CONTINUATION")
				return
			}
			r.block = append(r.block, pl...)
			if flags&http2.FlagContinuationEndHeaders != 0 {
				r.endBlock()
			}
		case http2.FrameData:
			if flags&http2.FlagDataPadded != 0 {
				if len(pl) < 1 || int(pl[0]) > len(pl)-1 {
					r.err = fmt.Errorf("bad padding")
					return
				}
				pl = pl[1 : len(pl)-int(pl[0])]
			}
			m := r.stream(sid)
			m.Body = append(m.Body, pl...)
			if flags&http2.FlagDataEndStream != 0 {
				m.End = true
			}
		case http2.FrameWindowUpdate, http2.FramePing, http2.FramePriority:
		case http2.FrameRSTStream:
			code := uint32(0)
			if len(pl) >= 4 {
				code = binary.BigEndian.Uint32(pl)
			}
			r.other = append(r.other, fmt.Sprintf("RST_STREAM(stream %d, %v)", sid, http2.ErrCode(code)))
		case http2.FrameGoAway:
			code := uint32(0)
			if len(pl) >= 8 {
				code = binary.BigEndian.Uint32(pl[4:])
			}
			r.other = append(r.other, fmt.Sprintf("GOAWAY(%v)", http2.ErrCode(code)))
		default:
			r.other = append(r.other, fmt.Sprintf("frame type %v", typ))
		}
	}
}

func (r *c01h2Reader) first() *c01h2Msg {
	if len(r.order) == 0 {
		return nil
	}
	return r.streams[r.order[0]]
}

// ---------------------------------------------------------------------------
// writing what the peers send

type c01h2Writer struct {
	buf bytes.Buffer
	fr  *http2.Framer
	hb  bytes.Buffer
	enc *hpack.Encoder
}

func c01h2NewWriter() *c01h2Writer {
	w := &c01h2Writer{}
	w.fr = http2.NewFramer(&w.buf, nil)
	w.enc = hpack.NewEncoder(&w.hb)
	return w
}

func (w *c01h2Writer) must(err error) {
	if err != nil {
		panic("c01h2: " + err.Error())
	}
}

// message writes HEADERS (+CONTINUATION when the block is large) and DATA frames.
func (w *c01h2Writer) message(sid uint32, fields []c01hField, body []byte, hasBody bool) {
	w.hb.Reset()
	for _, f := range fields {
		w.must(w.enc.WriteField(hpack.HeaderField{Name: f.K, Value: f.V}))
	}
	block := append([]byte{}, w.hb.Bytes()...)
	const max = 16384
	first := block
	if len(first) > max {
		first = block[:max]
	}
	rest := block[len(first):]
	w.must(w.fr.WriteHeaders(http2.HeadersFrameParam{StreamID: sid, BlockFragment: first, EndHeaders: len(rest) == 0, EndStream: !hasBody}))
	for len(rest) > 0 {
		n := len(rest)
		if n > max {
			n = max
		}
		w.must(w.fr.WriteContinuation(sid, n == len(rest), rest[:n]))
		rest = rest[n:]
	}
	if hasBody {
		if len(body) == 0 {
			w.must(w.fr.WriteData(sid, true, nil))
		}
		for off := 0; off < len(body); off += max {
			end := off + max
			if end > len(body) {
				end = len(body)
			}
			w.must(w.fr.WriteData(sid, end == len(body), body[off:end]))
		}
	}
}

func (w *c01h2Writer) take() []byte {
	b := append([]byte{}, w.buf.Bytes()...)
	w.buf.Reset()
	return b
}

// ---------------------------------------------------------------------------
// case: c01hCase is reused. ReqFraming "none" = no body (END_STREAM on HEADERS),
// otherwise DATA frames; RespFrame likewise ("none" = END_STREAM on HEADERS).
// Field names are sent in lower case (HTTP/2 requires it).

func c01h2Lower(fs []c01hField) []c01hField {
	out := make([]c01hField, 0, len(fs))
	for _, f := range fs {
		out = append(out, c01hField{strings.ToLower(f.K), f.V})
	}
	return out
}

type c01h2Obs struct {
	up      *c01h2Msg
	dn      *c01h2Msg
	upOther []string
	dnOther []string
	local   bool
	closed  bool
}

// c01h2Session: one HTTP/2 downstream connection (and the upstream connection the
// HTTP/2 pool multiplexes on); HPACK state of all four coders persists across the
// exchanges of a session, stream ids count up.
type c01h2Session struct {
	s        *c01hSession
	cw, sw   *c01h2Writer
	upR, dnR *c01h2Reader
	n        int // exchanges done
}

func c01h2NewSession() (*c01h2Session, string) {
	s, h := c01hNewSessionProto(protocol.HTTP2)
	if h != "" {
		return nil, h
	}
	return &c01h2Session{s: s, cw: c01h2NewWriter(), sw: c01h2NewWriter(),
		upR: c01h2NewReader(len(http2.ClientPreface)), dnR: c01h2NewReader(0)}, ""
}

func c01h2Run(c *c01hCase) (obs c01h2Obs, harness string) {
	return c01hRerun(func() (c01h2Obs, string) { return c01h2RunOnce(c) })
}

func c01h2RunOnce(c *c01hCase) (obs c01h2Obs, harness string) {
	hs, h := c01h2NewSession()
	if h != "" {
		return obs, h
	}
	defer hs.s.close()
	return hs.exchange(c)
}

func c01h2RunSeq(cs []c01hCase) (obs []c01h2Obs, harness string) {
	return c01hRerun(func() ([]c01h2Obs, string) { return c01h2RunSeqOnce(cs) })
}

func c01h2RunSeqOnce(cs []c01hCase) (obs []c01h2Obs, harness string) {
	hs, h := c01h2NewSession()
	if h != "" {
		return nil, h
	}
	defer hs.s.close()
	for i := range cs {
		o, h := hs.exchange(&cs[i])
		if h != "" {
			return obs, fmt.Sprintf("exchange %d: %s", i, h)
		}
		obs = append(obs, o)
		if o.local {
			return obs, fmt.Sprintf("exchange %d was answered locally", i)
		}
	}
	return obs, ""
}

func (hs *c01h2Session) exchange(c *c01hCase) (obs c01h2Obs, harness string) {
	s := hs.s
	rec, down := s.rec, s.down
	cw, sw, upR, dnR := hs.cw, hs.sw, hs.upR, hs.dnR
	k := hs.n // index of this exchange
	hs.n++
	sid := uint32(2*k + 1)

	// downstream client: (preface, SETTINGS,) the request
	if k == 0 {
		cw.buf.WriteString(http2.ClientPreface)
		cw.must(cw.fr.WriteSettings())
	}
	req := []c01hField{{":method", c.Method}, {":scheme", "http"}, {":authority", c.Host}, {":path", c.Target}}
	req = append(req, c01h2Lower(c.ReqFields)...)
	hasBody := c.ReqFraming != "none"
	cw.message(sid, req, c01hBody(c.ReqBody), hasBody)
	if err := c01hInject(down, cw.take(), "the request frames"); err != nil {
		return obs, err.Error()
	}

	upMsg := func() *c01h2Msg {
		if len(upR.order) > k {
			return upR.streams[upR.order[k]]
		}
		return nil
	}
	nOther := len(dnR.other)
	reqDone := func() bool {
		upR.feed(rec.upB)
		m := upMsg()
		return upR.err != nil || (m != nil && m.End)
	}
	respDone := func() bool {
		dnR.feed(rec.dnB)
		m := dnR.streams[sid]
		return dnR.err != nil || (m != nil && m.End) || len(dnR.other) > nOther
	}
	if err := rec.wait("the request on the upstream connection, a local reply, or the connection being closed", func() bool { return reqDone() || respDone() || down.IsClosed() }); err != nil {
		return obs, err.Error()
	}
	if upR.err != nil {
		return obs, "frames written upstream do not parse: " + upR.err.Error()
	}
	if dnR.err != nil {
		return obs, "frames written downstream do not parse: " + dnR.err.Error()
	}
	rec.mu.Lock()
	gotUp := upMsg() != nil && upMsg().End
	up := rec.up
	ups := rec.ups
	rec.mu.Unlock()
	if !gotUp {
		obs.local, obs.closed = true, down.IsClosed()
		obs.dn, obs.dnOther = dnR.streams[sid], dnR.other[nOther:]
		return obs, ""
	}
	if ups != 1 {
		return obs, fmt.Sprintf("%d upstream connections were created for one HTTP/2 session", ups)
	}
	// upstream server: (SETTINGS, ack of MOSN's SETTINGS,) the response
	if k == 0 {
		sw.must(sw.fr.WriteSettings())
		sw.must(sw.fr.WriteSettingsAck())
	}
	resp := []c01hField{{":status", strconv.Itoa(c.Status)}}
	resp = append(resp, c01h2Lower(c.RespFields)...)
	respHasBody := c.RespFrame != "none" && c.Method != "HEAD" // a HEAD response carries no DATA
	sw.message(upR.order[k], resp, c01hBody(c.RespBody), respHasBody)
	if err := c01hInject(up, sw.take(), "the response frames"); err != nil {
		return obs, err.Error()
	}
	if err := rec.wait("the response on the downstream connection", respDone); err != nil {
		return obs, err.Error()
	}
	if dnR.err != nil {
		return obs, "frames written downstream do not parse: " + dnR.err.Error()
	}
	deadline := c01hNewDeadline()
	for {
		s.p.asMux.RLock()
		n := s.p.activeStreams.Len()
		s.p.asMux.RUnlock()
		if n == 0 {
			break
		}
		if deadline.expired() {
			c01hDump("the proxy still has an active stream")
			return obs, "timeout: the proxy still has an active stream after the response was written"
		}
		time.Sleep(20 * time.Microsecond)
	}
	rec.mu.Lock()
	upR.feed(rec.upB)
	dnR.feed(rec.dnB)
	rec.mu.Unlock()
	obs.up, obs.dn, obs.upOther, obs.dnOther = upMsg(), dnR.streams[sid], upR.other, dnR.other[nOther:]
	if len(upR.order) != k+1 || len(dnR.order) != k+1 {
		return obs, fmt.Sprintf("unexpected streams (upstream %v, downstream %v) after exchange %d", upR.order, dnR.order, k)
	}
	return obs, ""
}

// ---------------------------------------------------------------------------
// oracle

func c01h2Pseudo(fs []c01hField, name string) (string, bool) {
	for _, f := range fs {
		if f.K == name {
			return f.V, true
		}
	}
	return "", false
}

func c01h2Regular(fs []c01hField) []c01hField {
	var out []c01hField
	for _, f := range fs {
		if !strings.HasPrefix(f.K, ":") {
			out = append(out, f)
		}
	}
	return out
}

// content-length is not framing in HTTP/2 but the statement leaves the length
// announcement to MOSN: enumerated, not compared
var c01h2Ignored = map[string]bool{"content-length": true}

func c01h2Rekey(fs []c01hFinding) []c01hFinding {
	for i := range fs {
		fs[i].key = "http2" + strings.TrimPrefix(fs[i].key, "http1")
	}
	return fs
}

func c01h2Judge(c *c01hCase, obs *c01h2Obs) []c01hFinding {
	var out []c01hFinding
	if obs.local {
		what := "connection-closed-without-reply"
		detail := ""
		if obs.dn != nil && obs.dn.HdrDone {
			st, _ := c01h2Pseudo(obs.dn.Fields, ":status")
			what = "local-reply status=" + st
			detail = fmt.Sprintf("reply %v %s", obs.dn.Fields, c01hShort(obs.dn.Body))
		} else if len(obs.dnOther) > 0 {
			what = "stream-or-connection-error"
			detail = strings.Join(obs.dnOther, ", ")
		}
		return append(out, c01hFinding{"http2 dir=request not-forwarded " + what,
			fmt.Sprintf("the well-formed request %s %q was not forwarded upstream: %s", c.Method, c.Target, detail)})
	}
	if len(obs.upOther) > 0 {
		out = append(out, c01hFinding{"http2 dir=request unexpected-frames-upstream", strings.Join(obs.upOther, ", ")})
	}
	// ---- request
	if m, _ := c01h2Pseudo(obs.up.Fields, ":method"); m != c.Method {
		out = append(out, c01hFinding{"http2 dir=request method-changed", fmt.Sprintf("sent %s %s, forwarded :method %q", c.Method, c.Target, m)})
	}
	if pth, _ := c01h2Pseudo(obs.up.Fields, ":path"); pth != c.Target {
		out = append(out, c01hFinding{"http2 dir=request request-target " + c01hTargetClass(c.Target, pth), fmt.Sprintf("sent :path %q, forwarded %q", c.Target, pth)})
	}
	if a, _ := c01h2Pseudo(obs.up.Fields, ":authority"); a != c.Host {
		out = append(out, c01hFinding{"http2 dir=request authority-changed", fmt.Sprintf("sent :authority %q, forwarded %q", c.Host, a)})
	}
	// :scheme describes the hop (plain text / TLS): enumerated, not compared
	out = append(out, c01h2Rekey(c01hCompareFields("request", c01h2Lower(c.ReqFields), c01h2Regular(obs.up.Fields), c01h2Ignored, nil))...)
	if sb := c01hBody(c.ReqBody); !bytes.Equal(sb, obs.up.Body) {
		out = append(out, c01hFinding{"http2 dir=request body-changed", c01hBodyDiff(sb, obs.up.Body)})
	}
	if len(obs.up.Trailers) > 0 {
		out = append(out, c01hFinding{"http2 dir=request trailers-added", fmt.Sprint(obs.up.Trailers)})
	}
	// ---- response
	if obs.dn == nil || !obs.dn.HdrDone {
		return append(out, c01hFinding{"http2 dir=response not-forwarded", fmt.Sprintf("no response headers reached the client; other frames: %v", obs.dnOther)})
	}
	if len(obs.dnOther) > 0 {
		out = append(out, c01hFinding{"http2 dir=response unexpected-frames-downstream", strings.Join(obs.dnOther, ", ")})
	}
	if st, _ := c01h2Pseudo(obs.dn.Fields, ":status"); st != strconv.Itoa(c.Status) {
		out = append(out, c01hFinding{"http2 dir=response status-code-changed", fmt.Sprintf("upstream answered %d, downstream got :status %q", c.Status, st)})
	}
	out = append(out, c01h2Rekey(c01hCompareFields("response", c01h2Lower(c.RespFields), c01h2Regular(obs.dn.Fields), c01h2Ignored, map[string]bool{"date": true}))...)
	wantBody := c01hBody(c.RespBody)
	if c.Method == "HEAD" || c.RespFrame == "none" {
		wantBody = nil
	}
	if !bytes.Equal(wantBody, obs.dn.Body) {
		out = append(out, c01hFinding{"http2 dir=response body-changed", c01hBodyDiff(wantBody, obs.dn.Body)})
	}
	if len(obs.dn.Trailers) > 0 {
		out = append(out, c01hFinding{"http2 dir=response trailers-added", fmt.Sprint(obs.dn.Trailers)})
	}
	return out
}

func c01h2Check(p *vreport.Part, c c01hCase) {
	obs, harness := c01h2Run(&c)
	if harness != "" {
		vreport.HarnessError("C01", p.Name, fmt.Sprintf("%s %s: %s", c.Method, c.Target, harness))
		return
	}
	var keys []string
	for _, f := range c01h2Judge(&c, &obs) {
		keys = append(keys, f.key)
		p.Violation(f.key, fmt.Sprintf("%s %s -> %d: %s", c.Method, c.Target, c.Status, f.detail), c)
	}
	var names []string
	if obs.up != nil {
		for _, f := range obs.up.Fields {
			names = append(names, f.K)
		}
	}
	sort.Strings(names) // field order across names follows Go map iteration: not an outcome
	p.Outcome(fmt.Sprintf("local=%v|%s|%s", obs.local, strings.Join(keys, ","), strings.Join(names, ",")))
	if p.WantSample() {
		smp := map[string]interface{}{"case": c}
		if obs.up != nil {
			smp["upstream_got"] = fmt.Sprint(obs.up.Fields)
		}
		if obs.dn != nil {
			smp["downstream_got"] = fmt.Sprint(obs.dn.Fields)
		}
		p.Sample(smp)
	}
}

func c01h2Base() c01hCase {
	c := c01hBase("h2")
	c.Reason = ""
	return c
}

func c01h2NoConn(fs []c01hField) []c01hField {
	var out []c01hField
	for _, f := range fs {
		if !strings.EqualFold(f.K, "connection") { // connection-specific fields do not exist in HTTP/2
			out = append(out, f)
		}
	}
	return out
}

// Part 1: request-targets (reduced set in the quick tier).
func TestVerifC01HTTP2Targets(t *testing.T) {
	p := vreport.Begin("C01", "http2-request-targets", time.Duration(vreport.Pick(3, 15))*time.Minute)
	maxSeg := vreport.Pick(2, 3)
	gen := func(yield func(c01hCase) bool) {
		emit := func(method, target string) bool {
			c := c01h2Base()
			c.Target = target
			c.ReqFields = []c01hField{{"x-c01", "t"}, {"user-agent", "c01-agent/1.0"}}
			if method == "GET" {
				return yield(c)
			}
			return yield(c01hWithBody(c, method, "lit:body of "+target, "cl"))
		}
		targets := []string{}
		for _, path := range c01hPaths(maxSeg) {
			for _, q := range c01hQueries {
				targets = append(targets, path+q)
			}
		}
		targets = append(targets, c01hExtraTargets...)
		for _, tg := range targets {
			for _, m := range []string{"GET", "POST"} {
				if !emit(m, tg) {
					return
				}
			}
		}
		c := c01h2Base()
		c.Method, c.Target = "OPTIONS", "*"
		c.ReqFields = []c01hField{{"user-agent", "c01-agent/1.0"}}
		yield(c)
	}
	complete := vreport.Run(p, gen, func(p *vreport.Part, c c01hCase) {
		p.Distinct(c.Target)
		c01h2Check(p, c)
	})
	c01hReportRecovered(p)
	p.End(complete,
		fmt.Sprintf("HTTP/2 -> HTTP/2 through the real proxy: :path = (('/' | paths of 1..%d segments over {a,%%2F,%%20,%%41,..,.,\"\",*,a+b,%%C3%%A4}) x queries {absent, ?, ?a=b, ?a=%%20&b, ?=, ?a=b?c} + %d further targets) x {GET, POST with a body}, plus OPTIONS *; fresh connections per exchange, x/net/http2 framer + hpack as both peers", maxSeg, len(c01hExtraTargets)),
		"complete product; distinct = :path; compared: :method, :path byte-for-byte, :authority, regular header multiset (values byte-for-byte; content-length not compared; date added when absent not compared; :scheme and field order across different names enumerated only), body; response: :status, header multiset, body")
}

// Part 2: header field sets in both directions.
func TestVerifC01HTTP2Headers(t *testing.T) {
	p := vreport.Begin("C01", "http2-header-sets", time.Duration(vreport.Pick(3, 15))*time.Minute)
	max := vreport.Pick(2, 3)
	reqSets := c01hSubsets(c01h2NoConn(c01hReqAlphabet), max)
	respSets := c01hSubsets(c01h2NoConn(c01hRespAlphabet), max)
	gen := func(yield func(c01hCase) bool) {
		for _, rs := range reqSets {
			for _, ps := range respSets {
				for _, m := range []string{"GET", "POST"} {
					c := c01h2Base()
					c.Target = "/h?x=1"
					c.ReqFields, c.RespFields = rs, ps
					if m == "POST" {
						c.Method, c.ReqBody, c.ReqFraming = "POST", "lit:req", "cl"
					}
					if !yield(c) {
						return
					}
				}
			}
		}
	}
	complete := vreport.Run(p, gen, func(p *vreport.Part, c c01hCase) {
		p.Distinct(c.Method + "\n" + c01hFieldsKey(c.ReqFields) + "--\n" + c01hFieldsKey(c.RespFields))
		c01h2Check(p, c)
	})
	c01hReportRecovered(p)
	p.End(complete,
		fmt.Sprintf("request field sets = all sub-sequences of <= %d fields of the HTTP/1 request alphabet without Connection, names in lower case (%d sets) x response field sets likewise (%d sets) x {GET, POST+body}; full product", max, len(reqSets), len(respSets)),
		"distinct = (method, request fields, response fields); header multiset compared as in part http2-request-targets")
}

// Part 3: methods, bodies, status codes.
func TestVerifC01HTTP2Bodies(t *testing.T) {
	p := vreport.Begin("C01", "http2-methods-bodies-status", time.Duration(vreport.Pick(3, 15))*time.Minute)
	bodies := []string{"lit:", "z1", "all", "z4096", "z16384", "z16385", "z40000"}
	methods := []string{"POST", "PUT", "PATCH", "DELETE", "OPTIONS", "PURGE"}
	statuses := []int{200, 201, 202, 204, 206, 301, 302, 304, 400, 401, 403, 404, 418, 499, 500, 502, 503, 504, 599}
	ua := c01hField{"user-agent", "c01-agent/1.0"}
	gen := func(yield func(c01hCase) bool) {
		for _, m := range methods {
			for _, b := range bodies {
				c := c01hWithBody(c01h2Base(), m, b, "cl")
				c.ReqFields = append(c.ReqFields, ua)
				c.Target = "/b"
				if !yield(c) {
					return
				}
			}
		}
		for _, m := range []string{"GET", "HEAD", "DELETE", "OPTIONS", "PURGE", "POST", "PUT"} {
			c := c01h2Base()
			c.ReqFields = []c01hField{ua}
			c.Method, c.Target = m, "/m"
			if !yield(c) {
				return
			}
		}
		for _, b := range bodies {
			for _, st := range []int{200, 404, 500} {
				c := c01h2Base()
				c.ReqFields = []c01hField{ua}
				c.Target = "/r"
				c.Status, c.RespBody = st, b
				if !yield(c) {
					return
				}
			}
		}
		for _, st := range statuses {
			for _, b := range []string{"none", "lit:", "lit:status body"} {
				for _, m := range []string{"GET", "HEAD", "POST"} {
					c := c01h2Base()
					if m == "POST" {
						c = c01hWithBody(c, m, "lit:x", "cl")
					}
					c.ReqFields = append(c.ReqFields, ua)
					c.Method, c.Target = m, "/s"
					c.Status = st
					if b == "none" || m == "HEAD" {
						c.RespBody, c.RespFrame = "", "none" // END_STREAM on the response HEADERS
					} else {
						c.RespBody = b
					}
					if (st == 204 || st == 304) && c.RespFrame != "none" && b != "lit:" {
						continue
					}
					if !yield(c) {
						return
					}
				}
			}
		}
	}
	complete := vreport.Run(p, gen, func(p *vreport.Part, c c01hCase) {
		p.Distinct(fmt.Sprintf("%s|%s|%s|%d|%s|%s", c.Method, c.ReqBody, c.ReqFraming, c.Status, c.RespBody, c.RespFrame))
		c01h2Check(p, c)
	})
	c01hReportRecovered(p)
	p.End(complete,
		fmt.Sprintf("methods %v x request bodies %v (DATA frames of <= 16384 bytes); body-less {GET,HEAD,DELETE,OPTIONS,PURGE,POST,PUT}; response bodies x {200,404,500}; status codes %v x {END_STREAM on HEADERS, empty DATA, small body} x {GET,HEAD,POST}", methods, bodies, statuses),
		"complete products as listed; bodies stay below the initial 65535-byte flow-control window (flow control is C18)")
}

// Part 4: consecutive streams on one HTTP/2 connection pair (HPACK state of all
// four coders, stream ids, the multiplexing pool).
func c01h2SeqAlphabet() []c01hCase {
	out := c01hSeqAlphabet()
	for i := range out {
		out[i].Part = "h2-seq"
		out[i].ReqFields = c01h2Lower(out[i].ReqFields)
		out[i].RespFields = c01h2Lower(out[i].RespFields)
		hasUA := false
		for _, f := range out[i].ReqFields {
			hasUA = hasUA || f.K == "user-agent"
		}
		if !hasUA { // a different one per exchange; without one the recorded default User-Agent finding fires
			out[i].ReqFields = append(out[i].ReqFields, c01hField{"user-agent", fmt.Sprintf("c01-agent/%d", i)})
		}
		if out[i].ReqFraming != "none" {
			out[i].ReqFraming = "cl"
		}
		if out[i].RespFrame != "none" {
			out[i].RespFrame = "cl"
		}
		if out[i].RespBody != "" && out[i].RespBody != "lit:" {
			// avoid the recorded content sniffing finding in every sequence
			has := false
			for _, f := range out[i].RespFields {
				has = has || f.K == "content-type"
			}
			if !has {
				out[i].RespFields = append(out[i].RespFields, c01hField{"content-type", "application/x-c01"})
			}
		}
	}
	return out
}

func TestVerifC01HTTP2Sequences(t *testing.T) {
	p := vreport.Begin("C01", "http2-stream-sequences", time.Duration(vreport.Pick(3, 15))*time.Minute)
	alpha := c01h2SeqAlphabet()
	n := vreport.Pick(3, 4)
	gen := func(yield func(c01hSeqCase) bool) {
		idx := make([]int, n)
		for {
			sc := c01hSeqCase{}
			for _, i := range idx {
				sc.Seq = append(sc.Seq, alpha[i])
			}
			if !yield(sc) {
				return
			}
			k := n - 1
			for k >= 0 {
				idx[k]++
				if idx[k] < len(alpha) {
					break
				}
				idx[k] = 0
				k--
			}
			if k < 0 {
				return
			}
		}
	}
	alone := map[string]map[string]bool{}
	aloneKeys := func(c c01hCase) (map[string]bool, string) {
		id := c.Method + " " + c.Target
		if m, ok := alone[id]; ok {
			return m, ""
		}
		obs, h := c01h2Run(&c)
		if h != "" {
			return nil, h
		}
		m := map[string]bool{}
		for _, f := range c01h2Judge(&c, &obs) {
			m[f.key] = true
		}
		alone[id] = m
		return m, ""
	}
	complete := vreport.Run(p, gen, func(p *vreport.Part, sc c01hSeqCase) {
		var names []string
		for _, c := range sc.Seq {
			names = append(names, c.Method+" "+c.Target)
		}
		p.Distinct(strings.Join(names, " ; "))
		obs, h := c01h2RunSeq(sc.Seq)
		if h != "" {
			vreport.HarnessError("C01", p.Name, strings.Join(names, " ; ")+": "+h)
			return
		}
		out := ""
		for i := range obs {
			base, h := aloneKeys(sc.Seq[i])
			if h != "" {
				vreport.HarnessError("C01", p.Name, names[i]+" alone: "+h)
				return
			}
			for _, f := range c01h2Judge(&sc.Seq[i], &obs[i]) {
				key := f.key
				if i > 0 && !base[key] {
					key = "http2 connection reuse: stream differs from the same exchange on fresh connections: " + strings.TrimPrefix(f.key, "http2 ")
				}
				p.Violation(key, fmt.Sprintf("sequence [%s], stream %d: %s", strings.Join(names, " ; "), 2*i+1, f.detail), sc)
				out += key + ","
			}
		}
		p.Outcome(out + fmt.Sprint(len(obs)))
		if p.WantSample() {
			p.Sample(map[string]interface{}{"sequence": names})
		}
	})
	c01hReportRecovered(p)
	p.End(complete,
		fmt.Sprintf("all sequences of %d exchanges over an alphabet of %d diverse exchanges (the HTTP/1 keep-alive alphabet in HTTP/2 form) as consecutive streams 1,3,5.. of ONE downstream HTTP/2 connection, multiplexed by the real HTTP/2 pool on one upstream connection; the HPACK dynamic tables of MOSN's two decoders and two encoders carry over from stream to stream", n, len(alpha)),
		"complete product; every stream is judged like a single exchange; a finding of a later stream that the same exchange does not show on fresh connections gets its own connection-reuse key")
}
