//go:build verif

package proxy

import (
	stdjson "encoding/json"
	"fmt"
	"os"
	"runtime"
	"strings"
	"testing"

	"mosn.io/mosn/pkg/verifrt/vrt"
)

// TestVerifDebugC10: VERIF_C10_ONLY=<scenario>: default schedule, prints every change of every resource with a short stack.
func TestVerifDebugC10(t *testing.T) {
	only := os.Getenv("VERIF_C10_DEBUG")
	if only == "" {
		return
	}
	scs := c10Scenarios()
	var prefix []int
	if strings.HasSuffix(only, ".json") {
		b, _ := os.ReadFile(only)
		var rf struct {
			Case hpScenario `json:"case"`
		}
		if err := stdjson.Unmarshal(b, &rf); err != nil {
			t.Fatal(err)
		}
		scs = []hpScenario{rf.Case}
		prefix = rf.Case.Choices
		only = rf.Case.Name
	}
	for _, sc := range scs {
		if sc.Name != only {
			continue
		}
		obs := &hpObs{}
		var run *hpRun
		last := map[string]int64{}
		hpRunHook = func(h *hpRun) { run = h }
		vrt.Explore(vrt.Options{Replay: true, Prefix: prefix, Delay: true, MaxSteps: 200000, Monitor: func() {
			if run == nil || run.cm == nil {
				return
			}
			for k, v := range hpResources(run) {
				if last[k] != v {
					pc := make([]uintptr, 24)
					n := runtime.Callers(4, pc)
					fr := runtime.CallersFrames(pc[:n])
					var st []string
					for {
						f, more := fr.Next()
						if strings.Contains(f.Function, "mosn.io/mosn/pkg") && !strings.Contains(f.Function, "verifrt") {
							st = append(st, fmt.Sprintf("%s:%d", f.Function[strings.LastIndex(f.Function, "/")+1:], f.Line))
						}
						if !more || len(st) > 7 {
							break
						}
					}
					fmt.Printf("RES %s: %d -> %d at %v\n", k, last[k], v, st)
					last[k] = v
				}
			}
		}}, func() {
			*obs = hpObs{}
			run = nil
			hpBody(&sc, obs)
		}, func(r *vrt.Result) {
			fmt.Printf("END res=%v gauges=%v down=%v log=%v\n", obs.ResCur, obs.Gauges, obs.DownFrames, obs.Log)
		})
	}
}
