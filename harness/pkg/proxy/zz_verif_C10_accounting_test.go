//go:build verif

package proxy

// C10: circuit-breaker resources and active gauges are conserved: every
// increment is matched by exactly one decrement on every path; counters never
// go negative, return to zero when idle, and limits trip at their thresholds.

import (
	"context"
	"fmt"
	"os"
	"sort"
	"strings"
	"testing"
	"time"

	"mosn.io/mosn/pkg/protocol/xprotocol/bolt"
	"mosn.io/mosn/pkg/verifrt/vreport"
	"mosn.io/mosn/pkg/verifrt/vrt"
)

func c10Scenarios() []hpScenario {
	var out []hpScenario
	add := func(sc hpScenario) {
		sc.Name = hpScenarioName(&sc)
		if sc.Sequential {
			sc.Name += " sequential"
			if sc.Settle {
				sc.Name += "+settled"
			}
		}
		if sc.OneChunk {
			sc.Name += " one-chunk"
		}
		if sc.MaxRetries > 0 {
			sc.Name += fmt.Sprintf(" max_retries=%d", sc.MaxRetries)
		}
		if sc.MaxConnections > 0 {
			sc.Name += fmt.Sprintf(" max_connections=%d", sc.MaxConnections)
		}
		if sc.EjectFirstHost {
			sc.Name += " eject-first-host"
		}
		out = append(out, sc)
	}
	one := func(script ...string) []hpRequest { return []hpRequest{{Token: "t1", Script: script}} }
	two := func(s1, s2 []string) []hpRequest {
		return []hpRequest{{Token: "t1", Script: s1}, {Token: "t2", Script: s2}}
	}
	// single-request histories: every outcome class, thresholds unlimited and small
	for _, th := range []uint32{0, 1, 2} {
		for _, f := range []string{upReply200, upReply5xx, upClose, upSilent} {
			add(hpScenario{Hosts: 2, RouteTimeoutMs: 1000, MaxRequests: th, MaxRetries: th, Requests: one(f)})
			add(hpScenario{Hosts: 2, RouteTimeoutMs: 1000, MaxRequests: th, MaxRetries: th, RetryOn: true, NumRetries: 1, Requests: one(f, upReply200)})
			if th == 0 {
				add(hpScenario{Hosts: 2, RouteTimeoutMs: 1000, TryTimeoutMs: 100, RetryOn: true, NumRetries: 1, Requests: one(f, upClose)})
				add(hpScenario{Hosts: 2, RouteTimeoutMs: 1000, DownDisconnect: true, Requests: one(f)})
			}
		}
	}
	add(hpScenario{Hosts: 2, RouteTimeoutMs: 1000, Requests: []hpRequest{{Token: "t1", Oneway: true, Script: []string{upReply200}}}})
	// one-way requests: admitted, sent, never answered; their stream ends at once or is reset
	// with the connection (send failure, peer closing while another request is in flight)
	ow := func(script ...string) hpRequest { return hpRequest{Token: "t1", Oneway: true, Script: script} }
	for _, th := range []uint32{0, 1} {
		add(hpScenario{Hosts: 1, RouteTimeoutMs: 1000, MaxRequests: th, Requests: []hpRequest{ow(upClose)}})
		add(hpScenario{Hosts: 1, RouteTimeoutMs: 1000, MaxRequests: th, FailHosts: []int{0}, Requests: []hpRequest{ow(upReply200)}})
		add(hpScenario{Hosts: 1, RouteTimeoutMs: 1000, MaxRequests: th, Requests: []hpRequest{ow(upReply200), {Token: "t2", Script: []string{upClose}}}})
		add(hpScenario{Hosts: 1, RouteTimeoutMs: 1000, MaxRequests: th, Requests: []hpRequest{{Token: "t2", Script: []string{upClose}}, ow(upReply200)}})
		add(hpScenario{Hosts: 1, RouteTimeoutMs: 1000, MaxRequests: th, Requests: []hpRequest{ow(upReply200), {Token: "t2", Script: []string{upReply200}}}})
		add(hpScenario{Hosts: 1, RouteTimeoutMs: 1000, MaxRequests: th, Sequential: true, Settle: true, Requests: []hpRequest{{Token: "t2", Script: []string{upClose}}, ow(upReply200), {Token: "t3", Script: []string{upReply200}}}})
	}
	// send failures: the peer is gone when the n-th upstream write happens (admitted, not flushed)
	for _, th := range []uint32{0, 1} {
		for n := 1; n <= 2; n++ {
			add(hpScenario{Hosts: 1, RouteTimeoutMs: 1000, MaxRequests: th, UpBreakAtWrite: n, Requests: []hpRequest{ow(upReply200)}})
			add(hpScenario{Hosts: 1, RouteTimeoutMs: 1000, MaxRequests: th, UpBreakAtWrite: n, Requests: []hpRequest{{Token: "t1", Oneway: true, Body: true, Script: []string{upReply200}}}})
			add(hpScenario{Hosts: 2, RouteTimeoutMs: 1000, MaxRequests: th, MaxRetries: th, UpBreakAtWrite: n, Requests: one(upReply200)})
			add(hpScenario{Hosts: 2, RouteTimeoutMs: 1000, MaxRequests: th, MaxRetries: th, UpBreakAtWrite: n, RetryOn: true, NumRetries: 1, Requests: one(upReply200, upReply200)})
			add(hpScenario{Hosts: 1, RouteTimeoutMs: 1000, MaxRequests: th, UpBreakAtWrite: n, Sequential: true, Settle: true, Requests: []hpRequest{{Token: "t2", Script: []string{upReply200}}, ow(upReply200), {Token: "t3", Script: []string{upReply200}}}})
		}
	}
	add(hpScenario{Hosts: 2, RouteTimeoutMs: 1000, FailHosts: []int{0, 1}, Requests: one(upReply200)})
	add(hpScenario{Hosts: 2, RouteTimeoutMs: 1000, FailHosts: []int{0}, RetryOn: true, Requests: one(upReply200)})
	add(hpScenario{Hosts: 1, NoRoute: true, RouteTimeoutMs: 1000, Requests: one(upReply200)})
	// a granted retry that finds no selectable host any more (the only host is ejected before the retry)
	for _, th := range []uint32{0, 1, 2} {
		for _, f := range []string{upReplyBusy, upClose} {
			add(hpScenario{Hosts: 1, RouteTimeoutMs: 1000, MaxRetries: th, MaxRequests: th, RetryOn: true, NumRetries: 1, EjectFirstHost: true, Requests: one(f, upReply200)})
			add(hpScenario{Hosts: 1, RouteTimeoutMs: 1000, MaxRetries: th, RetryOn: true, NumRetries: 1, EjectFirstHost: true, Sequential: true, Requests: two([]string{f, upReply200}, []string{upReply200})})
		}
	}
	// two requests on one downstream connection
	ok, silent, closeS, errS := []string{upReply200}, []string{upSilent}, []string{upClose}, []string{upReply5xx, upReply200}
	for _, th := range []uint32{0, 1, 2} {
		add(hpScenario{Hosts: 1, RouteTimeoutMs: 1000, MaxRequests: th, Sequential: true, Settle: true, Requests: two(ok, ok)})
		add(hpScenario{Hosts: 1, RouteTimeoutMs: 1000, MaxRequests: th, Sequential: true, Settle: true, Requests: two(silent, ok)})
		add(hpScenario{Hosts: 1, RouteTimeoutMs: 1000, MaxRequests: th, Sequential: true, Settle: true, Requests: two(closeS, ok)})
		add(hpScenario{Hosts: 1, RouteTimeoutMs: 1000, MaxRequests: th, Requests: two(ok, ok)})
		add(hpScenario{Hosts: 1, RouteTimeoutMs: 1000, MaxRequests: th, Requests: two(ok, silent)})
		add(hpScenario{Hosts: 1, RouteTimeoutMs: 1000, MaxRequests: th, OneChunk: true, Requests: two(ok, closeS)})
	}
	add(hpScenario{Hosts: 2, RouteTimeoutMs: 1000, MaxRetries: 1, RetryOn: true, NumRetries: 1, Requests: two(errS, closeS)})
	add(hpScenario{Hosts: 2, RouteTimeoutMs: 1000, MaxRetries: 1, RetryOn: true, NumRetries: 1, Sequential: true, Requests: two(errS, errS)})
	return out
}

// c10Causes names the failure causes a scenario scripts (sorted, '+'-joined), "none" for pure successes.
func c10Causes(sc *hpScenario) string {
	set := map[string]bool{}
	for _, r := range sc.Requests {
		for _, a := range r.Script {
			switch a {
			case upClose:
				set["upstream-close"] = true
			case upSilent:
				set["timeout"] = true
			case upReply5xx, upReplyBusy:
				set["error-reply"] = true
			}
		}
	}
	if sc.UpBreakAtWrite > 0 {
		set["send-failure"] = true
	}
	if sc.RetryOn {
		set["retry-policy"] = true
	}
	if sc.DownDisconnect {
		set["client-disconnect"] = true
	}
	if len(sc.FailHosts)+len(sc.TimeoutHosts) > 0 {
		set["connect-failure"] = true
	}
	if sc.EjectFirstHost {
		set["host-ejected"] = true
	}
	if len(sc.Requests) > 1 && !sc.Sequential {
		set["concurrent"] = true
	}
	var l []string
	for k := range set {
		l = append(l, k)
	}
	sort.Strings(l)
	if len(l) == 0 {
		return "none"
	}
	return strings.Join(l, "+")
}

type c10Mon struct {
	min map[string]int64
	max map[string]int64
}

func c10Run(p *vreport.Part, sc hpScenario, replay bool) bool {
	obs := &hpObs{}
	mon := &c10Mon{}
	var monRun *hpRun
	opts := vrt.Options{Bound: sc.Bound, Delay: true, MaxSteps: 200000, MaxExecs: vreport.Pick(30000, 300000),
		Deadline: time.Now().Add(20 * time.Minute),
		Monitor: func() {
			if monRun == nil || monRun.cm == nil {
				return
			}
			for k, v := range hpResources(monRun) {
				if cur, ok := mon.min[k]; !ok || v < cur {
					mon.min[k] = v
				}
				if cur, ok := mon.max[k]; !ok || v > cur {
					mon.max[k] = v
				}
			}
		}}
	if replay {
		opts.Replay = true
		opts.Prefix = sc.Choices
	}
	hpRunHook = func(h *hpRun) { monRun = h }
	defer func() { hpRunHook = nil }()
	st := vrt.Explore(opts, func() {
		*obs = hpObs{}
		mon.min, mon.max = map[string]int64{}, map[string]int64{}
		monRun = nil
		hpBody(&sc, obs)
	}, func(r *vrt.Result) {
		p.Eval()
		cc := sc
		cc.Choices = r.Choices
		// finding keys carry the failure causes scripted in the scenario and the number of scheduling
		// deviations the failing schedule needed: the same counter can be broken on different paths
		causes := c10Causes(&sc)
		report := func(kind, detail string) {
			p.Violation(fmt.Sprintf("%s; causes=%s deviations=%d", kind, causes, r.Cost), "scenario "+sc.Name+": "+detail+fmt.Sprintf(" | log=%v schedule=%v", obs.Log, r.Choices), cc)
		}
		if r.Diverged != "" || r.StepLimit || len(r.Panics) > 0 || r.Deadlock {
			report("HARNESS execution did not complete normally", r.String()+strings.Join(r.Panics, "\n"))
			return
		}
		var down []string
		answered := map[uint32]bool{}
		for _, f := range obs.DownFrames {
			down = append(down, fmt.Sprintf("%d:%d", f.ID, f.Status))
			answered[f.ID] = true
		}
		p.Distinct(fmt.Sprintf("%s|%v|%v|%v|%v", sc.Name, down, obs.Attempts, obs.ResCur, mon.max))
		p.Outcome(fmt.Sprintf("%s|%v|%v", sc.Name, down, obs.ResCur))
		if p.WantSample() {
			p.Sample(map[string]interface{}{"scenario": sc.Name, "schedule": r.Choices, "downstream": down, "resources_end": obs.ResCur, "resources_max": mon.max, "gauges": obs.Gauges})
		}
		// (1) never negative, at any scheduling point
		for k, v := range mon.min {
			if v < 0 {
				report(fmt.Sprintf("resource %s went negative", k), fmt.Sprintf("minimum observed %d", v))
			}
		}
		// (2) limits: a resource never exceeds its configured maximum
		lim := map[string]uint32{"requests": sc.MaxRequests, "retries": sc.MaxRetries}
		for k, m := range lim {
			if m > 0 && mon.max[k] > int64(m) {
				report(fmt.Sprintf("resource %s exceeded its configured limit", k), fmt.Sprintf("max observed %d > limit %d", mon.max[k], m))
			}
		}
		// (3) back to zero when idle. A request that never completed (C03's known hang
		// findings) is not idle: those executions are skipped here and reported by C03.
		hung := false
		for i, rq := range sc.Requests {
			if !rq.Oneway && !answered[uint32(100+i)] && !sc.DownDisconnect {
				hung = true
			}
		}
		if obs.Active != 0 {
			hung = true
		}
		if hung {
			p.Count("executions_skipped_request_never_completed", 1)
			return
		}
		for _, k := range []string{"requests", "pending", "retries"} {
			if obs.ResCur[k] != 0 {
				report(fmt.Sprintf("resource %s not back to zero when idle", k), fmt.Sprintf("Cur()=%d at quiescence, all requests answered; downstream=%v attempts=%v", obs.ResCur[k], down, obs.Attempts))
			}
		}
		for _, k := range []string{"downstream_request_active", "upstream_request_active"} {
			if obs.Gauges[k] != 0 {
				report(fmt.Sprintf("gauge %s not back to its idle value", k), fmt.Sprintf("delta %d at quiescence; downstream=%v attempts=%v", obs.Gauges[k], down, obs.Attempts))
			}
		}
		// connections: the active-connection gauge equals the number of open upstream connections
		open := int64(0)
		for _, u := range obs.Ups {
			if u.Conn.Connected() && !u.Conn.IsClosed() {
				open++
			}
		}
		if obs.Gauges["upstream_connection_active"] != open {
			report("gauge upstream_connection_active differs from the number of open upstream connections", fmt.Sprintf("gauge delta %d, open connections %d", obs.Gauges["upstream_connection_active"], open))
		}
		// (4) thresholds: sequential requests are all admitted (capacity freed is available again)
		if sc.Sequential && sc.Settle && sc.MaxRequests > 0 {
			for i := range sc.Requests {
				for _, f := range obs.DownFrames {
					if f.ID == uint32(100+i) && f.Status == bolt.ResponseStatusServerThreadpoolBusy {
						report("request refused by max_requests although no other request was in flight", fmt.Sprintf("request %d got busy; downstream=%v", i, down))
					}
				}
			}
		}
	})
	p.AddTraces(st.Executions)
	if os.Getenv("VERIF_STATS") != "" {
		fmt.Printf("scenario %-70s execs=%-7d complete=%v\n", sc.Name, st.Executions, st.Complete)
	}
	return st.Complete
}

func TestVerifC10Accounting(t *testing.T) {
	const part = "resource-gauge-conservation"
	p := vreport.Begin("C10", part, time.Hour)
	var rc hpScenario
	if vreport.Replaying() {
		if vreport.ReplayFor("C10", part, &rc) {
			c10Run(p, rc, true)
			p.End(true, "replay", "replay of one recorded schedule")
		}
		return
	}
	si, sn := vreport.Shard()
	complete := true
	n := 0
	bound := vreport.Pick(1, 2)
	for i, sc := range c10Scenarios() {
		if only := os.Getenv("VERIF_C10_ONLY"); only != "" {
			if sc.Name != only || si != 0 {
				continue
			}
		} else if i%sn != si {
			continue
		}
		sc.Bound = bound
		if d := hpDeterminism(sc); d != "" {
			vreport.HarnessError("C10", part, "nondeterministic scenario "+sc.Name+": "+d)
			complete = false
			continue
		}
		if !c10Run(p, sc, false) {
			complete = false
			p.Count("scenarios_cut_by_execution_cap", 1)
		}
		n++
	}
	p.Note("scenarios", n)
	_ = context.Background
	p.End(complete, fmt.Sprintf("%d scenarios (this shard): 1-2 requests x outcome scripts x thresholds {0,1,2} x retry/timeout/disconnect; all schedules with <=%d deviations (delay bounding); monitor at every scheduling step", n, bound),
		"resources (requests, pending, retries, connections) read through ResourceManager accessors at every scheduling step (min/max) and at quiescence; gauges through the stats counters; distinct = distinct (scenario, downstream frames, attempts, end resources, max resources)")
}
