//go:build verif

package proxy

// C08 unit "proxy-detect": protocol auto-detection of the REAL proxy read filter
// (proxy.OnData -> stream.SelectStreamFactoryProtocol -> every registered
// matcher; on a match stream.CreateServerStreamConnection + Dispatch) on garbage
// and near-miss first bytes.
//
// The proxy is built by hand like in the C07 unit proxy-ondata (exactly the
// fields OnData / NewStreamDetect / downStream.OnReceive touch, a worker pool
// that records the scheduled tasks and never runs them), on a vfake connection.
// One case = one byte string delivered to a FRESH proxy connection, either whole
// (so that every prefix of every stream of the alphabet is its own case, decoded
// three times with exact / poisoned spare capacity by c08.Main) or one byte per
// read into the connection's persistent read buffer (OnData after every byte).
//
// Oracle (the statement's): detection answers one of
//
//	matched    a server stream connection exists (the bytes are then Dispatched to it)
//	need-more  nothing happened: no stream connection, connection open, buffer untouched
//	failed     no stream connection, THIS connection closed (OnReadErrClose), buffer untouched
//
// never panics (c08.Main), never allocates beyond 1 MiB + 32*len (c08.Main), and
// never answers need-more once no protocol can match any more: with 24 bytes
// buffered (the longest fixed magic, the HTTP/2 preface; dubbo decides at 16,
// dubbo-thrift / tars at 6, HTTP/1 at 7, bolt at 1) the answer must be matched or
// failed - unless the bytes look like a tars packet (byte 4 = 0x10, byte 5 in
// {1,3}, announced length 4..10 MiB), which the tars matcher may wait for up to
// its announced length. Afterwards a second, fresh proxy connection C receives a
// valid bolt request and must detect and hand it up as before any garbage.
// Which protocol is matched is NOT compared (C07 does that); inputs that more
// than one registered matcher accepts are not in the alphabet.
//
// When HTTP/1 is matched the real HTTP/1 server stream connection starts its
// serve goroutine; its state is settled with goroutine snapshots (c08g): it must
// end up reading (wants more), or gone with the connection closed; gone with the
// connection open is the WEDGE of unit http1.

import (
	"container/list"
	"encoding/binary"
	"fmt"
	"os"
	"runtime"
	"runtime/debug"
	"strings"
	"testing"
	"time"

	"mosn.io/api"
	v2 "mosn.io/mosn/pkg/config/v2"
	mlog "mosn.io/mosn/pkg/log"
	"mosn.io/mosn/pkg/network"
	"mosn.io/mosn/pkg/protocol"
	"mosn.io/mosn/pkg/protocol/xprotocol"
	"mosn.io/mosn/pkg/protocol/xprotocol/bolt"
	"mosn.io/mosn/pkg/protocol/xprotocol/boltv2"
	"mosn.io/mosn/pkg/protocol/xprotocol/dubbo"
	"mosn.io/mosn/pkg/protocol/xprotocol/dubbothrift"
	"mosn.io/mosn/pkg/protocol/xprotocol/tars"
	_ "mosn.io/mosn/pkg/stream/http"
	_ "mosn.io/mosn/pkg/stream/http2"
	xstream "mosn.io/mosn/pkg/stream/xprotocol"
	"mosn.io/mosn/pkg/verifrt/c07frames"
	"mosn.io/mosn/pkg/verifrt/c08"
	"mosn.io/mosn/pkg/verifrt/c08g"
	"mosn.io/mosn/pkg/verifrt/vfake"
	"mosn.io/mosn/pkg/verifrt/vreport"
	"mosn.io/pkg/buffer"
	plog "mosn.io/pkg/log"
)

var c08DInitDone bool

func c08DInit() {
	if c08DInitDone {
		return
	}
	c08DInitDone = true
	// the same registration cmd/mosn/main/control.go performs (errors = already registered by another harness file)
	xprotocol.RegisterXProtocolAction(xstream.NewConnPool, xstream.NewStreamFactory, func(codec api.XProtocolCodec) {})
	for _, c := range []api.XProtocolCodec{&bolt.XCodec{}, &boltv2.XCodec{}, &dubbo.XCodec{}, &dubbothrift.XCodec{}, &tars.XCodec{}} {
		_ = xprotocol.RegisterXProtocolCodec(c)
	}
	initGlobalStats()
	mlog.DefaultLogger.SetLogLevel(plog.FATAL)
	mlog.DefaultLogger.Toggle(true)
	mlog.StartLogger.SetLogLevel(plog.FATAL)
	mlog.StartLogger.Toggle(true)
	mlog.Proxy.SetLogLevel(plog.FATAL)
	mlog.Proxy.Toggle(true)
}

type c08DCallbacks struct {
	api.ReadFilterCallbacks
	conn *vfake.Conn
}

func (c *c08DCallbacks) Connection() api.Connection { return c.conn }

type c08DPool struct{ tasks int }

func (p *c08DPool) Schedule(task func())       { p.tasks++ }
func (p *c08DPool) ScheduleAlways(task func()) { p.tasks++ }
func (p *c08DPool) ScheduleAuto(task func())   { p.tasks++ }

type c08DAbort struct{}

// c08DBuf: the read buffer as the proxy sees it; a Dispatch loop that polls its length more than 64*(len+8) times
// is not consuming its input.
type c08DBuf struct {
	buffer.IoBuffer
	budget int
}

func (g *c08DBuf) Len() int {
	g.budget--
	if g.budget < 0 {
		panic(c08DAbort{})
	}
	return g.IoBuffer.Len()
}

var c08DAllNames []api.ProtocolName

func c08DScopes(scope string) []api.ProtocolName {
	if scope == "auto" {
		return []api.ProtocolName{protocol.Auto}
	}
	if c08DAllNames == nil {
		protocol.RangeAllRegisteredProtocol(func(n api.ProtocolName) { c08DAllNames = append(c08DAllNames, n) })
		// a fixed order (the scoped branch of SelectStreamFactoryProtocol walks the list in order)
		for i := range c08DAllNames {
			for j := i + 1; j < len(c08DAllNames); j++ {
				if c08DAllNames[j] < c08DAllNames[i] {
					c08DAllNames[i], c08DAllNames[j] = c08DAllNames[j], c08DAllNames[i]
				}
			}
		}
	}
	return c08DAllNames
}

type c08DPeer struct {
	p    *proxy
	conn *vfake.Conn
	pool *c08DPool
}

func c08DNewPeer(scope string) *c08DPeer {
	d := &c08DPeer{conn: vfake.NewServerSide("c08d"), pool: &c08DPool{}}
	d.p = &proxy{
		config:        &v2.Proxy{},
		activeStreams: list.New(),
		stats:         globalStats,
		listenerStats: newListenerStats("c08"),
		context:       c07frames.Ctx(),
		protocols:     c08DScopes(scope),
		workerpool:    d.pool,
	}
	d.p.downstreamListener = &downstreamCallbacks{proxy: d.p} // as NewProxy sets it
	d.p.InitializeReadFilterCallbacks(&c08DCallbacks{conn: d.conn})
	return d
}

// state after an OnData call, as the outside sees it
func (d *c08DPeer) state(buf buffer.IoBuffer, fed int) (kind, detail string) {
	closed := d.conn.IsClosed()
	switch {
	case d.p.serverStreamConn != nil:
		kind = "matched:" + string(d.p.serverStreamConn.Protocol())
	case closed:
		kind = "failed"
	default:
		kind = "need-more"
	}
	detail = fmt.Sprintf("streams=%d tasks=%d writes=%d closed=%v/%s rest=%d fallback=%v", d.p.activeStreams.Len(), d.pool.tasks, len(d.conn.Writes), closed, d.conn.CloseEvent, buf.Len(), d.p.fallback)
	return
}

// c08DTarsLike: the tars matcher may wait for the announced packet length.
func c08DTarsWait(b []byte) (int, bool) {
	if len(b) < 6 || b[4] != 0x10 || (b[5] != 1 && b[5] != 3) {
		return 0, false
	}
	l := int(binary.BigEndian.Uint32(b[0:4]))
	if l < 4 || l > 10485760 {
		return 0, false
	}
	return l, true
}

const c08DDecideAt = 24

func c08DMayWait(b []byte) bool {
	if len(b) < c08DDecideAt {
		return true
	}
	if l, ok := c08DTarsWait(b); ok && len(b) < l {
		return true
	}
	return false
}

var c08DSelf int

// c08DSettleHTTP1: the serve goroutine of an HTTP/1 server stream connection created inside OnData on this goroutine.
func c08DSettleHTTP1(wantGone bool) string {
	n := 0
	return c08g.Settle(func() string {
		if n++; n == 1 {
			for i := 0; i < 4; i++ {
				runtime.Gosched() // the serve goroutine is usually parked a few microseconds after the hand-over
			}
		}
		// (the enumerating goroutine has other children, e.g. c08.Main's watchdog: the serve loop is the one started
		// through utils.GoWithRecover)
		var ch []c08g.G
		for _, g := range c08g.Take().Children(c08DSelf) {
			if fn, _ := g.CreatedBy(); strings.HasSuffix(fn, "utils.GoWithRecover") {
				ch = append(ch, g)
			}
		}
		if len(ch) == 0 {
			return "gone"
		}
		if wantGone {
			return ""
		}
		if len(ch) > 1 {
			return fmt.Sprintf("HARNESS %d goroutines created by the enumerating goroutine", len(ch))
		}
		g := ch[0]
		if g.State == "chan receive" && strings.HasSuffix(g.Top(), "(*streamConnection).Read") {
			return "reading"
		}
		if g.State == "select" && strings.HasSuffix(g.Top(), "StreamConnection).serve") {
			return "idle"
		}
		return ""
	})
}

// c08DRun feeds b to a fresh proxy connection (whole, or byte by byte) and returns the canonical observation and a
// violation.
func c08DRun(scope string, b []byte, bytewise bool) (out, viol string) {
	d := c08DNewPeer(scope)
	var buf buffer.IoBuffer
	call := func(fed int) (ok bool) {
		defer func() {
			if x := recover(); x != nil {
				if _, is := x.(c08DAbort); is {
					viol = fmt.Sprintf("LIVELOCK OnData keeps polling the read buffer (%d bytes fed, %d buffered, %d streams) without consuming it", fed, buf.Len(), d.p.activeStreams.Len())
					ok = false
					return
				}
				panic(x) // a panic of the code under test: c08.Main reports it with its site
			}
		}()
		before := buf.Len()
		st := d.p.OnData(&c08DBuf{IoBuffer: buf, budget: 64 * (fed + 8)})
		kind, detail := d.state(buf, fed)
		switch {
		case kind == "need-more" || kind == "failed":
			if buf.Len() != before {
				viol = fmt.Sprintf("CONSUMED detection answered %s but took %d of %d buffered bytes", kind, before-buf.Len(), before)
			}
			if st != api.Stop {
				viol = fmt.Sprintf("STATUS detection answered %s but OnData returned %v (the next read filter would see the bytes)", kind, st)
			}
			if kind == "failed" && d.conn.CloseEvent != api.OnReadErrClose {
				viol = "CLOSE-EVENT connection closed with " + string(d.conn.CloseEvent) + " on a failed detection"
			}
			if kind == "need-more" && !c08DMayWait(buf.Bytes()) {
				viol = fmt.Sprintf("UNBOUNDED detection still asks for more data with %d bytes buffered although no protocol can match any more", buf.Len())
			}
		}
		_ = detail
		return viol == ""
	}
	trace := ""
	last := ""
	note := func(fed int) {
		k, _ := d.state(buf, fed)
		if k != last {
			trace += fmt.Sprintf(" %d:%s", fed, k)
			last = k
		}
	}
	if bytewise {
		buf = buffer.GetIoBuffer(network.DefaultReadBufferSize)
		for i := range b {
			if d.conn.IsClosed() {
				break // the read loop has ended with the connection
			}
			buf.Write(b[i : i+1])
			if !call(i + 1) {
				break
			}
			note(i + 1)
		}
	} else {
		buf = buffer.NewIoBufferBytes(b)
		if len(b) > 0 { // filterManager calls OnData only when the read buffer is not empty
			call(len(b))
		}
		note(len(b))
	}
	kind, detail := d.state(buf, len(b))
	out = fmt.Sprintf("%s {%s trace=[%s]", kind, detail, strings.TrimSpace(trace))
	if d.p.serverStreamConn != nil && d.p.serverStreamConn.Protocol() == protocol.HTTP1 {
		v := c08DSettleHTTP1(false)
		closed := d.conn.IsClosed()
		out += fmt.Sprintf(" http1-serve=%s closed=%v", v, closed)
		if viol == "" {
			switch {
			case v == "gone" && !closed:
				viol = "WEDGE the HTTP/1 serve loop ended without closing the connection"
			case v == c08g.Spin:
				viol = "SPIN the HTTP/1 serve goroutine reaches no stable state while the process burned 10 s of CPU"
			case v == "idle" || strings.HasPrefix(v, "HARNESS") || v == c08g.Timeout:
				viol = "HARNESS HTTP/1 serve goroutine: " + v
			}
		}
		if !closed {
			d.conn.RemoteClose()
		}
		if e := c08DSettleHTTP1(true); e != "gone" && viol == "" {
			viol = "HARNESS the HTTP/1 serve goroutine does not end after the peer closed the connection: " + e
		}
	} else if !d.conn.IsClosed() {
		d.conn.RemoteClose()
	}
	out += "}"
	return
}

var c08DRefC = map[string]string{}
var c08DLastCase string

func c08DBoltReq() []byte {
	a := c07frames.Of("bolt")
	for _, f := range a.Frames {
		if f.Kind == c07frames.Req && f.Bytes[0] == bolt.ProtocolCode {
			return f.Bytes
		}
	}
	panic("no bolt request in the C07 alphabet")
}

func c08DExec(c c08.Case, in []byte) string {
	if os.Getenv("C08_D_DEBUG") != "" {
		defer func() {
			if x := recover(); x != nil {
				fmt.Printf("DEBUG PANIC %v\n%s\n", x, debug.Stack())
				panic(x)
			}
		}()
	}
	c08DInit()
	if c08DSelf == 0 {
		c08DSelf = c08g.SelfID()
	}
	scope := strings.TrimPrefix(c.Target, "proxy-detect/")
	if _, ok := c08DRefC[scope]; !ok {
		o, v := c08DRun(scope, c08DBoltReq(), false)
		c08DRefC[scope] = o + v
	}
	out, viol := c08DRun(scope, in, c.Extra == "bytewise")
	k := c.Target + "|" + c.Extra + "|" + c.Hex
	if k != c08DLastCase {
		// the fresh connection C is probed after the first of the three executions of a case
		c08DLastCase = k
		if o, v := c08DRun(scope, c08DBoltReq(), false); o+v != c08DRefC[scope] {
			out += " C-CHANGED"
			if viol == "" {
				viol = "OTHER a fresh connection with a valid bolt request: before {" + c08DRefC[scope] + "} now {" + o + v + "}"
			}
		} else {
			out += " C-same"
		}
	}
	if viol != "" {
		out += " !!" + viol + "!!"
	}
	return out
}

func c08DJudge(c c08.Case, out string) (string, string) {
	if ref := c08DRefC[strings.TrimPrefix(c.Target, "proxy-detect/")]; !strings.HasPrefix(ref, "matched:bolt {streams=1 ") {
		return "harness: the valid bolt request is not detected and handed up on a fresh proxy connection", ref
	}
	i := strings.Index(out, " !!")
	if i < 0 {
		return "", ""
	}
	viol := strings.TrimSuffix(out[i+3:], "!!")
	word, rest := viol, ""
	if j := strings.IndexByte(viol, ' '); j >= 0 {
		word, rest = viol[:j], viol[j+1:]
	}
	mode := "whole"
	if c.Extra != "" {
		mode = c.Extra
	}
	detail := fmt.Sprintf("%s; stream %q, %s, delivered %s; input(%d)=%s; observation: %s", rest, c.Frame, c.Desc, mode, len(c.Hex)/2, c.Hex, out[:i])
	pre := fmt.Sprintf("%s class=%s ", c.Target, c.Class)
	switch word {
	case "UNBOUNDED":
		return pre + "detection keeps asking for more data although no protocol can match any more (the connection buffers without bound)", detail
	case "LIVELOCK":
		return pre + "OnData does not consume its input (livelock)", detail
	case "CONSUMED":
		return pre + "undecided / failed detection consumes buffered bytes", detail
	case "STATUS":
		return pre + "undecided / failed detection lets the bytes through to the next filter", detail
	case "CLOSE-EVENT":
		return pre + "failed detection closes the connection with another event than OnReadErrClose", detail
	case "WEDGE":
		return pre + "HTTP/1 serve loop ended without closing the connection", detail
	case "SPIN":
		return pre + "HTTP/1 serve goroutine spins", detail
	case "OTHER":
		return pre + "garbage on one connection changes detection on another connection", detail
	}
	return "harness: " + pre + word, detail
}

// ---------------------------------------------------------------- alphabet

type c08DStream struct {
	name, class string
	b           []byte
}

const c08DMaxLen = 48

func c08DStreams() []c08DStream {
	var out []c08DStream
	add := func(name, class string, b []byte) {
		if len(b) > c08DMaxLen {
			b = b[:c08DMaxLen]
		}
		out = append(out, c08DStream{name, class, append([]byte(nil), b...)})
	}
	type base struct {
		name  string
		b     []byte
		magic []int // positions the matcher of this protocol looks at
	}
	var bases []base
	for _, a := range c07frames.Alphabets() {
		for _, f := range a.Frames {
			if f.Kind != c07frames.Req {
				continue
			}
			if (a.Proto == bolt.ProtocolName && f.Bytes[0] != bolt.ProtocolCode) || (a.Proto == boltv2.ProtocolName && f.Bytes[0] != boltv2.ProtocolCode) {
				continue
			}
			var m []int
			switch a.Proto {
			case bolt.ProtocolName, boltv2.ProtocolName:
				m = []int{0}
			case dubbo.ProtocolName:
				m = []int{0, 1}
			case dubbothrift.ProtocolName:
				m = []int{0, 1, 2, 3, 4, 5}
			case tars.ProtocolName:
				m = []int{0, 1, 2, 3, 4, 5}
			}
			bases = append(bases, base{string(a.Proto) + "/" + f.Name, f.Bytes, m})
			break
		}
	}
	for _, m := range []string{"GET", "HEAD", "POST", "PUT", "DELETE", "OPTIONS", "PATCH", "TRACE", "CONNECT", "LINK", "UNLINK"} {
		var pos []int
		for i := 0; i <= len(m); i++ {
			pos = append(pos, i)
		}
		bases = append(bases, base{"Http1/" + m, []byte(c07frames.HTTP1Request(m)), pos})
	}
	h2 := c07frames.HTTP2Stream(false, false)
	var h2pos []int
	for i := 0; i < 24; i++ {
		h2pos = append(h2pos, i)
	}
	bases = append(bases, base{"Http2/preface+settings+headers", h2, h2pos})
	for _, bs := range bases {
		add(bs.name, "first-bytes", bs.b)
		for _, i := range bs.magic {
			if i >= len(bs.b) {
				continue
			}
			o := bs.b[i]
			seen := map[byte]bool{o: true}
			for _, v := range []byte{^o, o ^ 0x20, 0x00, o + 1} {
				if seen[v] {
					continue
				}
				seen[v] = true
				x := append([]byte(nil), bs.b...)
				x[i] = v
				add(fmt.Sprintf("%s[%d]=%#02x", bs.name, i, v), "near-miss", x)
			}
		}
	}
	// tars length prefixes
	for _, bs := range bases {
		if !strings.HasPrefix(bs.name, "tars/") {
			continue
		}
		for _, l := range []uint32{0, 3, 4, 5, 6, 7, 24, 25, 47, 48, 49, uint32(len(bs.b)) - 1, uint32(len(bs.b)) + 1, 10485760, 10485761, 1 << 31, 0xFFFFFFFF} {
			x := append([]byte(nil), bs.b...)
			binary.BigEndian.PutUint32(x, l)
			add(fmt.Sprintf("%s length=%d", bs.name, l), "tars-length", x)
		}
	}
	rep := func(s string, n int) []byte { return []byte(strings.Repeat(s, n)) }
	for _, g := range []struct {
		n string
		b []byte
	}{
		{"48 x 0x00", rep("\x00", 48)}, {"48 x 0xFF", rep("\xff", 48)}, {"48 x space", rep(" ", 48)}, {"CRLF run", rep("\r\n", 24)},
		{"ascii", []byte("abcdefghijklmnopqrstuvwxyz0123456789ABCDEFGHIJKLMNOP")}, {"TLS ClientHello head", append([]byte("\x16\x03\x01\x02\x00\x01\x00\x01\xfc\x03\x03"), rep("\x5a", 37)...)},
		{"SSH banner", []byte("SSH-2.0-OpenSSH_8.9p1 Ubuntu-3ubuntu0.1\r\n____________")}, {"HTTP response", []byte("HTTP/1.1 200 OK\r\nContent-Length: 0\r\n\r\n____________")},
		{"lowercase method", []byte("get / HTTP/1.1\r\nHost: h\r\n\r\n______________________")}, {"method without space", []byte("GETGETGETGETGETGETGETGETGETGETGETGETGETGETGETGET")},
		{"dubbo magic at offset 1", append([]byte("\x00\xda\xbb"), rep("\x00", 45)...)}, {"thrift magic at offset 0", append([]byte("\xda\xbc"), rep("\x00", 46)...)},
		{"preface with LF line ends", []byte("PRI * HTTP/2.0\n\nSM\n\n\x00\x00\x00\x04\x00\x00\x00\x00\x00______________")},
	} {
		add(g.n, "garbage", g.b)
	}
	return out
}

// c08DAmbiguous: inputs that more than one registered matcher accepts (Auto walks a Go map: the answer is random).
func c08DAmbiguous(b []byte) bool {
	n := 0
	if len(b) >= 1 && (b[0] == bolt.ProtocolCode || b[0] == boltv2.ProtocolCode) {
		n++
	}
	if len(b) >= 16 && b[0] == 0xda && b[1] == 0xbb {
		n++
	}
	if len(b) >= 6 && b[4] == 0xda && b[5] == 0xbc {
		n++
	}
	if l, ok := c08DTarsWait(b); ok && len(b) >= l {
		n++
	}
	return n > 1
}

func c08DGen(yield func(c08.Case) bool) {
	streams := c08DStreams()
	for _, scope := range []string{"auto", "all"} {
		target := "proxy-detect/" + scope
		// every single byte
		for v := 0; v < 256; v++ {
			if !yield(c08.Case{Target: target, Frame: "-", Class: "one-byte", Desc: fmt.Sprintf("the byte %#02x", v), Hex: fmt.Sprintf("%02x", v)}) {
				return
			}
		}
		for _, s := range streams {
			for n := 0; n <= len(s.b); n++ {
				if c08DAmbiguous(s.b[:n]) {
					continue
				}
				if !yield(c08.Case{Target: target, Frame: s.name, Class: s.class, Desc: fmt.Sprintf("first %d of %d bytes", n, len(s.b)), Hex: fmt.Sprintf("%x", s.b[:n])}) {
					return
				}
			}
			amb := false
			for n := 0; n <= len(s.b); n++ {
				amb = amb || c08DAmbiguous(s.b[:n])
			}
			if !amb {
				if !yield(c08.Case{Target: target, Frame: s.name, Class: s.class, Desc: fmt.Sprintf("all %d bytes", len(s.b)), Hex: fmt.Sprintf("%x", s.b), Extra: "bytewise"}) {
					return
				}
			}
		}
	}
}

func TestVerifC08ProxyDetect(t *testing.T) {
	c08.Main(t, c08.Spec{Prop: "C08", Part: "proxy-detect", Budget: time.Duration(vreport.Pick(3, 10)) * time.Minute,
		Gen: c08DGen, Exec: c08DExec, Judge: c08DJudge,
		Bound: "protocol scope {Auto, the 7 registered names listed}; streams (cut to 48 bytes): the first request of each xprotocol alphabet (bolt, boltv2, dubbo, dubbo-thrift, tars), a request for each of the 11 methods the HTTP/1 matcher knows, the HTTP/2 preface + SETTINGS + HEADERS; each with every byte the matcher looks at (bolt 0; dubbo 0-1; dubbo-thrift / tars 0-5; HTTP/1 every byte of the method and the space behind it; HTTP/2 all 24 preface bytes) set to {^b, b^0x20, 0x00, b+1}; tars packets with the length prefix set to {0,3,4,5,6,7,24,25,47,48,49,len-1,len+1,10 MiB,10 MiB+1,2^31,2^32-1}; 13 garbage streams (NUL / 0xFF / space / CRLF runs, ascii, TLS / SSH / HTTP-response heads, lowercase method, magics at the wrong offset, preface with LF line ends); every prefix of every stream as its own whole delivery, every stream once byte by byte; all 256 single bytes",
		Rule:  "case = (scope, byte string, whole | bytewise); real proxy.OnData on a fresh hand-built proxy + vfake connection; outcome = matched:<protocol> | need-more | failed; judged: no panic / bounded allocation / identical outcome under two poison fillings (c08.Main); need-more and failed leave the buffer untouched and return Stop; failed closes this connection with OnReadErrClose; need-more only while fewer than 24 bytes are buffered or the bytes look like a tars packet shorter than its announced length; Len() of the read buffer polled at most 64*(len+8) times per OnData; an HTTP/1 serve goroutine started by a match ends up reading or gone with the connection closed, and ends when the peer closes; after the first execution of each case a fresh connection with a valid bolt request is detected and handed up as before. Which protocol matches is not compared; inputs accepted by two matchers are left out."})
}
