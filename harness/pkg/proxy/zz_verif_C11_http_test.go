//go:build verif

package proxy

// C11 (in-process graceful-stop conjunct) for HTTP/1.1 and HTTP/2 traffic: the
// real stop sequence of zz_verif_C11_drain_test.go (one real server.NewServer,
// fresh never-started listeners per execution, connections accepted through
// activeListener.OnNewConnection, signal thread "env:sigterm" running
// server.Shutdown() -> CloseListeners -> exit) against the HTTP variants of the
// proxy harness (zz_verif_common_hphttp_test.go: real pkg/stream/http resp.
// pkg/stream/http2 + pkg/module/http2 server and client stream connections, real
// pools, scripted upstream peers), all under the controlled scheduler.
//
// What MOSN does with an existing downstream connection on graceful stop
// (activeListener.OnShutdown -> conn.OnConnectionEvent(api.OnShutdown) ->
// proxy.onDownstreamEvent -> serverStreamConn.GoAway()):
//
//	HTTP/2   pkg/stream/http2 serverStreamConnection.GoAway -> MServerConn.GracefulShutdown ->
//	         goAway(ErrCodeNo): one GOAWAY(NO_ERROR, last-stream-id = highest stream accepted so far),
//	         inGoAway = true; from then on HEADERS of new streams are ignored, DATA of accepted
//	         streams is still processed (mhttp2.go processData).
//	HTTP/1   pkg/stream/http streamConnection.GoAway is EMPTY: nothing is written, no
//	         "Connection: close" is added to a pending or later response, the serve goroutine
//	         goes on reading requests; the only effect of the signal on an HTTP/1 connection is
//	         the drain loop's wait on the listener's request_active gauge.
//
// A request reaches MOSN in several reads, so the signal can land before the
// request line / HEADERS frame is complete, with the headers complete and the
// body outstanding, with the body half sent, while waiting for the upstream,
// with the upstream's response half received and with the response half written
// downstream. The tests are named TestVerifH1C11… / TestVerifH2C11… so that the
// bolt unit's run pattern (^TestVerifC11) does not pick them up.

import (
	"bytes"
	"encoding/binary"
	"fmt"
	"os"
	"strings"
	"testing"
	"time"

	"golang.org/x/net/http2"
	"golang.org/x/net/http2/hpack"
	"mosn.io/api"
	v2 "mosn.io/mosn/pkg/config/v2"
	_ "mosn.io/mosn/pkg/stream/http"
	_ "mosn.io/mosn/pkg/stream/http2"
	"mosn.io/mosn/pkg/streamfilter"
	"mosn.io/mosn/pkg/verifrt/vfake"
	"mosn.io/mosn/pkg/verifrt/vreport"
	"mosn.io/mosn/pkg/verifrt/vrt"
)

// ---------------------------------------------------------------------------
// scenario

type c11hScenario struct {
	hhScenario
	DrainMs   int   `json:"drain_ms"`
	Listeners int   `json:"listeners"` // number of listeners of the server
	Conns     []int `json:"conns"`     // Conns[c] = listener that accepted downstream connection c (requests name their connection in hhRequest.Conn)
	// Cut[i]: how request i reaches MOSN.
	//   ""         one read
	//   "split"    GET: two reads (cut in the middle of the header block resp. HEADERS frame);
	//              POST: four reads: half of the header block / the rest of it / first half of the body / rest
	//              (HTTP/2: HEADERS frame without END_STREAM cut in two, DATA, DATA+END_STREAM; HTTP/1: Content-Length body)
	//   "chunked"  HTTP/1 POST with "Transfer-Encoding: chunked": half header block / rest / first chunk / second chunk + last chunk
	Cut []string `json:"cut,omitempty"`
	// Pause[i]: after the read that brought request i to this stage ("head-partial", "headers", "body-half") its
	// client stops sending and goes on only when the signal has arrived and MOSN has done whatever it does at once
	// (nothing can run any more except timers): a slow upload that is under way while MOSN starts draining.
	// "before": the client sends request i only then (a new stream / a keep-alive request that reaches MOSN after the signal).
	Pause    []string `json:"pause,omitempty"`
	SigFirst bool     `json:"sig_first,omitempty"` // the signal thread is created before the client threads
	// The signal cannot arrive before this has happened ("" = it can arrive from the start); deviations
	// delay it further, so each gate enumerates the arrival points around one phase:
	//   head-partial      the first read of some request has been handed to MOSN (and processed)
	//   headers           ... the read that completes a header block / HEADERS frame
	//   body-half         ... a read carrying body bytes that do not complete the request
	//   upstream-sent     a complete request was written to an upstream connection
	//   reply             an upstream peer is about to deliver its answer
	//   response-started  response bytes were written to a downstream connection
	//   quiesce           nothing can run any more except timers
	SigGate string `json:"sig_gate,omitempty"`
}

func c11hName(sc *c11hScenario) string {
	s := hhScenarioName(&sc.hhScenario)
	if sc.ReplyDelayMs > 0 {
		s += fmt.Sprintf(" reply-delay=%dms", sc.ReplyDelayMs)
	}
	s += fmt.Sprintf(" route-timeout=%dms drain=%dms listeners=%d conns=%v", sc.RouteTimeoutMs, sc.DrainMs, sc.Listeners, sc.Conns)
	for i := range sc.Requests {
		if c := c11hAt(sc.Cut, i); c != "" {
			s += fmt.Sprintf(" request-%d-%s", i, c)
		}
		if p := c11hAt(sc.Pause, i); p == "before" {
			s += fmt.Sprintf(" request-%d-sent-only-when-draining", i)
		} else if p != "" {
			s += fmt.Sprintf(" client-%d-pauses-at-%s-until-draining", i, p)
		}
	}
	if sc.SigFirst {
		s += " signal-thread-first"
	}
	if sc.SigGate != "" {
		s += " signal-not-before=" + sc.SigGate
	}
	return s
}

func c11hAt(l []string, i int) string {
	if i < len(l) {
		return l[i]
	}
	return ""
}

// ---------------------------------------------------------------------------
// observations

type c11hObs struct {
	hh hhObs
	c11Stop
	// delivery of request i: number of reads, index of the read that completes the header block, stage
	// reached after each read; reads whose injection started / returned so far
	NParts  []int
	HeadIdx []int
	Stages  [][]string
	Started []int
	Done    []int
	LastAt  []time.Duration // virtual time at which the last read of request i was handed to MOSN
	// snapshot taken by the first step of the signal thread
	StartedSig []int
	DoneSig    []int
	PhaseSig   []string
	GaugeExit  []int64
	GoAways    [][]c11hGoAway // per downstream connection (HTTP/2)
	// oracle parts that could not be compared in this execution (with the reason)
	NotCompared []string
}

// headBeforeSig: the read that completed request i's header block (HTTP/2: HEADERS frame) was handed
// to the connection's read filters strictly before the first step of the signal thread.
func (o *c11hObs) headBeforeSig(i int) bool { return o.NParts[i] > 0 && o.StartedSig[i] > o.HeadIdx[i] }

// headDoneBeforeSig: ... and MOSN had finished processing that read (HTTP/2: the stream was accepted).
func (o *c11hObs) headDoneBeforeSig(i int) bool {
	return o.NParts[i] > 0 && o.DoneSig[i] > o.HeadIdx[i]
}

func (o *c11hObs) allBeforeSig(i int) bool { return o.NParts[i] > 0 && o.StartedSig[i] == o.NParts[i] }
func (o *c11hObs) sentAll(i int) bool      { return o.NParts[i] > 0 && o.Started[i] == o.NParts[i] }

type c11hGoAway struct {
	Last uint32
	Code uint32
	End  int
	AtMs int64
}

// c11hFrames walks the complete HTTP/2 frames of w (no preface: bytes written by a server).
func c11hFrames(w []byte, f func(typ http2.FrameType, flags http2.Flags, sid uint32, payload []byte, end int)) {
	off := 0
	for len(w)-off >= 9 {
		h := w[off:]
		n := int(h[0])<<16 | int(h[1])<<8 | int(h[2])
		if len(h) < 9+n {
			return
		}
		f(http2.FrameType(h[3]), http2.Flags(h[4]), binary.BigEndian.Uint32(h[5:9])&0x7fffffff, h[9:9+n], off+9+n)
		off += 9 + n
	}
}

func c11hGoAwaysOf(c *vfake.Conn) []c11hGoAway {
	var out []c11hGoAway
	c11hFrames(c.Written(), func(typ http2.FrameType, flags http2.Flags, sid uint32, pl []byte, end int) {
		if typ == http2.FrameGoAway && len(pl) >= 8 {
			out = append(out, c11hGoAway{Last: binary.BigEndian.Uint32(pl) & 0x7fffffff, Code: binary.BigEndian.Uint32(pl[4:]), End: end, AtMs: hpTimeAt(c, end)})
		}
	})
	return out
}

// ---------------------------------------------------------------------------
// how a request is cut into reads

// c11hParts: the reads that carry the k-th request of connection d, the index of the read that completes
// its header block, and the stage reached after each read. Called when the request is about to be sent
// (HTTP/2: the HPACK encoder state follows the order of sending).
func c11hParts(sc *c11hScenario, wire hhWire, d *hhDown, k int, rq *hhRequest, cut string) (parts [][]byte, head int, stages []string) {
	if cut == "" {
		return [][]byte{wire.clientBytes(d, k, rq)}, 0, []string{"complete"}
	}
	if sc.Proto == "Http2" {
		if d.h2w == nil {
			d.h2w = hhNewH2Writer()
		}
		w := d.h2w
		var pre []byte
		if !w.started {
			w.started = true
			w.buf.WriteString(http2.ClientPreface)
			w.must(w.fr.WriteSettings())
			pre = w.take()
		}
		method := "GET"
		if rq.Body {
			method = "POST"
		}
		fields := [][2]string{{":method", method}, {":scheme", "http"}, {":authority", "verif.example"}, {":path", "/" + rq.Token}, {"service", "svc"}, {"token", rq.Token}}
		if rq.Body {
			fields = append(fields, [2]string{"content-type", "text/plain"})
		}
		w.hb.Reset()
		for _, f := range fields {
			w.must(w.enc.WriteField(hpack.HeaderField{Name: f[0], Value: f[1]}))
		}
		sid := hhH2Stream(k)
		w.must(w.fr.WriteHeaders(http2.HeadersFrameParam{StreamID: sid, BlockFragment: append([]byte{}, w.hb.Bytes()...), EndHeaders: true, EndStream: !rq.Body}))
		hdr := w.take()
		p0 := append(append([]byte{}, pre...), hdr[:len(hdr)/2]...)
		if !rq.Body {
			return [][]byte{p0, hdr[len(hdr)/2:]}, 1, []string{"head-partial", "complete"}
		}
		w.must(w.fr.WriteData(sid, false, []byte("body-of-")))
		d1 := w.take()
		w.must(w.fr.WriteData(sid, true, []byte(rq.Token)))
		d2 := w.take()
		return [][]byte{p0, hdr[len(hdr)/2:], d1, d2}, 1, []string{"head-partial", "headers", "body-half", "complete"}
	}
	// HTTP/1
	b := hhRequestBytes(rq)
	if cut == "chunked" {
		if !rq.Body {
			panic("c11h: chunked GET")
		}
		var sb strings.Builder
		fmt.Fprintf(&sb, "POST /%s HTTP/1.1\r\nHost: verif.example\r\nservice: svc\r\ntoken: %s\r\nContent-Type: text/plain\r\nTransfer-Encoding: chunked\r\n\r\n", rq.Token, rq.Token)
		he := sb.Len()
		fmt.Fprintf(&sb, "8\r\nbody-of-\r\n")
		c1 := sb.Len()
		fmt.Fprintf(&sb, "%x\r\n%s\r\n0\r\n\r\n", len(rq.Token), rq.Token)
		b = []byte(sb.String())
		return [][]byte{b[:he/2], b[he/2 : he], b[he:c1], b[c1:]}, 1, []string{"head-partial", "headers", "body-half", "complete"}
	}
	he := bytes.Index(b, []byte("\r\n\r\n")) + 4
	if !rq.Body {
		return [][]byte{b[:he/2], b[he/2:]}, 1, []string{"head-partial", "complete"}
	}
	mid := he + (len(b)-he)/2
	return [][]byte{b[:he/2], b[he/2 : he], b[he:mid], b[mid:]}, 1, []string{"head-partial", "headers", "body-half", "complete"}
}

// ---------------------------------------------------------------------------
// one execution (thread 0)

type c11hRun struct {
	sc  *c11hScenario
	obs *c11hObs
	h   *hhRun
}

func c11hBody(sc *c11hScenario, obs *c11hObs) {
	c11Init()
	*obs = c11hObs{}
	h, _ := hhSetup(&sc.hhScenario, &obs.hh)
	x := &c11hRun{sc: sc, obs: obs, h: h}
	n := len(sc.Requests)
	obs.NParts, obs.HeadIdx, obs.Stages = make([]int, n), make([]int, n), make([][]string, n)
	obs.Started, obs.Done, obs.LastAt = make([]int, n), make([]int, n), make([]time.Duration, n)
	obs.StartedSig, obs.DoneSig, obs.PhaseSig = make([]int, n), make([]int, n), make([]string, n)
	c11Created = nil
	for l := 1; l < sc.Listeners; l++ { // (listener 0: hhSetup)
		streamfilter.GetStreamFilterManager().AddOrUpdateStreamFilterConfig(c11ListenerName(l), nil)
	}

	proto := string(hhProto(&sc.hhScenario))
	srv, lels, lcs := c11Listeners(h.cm, sc.DrainMs, sc.Listeners, func(l int) *v2.Listener {
		return c11ListenerConfigFor(c11ListenerName(l), 2045+l, proto, nil)
	})
	defer c11DropListeners(srv)
	for c, l := range sc.Conns {
		down := c11Accept(lels[l], lcs[l], l, c)
		if len(c11Created) != c+1 {
			panic(fmt.Sprintf("C11 http harness: %d proxies after %d connections", len(c11Created), c+1))
		}
		p := c11Created[c]
		if p.serverStreamConn == nil {
			panic("C11 http harness: the proxy did not create the server stream connection from its configured protocol")
		}
		obs.hh.Downs = append(obs.hh.Downs, &hhDown{Conn: down, Proxy: p})
	}

	sig := func() {
		vrt.GoNamed("env:sigterm", func() {
			stage := func(want string) func() bool {
				return func() bool {
					for i := range sc.Requests {
						for pi := 0; pi < obs.Done[i] && pi < len(obs.Stages[i]); pi++ {
							if obs.Stages[i][pi] == want {
								return true
							}
						}
					}
					return false
				}
			}
			switch sc.SigGate {
			case "head-partial", "headers", "body-half":
				vrt.WaitUntil("signal gate: a request reached the stage "+sc.SigGate, stage(sc.SigGate))
			case "upstream-sent":
				vrt.WaitUntil("signal gate: a request was written upstream", func() bool {
					for _, u := range obs.hh.Ups {
						h.parseUp(u)
					}
					for _, n := range obs.hh.Attempts {
						if n > 0 {
							return true
						}
					}
					return false
				})
			case "reply":
				vrt.WaitUntil("signal gate: an upstream peer delivers its answer", func() bool { return len(obs.hh.Log) > 0 })
			case "response-started":
				vrt.WaitUntil("signal gate: response bytes were written downstream", func() bool {
					for _, d := range obs.hh.Downs {
						if c11hResponseBytes(sc, d) {
							return true
						}
					}
					return false
				})
			case "quiesce":
				vrt.QuiesceNoTimers()
			}
			c11StopSequence(srv, h.cm, sc.Listeners, &obs.c11Stop, func() {
				copy(obs.StartedSig, obs.Started)
				copy(obs.DoneSig, obs.Done)
				for i := range sc.Requests {
					obs.PhaseSig[i] = x.phase(i)
				}
			})
		})
	}
	clients := func() {
		for c := range sc.Conns {
			x.startClient(c)
		}
	}
	if sc.SigFirst {
		sig()
		clients()
	} else {
		clients()
		sig()
	}
	// the process exits when the stop sequence returns; nothing runs after that
	vrt.WaitUntil("process exit (stop sequence returned)", func() bool { return obs.Exited })
	h.done = true
	c11hObserve(sc, obs, h)
}

func c11hObserve(sc *c11hScenario, obs *c11hObs, h *hhRun) {
	for _, d := range obs.hh.Downs {
		h.wire.parseDown(d)
		d.Closed = d.Conn.IsClosed()
		if sc.Proto == "Http2" {
			obs.GoAways = append(obs.GoAways, c11hGoAwaysOf(d.Conn))
		} else {
			obs.GoAways = append(obs.GoAways, nil)
		}
	}
	for _, u := range obs.hh.Ups {
		h.parseUp(u)
	}
	for l := 0; l < sc.Listeners; l++ {
		obs.GaugeExit = append(obs.GaugeExit, c11Gauge(l))
	}
}

// c11hResponseBytes: MOSN has written (at least the beginning of) a response on d.
func c11hResponseBytes(sc *c11hScenario, d *hhDown) bool {
	w := d.Conn.Written()
	if sc.Proto != "Http2" {
		return len(w) > 0
	}
	found := false
	c11hFrames(w, func(typ http2.FrameType, flags http2.Flags, sid uint32, pl []byte, end int) {
		if typ == http2.FrameHeaders {
			found = true
		}
	})
	return found
}

// startClient starts the client thread of downstream connection ci.
func (x *c11hRun) startClient(ci int) {
	sc, obs, h := x.sc, x.obs, x.h
	d := obs.hh.Downs[ci]
	var mine []int
	for i, r := range sc.Requests {
		if r.Conn == ci {
			mine = append(mine, i)
		}
	}
	vrt.GoNamed(fmt.Sprintf("env:down-client%d", ci), func() {
		for k, i := range mine {
			if k > 0 && !sc.Concurrent {
				want := k
				vrt.WaitUntil("client: response to its previous request", func() bool {
					return h.wire.answered(d, want-1) || d.Conn.IsClosed()
				})
			}
			if d.Conn.IsClosed() {
				break
			}
			if c11hAt(sc.Pause, i) == "before" {
				vrt.WaitUntil("client: request held back until the signal has arrived", func() bool { return obs.SigSeen })
				vrt.QuiesceNoTimers()
				if d.Conn.IsClosed() {
					break
				}
			}
			parts, head, stages := c11hParts(sc, h.wire, d, k, &sc.Requests[i], c11hAt(sc.Cut, i))
			obs.NParts[i], obs.HeadIdx[i], obs.Stages[i] = len(parts), head, stages
			d.Sent = append(d.Sent, i)
			d.SentAtMs = append(d.SentAtMs, int64(vrt.Now()/1e6))
			for pi, b := range parts {
				// "handed to MOSN before the signal": the read is given to the connection's read filters
				// strictly before the first step of the signal thread (which snapshots these counters)
				obs.Started[i] = pi + 1
				if pi == len(parts)-1 {
					obs.LastAt[i] = vrt.Now()
				}
				d.Conn.InjectRead(b)
				obs.Done[i] = pi + 1
				if p := c11hAt(sc.Pause, i); p != "" && p == stages[pi] && pi < len(parts)-1 {
					vrt.WaitUntil("client: upload paused until the signal has arrived", func() bool { return obs.SigSeen })
					vrt.QuiesceNoTimers()
				}
			}
		}
	})
}

// phase names where request i is in its lifetime at the instant the signal arrives (seen from
// outside, plus the proxy's list of active streams). No instrumented code is called.
func (x *c11hRun) phase(i int) string {
	sc, obs, h := x.sc, x.obs, x.h
	if obs.NParts[i] == 0 || obs.Started[i] == 0 {
		return "not-yet-sent"
	}
	rq := &sc.Requests[i]
	d := obs.hh.Downs[rq.Conn]
	// registered: the proxy tracks a stream for it (request_active counts it). A stream whose request
	// headers are not yet set was created by NewStreamDetect and waits for the end of the request (HTTP/2).
	registered := false
	for e := d.Proxy.activeStreams.Front(); e != nil; e = e.Next() {
		ds := e.Value.(*downStream)
		if ds.downstreamReqHeaders == nil {
			if obs.Started[i] > obs.HeadIdx[i] {
				registered = true
			}
		} else if v, ok := ds.downstreamReqHeaders.Get("token"); ok && v == rq.Token {
			registered = true
		}
	}
	reg := " (stream not registered)"
	if registered {
		reg = " (stream registered)"
	}
	st := obs.Started[i]
	switch {
	case st <= obs.HeadIdx[i]:
		return "request-head-partly-sent"
	case st < obs.NParts[i] && st == obs.HeadIdx[i]+1:
		return "headers-sent-body-outstanding" + reg
	case st < obs.NParts[i]:
		return "body-half-sent" + reg
	}
	k := -1
	for kk, ri := range d.Sent {
		if ri == i {
			k = kk
		}
	}
	answered := k >= 0 && h.wire.answered(d, k)
	started := false
	if sc.Proto == "Http2" {
		c11hFrames(d.Conn.Written(), func(typ http2.FrameType, flags http2.Flags, sid uint32, pl []byte, end int) {
			if typ == http2.FrameHeaders && sid == hhH2Stream(k) {
				started = true
			}
		})
	} else {
		w := d.Conn.Written()
		msgs, consumed, _ := hhParseAll(w, true)
		started = len(msgs) == k && len(w) > consumed
	}
	for _, u := range obs.hh.Ups {
		h.parseUp(u)
	}
	up := obs.hh.Attempts[rq.Token]
	switch {
	case answered && registered:
		return "response-written-cleanup-pending"
	case answered:
		return "completed"
	case started:
		return "response-half-written"
	case up > 0 && obs.hh.Injected[rq.Token] > 0:
		return "upstream-reply-being-received"
	case up > 0:
		return "sent-upstream-waiting-for-reply"
	case registered:
		return "stream-registered-before-upstream-send"
	}
	return "request-complete" + reg
}

// ---------------------------------------------------------------------------
// oracle

// c11hAllOK: every scripted upstream attempt answers with success; the second value is the virtual
// time the answer takes.
func c11hAllOK(sc *c11hScenario, r *hhRequest) (bool, int) {
	delay := 0
	for _, s := range r.Script {
		switch s {
		case hhOK, hhOKNoBody, hhOKSplit:
		case hhDelayOK:
			delay = sc.ReplyDelayMs
		case hhDelaySplit:
			delay = 2 * sc.ReplyDelayMs
		default:
			return false, 0
		}
	}
	return len(r.Script) > 0, delay
}

func c11hCheck(sc *c11hScenario, obs *c11hObs, r *vrt.Result, timeConsistent func() bool, report func(kind, detail string)) {
	proto := "protocol=" + sc.Proto
	if r.Diverged != "" {
		report("HARNESS replay divergence", r.Diverged)
		return
	}
	for _, p := range r.Panics {
		first := strings.SplitN(p, "\n", 2)[0]
		if strings.Contains(first, "(env:") || strings.Contains(first, "(main)") {
			report("HARNESS panic in harness thread", p)
		} else {
			report("uncaught panic in a MOSN goroutine during graceful stop: "+proto, p)
		}
		return
	}
	drain := time.Duration(sc.DrainMs) * time.Millisecond
	// (3) the stop sequence terminates, no later than drain time + one poll interval after the signal
	if r.StepLimit || r.Deadlock || !obs.Exited {
		what := "blocked forever"
		if r.StepLimit {
			what = "still running at the step limit (livelock)"
		}
		where := "after the drain (server.Close)"
		if !obs.DrainRet {
			where = "inside server.Shutdown"
		}
		if !obs.SigSeen {
			if sc.SigGate != "" && !r.StepLimit {
				// the phase the gate waits for was never reached: a request hung before any signal
				// (the proxy's timeout/reset arbitration, recorded under C03): nothing to compare
				obs.NotCompared = append(obs.NotCompared, "execution in which the signal gate was never reached (request hung without any signal: C03)")
				return
			}
			report("HARNESS the signal thread never ran", r.String())
			return
		}
		report(fmt.Sprintf("graceful stop never returns: %s %s %s deviations=%d", what, where, proto, r.Cost),
			fmt.Sprintf("blocked=%v gauges at signal=%v", r.Blocked, obs.GaugeSig))
		return
	}
	waited := obs.RetAt - obs.SigAt
	if waited > drain+c11PollMs*time.Millisecond {
		if timeConsistent() {
			report(fmt.Sprintf("graceful stop exceeds the drain time by more than one poll interval %s deviations=%d", proto, r.Cost),
				fmt.Sprintf("server.Shutdown returned %v after the signal, drain time %v", waited, drain))
		} else {
			obs.NotCompared = append(obs.NotCompared, "duration-of-stop (time passed while a runnable thread was not scheduled)")
		}
	}
	earlyExit := waited <= drain // the drain loop ended because it read gauge==0, not because the drain time ran out
	// (4) every downstream byte stream is well-formed: complete messages / frames only, no response that answers nothing
	for ci, d := range obs.hh.Downs {
		if d.Garbage != "" {
			report(fmt.Sprintf("downstream byte stream is not well-formed at exit (%s) deviations=%d", proto, r.Cost),
				fmt.Sprintf("connection %d: %s; responses before: %v other=%v", ci, d.Garbage, d.Responses, d.Other))
		}
		if len(d.Orphans) > 0 {
			report(fmt.Sprintf("response for a request that was never sent on that connection (%s) deviations=%d", proto, r.Cost),
				fmt.Sprintf("connection %d: %d requests sent, responses that answer none of them: %v (all: %v)", ci, len(d.Sent), d.Orphans, d.Responses))
		}
		for _, ga := range obs.GoAways[ci] {
			if ga.Code != uint32(http2.ErrCodeNo) {
				// enumerated: a GOAWAY with an error code ends the connection; what it costs an in-flight request is reported below
				obs.NotCompared = append(obs.NotCompared, fmt.Sprintf("GOAWAY with error code %v written (consequences for in-flight requests are compared)", http2.ErrCode(ga.Code)))
			}
		}
	}
	for ci, d := range obs.hh.Downs {
		// root-cause qualifier of the keys below: the connection was closed by MOSN before the exit
		closedBy := ""
		if d.Conn.IsClosed() {
			closedBy = fmt.Sprintf(" [MOSN closed the connection before exit: %v]", d.Conn.CloseEvent)
			if sc.Proto == "Http2" {
				for _, j := range d.Sent {
					// body reads of a stream whose HEADERS reached MOSN only after the signal were handed in
					if sc.Requests[j].Body && !obs.headBeforeSig(j) && obs.Started[j] > obs.HeadIdx[j]+1 {
						closedBy = fmt.Sprintf(" [MOSN closed the connection before exit: %v, after DATA frames of a stream the client opened after the signal]", d.Conn.CloseEvent)
					}
				}
			}
		}
		for k, i := range d.Sent {
			rq := &sc.Requests[i]
			ans := d.Answers[k]
			if len(ans) > 1 {
				report(fmt.Sprintf("more than one response for one request (%s) deviations=%d", proto, r.Cost), fmt.Sprintf("request %s: %v", rq.Token, ans))
				continue
			}
			// in flight when the signal arrived: its complete header block was handed to MOSN before the signal
			// (the statement's phases "headers sent, body half sent, waiting for upstream, response half written")
			inflight := obs.headBeforeSig(i)
			// HTTP/2: a stream above the last-stream-id of MOSN's GOAWAY was refused, the client may safely
			// repeat it elsewhere (RFC 7540 6.8): not a failed request. A stream MOSN had accepted before the
			// signal cannot be refused any more.
			if sc.Proto == "Http2" && inflight && len(obs.GoAways[ci]) > 0 {
				if ga := obs.GoAways[ci][0]; hhH2Stream(k) > ga.Last {
					if obs.headDoneBeforeSig(i) {
						report(fmt.Sprintf("GOAWAY announces a last-stream-id below a stream MOSN had accepted before the signal (in-flight request refused): phase-at-signal=%s deviations=%d", obs.PhaseSig[i], r.Cost),
							fmt.Sprintf("connection %d request %s on stream %d: GOAWAY(last-stream-id=%d, code=%v) at %dms", ci, rq.Token, hhH2Stream(k), ga.Last, http2.ErrCode(ga.Code), ga.AtMs))
					}
					obs.NotCompared = append(obs.NotCompared, "request on a stream refused by GOAWAY (above its last-stream-id)")
					inflight = false
				}
			}
			allOK, delay := c11hAllOK(sc, rq)
			noTimer := sc.TryTimeoutMs == 0 && sc.RouteTimeoutMs > sc.DrainMs+c11PollMs
			if len(ans) == 1 {
				f := ans[0]
				if f.Ctl != "" {
					if inflight && allOK && noTimer {
						report(fmt.Sprintf("request in flight at the signal reset by MOSN although its upstream answers OK: %s phase-at-signal=%s deviations=%d%s", proto, obs.PhaseSig[i], r.Cost, closedBy),
							fmt.Sprintf("request %s: %s; log=%v", rq.Token, f.String(), obs.hh.Log))
					}
					continue
				}
				// success = the scripted upstream response of this very exchange (status, token header, body)
				success := f.Status == hhOKStatus(i) && f.rtoken() == rq.Token && (f.Body == "" || f.Body == "resp-of-"+rq.Token)
				if f.rtoken() != "" && !success && f.Status == hhOKStatus(i) {
					report(fmt.Sprintf("success response carries another exchange's header or body (%s) deviations=%d", proto, r.Cost), fmt.Sprintf("request %s: %s", rq.Token, f.String()))
				}
				// a reply MOSN generated itself (no rtoken) at a virtual time at which the route timer was due is
				// explained by the timer (the scheduler let that much time pass); which status and headers such a
				// reply carries when it races the upstream's response is C02/C03's subject
				timerDue := f.rtoken() == "" && f.AtMs >= int64(sc.RouteTimeoutMs)
				if inflight && !success && allOK && noTimer && !timerDue {
					report(fmt.Sprintf("request in flight at the signal answered with an error although its upstream answers OK: %s status=%d phase-at-signal=%s deviations=%d%s", proto, c11hStatusClass(f.Status, sc), obs.PhaseSig[i], r.Cost, closedBy),
						fmt.Sprintf("request %s: %s; log=%v", rq.Token, f.String(), obs.hh.Log))
				}
				continue
			}
			// no complete response on the wire at exit
			if !inflight {
				continue // its headers reached MOSN only after the signal (or never completely): enumerated, not compared
			}
			detail := fmt.Sprintf("request %s (script %v) on connection %d: reads handed to MOSN before the signal %d of %d (processed: %d), at exit %d of %d; server.Shutdown returned %v after the signal (drain time %v), gauges at signal=%v at exit=%v; downstream responses=%v other=%v; peer log=%v",
				rq.Token, rq.Script, ci, obs.StartedSig[i], obs.NParts[i], obs.DoneSig[i], obs.Started[i], obs.NParts[i], waited, drain, obs.GaugeSig, obs.GaugeExit, d.Responses, d.Other, obs.hh.Log)
			if earlyExit {
				// (1)+(2): in flight at the signal, and the process exits before the drain time ran out
				report(fmt.Sprintf("process exits before the drain time with a request in flight at the signal unanswered: %s phase-at-signal=%s deviations=%d%s", proto, obs.PhaseSig[i], r.Cost, closedBy), detail)
				continue
			}
			// the drain time ran out. The request had to complete within it if its client delivered the rest
			// of it at once and its upstream answers OK well inside the drain time
			if !obs.sentAll(i) || !allOK || !noTimer || obs.LastAt[i]-obs.SigAt > drain/3 || time.Duration(delay)*time.Millisecond > drain/3 {
				continue
			}
			if timeConsistent() {
				report(fmt.Sprintf("request in flight at the signal still unanswered when the drain time ran out, although its client delivered all of it and its upstream answers OK within the drain time: %s phase-at-signal=%s deviations=%d%s", proto, obs.PhaseSig[i], r.Cost, closedBy), detail)
			} else {
				obs.NotCompared = append(obs.NotCompared, "completion-within-the-drain-time (time passed while a runnable thread was not scheduled)")
			}
		}
	}
}

// c11hStatusClass keeps scripted statuses (which carry the request index) out of finding keys.
func c11hStatusClass(st int, sc *c11hScenario) int {
	for i := range sc.Requests {
		if st == hhOKStatus(i) {
			return 200
		}
		if st == hhErrStatus(i) {
			return 520
		}
	}
	return st
}

// c11hOutcome: the observable outcome class of one execution.
func c11hOutcome(sc *c11hScenario, obs *c11hObs) string {
	var parts []string
	for i := range sc.Requests {
		rq := &sc.Requests[i]
		st := "lost"
		if rq.Conn < len(obs.hh.Downs) {
			d := obs.hh.Downs[rq.Conn]
			for k, ri := range d.Sent {
				if ri == i && k < len(d.Answers) && len(d.Answers[k]) > 0 {
					f := d.Answers[k][0]
					if f.Ctl != "" {
						st = f.Ctl
					} else {
						st = fmt.Sprintf("status=%d", f.Status)
					}
				}
			}
		}
		when := "after-signal"
		if len(obs.PhaseSig) > i && obs.NParts[i] > 0 && obs.StartedSig[i] > 0 {
			when = "at-signal:" + obs.PhaseSig[i]
		}
		parts = append(parts, fmt.Sprintf("%s[%s]=%s", rq.Token, when, st))
	}
	var ga []string
	for _, l := range obs.GoAways {
		for _, g := range l {
			ga = append(ga, fmt.Sprintf("%d/%v", g.Last, http2.ErrCode(g.Code)))
		}
	}
	return fmt.Sprintf("%s goaways=%v waited=%v", strings.Join(parts, " "), ga, obs.RetAt-obs.SigAt)
}

// ---------------------------------------------------------------------------
// scenarios

func c11hScenarios(proto string) []c11hScenario {
	var out []c11hScenario
	th := vreport.Thorough()
	h2 := proto == "Http2"
	add := func(sc c11hScenario, gates ...string) {
		sc.Proto = proto
		if sc.DrainMs == 0 {
			sc.DrainMs = 300
		}
		if sc.Listeners == 0 {
			sc.Listeners = 1
		}
		if sc.Conns == nil {
			sc.Conns = make([]int, sc.downConns())
		}
		if sc.Hosts == 0 {
			sc.Hosts = 1
		}
		if sc.RouteTimeoutMs == 0 {
			sc.RouteTimeoutMs = 1000 // beyond the drain time
		}
		if len(gates) == 0 {
			gates = []string{""}
		}
		for _, g := range gates {
			v := sc
			v.SigGate = g
			v.Name = c11hName(&v)
			out = append(out, v)
		}
	}
	get := func(tok string, script ...string) hhRequest { return hhRequest{Token: tok, Script: script} }
	post := func(tok string, script ...string) hhRequest {
		return hhRequest{Token: tok, Body: true, Script: script}
	}
	on := func(conn int, r hhRequest) hhRequest { r.Conn = conn; return r }
	rs := func(r ...hhRequest) []hhRequest { return r }
	// --- one request with a body, delivered in four reads: the upload is under way when the signal arrives
	add(c11hScenario{hhScenario: hhScenario{Requests: rs(post("t1", hhOK))}, Cut: []string{"split"}, Pause: []string{"headers"}}, "headers")
	add(c11hScenario{hhScenario: hhScenario{Requests: rs(post("t1", hhOK))}, Cut: []string{"split"}, Pause: []string{"body-half"}}, "body-half")
	add(c11hScenario{hhScenario: hhScenario{ReplyDelayMs: 55, Requests: rs(post("t1", hhDelayOK))}, Cut: []string{"split"}, Pause: []string{"head-partial"}}, "head-partial")
	// ... the client does not pause: the signal is placed between and inside the reads by the schedule
	add(c11hScenario{hhScenario: hhScenario{Requests: rs(post("t1", hhOK))}, Cut: []string{"split"}}, "", "head-partial", "headers", "body-half")
	if !h2 {
		add(c11hScenario{hhScenario: hhScenario{Requests: rs(post("t1", hhOK))}, Cut: []string{"chunked"}, Pause: []string{"body-half"}}, "headers")
		add(c11hScenario{hhScenario: hhScenario{Requests: rs(post("t1", hhOK))}, Cut: []string{"chunked"}}, "", "body-half")
	}
	// --- one request without a body
	add(c11hScenario{hhScenario: hhScenario{Requests: rs(get("t1", hhOK))}, Cut: []string{"split"}}, "", "head-partial")
	add(c11hScenario{hhScenario: hhScenario{Requests: rs(get("t1", hhOK))}}, "", "upstream-sent", "reply", "response-started")
	add(c11hScenario{hhScenario: hhScenario{ReplyDelayMs: 55, Requests: rs(get("t1", hhDelayOK))}}, "", "quiesce", "response-started")
	add(c11hScenario{hhScenario: hhScenario{ReplyDelayMs: 55, Requests: rs(get("t1", hhDelayOK))}, SigFirst: true})
	add(c11hScenario{hhScenario: hhScenario{Requests: rs(get("t1", hhSilent))}}, "quiesce", "upstream-sent")
	// the upstream's response arrives in two reads: the signal lands while it is half received
	add(c11hScenario{hhScenario: hhScenario{Requests: rs(post("t1", hhOKSplit))}}, "reply")
	add(c11hScenario{hhScenario: hhScenario{ReplyDelayMs: 40, Requests: rs(get("t1", hhDelaySplit))}}, "reply", "quiesce")
	// --- a second connection of the same listener
	add(c11hScenario{hhScenario: hhScenario{ReplyDelayMs: 55, Requests: rs(post("t1", hhOK), on(1, get("t2", hhDelayOK)))}, Cut: []string{"split"}, Pause: []string{"headers"}}, "headers")
	add(c11hScenario{hhScenario: hhScenario{ReplyDelayMs: 55, Requests: rs(get("t1", hhOK), on(1, get("t2", hhDelayOK)))}}, "", "response-started")
	// ... whose request is sent only when MOSN is already draining (a new connection's request after the signal: enumerated)
	add(c11hScenario{hhScenario: hhScenario{ReplyDelayMs: 55, Requests: rs(get("t1", hhDelayOK), on(1, get("t2", hhOK)))}, Pause: []string{"", "before"}}, "upstream-sent")
	if h2 {
		// --- a second stream on the same connection
		add(c11hScenario{hhScenario: hhScenario{ReplyDelayMs: 55, Concurrent: true, Requests: rs(post("t1", hhOK), get("t2", hhDelayOK))}, Cut: []string{"split"}, Pause: []string{"headers"}}, "headers")
		add(c11hScenario{hhScenario: hhScenario{ReplyDelayMs: 55, Concurrent: true, Requests: rs(get("t1", hhDelayOK), get("t2", hhOK))}}, "", "upstream-sent")
		// ... opened only when MOSN is already draining (the client has not seen the GOAWAY yet): HEADERS above the last-stream-id are ignored
		add(c11hScenario{hhScenario: hhScenario{ReplyDelayMs: 55, Concurrent: true, Requests: rs(get("t1", hhDelayOK), get("t2", hhOK))}, Pause: []string{"", "before"}}, "upstream-sent")
	} else {
		// --- keep-alive: the second request follows the first response on the same connection
		add(c11hScenario{hhScenario: hhScenario{ReplyDelayMs: 55, Requests: rs(get("t1", hhOK), get("t2", hhDelayOK))}}, "", "response-started")
		add(c11hScenario{hhScenario: hhScenario{Requests: rs(hhRequest{Token: "t1", Close: true, Script: []string{hhOK}})}}, "", "upstream-sent")
	}
	if th {
		// --- two listeners with one connection each: the drain must wait for both
		add(c11hScenario{hhScenario: hhScenario{ReplyDelayMs: 55, Requests: rs(get("t1", hhOK), on(1, get("t2", hhDelayOK)))}, Listeners: 2, Conns: []int{0, 1}}, "", "quiesce")
		add(c11hScenario{hhScenario: hhScenario{ReplyDelayMs: 55, Requests: rs(post("t1", hhDelayOK), on(1, get("t2", hhOK)))}, Listeners: 2, Conns: []int{0, 1}, Cut: []string{"split"}, Pause: []string{"body-half"}}, "body-half")
		// replies at the edge of the drain time
		add(c11hScenario{hhScenario: hhScenario{ReplyDelayMs: 295, Requests: rs(get("t1", hhDelayOK))}}, "quiesce")
		add(c11hScenario{hhScenario: hhScenario{ReplyDelayMs: 305, Requests: rs(get("t1", hhDelayOK))}}, "quiesce")
		// the route timeout fires inside the drain time
		add(c11hScenario{hhScenario: hhScenario{RouteTimeoutMs: 105, Requests: rs(get("t1", hhSilent))}}, "", "quiesce")
		// error reply + retry
		add(c11hScenario{hhScenario: hhScenario{Hosts: 2, RetryOn: true, NumRetries: 1, Requests: rs(get("t1", hhErr, hhOK))}}, "", "reply")
		add(c11hScenario{hhScenario: hhScenario{Requests: rs(get("t1", hhClose))}}, "", "upstream-sent")
		add(c11hScenario{hhScenario: hhScenario{Requests: rs(post("t1", hhOK))}, Cut: []string{"split"}, Pause: []string{"headers"}, SigFirst: true}, "head-partial")
		if h2 {
			// a new stream WITH a body opened after the signal next to a stream in flight
			add(c11hScenario{hhScenario: hhScenario{ReplyDelayMs: 55, Concurrent: true, Requests: rs(get("t1", hhDelayOK), post("t2", hhOK))}, Cut: []string{"", "split"}, Pause: []string{"", "before"}}, "upstream-sent", "quiesce")
		}
	}
	return out
}

// ---------------------------------------------------------------------------
// determinism self-check (as c11Determinism, for this body)

func c11hDeterminism(sc c11hScenario) string {
	run := func(prefix []int) ([]string, string) {
		obs := &c11hObs{}
		var tr []string
		var sum string
		vrt.Explore(vrt.Options{Replay: true, Prefix: prefix, Delay: true, MaxSteps: 200000, Trace: true}, func() {
			c11hBody(&sc, obs)
		}, func(r *vrt.Result) {
			tr = r.Trace
			c11hFill(&sc, obs)
			sum = fmt.Sprintf("%s|%v|%v|%v|%v", c11hOutcome(&sc, obs), obs.hh.Attempts, obs.hh.Log, obs.PhaseSig, obs.GaugeExit)
		})
		return tr, sum
	}
	cmp := func(prefix []int) string {
		t1, s1 := run(prefix)
		t2, s2 := run(prefix)
		strip := func(t []string) []string {
			for i, l := range t {
				if !strings.HasPrefix(l, "#0 ") {
					return t[i:]
				}
			}
			return nil
		}
		t1, t2 = strip(t1), strip(t2)
		for i := 0; i < len(t1) && i < len(t2); i++ {
			if t1[i] != t2[i] {
				lo := i - 3
				if lo < 0 {
					lo = 0
				}
				return fmt.Sprintf("schedule %v: traces differ at step %d:\n  run1: %v\n  run2: %v", prefix, i, t1[lo:i+1], t2[lo:i+1])
			}
		}
		if len(t1) != len(t2) {
			return fmt.Sprintf("schedule %v: trace lengths differ: %d vs %d", prefix, len(t1), len(t2))
		}
		if s1 != s2 {
			return fmt.Sprintf("schedule %v: observations differ:\n  %s\n  %s", prefix, s1, s2)
		}
		return ""
	}
	if d := cmp(nil); d != "" {
		return d
	}
	pre := make([]int, 12)
	pre[11] = 1
	if d := cmp(pre); d != "" {
		return d
	}
	pre = make([]int, 40)
	pre[39] = 1
	return cmp(pre)
}

// c11hFill completes the observations of an execution that ended before thread 0 observed
// (deadlock / step limit).
func c11hFill(sc *c11hScenario, obs *c11hObs) {
	if len(obs.GoAways) == 0 && len(obs.hh.Downs) > 0 {
		c11hObserve(sc, obs, &hhRun{sc: &sc.hhScenario, obs: &obs.hh, wire: hhWireOf(&sc.hhScenario)})
	}
	for len(obs.GoAways) < len(obs.hh.Downs) {
		obs.GoAways = append(obs.GoAways, nil)
	}
	n := len(sc.Requests)
	if len(obs.NParts) < n {
		obs.NParts, obs.HeadIdx, obs.Stages = make([]int, n), make([]int, n), make([][]string, n)
		obs.Started, obs.Done, obs.LastAt = make([]int, n), make([]int, n), make([]time.Duration, n)
		obs.StartedSig, obs.DoneSig, obs.PhaseSig = make([]int, n), make([]int, n), make([]string, n)
	}
}

// ---------------------------------------------------------------------------
// driver (two-level exploration as in the bolt unit)

// c11hTimeConsistent re-runs one schedule with tracing and reports whether virtual time
// advanced only at steps at which no thread could run (timers and sleepers were the only options).
func c11hTimeConsistent(sc c11hScenario, choices []int) bool {
	obs := &c11hObs{}
	ok := true
	vrt.Explore(vrt.Options{Replay: true, Prefix: choices, Delay: true, MaxSteps: 200000, Trace: true}, func() {
		c11hBody(&sc, obs)
	}, func(r *vrt.Result) {
		for _, l := range r.Trace {
			a := strings.Index(l, "[")
			b := strings.LastIndex(l, "] -> ")
			if a < 0 || b < a {
				continue
			}
			opts, chosen := l[a:b+1], l[b+5:]
			timed := strings.HasPrefix(chosen, "timer:") || strings.HasSuffix(chosen, ".sleep")
			if !timed {
				continue
			}
			rest := c11TimedThread.ReplaceAllString(opts, "")
			rest = c11TimedTimer.ReplaceAllString(rest, "")
			if strings.Trim(rest, "[] ") != "" {
				ok = false // time passed although a thread was runnable
				return
			}
		}
	})
	return ok
}

func c11hExplore(p *vreport.Part, sc c11hScenario, opts vrt.Options, collect bool, evaluate func(r *vrt.Result) bool) c11Stats {
	obs := &c11hObs{}
	var out c11Stats
	opts.Delay = true
	opts.MaxSteps = 200000
	opts.Trace = os.Getenv("VERIF_DEBUG") == "2" || os.Getenv("VERIF_TRACE_VIOL") != ""
	st := vrt.Explore(opts, func() {
		c11hBody(&sc, obs)
	}, func(r *vrt.Result) {
		if collect && r.Cost == 1 {
			last := -1
			for i, c := range r.Choices {
				if c != 0 {
					last = i
				}
			}
			out.prefixes = append(out.prefixes, append([]int(nil), r.Choices[:last+1]...))
		}
		if evaluate != nil && !evaluate(r) {
			return
		}
		p.Eval()
		c11hFill(&sc, obs)
		outcome := c11hOutcome(&sc, obs)
		if os.Getenv("VERIF_DEBUG") != "" {
			fmt.Printf("EXEC %s\n  outcome=%s\n  attempts=%v log=%v gaugeSig=%v gaugeExit=%v\n", r, outcome, obs.hh.Attempts, obs.hh.Log, obs.GaugeSig, obs.GaugeExit)
			for ci, d := range obs.hh.Downs {
				fmt.Printf("  down%d: %v\n", ci, hhDumpWrites(d.Conn))
			}
			for _, l := range r.Trace {
				fmt.Println("   ", l)
			}
		}
		p.Distinct(sc.Name + "|" + outcome + "|" + strings.Join(obs.hh.Log, ","))
		p.Outcome(sc.Name + "|" + outcome)
		if obs.SigSeen {
			for i := range sc.Requests {
				rq := &sc.Requests[i]
				answered := "lost-at-exit"
				if rq.Conn < len(obs.hh.Downs) {
					d := obs.hh.Downs[rq.Conn]
					for k, ri := range d.Sent {
						if ri == i && k < len(d.Answers) && len(d.Answers[k]) > 0 {
							answered = "answered"
						}
					}
				}
				switch {
				case obs.headBeforeSig(i):
					p.Count("signal-at-phase:"+obs.PhaseSig[i], 1)
					if obs.RetAt-obs.SigAt > time.Duration(sc.DrainMs)*time.Millisecond {
						p.Count("in-flight-request-when-the-drain-time-ran-out:"+answered, 1)
					}
				case obs.NParts[i] > 0 && obs.StartedSig[i] > 0:
					p.Count("signal-at-phase:request-head-partly-sent (enumerated, not compared):"+answered, 1)
				default:
					p.Count("signal-at-phase:before-the-request-was-sent (enumerated, not compared):"+answered, 1)
				}
			}
		}
		for _, l := range obs.GoAways {
			p.Count(fmt.Sprintf("goaway-frames-on-a-connection-at-exit:%d", len(l)), 1)
		}
		cc := sc
		cc.Choices = r.Choices
		if p.WantSample() {
			p.Sample(map[string]interface{}{"scenario": sc.Name, "schedule": r.Choices, "outcome": outcome})
		}
		tc := func() bool { return r.Cost == 0 || c11hTimeConsistent(sc, r.Choices) }
		c11hCheck(&sc, obs, r, tc, func(kind, detail string) {
			if os.Getenv("VERIF_TRACE_VIOL") != "" {
				fmt.Printf("VIOL %s: %s\nEXEC %s\n  log=%v\n", kind, detail, r, obs.hh.Log)
				for ci, d := range obs.hh.Downs {
					fmt.Printf("  down%d: %v\n", ci, hhDumpWrites(d.Conn))
				}
				for _, l := range r.Trace {
					fmt.Println("   ", l)
				}
				os.Exit(3)
			}
			p.Violation(kind, "scenario "+sc.Name+": "+detail+fmt.Sprintf(" | outcome=%s | schedule=%v", outcome, r.Choices), cc)
		})
		for _, nc := range obs.NotCompared {
			p.Count("not-compared:"+nc, 1)
		}
	})
	p.AddTraces(st.Executions)
	p.Count("executions_with_deadlock", st.Deadlocks)
	out.execs, out.complete = st.Executions, st.Complete
	return out
}

// Second-level budget: below every single-deviation schedule, this many executions (DFS order:
// the second deviation at the earliest following choice points first). 0 = all of them.
func c11hWindow() int { return vreport.Pick(12, 0) }

// c11hRunScenario: every schedule with <=1 deviation, then below each single-deviation schedule the
// schedules with a second deviation (all of them, or the first c11hWindow() in DFS order). With prefix sharding (pi, pn) only the
// single-deviation schedules number j with j%pn==pi are expanded here, and the <=1-deviation
// executions are evaluated by pi==0.
func c11hRunScenario(p *vreport.Part, sc c11hScenario, deadline time.Time, pi, pn int) bool {
	sc.Bound = 1
	l1 := c11hExplore(p, sc, vrt.Options{Bound: 1, Deadline: deadline}, true, func(r *vrt.Result) bool { return pi == 0 })
	complete := l1.complete
	execs := l1.execs
	if os.Getenv("VERIF_C11_BOUND") == "1" {
		return complete
	}
	sc.Bound = 2
	w := c11hWindow()
	for j, pre := range l1.prefixes {
		if j%pn != pi {
			continue
		}
		// the node itself (exactly the prefix, then defaults) was evaluated at level 1: skip it here
		max := 0
		if w > 0 {
			max = w + 1 // the node itself + w schedules with a second deviation
		}
		l2 := c11hExplore(p, sc, vrt.Options{Bound: 2, Prefix: pre, MaxExecs: max, Deadline: deadline}, false, func(r *vrt.Result) bool { return r.Cost == 2 })
		if !l2.complete {
			complete = false // the window (or the safety-net deadline) cut this subtree
		}
		execs += l2.execs
	}
	if os.Getenv("VERIF_STATS") != "" {
		fmt.Printf("scenario %-120s single-deviation schedules=%-5d execs=%-7d complete=%v\n", sc.Name, len(l1.prefixes), execs, complete)
	}
	return complete
}

func TestVerifH1C11Drain(t *testing.T) {
	c11hMain("http1-graceful-stop-drain-interleavings", "Http1")
}

func TestVerifH2C11Drain(t *testing.T) {
	c11hMain("http2-graceful-stop-drain-interleavings", "Http2")
}

func c11hMain(part, proto string) {
	budget := time.Duration(vreport.Pick(600, 3000)) * time.Second // safety net per scenario, not a coverage bound
	p := vreport.Begin("C11", part, budget+time.Minute)
	var rc c11hScenario
	if vreport.Replaying() {
		if vreport.ReplayFor("C11", part, &rc) {
			c11hExplore(p, rc, vrt.Options{Replay: true, Prefix: rc.Choices}, false, nil)
			p.End(true, "replay", "replay of one recorded schedule")
		}
		return
	}
	scs := c11hScenarios(proto)
	si, sn := vreport.Shard()
	type job struct {
		sc     c11hScenario
		pi, pn int
	}
	var mine []job
	for i, sc := range scs {
		if only := os.Getenv("VERIF_C11_ONLY"); only != "" && !strings.Contains(sc.Name, only) {
			continue
		}
		if vreport.Thorough() {
			// every process takes its share of the single-deviation schedules of every scenario
			mine = append(mine, job{sc, si, sn})
		} else if i%sn == si {
			mine = append(mine, job{sc, 0, 1})
		}
	}
	complete := true
	n := 0
	for _, j := range mine {
		if d := c11hDeterminism(j.sc); d != "" {
			vreport.HarnessError("C11", part, "nondeterministic scenario "+j.sc.Name+": "+d)
			complete = false
			continue
		}
		if !c11hRunScenario(p, j.sc, time.Now().Add(budget), j.pi, j.pn) {
			complete = false
			p.Count("scenarios_with_a_windowed_or_cut_second_level", 1)
		}
		n++
	}
	p.Note("scenarios", n)
	second := "and every schedule with 2 deviations"
	if w := c11hWindow(); w > 0 {
		second = fmt.Sprintf("and, below every single-deviation schedule, the first %d schedules with a second deviation (DFS order: second deviation at the earliest following choice points)", w)
	}
	what := "HTTP/1.1: 1-2 requests (GET / POST with a Content-Length or chunked body) on 1-2 downstream connections (one request each, or keep-alive / Connection: close on one)"
	if proto == "Http2" {
		what = "HTTP/2: 1-2 requests (GET = HEADERS+END_STREAM / POST = HEADERS, DATA, DATA+END_STREAM) as streams of 1-2 downstream connections"
	}
	p.End(complete, fmt.Sprintf("%d scenarios (this process): %s of 1-2 listeners, requests delivered in 1, 2 or 4 reads (cut inside the header block / after it / inside the body) with the client optionally pausing its upload until MOSN is draining, upstream scripts {reply-ok, reply in two reads, delayed reply inside the drain time, silent, error + retry, close}, drain time 300ms (virtual), signal thread started at every scheduling point (held back per scenario until a stated phase); every schedule of signal thread / per-listener shutdown goroutines / OnShutdown-event goroutine / drain poll / clients / stream-connection goroutines / proxy workers / upstream peers / timers with <=1 deviation from the default scheduler (delay bounding) %s", n, what, second),
		"one evaluation = one complete execution of the real server.Shutdown()+Close() sequence against the real proxy + HTTP stream and pool code under one schedule, observed at process exit; in flight at the signal = the read completing the request's header block (HTTP/2: HEADERS frame) was handed to MOSN before the first step of the signal thread, and (HTTP/2) the stream is not above the last-stream-id of MOSN's GOAWAY; compared: (1)+(2) if server.Shutdown returns before the drain time ran out, every request in flight has exactly one complete response on its connection, a success if its upstream answers OK; (2b) if the drain time ran out, a request in flight whose client delivered the rest of it at once and whose upstream answers OK well inside the drain time has its success response (executions where time passes only while nothing can run); (3) the stop sequence returns, at most drain time + one 10ms poll after the signal; (4) every downstream byte stream is well-formed (complete HTTP/1 messages resp. HTTP/2 frames, GOAWAY included), at most one response per request, none that answers nothing; (5) a GOAWAY never announces a last-stream-id below a stream accepted before the signal; enumerated but NOT compared: requests whose header block reached MOSN only after the signal (new streams / connections / partly sent heads), streams refused by GOAWAY; distinct = distinct (scenario, per-request phase at the signal + outcome, GOAWAY frames, time waited, peer actions)")
}

var _ = api.OnShutdown
