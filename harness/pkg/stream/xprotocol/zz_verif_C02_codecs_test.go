//go:build verif

package xprotocol

// C02, unit stream-connection-codecs: what zz_verif_C02_streamconn_test.go asks
// of the bolt codec, asked of every other x-protocol codec and its own
// request-id scheme (boltv2: uint32; dubbo: 64-bit id in an 8-byte field; tars:
// int32 IRequestId, sign boundary; dubbothrift: 64-bit id read as a thrift i64,
// next to a thrift seq id that is NOT the correlation id).
//
//   - client part: one real client stream connection of the codec (made through
//     the normal registration: stream.NewStreamClient -> registered stream
//     factory) over the vfake connection. 2-3 sender threads forward a request
//     each the way the proxy does (the frame DECODED by the real codec from the
//     downstream's bytes, NewStream / AppendHeaders / AppendData), a reader thread
//     plays the upstream peer: it reads the request ids off the wire (reference
//     parsers of vref) and injects the scripted replies (reference encoders),
//     resetters reset a stream as a timeout does. Scripts: every permutation of
//     the replies, plus a duplicate, a reply with an id nobody has, a reply whose
//     id differs from an in-flight id only in a high bit (bit 16 / bit 32: the
//     ids are equal for anybody who truncates), a heartbeat REQUEST of the peer
//     carrying an in-flight id (boltv2, dubbo), a late reply after a local reset.
//     The connection's id counter is preset to 0 and to 2^k-2 for the codec's
//     wrap points (2^32 for the stream-level uint64 -> uint32 ids, 2^31 for tars,
//     2^64 for the 64-bit codecs). The downstream id a request arrives with is
//     the id ANOTHER sender of the same run is given upstream.
//   - id sweep: the same scenario (3 senders, one fixed script with all reply
//     kinds, default schedule only) with the counter preset to 2^k-2 for EVERY
//     k = 1..64, all five codecs (tars writes integers with the smallest width
//     that holds them: every width boundary is crossed).
//   - server part: one real server stream connection; 2-3 requests with distinct
//     downstream ids arrive in one read; responder threads append the responses
//     (frames decoded by the real codec from the upstream's bytes, carrying as
//     upstream id the DOWNSTREAM id of another request) in every order and
//     interleaving; optionally one request is answered by MOSN itself (hijack)
//     after its frame object was given an upstream id.
//
// Oracle (only what the statement says): a reply handed to a receiver carries
// that receiver's own token in header AND body, at most once, never after its
// reset was acknowledged; unknown / aliased / duplicate / late replies and
// heartbeats reach nobody; a request whose (only) matching reply arrived gets it;
// the requests of one run carry pairwise distinct ids on the wire, each with its
// own header and body; server side: the frame written for request k carries
// request k's downstream id and response k's token in header and body, once.
// Where a codec has no header map on responses the "header" is a fixed-header
// field of the same frame (dubbo: status byte; tars: iRet), the body is the
// payload / sBuffer.

import (
	"bytes"
	"context"
	"fmt"
	"reflect"
	"sort"
	"strings"
	"sync"
	"testing"
	"time"

	"mosn.io/api"
	"mosn.io/mosn/pkg/protocol"
	xproto "mosn.io/mosn/pkg/protocol/xprotocol"
	"mosn.io/mosn/pkg/protocol/xprotocol/bolt"
	"mosn.io/mosn/pkg/protocol/xprotocol/boltv2"
	"mosn.io/mosn/pkg/protocol/xprotocol/dubbo"
	"mosn.io/mosn/pkg/protocol/xprotocol/dubbothrift"
	"mosn.io/mosn/pkg/protocol/xprotocol/tars"
	"mosn.io/mosn/pkg/stream"
	"mosn.io/mosn/pkg/types"
	"mosn.io/mosn/pkg/verifrt/vfake"
	"mosn.io/mosn/pkg/verifrt/vref"
	"mosn.io/mosn/pkg/verifrt/vreport"
	"mosn.io/mosn/pkg/verifrt/vrt"
	"mosn.io/pkg/buffer"
	"mosn.io/pkg/variable"
)

var c02cOnce sync.Once

func c02cInit() {
	c02cOnce.Do(func() {
		// what cmd/mosn/main/control.go does
		xproto.RegisterXProtocolAction(NewConnPool, NewStreamFactory, func(codec api.XProtocolCodec) {})
		for _, cd := range []api.XProtocolCodec{&bolt.XCodec{}, &boltv2.XCodec{}, &dubbo.XCodec{}, &dubbothrift.XCodec{}, &tars.XCodec{}} {
			_ = xproto.RegisterXProtocolCodec(cd) // "already registered" by another harness file of this binary is fine
		}
		// pkg/proxy registers it in a running mosn (var.go); the hijack path of the stream layer reads it
		_ = variable.Register(variable.NewStringVariable(types.VarHeaderStatus, nil, nil, variable.DefaultStringSetter, 0))
	})
}

// ---------------------------------------------------------------- codecs

type c02cWire struct {
	kind string // req | resp | hb (heartbeat request) | hback (heartbeat response)
	id   uint64 // the id field as the wire has it (zero-extended)
	hdr  string // token in the header part ("" none, "?…" not a token)
	body string // token in the body part
}

type c02cSpec struct {
	name  string
	proto api.ProtocolName
	codec api.XProtocolCodec
	bits  int   // width of the id field
	hasHB bool  // the codec knows heartbeats
	wraps []int // counter presets 2^k-2 of the schedule part (besides 0)
	req   func(id uint64, tok string) []byte
	resp  func(id uint64, tok string) []byte
	hb    func(id uint64) []byte
	parse func(b []byte) (c02cWire, int, error)
	// header token of a RESPONSE as a receiver sees it
	respHdr func(h api.HeaderMap) string
	// body token of a RESPONSE in the data a receiver gets (nil: the token follows "resp-of-")
	respBody func(data []byte) string
}

func c02cNum(tok string) int {
	if tok == "nobody" {
		return 99
	}
	var i int
	if _, err := fmt.Sscanf(tok, "t%d", &i); err != nil {
		panic("c02c: token " + tok)
	}
	return i
}

func c02cTokOf(n int) string {
	switch {
	case n == 99:
		return "nobody"
	case n >= 0 && n < 10:
		return fmt.Sprintf("t%d", n)
	}
	return fmt.Sprintf("?%d", n)
}

// c02cAfter returns the token that follows marker in b ("" when the marker is absent).
func c02cAfter(b []byte, marker string) string {
	i := bytes.Index(b, []byte(marker))
	if i < 0 {
		return ""
	}
	j := i + len(marker)
	k := j
	for k < len(b) && (b[k] >= 'a' && b[k] <= 'z' || b[k] >= '0' && b[k] <= '9') {
		k++
	}
	return string(b[j:k])
}

func c02cStrip(s, prefix string) string {
	if strings.HasPrefix(s, prefix) {
		return s[len(prefix):]
	}
	return "?" + s
}

func c02cKVGet(kvs []vref.KV, k string) string {
	for _, kv := range kvs {
		if string(kv.K) == k {
			return string(kv.V)
		}
	}
	return "?"
}

func c02cBoltSpec(v2 bool) *c02cSpec {
	sp := &c02cSpec{name: "bolt", proto: bolt.ProtocolName, codec: &bolt.XCodec{}, bits: 32, hasHB: true, wraps: []int{32}}
	if v2 {
		sp.name, sp.proto, sp.codec = "boltv2", boltv2.ProtocolName, &boltv2.XCodec{}
	}
	sp.req = func(id uint64, tok string) []byte {
		f := vref.NewBolt(v2, vref.BoltTypeRequest)
		f.ID = uint32(id)
		f.Class = []byte("c02.Class")
		f.Headers = []vref.KV{{K: []byte("service"), V: []byte("svc")}, {K: []byte("token"), V: []byte(tok)}}
		f.Content = []byte("body-of-" + tok)
		return f.Encode()
	}
	sp.resp = func(id uint64, tok string) []byte {
		f := vref.NewBolt(v2, vref.BoltTypeResponse)
		f.ID = uint32(id)
		f.Class = []byte("c02.Class")
		f.Headers = []vref.KV{{K: []byte("token"), V: []byte(tok)}}
		f.Content = []byte("resp-of-" + tok)
		return f.Encode()
	}
	sp.hb = func(id uint64) []byte {
		f := vref.NewBolt(v2, vref.BoltTypeRequest)
		f.CmdCode = 0
		f.ID = uint32(id)
		return f.Encode()
	}
	sp.parse = func(b []byte) (c02cWire, int, error) {
		f, n, err := vref.ParseBolt(b)
		if err != nil {
			return c02cWire{}, 0, err
		}
		w := c02cWire{id: uint64(f.ID)}
		switch {
		case f.Type == vref.BoltTypeResponse && f.CmdCode == 0:
			w.kind = "hback"
		case f.Type == vref.BoltTypeResponse:
			w.kind = "resp"
			if len(f.Headers) > 0 {
				w.hdr = c02cKVGet(f.Headers, "token")
			}
			w.body = c02cAfter(f.Content, "resp-of-")
		case f.CmdCode == 0:
			w.kind = "hb"
		default:
			w.kind = "req"
			w.hdr = c02cKVGet(f.Headers, "token")
			w.body = c02cAfter(f.Content, "body-of-")
		}
		return w, n, nil
	}
	sp.respHdr = func(h api.HeaderMap) string {
		t, ok := h.Get("token")
		if !ok {
			return "?"
		}
		return t
	}
	return sp
}

func c02cDubboSpec() *c02cSpec {
	const reqFlag = vref.DubboFlagRequest | vref.DubboFlagTwoWay | vref.DubboHessian2
	sp := &c02cSpec{name: "dubbo", proto: dubbo.ProtocolName, codec: &dubbo.XCodec{}, bits: 64, hasHB: true, wraps: []int{32, 64}}
	sp.req = func(id uint64, tok string) []byte {
		inv := vref.DubboInvocation{DubboVersion: "2.0.2", Path: "svc", Version: "1.0.0", Method: "m-" + tok, Args: [][]byte{[]byte("body-of-" + tok)},
			Attachments: []vref.KV{{K: []byte("token"), V: []byte(tok)}}}
		return vref.DubboFrame{Magic: vref.DubboMagic, Flag: reqFlag, ID: id, Payload: inv.Encode()}.Encode()
	}
	sp.resp = func(id uint64, tok string) []byte {
		// status byte = the "header" of a dubbo response (the codec decodes no header map for responses)
		return vref.DubboFrame{Magic: vref.DubboMagic, Flag: vref.DubboHessian2, Status: byte(0x40 + c02cNum(tok)), ID: id, Payload: []byte("resp-of-" + tok)}.Encode()
	}
	sp.hb = func(id uint64) []byte {
		return vref.DubboFrame{Magic: vref.DubboMagic, Flag: reqFlag | vref.DubboFlagEvent, ID: id, Payload: []byte{'N'}}.Encode()
	}
	sp.parse = func(b []byte) (c02cWire, int, error) {
		f, n, err := vref.ParseDubbo(b)
		if err != nil {
			return c02cWire{}, 0, err
		}
		if f.Magic != vref.DubboMagic {
			return c02cWire{}, 0, fmt.Errorf("dubbo: magic %#x", f.Magic)
		}
		w := c02cWire{id: f.ID}
		req, ev := f.Flag&vref.DubboFlagRequest != 0, f.Flag&vref.DubboFlagEvent != 0
		switch {
		case req && ev:
			w.kind = "hb"
		case ev:
			w.kind = "hback"
		case req:
			w.kind = "req"
			inv, err := vref.ParseDubboInvocation(f.Payload)
			if err != nil {
				return c02cWire{}, 0, err
			}
			w.hdr = c02cStrip(inv.Method, "m-")
			if len(inv.Args) > 0 {
				w.body = c02cAfter(inv.Args[0], "body-of-")
			}
		default:
			w.kind = "resp"
			w.hdr = c02cTokOf(int(f.Status) - 0x40)
			w.body = c02cAfter(f.Payload, "resp-of-")
		}
		return w, n, nil
	}
	sp.respHdr = func(h api.HeaderMap) string {
		r, ok := h.(api.XRespFrame)
		if !ok {
			return "?"
		}
		return c02cTokOf(int(r.GetStatusCode()) - 0x40)
	}
	return sp
}

func c02cTarsSpec() *c02cSpec {
	sp := &c02cSpec{name: "tars", proto: tars.ProtocolName, codec: &tars.XCodec{}, bits: 32, wraps: []int{31, 32}}
	sp.req = func(id uint64, tok string) []byte {
		return vref.TarsRequest{Version: 1, ID: int32(uint32(id)), Servant: []byte("svc"), Func: []byte("f-" + tok), Buffer: []byte("body-of-" + tok),
			Timeout: 3000, Context: []vref.KV{{K: []byte("token"), V: []byte(tok)}}, Status: []vref.KV{}}.Encode()
	}
	sp.resp = func(id uint64, tok string) []byte {
		// iRet = the "header" of a tars response (no header map is decoded for responses)
		return vref.TarsResponse{Version: 1, ID: int32(uint32(id)), Ret: int32(1000 + c02cNum(tok)), Buffer: []byte("resp-of-" + tok),
			Status: []vref.KV{}, ResultDesc: []byte("d-" + tok), Context: []vref.KV{}}.Encode()
	}
	sp.parse = func(b []byte) (c02cWire, int, error) {
		if q, n, err := vref.ParseTarsRequest(b); err == nil {
			return c02cWire{kind: "req", id: uint64(uint32(q.ID)), hdr: c02cStrip(string(q.Func), "f-"), body: c02cAfter(q.Buffer, "body-of-")}, n, nil
		}
		r, n, err := vref.ParseTarsResponse(b)
		if err != nil {
			return c02cWire{}, 0, err
		}
		return c02cWire{kind: "resp", id: uint64(uint32(r.ID)), hdr: c02cTokOf(int(r.Ret) - 1000), body: c02cAfter(r.Buffer, "resp-of-")}, n, nil
	}
	sp.respHdr = func(h api.HeaderMap) string {
		r, ok := h.(api.XRespFrame)
		if !ok {
			return "?"
		}
		return c02cTokOf(int(int32(r.GetStatusCode())) - 1000)
	}
	// the data of a tars frame is the whole frame as received
	sp.respBody = func(data []byte) string {
		r, n, err := vref.ParseTarsResponse(data)
		if err != nil || n != len(data) {
			return fmt.Sprintf("?unparsable(%v)", err)
		}
		return c02cStrip(string(r.Buffer), "resp-of-")
	}
	return sp
}

func c02cThriftSpec() *c02cSpec {
	sp := &c02cSpec{name: "dubbothrift", proto: dubbothrift.ProtocolName, codec: &dubbothrift.XCodec{}, bits: 64, wraps: []int{32, 64}}
	// the thrift seq id is the same in every frame: it is not the correlation id
	frame := func(id uint64, typ byte, tok, marker string) []byte {
		return vref.DubboThriftFrame{Magic: vref.DubboThriftMagic, Version: 1, ID: id, MsgType: typ, SeqID: 7,
			Service: []byte("svc"), Method: []byte("m-" + tok), Args: vref.ThriftArgs([]byte(marker + tok))}.Encode()
	}
	sp.req = func(id uint64, tok string) []byte { return frame(id, 1, tok, "body-of-") }
	sp.resp = func(id uint64, tok string) []byte { return frame(id, 2, tok, "resp-of-") }
	sp.parse = func(b []byte) (c02cWire, int, error) {
		f, n, err := vref.ParseDubboThrift(b)
		if err != nil {
			return c02cWire{}, 0, err
		}
		w := c02cWire{kind: "resp", id: f.ID, hdr: c02cStrip(string(f.Method), "m-"), body: c02cAfter(f.Args, "resp-of-")}
		if f.MsgType == 1 {
			w.kind, w.body = "req", c02cAfter(f.Args, "body-of-")
		}
		return w, n, nil
	}
	sp.respHdr = func(h api.HeaderMap) string {
		m, ok := h.Get(dubbothrift.MethodNameHeader)
		if !ok {
			return "?"
		}
		return c02cStrip(m, "m-")
	}
	return sp
}

var c02cSpecsOnce sync.Once
var c02cSpecList []*c02cSpec

func c02cSpecs() []*c02cSpec {
	c02cSpecsOnce.Do(func() {
		c02cSpecList = []*c02cSpec{c02cBoltSpec(true), c02cDubboSpec(), c02cTarsSpec(), c02cThriftSpec(), c02cBoltSpec(false)}
	})
	return c02cSpecList
}

func c02cSpecOf(name string) *c02cSpec {
	for _, sp := range c02cSpecs() {
		if sp.name == name {
			return sp
		}
	}
	panic("c02c: codec " + name)
}

// ---------------------------------------------------------------- cases

type c02cCase struct {
	Part    string   `json:"part"` // client | server
	Codec   string   `json:"codec"`
	Name    string   `json:"name"`
	Senders int      `json:"senders"`
	Replies []string `json:"replies,omitempty"` // client: tokens in delivery order; dup:<t>, unknown, alias:<t>, hb:<t>, late:<t>
	Resets  []int    `json:"resets,omitempty"`  // client: senders whose stream is reset locally after the request was written
	Exp     int      `json:"exp"`               // id counter preset (client) / downstream id base (server): 0, or 2^Exp-2
	Order   []int    `json:"order,omitempty"`   // server: order in which the responder threads are started
	Hijack  int      `json:"hijack"`            // server: request answered by MOSN itself (-1 none)
	Bound   int      `json:"bound"`
	Choices []int    `json:"choices,omitempty"`
}

func (c *c02cCase) base() uint64 {
	if c.Exp == 0 {
		return 0
	}
	if c.Exp == 64 {
		return ^uint64(0) - 1
	}
	return uint64(1)<<uint(c.Exp) - 2
}

func (c *c02cCase) setName() {
	b := "0"
	if c.Exp > 0 {
		b = fmt.Sprintf("2^%d-2", c.Exp)
	}
	if c.Part == "server" {
		c.Name = fmt.Sprintf("codec=%s server requests=%d ids-from=%s order=%v hijack=%d", c.Codec, c.Senders, b, c.Order, c.Hijack)
	} else {
		c.Name = fmt.Sprintf("codec=%s senders=%d base=%s resets=%v replies=%s", c.Codec, c.Senders, b, c.Resets, strings.Join(c.Replies, ","))
	}
}

func c02cPerms(n int) [][]int {
	var res [][]int
	var rec func(cur []int, used []bool)
	rec = func(cur []int, used []bool) {
		if len(cur) == n {
			res = append(res, append([]int(nil), cur...))
			return
		}
		for i := 0; i < n; i++ {
			if !used[i] {
				used[i] = true
				rec(append(cur, i), used)
				used[i] = false
			}
		}
	}
	rec(nil, make([]bool, n))
	return res
}

func c02cToks(p []int) []string {
	out := make([]string, len(p))
	for i, k := range p {
		out[i] = fmt.Sprintf("t%d", k)
	}
	return out
}

func c02cCat(parts ...[]string) []string {
	var out []string
	for _, p := range parts {
		out = append(out, p...)
	}
	return out
}

// c02cClientCases: the schedule-explored grid of one codec.
func c02cClientCases(sp *c02cSpec) []c02cCase {
	var out []c02cCase
	add := func(n, exp int, resets []int, replies []string) {
		out = append(out, c02cCase{Part: "client", Codec: sp.name, Senders: n, Exp: exp, Resets: resets, Replies: replies, Hijack: -1})
	}
	for _, n := range []int{2, 3} {
		for _, exp := range append([]int{0}, sp.wraps...) {
			rich := n == 2 || vreport.Thorough()
			if n == 3 && exp == 0 && !vreport.Thorough() {
				continue
			}
			perms := c02cPerms(n)
			for k, pi := range perms {
				p := c02cToks(pi)
				add(n, exp, nil, p)
				// quick, 3 senders: the extra reply kinds only around the reversed order
				if !rich && k != len(perms)-1 {
					continue
				}
				add(n, exp, nil, c02cCat([]string{"unknown"}, p))
				add(n, exp, nil, c02cCat(p, []string{"dup:" + p[0]}))
				add(n, exp, nil, c02cCat([]string{p[0], "dup:" + p[0]}, p[1:]))
				add(n, exp, nil, c02cCat([]string{"alias:" + p[0]}, p))
				if sp.hasHB {
					add(n, exp, nil, c02cCat([]string{"hb:" + p[0]}, p))
				}
			}
			// sender 0 is reset locally (timeout); its reply arrives late
			var rest []string
			for i := 1; i < n; i++ {
				rest = append(rest, fmt.Sprintf("t%d", i))
			}
			add(n, exp, []int{0}, c02cCat([]string{"late:t0"}, rest))
			add(n, exp, []int{0}, c02cCat(rest, []string{"late:t0"}))
		}
	}
	return out
}

func c02cSweepScript(sp *c02cSpec) []string {
	s := []string{"unknown", "alias:t2", "t2", "dup:t2", "alias:t1", "t1"}
	if sp.hasHB {
		s = append(s, "hb:t0")
	}
	return append(s, "t0", "dup:t0", "dup:t1")
}

func c02cServerCases(sp *c02cSpec, exps []int, allOrders bool) []c02cCase {
	var out []c02cCase
	for _, n := range []int{2, 3} {
		for _, exp := range exps {
			orders := c02cPerms(n)
			if !allOrders {
				orders = orders[len(orders)-1:]
			}
			for _, o := range orders {
				out = append(out, c02cCase{Part: "server", Codec: sp.name, Senders: n, Exp: exp, Order: o, Hijack: -1})
				out = append(out, c02cCase{Part: "server", Codec: sp.name, Senders: n, Exp: exp, Order: o, Hijack: o[len(o)-1]})
			}
		}
	}
	return out
}

// ---------------------------------------------------------------- client part

type c02cRecv struct {
	sp      *c02cSpec
	got     []string // "hdrToken/bodyToken"
	resetAt int      // len(got) when the local reset had returned (-1: never)
	decErr  int
}

func (r *c02cRecv) OnReceive(ctx context.Context, headers api.HeaderMap, data buffer.IoBuffer, trailers api.HeaderMap) {
	b := "<nil>"
	if data != nil && r.sp.respBody != nil {
		b = r.sp.respBody(data.Bytes())
	} else if data != nil {
		b = c02cAfter(data.Bytes(), "resp-of-")
	}
	r.got = append(r.got, r.sp.respHdr(headers)+"/"+b)
}
func (r *c02cRecv) OnDecodeError(ctx context.Context, err error, headers api.HeaderMap) { r.decErr++ }

type c02cObs struct {
	recv     []*c02cRecv
	wire     []c02cWire // frames MOSN wrote, in order
	wireErr  string
	injected map[string]int // reply kind -> count actually injected
	unknown  []uint64       // ids of the unknown / aliased replies
	harness  string
	// server part
	downIDs []uint64
	hijack  string // what the hijack attempt returned
}

func c02cDecode(sp *c02cSpec, ctx context.Context, b []byte) api.XFrame {
	buf := buffer.NewIoBufferBytes(append([]byte(nil), b...))
	f, err := sp.codec.NewXProtocol(ctx).Decode(ctx, buf)
	if err != nil || f == nil {
		panic(fmt.Sprintf("c02c: the %s codec does not decode the reference frame: %v", sp.name, err))
	}
	return f.(api.XFrame)
}

func c02cParseAll(sp *c02cSpec, b []byte) ([]c02cWire, string) {
	var out []c02cWire
	for len(b) > 0 {
		w, n, err := sp.parse(b)
		if err != nil || n <= 0 {
			return out, fmt.Sprintf("frame %d on the wire is not a well-formed %s frame: %v", len(out)+1, sp.name, err)
		}
		out = append(out, w)
		b = b[n:]
	}
	return out, ""
}

func c02cClientBody(sp *c02cSpec, c *c02cCase, obs *c02cObs) {
	c02cInit()
	vfake.Reset()
	conn := vfake.NewClientSide("up", nil)
	ctx := variable.NewVariableContext(context.Background())
	cl := stream.NewStreamClient(ctx, sp.proto, conn, nil)
	if cl == nil {
		panic("c02c: no stream factory registered for " + string(sp.proto))
	}
	if err := cl.Connect(); err != nil {
		panic(err)
	}
	sc := reflect.ValueOf(cl).Elem().FieldByName("ClientStreamConnection").Interface().(*streamConn)
	base := c.base()
	sc.clientStreamIDBase = base
	n := c.Senders
	senders := make([]types.StreamSender, n)
	sent := make([]bool, n)
	sctx := make([]context.Context, n)
	frames := make([]api.XFrame, n)
	for i := 0; i < n; i++ {
		obs.recv = append(obs.recv, &c02cRecv{sp: sp, resetAt: -1})
		// the request as the downstream connection decoded it: it carries the downstream's id,
		// here the id another sender of this run is given upstream
		sctx[i] = buffer.NewBufferPoolContext(variable.NewVariableContext(context.Background()))
		frames[i] = c02cDecode(sp, sctx[i], sp.req(base+1+uint64((i+1)%n), fmt.Sprintf("t%d", i)))
	}
	ids := map[string]uint64{}
	learn := func() {
		obs.wire, obs.wireErr = c02cParseAll(sp, conn.Written())
		for _, w := range obs.wire {
			if w.kind == "req" {
				if _, ok := ids[w.hdr]; !ok {
					ids[w.hdr] = w.id
				}
			}
		}
	}
	for i := 0; i < n; i++ {
		i := i
		vrt.GoNamed(fmt.Sprintf("sender%d", i), func() {
			s := cl.NewStream(sctx[i], obs.recv[i])
			senders[i] = s
			f := frames[i]
			// pkg/proxy upstreamRequest.appendHeaders / appendData
			if err := s.AppendHeaders(sctx[i], f.GetHeader(), f.GetData() == nil); err == nil && f.GetData() != nil {
				s.AppendData(sctx[i], f.GetData(), true)
			}
			sent[i] = true
		})
	}
	for _, j := range c.Resets {
		j := j
		vrt.GoNamed(fmt.Sprintf("env:resetter%d", j), func() {
			vrt.WaitUntil("request written", func() bool { return sent[j] })
			senders[j].GetStream().ResetStream(types.StreamLocalReset)
			// from here on the reset is acknowledged: nothing may be delivered any more
			obs.recv[j].resetAt = len(obs.recv[j].got)
		})
	}
	unknownID := uint64(0x7fff0000)
	aliasBit := uint(16)
	if sp.bits == 64 {
		unknownID, aliasBit = 0x7fff00007fff0000, 32
	}
	vrt.GoNamed("env:reader", func() {
		for _, r := range c.Replies {
			kind, tok := "reply", r
			if i := strings.IndexByte(r, ':'); i >= 0 {
				kind, tok = r[:i], r[i+1:]
			} else if r == "unknown" {
				kind, tok = "unknown", ""
			}
			if kind == "unknown" {
				obs.unknown = append(obs.unknown, unknownID)
				obs.injected[kind]++
				conn.InjectRead(sp.resp(unknownID, "nobody"))
				continue
			}
			idx := c02cNum(tok)
			if kind == "late" {
				vrt.WaitUntil("stream was reset", func() bool { return obs.recv[idx].resetAt >= 0 })
			}
			vrt.WaitUntil("request on the wire", func() bool { learn(); _, ok := ids[tok]; return ok })
			obs.injected[kind]++
			switch kind {
			case "alias":
				id := ids[tok] ^ 1<<aliasBit
				obs.unknown = append(obs.unknown, id)
				conn.InjectRead(sp.resp(id, "nobody"))
			case "hb":
				conn.InjectRead(sp.hb(ids[tok]))
			default:
				conn.InjectRead(sp.resp(ids[tok], tok))
			}
		}
	})
	vrt.Quiesce()
	learn()
}

func c02cJudge(p *vreport.Part, sp *c02cSpec, c c02cCase, obs *c02cObs, r *vrt.Result) {
	cc := c
	cc.Choices = r.Choices
	report := func(kind, detail string) {
		p.Violation("codec="+sp.name+" "+kind, "case "+c.Name+": "+detail+fmt.Sprintf(" | schedule=%v", r.Choices), cc)
	}
	if r.Diverged != "" || r.StepLimit || r.Deadlock {
		report("HARNESS execution did not complete normally", r.String())
		return
	}
	for _, pn := range r.Panics {
		first := strings.SplitN(pn, "\n", 2)[0]
		if strings.Contains(pn, "streamConn).Dispatch") && !strings.Contains(pn, "c02c:") {
			// the reader thread stands in for the connection's read goroutine
			report("panic while the stream connection dispatched a reply", pn)
		} else if strings.Contains(first, "(env:") || strings.Contains(first, "(main)") || strings.Contains(pn, "c02c:") {
			report("HARNESS panic in harness thread", pn)
		} else {
			report("uncaught panic in a stream goroutine", pn)
		}
		return
	}
	if obs.harness != "" {
		report("HARNESS "+obs.harness, obs.harness)
		return
	}
	if c.Part == "server" {
		c02cJudgeServer(p, sp, c, obs, r, report)
		return
	}
	var sum []string
	for _, rc := range obs.recv {
		sum = append(sum, strings.Join(rc.got, "+"))
	}
	p.Distinct(c.Name + "|" + strings.Join(sum, ";"))
	p.Outcome(sp.name + ":" + strings.Join(sum, ";"))
	if p.WantSample() {
		p.Sample(map[string]interface{}{"case": c.Name, "schedule": r.Choices, "delivered": sum})
	}
	for k, n := range obs.injected {
		p.Count("injected_"+k, n)
	}
	// ---- the wire
	if obs.wireErr != "" {
		report("bytes written upstream are not a sequence of well-formed frames", obs.wireErr)
		return
	}
	var reqs []c02cWire
	for _, w := range obs.wire {
		if w.kind == "req" {
			reqs = append(reqs, w)
		}
	}
	if len(reqs) != c.Senders {
		report("not every request was written exactly once", fmt.Sprintf("%d request frames for %d senders", len(reqs), c.Senders))
	}
	seenTok := map[string]bool{}
	wrapped := false
	for i, w := range reqs {
		if w.hdr != w.body {
			report("a request on the wire has header and body of different exchanges", fmt.Sprintf("request frame %d: id %d header token %q body token %q", i+1, w.id, w.hdr, w.body))
		}
		if seenTok[w.hdr] {
			report("not every request was written exactly once", fmt.Sprintf("token %q twice on the wire", w.hdr))
		}
		seenTok[w.hdr] = true
		for j := 0; j < i; j++ {
			if reqs[j].id == w.id {
				report("two in-flight requests carry the same id on the wire", fmt.Sprintf("requests %q and %q both carry id %d", reqs[j].hdr, w.hdr, w.id))
			}
			if reqs[j].id > w.id {
				wrapped = true
			}
		}
		for _, u := range obs.unknown {
			if u == w.id {
				report("HARNESS the id chosen for an unknown reply is in flight", fmt.Sprintf("id %d", u))
			}
		}
	}
	if wrapped {
		p.Count("executions_with_wire_ids_not_ascending (wrap-around or allocation overtaken)", 1)
	}
	// ---- the receivers
	answered := map[int]int{}
	for _, rp := range c.Replies {
		if !strings.Contains(rp, ":") && rp != "unknown" {
			answered[c02cNum(rp)]++
		}
	}
	for i, rc := range obs.recv {
		want := fmt.Sprintf("t%d/t%d", i, i)
		for k, g := range rc.got {
			if g != want {
				report("a receiver got a reply that was not produced for its request (or header and body of different exchanges)", fmt.Sprintf("receiver %d got %q", i, g))
			}
			if rc.resetAt >= 0 && k >= rc.resetAt {
				report("a reply was delivered after the stream had been reset", fmt.Sprintf("receiver %d got %q after its reset", i, g))
			}
		}
		if len(rc.got) > 1 {
			report("the same request was answered more than once", fmt.Sprintf("receiver %d got %v", i, rc.got))
		}
		if rc.resetAt < 0 && answered[i] > 0 && len(rc.got) == 0 {
			report("a request whose reply arrived was never answered", fmt.Sprintf("receiver %d got nothing; the peer answered the id it read off the wire (%v)", i, reqs))
		}
		if rc.resetAt >= 0 && len(rc.got) == 0 {
			p.Count("late_reply_met_a_reset_stream", 1)
		}
	}
}

// ---------------------------------------------------------------- server part

type c02cDetect struct {
	ctx     context.Context
	sender  types.StreamSender
	headers api.HeaderMap
	data    buffer.IoBuffer
	n       int
}

func (d *c02cDetect) OnReceive(ctx context.Context, headers api.HeaderMap, data buffer.IoBuffer, trailers api.HeaderMap) {
	d.n++
	d.headers, d.data = headers, data
}
func (d *c02cDetect) OnDecodeError(ctx context.Context, err error, headers api.HeaderMap) {}

type c02cListener struct{ detects []*c02cDetect }

func (l *c02cListener) NewStreamDetect(ctx context.Context, sender types.StreamSender, span api.Span) types.StreamReceiveListener {
	d := &c02cDetect{ctx: ctx, sender: sender}
	l.detects = append(l.detects, d)
	return d
}
func (l *c02cListener) OnGoAway() {}

func c02cServerBody(sp *c02cSpec, c *c02cCase, obs *c02cObs) {
	c02cInit()
	vfake.Reset()
	down := vfake.NewServerSide("down")
	lis := &c02cListener{}
	factory, ok := protocol.GetProtocolStreamFactory(sp.proto)
	if !ok {
		panic("c02c: no stream factory registered for " + string(sp.proto))
	}
	S := factory.CreateServerStream(variable.NewVariableContext(context.Background()), down, lis)
	n := c.Senders
	base := c.base()
	var in []byte
	for k := 0; k < n; k++ {
		id := base + 1 + uint64(k)
		if sp.bits == 32 {
			id = uint64(uint32(id))
		}
		obs.downIDs = append(obs.downIDs, id)
		in = append(in, sp.req(id, fmt.Sprintf("t%d", k))...)
	}
	// one read delivers all the requests
	S.Dispatch(buffer.NewIoBufferBytes(in))
	if len(lis.detects) != n {
		obs.harness = fmt.Sprintf("%d requests dispatched, NewStreamDetect called %d times", n, len(lis.detects))
		return
	}
	// the responses as the upstream connection decoded them: response k answers request k and carries,
	// as upstream id, the downstream id of another request
	resps := make([]api.XFrame, n)
	for k := 0; k < n; k++ {
		uctx := buffer.NewBufferPoolContext(variable.NewVariableContext(context.Background()))
		resps[k] = c02cDecode(sp, uctx, sp.resp(obs.downIDs[(k+1)%n], fmt.Sprintf("t%d", k)))
	}
	for _, k := range c.Order {
		k := k
		d := lis.detects[k]
		if d.n != 1 || d.sender == nil || reflect.ValueOf(d.sender).IsNil() {
			obs.harness = fmt.Sprintf("request %d: OnReceive calls %d, sender %v", k, d.n, d.sender)
			return
		}
		vrt.GoNamed(fmt.Sprintf("responder%d", k), func() {
			if k == c.Hijack {
				// the request had been forwarded (its frame object was given an upstream id by the client
				// stream) when the proxy decides to answer it itself: downStream.sendHijackReply
				d.headers.(api.XFrame).SetRequestId(obs.downIDs[(k+1)%n])
				variable.SetString(d.ctx, types.VarHeaderStatus, "502")
				err := d.sender.AppendHeaders(d.ctx, d.headers, true)
				obs.hijack = fmt.Sprint(err)
				return
			}
			f := resps[k]
			if err := d.sender.AppendHeaders(d.ctx, f.GetHeader(), f.GetData() == nil); err == nil && f.GetData() != nil {
				d.sender.AppendData(d.ctx, f.GetData(), true)
			}
		})
	}
	vrt.Quiesce()
	obs.wire, obs.wireErr = c02cParseAll(sp, down.Written())
}

func c02cJudgeServer(p *vreport.Part, sp *c02cSpec, c c02cCase, obs *c02cObs, r *vrt.Result, report func(kind, detail string)) {
	var sum []string
	for _, w := range obs.wire {
		sum = append(sum, fmt.Sprintf("%s:%d:%s/%s", w.kind, w.id, w.hdr, w.body))
	}
	p.Distinct(c.Name + "|" + strings.Join(sum, ";"))
	sorted := append([]string(nil), sum...)
	sort.Strings(sorted)
	p.Outcome(sp.name + ":" + strings.Join(sorted, ";"))
	if p.WantSample() {
		p.Sample(map[string]interface{}{"case": c.Name, "schedule": r.Choices, "written": sum})
	}
	if obs.wireErr != "" {
		report("bytes written downstream are not a sequence of well-formed frames", obs.wireErr)
		return
	}
	count := map[string]int{}
	hijacks := 0
	for i, w := range obs.wire {
		if w.kind != "resp" {
			report("server side: a frame that is no response was written downstream", fmt.Sprintf("frame %d: %+v", i+1, w))
			continue
		}
		if w.body == "" {
			// MOSN's own reply: no token; the statement asks only that it answers the request it was made for
			hijacks++
			if c.Hijack < 0 || w.id != obs.downIDs[c.Hijack] {
				report("server side: MOSN's own reply does not carry the id of the request it answers", fmt.Sprintf("frame %d carries id %d; downstream ids %v, answered request %d", i+1, w.id, obs.downIDs, c.Hijack))
			}
			continue
		}
		if w.hdr != w.body {
			report("server side: response header and body come from different exchanges", fmt.Sprintf("frame %d: id %d header token %q body token %q", i+1, w.id, w.hdr, w.body))
			continue
		}
		count[w.body]++
		k := c02cNum(w.body)
		if k >= len(obs.downIDs) || w.id != obs.downIDs[k] {
			report("server side: a response was written with the id of another request", fmt.Sprintf("frame %d: the response to request %s carries id %d; downstream ids %v", i+1, w.body, w.id, obs.downIDs))
		}
	}
	for k := 0; k < c.Senders; k++ {
		tok := fmt.Sprintf("t%d", k)
		switch {
		case k == c.Hijack:
			if count[tok] != 0 {
				report("server side: the same request was answered more than once", fmt.Sprintf("request %d was answered by MOSN itself and %d forwarded responses", k, count[tok]))
			}
		case count[tok] > 1:
			report("server side: the same request was answered more than once", fmt.Sprintf("%d frames for request %d", count[tok], k))
		case count[tok] == 0:
			report("server side: a response handed to the stream was never written", fmt.Sprintf("request %d: no frame with its token; written %v", k, sum))
		}
	}
	if hijacks > 1 {
		report("server side: the same request was answered more than once", fmt.Sprintf("%d replies of MOSN's own for one hijack", hijacks))
	}
	if c.Hijack >= 0 {
		if hijacks == 1 {
			p.Count("hijack_reply_written", 1)
		} else {
			p.Count("hijack_not_written ("+sp.name+": "+obs.hijack+")", 1)
		}
	}
}

// ---------------------------------------------------------------- running

func c02cRun(p *vreport.Part, c c02cCase, replay bool) bool {
	sp := c02cSpecOf(c.Codec)
	obs := &c02cObs{}
	opts := vrt.Options{Bound: c.Bound, Delay: true, MaxSteps: 100000, MaxExecs: vreport.Pick(20000, 200000), Deadline: time.Now().Add(20 * time.Minute)}
	if replay {
		opts.Replay = true
		opts.Prefix = c.Choices
	}
	st := vrt.Explore(opts, func() {
		*obs = c02cObs{injected: map[string]int{}}
		if c.Part == "server" {
			c02cServerBody(sp, &c, obs)
		} else {
			c02cClientBody(sp, &c, obs)
		}
	}, func(r *vrt.Result) {
		p.Eval()
		c02cJudge(p, sp, c, obs, r)
	})
	p.AddTraces(st.Executions)
	p.Count("executions_"+c.Codec, st.Executions)
	return st.Complete
}

// c02cPart runs one part: cases is the complete list (all shards); each case is explored up to its bound.
func c02cPart(part string, cases []c02cCase, bound, rule string) {
	p := vreport.Begin("C02", part, time.Hour)
	var rc c02cCase
	if vreport.Replaying() {
		if vreport.ReplayFor("C02", part, &rc) {
			c02cRun(p, rc, true)
			p.End(true, "replay", "replay of one recorded schedule")
		}
		return
	}
	si, sn := vreport.Shard()
	complete := true
	n := 0
	for i, c := range cases {
		if i%sn != si {
			continue
		}
		c.setName()
		if p.Expired() {
			complete = false
			break
		}
		if !c02cRun(p, c, false) {
			complete = false
			p.Count("cases_cut_by_execution_cap", 1)
		}
		n++
	}
	p.Note("cases", n)
	p.End(complete, fmt.Sprintf("%d cases (this shard of %d): %s", n, len(cases), bound), rule)
}

const c02cTokenRule = "tokens: bolt/boltv2 header 'token' + content; dubbo request method name + argument, response status byte + payload; tars request sFuncName + sBuffer, response iRet + sBuffer; dubbothrift method name + thrift argument (seq id constant). Frames are built and read back by the reference codecs of vref, decoded and encoded by the real codecs registered through RegisterXProtocolCodec. "

func TestVerifC02CodecsClient(t *testing.T) {
	var cases []c02cCase
	var per [][]c02cCase
	for _, sp := range c02cSpecs() {
		if sp.name == "bolt" {
			continue // unit stream-connection
		}
		per = append(per, c02cClientCases(sp))
	}
	// interleave the codecs so that the shards are balanced
	for i := 0; ; i++ {
		more := false
		for _, l := range per {
			if i < len(l) {
				more = true
				c := l[i]
				c.Bound = vreport.Pick(3, 4)
				if c.Senders == 3 {
					c.Bound = vreport.Pick(2, 3)
				}
				cases = append(cases, c)
			}
		}
		if !more {
			break
		}
	}
	c02cPart("codecs-client-correlation", cases,
		fmt.Sprintf("codecs boltv2, dubbo, tars, dubbothrift: 2-3 concurrent senders on one real client stream connection, every reply permutation; (2 senders%s) also unknown-id, aliased-id (in-flight id with bit 16/32 flipped), duplicate, heartbeat-request-with-in-flight-id (boltv2, dubbo) replies; local reset + late reply; id counter preset to 0 and 2^k-2 for k=32 (all), 31 (tars), 64 (dubbo, dubbothrift); all schedules with <=%d deviations (2 senders) / <=%d (3 senders), delay bounding",
			map[bool]string{true: " and 3 senders", false: "; 3 senders: around the reversed order only"}[vreport.Thorough()], vreport.Pick(3, 4), vreport.Pick(2, 3)),
		c02cTokenRule+"senders, reader and resetters are threads of the controlled scheduler; the downstream id of a request is the upstream id another sender gets; the reader answers with the id it read off the wire. dubbo/tars/dubbothrift codec packages are NOT instrumented (rewrite set c02 has only bolt, boltv2): their GenerateRequestID runs as one step. 'a request whose reply arrived was never answered' is judged as in unit stream-connection (the peer answered exactly the id MOSN wrote). distinct = distinct (case, deliveries per receiver)")
}

func TestVerifC02CodecsIDSweep(t *testing.T) {
	var cases []c02cCase
	for exp := 0; exp <= 64; exp++ {
		for _, sp := range c02cSpecs() {
			cases = append(cases, c02cCase{Part: "client", Codec: sp.name, Senders: 3, Exp: exp, Replies: c02cSweepScript(sp), Hijack: -1})
			cases = append(cases, c02cCase{Part: "client", Codec: sp.name, Senders: 2, Exp: exp, Resets: []int{0}, Replies: []string{"alias:t1", "late:t0", "t1", "dup:t1"}, Hijack: -1})
			cases = append(cases, c02cServerCases(sp, []int{exp}, false)...)
		}
	}
	c02cPart("codecs-id-sweep", cases,
		"all five codecs x id counter / downstream id base in {0, 2^k-2 : k=1..64} x {3 senders with one script holding every reply kind; 2 senders with reset + late reply; server side 2 and 3 requests, with and without a hijack reply}; default schedule only",
		c02cTokenRule+"one execution per case (no schedule exploration): crosses every width boundary of every id field. distinct = distinct (case, deliveries / frames written)")
}

func TestVerifC02CodecsServer(t *testing.T) {
	var cases []c02cCase
	for _, sp := range c02cSpecs() {
		for _, c := range c02cServerCases(sp, append([]int{0}, sp.wraps...), true) {
			c.Bound = vreport.Pick(3, 4)
			cases = append(cases, c)
		}
	}
	c02cPart("codecs-server-correlation", cases,
		fmt.Sprintf("all five codecs: one real server stream connection, 2-3 requests with consecutive downstream ids from {1, 2^k-1 at the codec's wrap points} arriving in one read; responder threads started in every order, one per request, each appends the response decoded from the upstream's bytes (upstream id = another request's downstream id); variant: the last-started responder sends MOSN's own (hijack) reply after the request frame was given an upstream id; all schedules with <=%d deviations", vreport.Pick(3, 4)),
		c02cTokenRule+"every frame written downstream is read back: a response with token k must carry request k's downstream id, header token == body token, once; a token-less response is MOSN's own reply and must carry the hijacked request's id (tars has no hijack reply: counted). distinct = distinct (case, frames written in order)")
}
