//go:build verif

package xprotocol

// C01 forwarding fidelity, seam (b) of the DESIGN entry: the xprotocol STREAM
// layer (stream.go, conn.go) between the codecs and the proxy.
//
// One evaluation = one exchange over two real stream connections on fake
// connections (vfake.Conn: records every Write call, returns written buffers to
// the pool as connection.doWriteIo does):
//
//	downstream bytes -> server streamConn.Dispatch -> NewStreamDetect/OnReceive
//	   (headers, data, trailers)                                  [request leg]
//	-> what the proxy does for a same-protocol forward (upstream.go appendHeaders /
//	   appendData with downStream.context): client streamConn.NewStream(ctx,
//	   receiver | nil for one-way) . AppendHeaders(ctx, headers, data==nil) .
//	   AppendData(ctx, data, true) -> bytes written upstream
//	   first try + two retries (a fresh client connection and a fresh client
//	   stream each, the SAME header and data objects, the previous attempt's
//	   stream reset as upstreamRequest.resetStream does)
//	upstream bytes (the peer answers with the id it got) -> client
//	   streamConn.Dispatch -> receiver.OnReceive(headers, data, trailers)
//	-> server stream . AppendHeaders / AppendData -> bytes written downstream
//	                                                              [response leg]
//
// The frame under test is the request (request / one-way cases; the response is
// a small standard frame) or the response (response cases; the request is a
// small standard frame). The read buffers are the model of vc01 (one IoBuffer
// per connection, drained by Dispatch); scribble=true lets the next read
// overwrite the place of the frame after Dispatch returned and before the
// frame is forwarded.
//
// Oracle: exactly one Write per forwarded frame, its bytes equal the reference
// encoding (vref) of the received frame carrying the id the client stream
// connection allocated (request leg) / the ORIGINAL downstream id (response
// leg); every retry produces the reference encoding with its own id and leaves
// the data buffer as it was; a one-way request is handed up without a sender
// and forwarded without registering a response expectation, a two-way one
// registers exactly one under the forwarded id and the response releases it; a
// heartbeat request is answered by the stream connection itself with one
// well-formed heartbeat response carrying its id and is never handed up, on
// server and client connections alike; nothing else is written on either side.

import (
	"bytes"
	"context"
	"fmt"
	"net"
	"reflect"
	"runtime/debug"
	"sort"
	"strings"
	"sync"
	"testing"
	"time"

	"mosn.io/api"
	xproto "mosn.io/mosn/pkg/protocol/xprotocol"
	"mosn.io/mosn/pkg/protocol/xprotocol/bolt"
	"mosn.io/mosn/pkg/protocol/xprotocol/boltv2"
	"mosn.io/mosn/pkg/protocol/xprotocol/dubbo"
	"mosn.io/mosn/pkg/protocol/xprotocol/dubbothrift"
	"mosn.io/mosn/pkg/protocol/xprotocol/tars"
	"mosn.io/mosn/pkg/types"
	"mosn.io/mosn/pkg/verifrt/vc01"
	"mosn.io/mosn/pkg/verifrt/vc01sl"
	"mosn.io/mosn/pkg/verifrt/vfake"
	"mosn.io/mosn/pkg/verifrt/vref"
	"mosn.io/mosn/pkg/verifrt/vreport"
	"mosn.io/pkg/buffer"
	"mosn.io/pkg/variable"
)

var c01slOnce sync.Once

func c01slInit() {
	c01slOnce.Do(func() {
		// what cmd/mosn/main/control.go does; the bolt<->boltv2 delegation needs the codec registry
		xproto.RegisterXProtocolAction(NewConnPool, NewStreamFactory, func(codec api.XProtocolCodec) {})
		for _, cd := range []api.XProtocolCodec{&bolt.XCodec{}, &boltv2.XCodec{}, &dubbo.XCodec{}, &dubbothrift.XCodec{}, &tars.XCodec{}} {
			_ = xproto.RegisterXProtocolCodec(cd) // "already registered" by another harness file of this binary is fine
		}
	})
}

// ---------------------------------------------------------------- environment

type c01slRecv struct {
	ctx      context.Context
	sender   types.StreamSender
	oneway   bool
	n        int
	headers  api.HeaderMap
	data     buffer.IoBuffer
	trailers api.HeaderMap
	decErr   string
}

func (d *c01slRecv) OnReceive(ctx context.Context, headers api.HeaderMap, data buffer.IoBuffer, trailers api.HeaderMap) {
	d.n++
	d.headers, d.data, d.trailers = headers, data, trailers
}
func (d *c01slRecv) OnDecodeError(ctx context.Context, err error, headers api.HeaderMap) {
	d.decErr = err.Error()
}

type c01slListener struct{ detects []*c01slRecv }

func (l *c01slListener) NewStreamDetect(ctx context.Context, sender types.StreamSender, span api.Span) types.StreamReceiveListener {
	d := &c01slRecv{ctx: ctx, sender: sender, oneway: sender == nil || reflect.ValueOf(sender).IsNil()}
	l.detects = append(l.detects, d)
	return d
}
func (l *c01slListener) OnGoAway() {}

type c01slClientCB struct{}

func (c01slClientCB) OnGoAway() {}

var c01slUpAddr = &net.TCPAddr{IP: net.IPv4(127, 0, 0, 1), Port: 21001}

// c01slBuf is vc01's model of a connection read buffer (the type is not
// exported there): one IoBuffer that Dispatch drains and that the next
// doRead -> ReadOnce refills from offset 0.
type c01slBuf struct {
	buf  api.IoBuffer
	back []byte
}

func c01slNewBuf(frame []byte) *c01slBuf {
	b := buffer.NewIoBufferBytes(make([]byte, 0, len(frame)+1))
	b.Write(frame)
	back := b.Bytes()
	return &c01slBuf{buf: b, back: back[:cap(back)]}
}

type c01slComplement struct{ dst []byte }

func (r *c01slComplement) Read(p []byte) (int, error) {
	if len(p) > 1 {
		p = p[:len(p)-1]
	}
	for i := range p {
		p[i] ^= 0xff
	}
	r.dst = p
	return len(p), nil
}

// refill: the peer's next bytes overwrite the place of the (already dispatched) frame.
func (r *c01slBuf) refill() {
	r.buf.Drain(r.buf.Len())
	cr := &c01slComplement{}
	r.buf.ReadOnce(cr)
	if len(cr.dst) == 0 || len(r.back) == 0 || &cr.dst[0] != &r.back[0] {
		for i := range r.back {
			r.back[i] ^= 0xff
		}
	}
}

func c01slGuard(f func()) (pan string) {
	defer func() {
		if r := recover(); r != nil {
			s := debug.Stack()
			if len(s) > 1200 {
				s = s[:1200]
			}
			pan = fmt.Sprintf("%v\n%s", r, s)
		}
	}()
	f()
	return ""
}

type c01slView struct {
	hdr  []vref.KV
	body []byte
	nil_ bool
}

func c01slViewOf(h api.HeaderMap, d buffer.IoBuffer) c01slView {
	var v c01slView
	if h != nil {
		h.Range(func(k, val string) bool {
			v.hdr = append(v.hdr, vref.KV{K: []byte(strings.Clone(k)), V: []byte(strings.Clone(val))})
			return true
		})
		v.hdr = vref.SortedKVs(v.hdr)
	}
	if d == nil {
		v.nil_ = true
	} else {
		v.body = append([]byte{}, d.Bytes()...)
	}
	return v
}

func c01slViewDiff(a, b c01slView) string {
	if !vref.EqualKVs(a.hdr, b.hdr) {
		return fmt.Sprintf("headers: before %s, after %s", vref.DescribeKVs(a.hdr), vref.DescribeKVs(b.hdr))
	}
	if a.nil_ != b.nil_ || !bytes.Equal(a.body, b.body) {
		return "data: " + vref.FirstDiff(a.body, b.body)
	}
	return ""
}

// ---------------------------------------------------------------- one exchange

type c01slCodec struct {
	sp    *vc01sl.Spec
	codec api.XProtocolCodec
}

type c01slExchange struct {
	cd       *c01slCodec
	c        vc01.Case
	req      func(id uint64) []byte
	resp     func(id uint64) []byte
	reqDir   string
	respDir  string
	reqCase  bool // the request is the frame under test (else the response)
	downID   uint64
	upID     uint64
	oneway   bool
	scribble bool
	mod      string // "" | body-<n> | add-key: applied to the frame under test between receive and forward
}

// c01slMod is a modification a stream filter makes between receive and forward:
// a replaced data buffer (another object: handler.SetRequestData) or one more
// header pair (HeaderMap.Set).
type c01slMod struct {
	grp  string
	data buffer.IoBuffer
	want func(id uint64) []byte // reference frame carrying the modification (nil: the codec has no encoder for it)
	orig func(id uint64) []byte
}

func (x *c01slExchange) applyMod(h api.HeaderMap, firstID uint64) (m *c01slMod, pan string) {
	sp := x.cd.sp
	m = &c01slMod{orig: func(id uint64) []byte { return sp.Frame(x.c, id) }}
	if x.mod == "add-key" {
		m.grp = "headers"
		if sp.AddHeader != nil {
			m.want = func(id uint64) []byte { return sp.AddHeader(x.c, id, vc01sl.ModKey, vc01sl.ModVal) }
		}
		return m, c01slGuard(func() { h.Set(vc01sl.ModKey, vc01sl.ModVal) })
	}
	var n int
	if _, err := fmt.Sscanf(x.mod, "body-%d", &n); err != nil {
		panic("c01sl: unknown modification " + x.mod)
	}
	m.grp = "body"
	data, _ := sp.ModBody(x.c, firstID, n)
	m.data = buffer.NewIoBufferBytes(append([]byte{}, data...))
	m.want = func(id uint64) []byte { _, f := sp.ModBody(x.c, id, n); return f }
	return m, ""
}

// judge decides about the Write calls of one forward of the modified frame.
// res "" = carries the modification; stop: nothing more to check in this exchange.
func (m *c01slMod) judge(x *c01slExchange, rep string, id uint64, writes [][]byte) (res, detail string, stop bool) {
	sp := x.cd.sp
	what := "modify=" + m.grp + " " + rep
	switch {
	case len(writes) == 0:
		// Encode refused, the stream was reset: "or is refused with an error"
		if sp.MustAccept && m.want != nil {
			return what + "representable-modification-refused", "the modified frame fits the wire format, yet nothing was written (Encode refused it)", true
		}
		return "", "", true
	case len(writes) > 1:
		return what + "forwarded-frame-written-more-than-once", fmt.Sprintf("%d Write calls for one frame", len(writes)), true
	}
	got := writes[0]
	switch {
	case m.want != nil && sp.Same(x.c, m.want(id), got):
		return "", "", false
	case sp.Same(x.c, m.orig(id), got):
		return what + "re-encoded-frame-does-not-carry-the-modified-content", fmt.Sprintf("mod %s: the frame written is the frame as received (id %d): the modification was silently ignored", x.mod, id), true
	case m.want == nil:
		return "", "", true
	}
	return what + "re-encoded-frame-differs-from-the-modified-content", fmt.Sprintf("mod %s, id %d: %s", x.mod, id, vref.FirstDiff(m.want(id), got)), true
}

type c01slResult struct {
	res     string // "ok" or the failing class
	dir     string
	detail  string
	harness string
}

const c01slViewChanged = "decoded-content-changes-when-read-buffer-is-reused"

func (x *c01slExchange) classify(onCase, reqLeg bool, frame func(uint64) []byte, other uint64, want, got []byte) string {
	if onCase && x.cd.sp.DiffClass != nil {
		if cl := x.cd.sp.DiffClass(x.c, want, got); cl != "" {
			return cl
		}
	}
	o := frame(other)
	same := bytes.Equal(got, o)
	if !same && onCase && x.cd.sp.DiffClass != nil && x.cd.sp.Unstable != "" {
		// the other id's frame up to the encoder's run-to-run difference (must not shape the key)
		same = x.cd.sp.DiffClass(x.c, o, got) == x.cd.sp.Unstable
	}
	if same && !bytes.Equal(want, o) {
		if reqLeg {
			return "forwarded-request-carries-the-downstream-request-id"
		}
		return "forwarded-response-carries-the-upstream-request-id"
	}
	if len(want) != len(got) {
		return "forwarded-frame-length-differs"
	}
	return "forwarded-frame-bytes-differ"
}

type c01slData struct {
	buf  buffer.IoBuffer
	n    int
	copy []byte
}

func c01slSnap(b buffer.IoBuffer) c01slData {
	d := c01slData{buf: b}
	if b != nil {
		d.n, d.copy = b.Len(), append([]byte{}, b.Bytes()...)
	}
	return d
}

func (d c01slData) intact(carriesID bool) string {
	if d.buf == nil {
		return ""
	}
	if d.buf.Len() != d.n {
		return fmt.Sprintf("the data buffer handed to AppendData read %d bytes before and reads %d bytes after the frame was written", d.n, d.buf.Len())
	}
	if !carriesID && !bytes.Equal(d.buf.Bytes(), d.copy) {
		return "the data buffer handed to AppendData reads other bytes after the frame was written: " + vref.FirstDiff(d.copy, d.buf.Bytes())
	}
	return ""
}

func (x *c01slExchange) run() c01slResult {
	sp := x.cd.sp
	factory := NewStreamFactory(x.cd.codec)
	fail := func(dir, res, format string, args ...interface{}) c01slResult {
		return c01slResult{res: res, dir: dir, detail: fmt.Sprintf(format, args...)}
	}
	// ---- request leg: downstream -> server stream connection
	sctx := variable.NewVariableContext(context.Background())
	if sp.Listener != nil {
		if name := sp.Listener(x.c); name != "" {
			_ = variable.Set(sctx, types.VariableListenerName, name)
		}
	}
	lis := &c01slListener{}
	down := vfake.NewServerSide("down")
	S := factory.CreateServerStream(sctx, down, lis).(*streamConn)
	in := x.req(x.downID)
	rb := c01slNewBuf(in)
	if pan := c01slGuard(func() { S.Dispatch(rb.buf) }); pan != "" {
		return fail(x.reqDir, "dispatch-panics", "server streamConn.Dispatch of a well-formed %d-byte frame panicked: %s", len(in), pan)
	}
	if len(lis.detects) == 0 || lis.detects[0].n == 0 {
		switch {
		case down.IsClosed() || (len(lis.detects) == 1 && lis.detects[0].decErr != ""):
			return fail(x.reqDir, "decode-refuses-well-formed-frame", "Dispatch of a %d-byte well-formed frame: decode error, connection closed=%v; frame starts %x", len(in), down.IsClosed(), in[:c01slMin(len(in), 32)])
		case rb.buf.Len() != 0:
			return fail(x.reqDir, "complete-frame-not-extracted", "Dispatch of a complete %d-byte frame leaves %d bytes in the read buffer and hands nothing up", len(in), rb.buf.Len())
		}
		return fail(x.reqDir, "request-not-handed-to-receiver", "Dispatch consumed the %d-byte request; NewStreamDetect calls %d, OnReceive calls 0, writes downstream %d", len(in), len(lis.detects), len(down.Writes))
	}
	d := lis.detects[0]
	if len(lis.detects) > 1 || d.n > 1 {
		return fail(x.reqDir, "request-handed-to-receiver-more-than-once", "one request frame: NewStreamDetect calls %d, OnReceive calls %d", len(lis.detects), d.n)
	}
	if rb.buf.Len() != 0 {
		return fail(x.reqDir, "decode-consumes-wrong-length", "frame of %d bytes: after Dispatch %d bytes remain in the read buffer", len(in), rb.buf.Len())
	}
	if d.oneway != x.oneway {
		if x.oneway {
			return fail(x.reqDir, "one-way-request-handed-up-with-a-response-sender", "NewStreamDetect got a non-nil sender for a one-way request")
		}
		return fail(x.reqDir, "two-way-request-handed-up-without-a-response-sender", "NewStreamDetect got a nil sender for a two-way request")
	}
	if len(down.Writes) != 0 {
		return fail(x.reqDir, "bytes-written-downstream-before-the-response", "%d Write calls on the downstream connection while the request was dispatched", len(down.Writes))
	}
	if x.scribble {
		before := c01slViewOf(d.headers, d.data)
		rb.refill()
		if df := c01slViewDiff(before, c01slViewOf(d.headers, d.data)); df != "" {
			return fail(x.reqDir, c01slViewChanged, "headers/data handed to the receiver (Range, Bytes) before and after the downstream connection's read buffer was refilled by the next read differ: %s", df)
		}
	}
	// ---- forward: first try + two retries
	ids := []uint64{x.upID, x.downID, x.upID}
	var mod *c01slMod
	if x.mod != "" && x.reqCase {
		var pan string
		if mod, pan = x.applyMod(d.headers, x.upID); pan != "" {
			return fail(x.reqDir, "modify="+mod.grp+" panics", "modifying the received frame through its HeaderMap panicked: %s", pan)
		}
		if mod.data != nil {
			d.data = mod.data
		}
	}
	reqData := c01slSnap(d.data)
	var (
		U    *streamConn
		up   *vfake.Conn
		cs   types.StreamSender
		recv *c01slRecv
	)
	for t, id := range ids {
		again := ""
		if t > 0 {
			again = "repeated-forward-of-same-frame-"
		}
		up = vfake.NewClientSide("up", c01slUpAddr)
		U = factory.CreateClientStream(variable.NewVariableContext(context.Background()), up, c01slClientCB{}, nil).(*streamConn)
		U.clientStreamIDBase = id - 1
		recv = &c01slRecv{}
		var rl types.StreamReceiveListener
		if !d.oneway {
			rl = recv
		}
		var aerr error
		pan := c01slGuard(func() {
			cs = U.NewStream(d.ctx, rl)
			aerr = cs.AppendHeaders(d.ctx, d.headers, d.data == nil && d.trailers == nil)
			if aerr != nil {
				return
			}
			if d.data != nil {
				aerr = cs.AppendData(d.ctx, d.data, d.trailers == nil)
			}
			if aerr == nil && d.trailers != nil {
				aerr = cs.AppendTrailers(d.ctx, d.trailers)
			}
		})
		if pan != "" {
			return fail(x.reqDir, again+"forward-panics", "attempt %d: NewStream/AppendHeaders/AppendData on the client stream connection panicked: %s", t+1, pan)
		}
		if aerr != nil {
			return fail(x.reqDir, again+"encode-refuses-unmodified-frame", "attempt %d: AppendHeaders/AppendData returned %v", t+1, aerr)
		}
		sid := cs.GetStream().ID()
		want := x.req(sid)
		if !bytes.Equal(want, x.req(id)) {
			return c01slResult{harness: fmt.Sprintf("client stream id preset failed: wanted the id of %d, the connection allocated %d (%+v)", id, sid, x.c)}
		}
		if mod != nil {
			rep := ""
			if t > 0 {
				rep = "repeated-encode-of-same-frame "
			}
			res, detail, stop := mod.judge(x, rep, sid, up.Writes)
			if res != "" {
				return fail(x.reqDir, res, "attempt %d: %s", t+1, detail)
			}
			if stop {
				return c01slResult{res: "ok", dir: "refused-or-not-compared"}
			}
			want = up.Writes[0]
		}
		switch {
		case len(up.Writes) == 0:
			return fail(x.reqDir, again+"request-not-forwarded", "attempt %d: AppendHeaders/AppendData returned, nothing was written upstream (connection closed=%v)", t+1, up.IsClosed())
		case len(up.Writes) > 1:
			return fail(x.reqDir, again+"forwarded-frame-written-more-than-once", "attempt %d: %d Write calls upstream for one request (%d, %d, … bytes)", t+1, len(up.Writes), len(up.Writes[0]), len(up.Writes[1]))
		}
		if got := up.Writes[0]; !bytes.Equal(got, want) {
			cl := x.classify(x.reqCase, true, x.req, x.downID, want, got)
			if cl != sp.Unstable || sp.Unstable == "" {
				cl = again + cl
			}
			return fail(x.reqDir, cl, "attempt %d: expected the received frame with only the request id replaced by %d (allocated by the client stream connection; downstream id %d): %s", t+1, sid, x.downID, vref.FirstDiff(want, got))
		}
		if why := reqData.intact(sp.DataCarriesID); why != "" {
			return fail(x.reqDir, "forward-consumes-its-data-buffer", "attempt %d: %s", t+1, why)
		}
		U.clientMutex.RLock()
		n := len(U.clientStreams)
		_, has := U.clientStreams[sid]
		U.clientMutex.RUnlock()
		if d.oneway && n != 0 {
			return fail(x.reqDir, "one-way-request-registers-a-response-expectation", "attempt %d: %d client streams registered after a one-way request was forwarded", t+1, n)
		}
		if !d.oneway && !(n == 1 && has) {
			return fail(x.reqDir, "response-expectation-not-registered-under-the-forwarded-id", "attempt %d: forwarded id %d, %d client streams registered, registered under that id: %v", t+1, sid, n, has)
		}
		if len(down.Writes) != 0 {
			return fail(x.reqDir, "bytes-written-downstream-before-the-response", "%d Write calls on the downstream connection while the request was forwarded", len(down.Writes))
		}
		if t < len(ids)-1 {
			// the proxy resets the stream of a failed attempt before it retries
			if pan := c01slGuard(func() { cs.GetStream().ResetStream(types.StreamLocalReset) }); pan != "" {
				return c01slResult{harness: "ResetStream of a client stream panicked: " + pan}
			}
		}
	}
	if d.oneway {
		return c01slResult{res: "ok"}
	}
	// ---- response leg: the upstream answers the last attempt with the id it got
	sid := cs.GetStream().ID()
	rin := x.resp(sid)
	rb2 := c01slNewBuf(rin)
	if pan := c01slGuard(func() { U.Dispatch(rb2.buf) }); pan != "" {
		return fail(x.respDir, "dispatch-panics", "client streamConn.Dispatch of a well-formed %d-byte frame panicked: %s", len(rin), pan)
	}
	if recv.n == 0 {
		switch {
		case up.IsClosed() || recv.decErr != "":
			return fail(x.respDir, "decode-refuses-well-formed-frame", "Dispatch of a %d-byte well-formed frame: decode error, connection closed=%v; frame starts %x", len(rin), up.IsClosed(), rin[:c01slMin(len(rin), 32)])
		case rb2.buf.Len() != 0:
			return fail(x.respDir, "complete-frame-not-extracted", "Dispatch of a complete %d-byte frame leaves %d bytes in the read buffer and hands nothing up", len(rin), rb2.buf.Len())
		}
		return fail(x.respDir, "response-not-handed-to-receiver", "the upstream answered request id %d with a %d-byte response carrying that id: OnReceive calls 0", sid, len(rin))
	}
	if recv.n > 1 {
		return fail(x.respDir, "response-handed-to-receiver-more-than-once", "OnReceive calls %d for one response frame", recv.n)
	}
	if rb2.buf.Len() != 0 {
		return fail(x.respDir, "decode-consumes-wrong-length", "frame of %d bytes: after Dispatch %d bytes remain in the read buffer", len(rin), rb2.buf.Len())
	}
	if len(up.Writes) != 1 {
		return fail(x.respDir, "bytes-written-upstream-on-a-response", "%d Write calls on the upstream connection after the response was dispatched (1 = the request)", len(up.Writes))
	}
	U.clientMutex.RLock()
	n := len(U.clientStreams)
	U.clientMutex.RUnlock()
	if n != 0 {
		return fail(x.respDir, "response-expectation-not-released", "%d client streams still registered after the response was handed up", n)
	}
	if x.scribble {
		before := c01slViewOf(recv.headers, recv.data)
		rb2.refill()
		if df := c01slViewDiff(before, c01slViewOf(recv.headers, recv.data)); df != "" {
			return fail(x.respDir, c01slViewChanged, "headers/data handed to the receiver (Range, Bytes) before and after the upstream connection's read buffer was refilled by the next read differ: %s", df)
		}
	}
	if x.mod != "" && !x.reqCase {
		var pan string
		if mod, pan = x.applyMod(recv.headers, x.downID); pan != "" {
			return fail(x.respDir, "modify="+mod.grp+" panics", "modifying the received frame through its HeaderMap panicked: %s", pan)
		}
		if mod.data != nil {
			recv.data = mod.data
		}
	}
	respData := c01slSnap(recv.data)
	var aerr error
	pan := c01slGuard(func() {
		aerr = d.sender.AppendHeaders(d.ctx, recv.headers, recv.data == nil && recv.trailers == nil)
		if aerr != nil {
			return
		}
		if recv.data != nil {
			aerr = d.sender.AppendData(d.ctx, recv.data, recv.trailers == nil)
		}
		if aerr == nil && recv.trailers != nil {
			aerr = d.sender.AppendTrailers(d.ctx, recv.trailers)
		}
	})
	if pan != "" {
		return fail(x.respDir, "forward-panics", "AppendHeaders/AppendData on the server stream panicked: %s", pan)
	}
	if aerr != nil {
		return fail(x.respDir, "encode-refuses-unmodified-frame", "AppendHeaders/AppendData on the server stream returned %v", aerr)
	}
	want := x.resp(x.downID)
	if mod != nil && !x.reqCase {
		res, detail, stop := mod.judge(x, "", x.downID, down.Writes)
		if res != "" {
			return fail(x.respDir, res, "%s", detail)
		}
		if stop {
			return c01slResult{res: "ok", dir: "refused-or-not-compared"}
		}
		want = down.Writes[0]
	}
	switch {
	case len(down.Writes) == 0:
		return fail(x.respDir, "response-not-forwarded", "AppendHeaders/AppendData returned, nothing was written downstream (connection closed=%v)", down.IsClosed())
	case len(down.Writes) > 1:
		return fail(x.respDir, "forwarded-frame-written-more-than-once", "%d Write calls downstream for one response", len(down.Writes))
	}
	if got := down.Writes[0]; !bytes.Equal(got, want) {
		cl := x.classify(!x.reqCase, false, x.resp, sid, want, got)
		return fail(x.respDir, cl, "expected the received response with only the request id replaced by the downstream's %d (the upstream answered with %d): %s", x.downID, sid, vref.FirstDiff(want, got))
	}
	if why := respData.intact(sp.DataCarriesID); why != "" {
		return fail(x.respDir, "forward-consumes-its-data-buffer", "response: %s", why)
	}
	if len(up.Writes) != 1 {
		return fail(x.respDir, "bytes-written-upstream-on-a-response", "%d Write calls on the upstream connection after the response was forwarded", len(up.Writes))
	}
	return c01slResult{res: "ok"}
}

func c01slMin(a, b int) int {
	if a < b {
		return a
	}
	return b
}

// heartbeat: the frame is a heartbeat request; a server and a client stream
// connection must both answer it themselves.
func (x *c01slExchange) heartbeat() c01slResult {
	sp := x.cd.sp
	factory := NewStreamFactory(x.cd.codec)
	fail := func(res, format string, args ...interface{}) c01slResult {
		return c01slResult{res: res, dir: x.reqDir, detail: fmt.Sprintf(format, args...)}
	}
	in := x.req(x.downID)
	for _, side := range []string{"server", "client"} {
		conn := vfake.NewServerSide("down")
		lis := &c01slListener{}
		pending := &c01slRecv{}
		var sc *streamConn
		if side == "server" {
			sc = factory.CreateServerStream(variable.NewVariableContext(context.Background()), conn, lis).(*streamConn)
		} else {
			conn = vfake.NewClientSide("up", c01slUpAddr)
			sc = factory.CreateClientStream(variable.NewVariableContext(context.Background()), conn, c01slClientCB{}, nil).(*streamConn)
			// an open request that happens to carry the heartbeat's id
			sc.clientStreamIDBase = x.downID - 1
			sctx := variable.NewVariableContext(buffer.NewBufferPoolContext(context.Background()))
			sc.NewStream(sctx, pending)
		}
		rb := c01slNewBuf(in)
		if pan := c01slGuard(func() { sc.Dispatch(rb.buf) }); pan != "" {
			return fail("dispatch-panics", "%s streamConn.Dispatch of a heartbeat panicked: %s", side, pan)
		}
		if len(lis.detects) != 0 || pending.n != 0 {
			return fail("heartbeat-handed-to-receiver", "%s side: NewStreamDetect calls %d, OnReceive calls on an open request with the same id %d", side, len(lis.detects), pending.n)
		}
		switch {
		case conn.IsClosed():
			return fail("decode-refuses-well-formed-frame", "%s side: connection closed on a %d-byte heartbeat; frame starts %x", side, len(in), in[:c01slMin(len(in), 32)])
		case len(conn.Writes) == 0:
			return fail("heartbeat-not-answered", "%s side: nothing written after a heartbeat request (buffer left %d)", side, rb.buf.Len())
		case len(conn.Writes) > 1:
			return fail("heartbeat-answered-more-than-once", "%s side: %d Write calls", side, len(conn.Writes))
		}
		if why := sp.CheckAck(x.c, conn.Writes[0]); why != "" {
			return fail("heartbeat-answer-malformed", "%s side: %s (%x)", side, why, conn.Writes[0][:c01slMin(len(conn.Writes[0]), 40)])
		}
		if rb.buf.Len() != 0 {
			return fail("decode-consumes-wrong-length", "%s side: heartbeat of %d bytes: after Dispatch %d bytes remain", side, len(in), rb.buf.Len())
		}
		if side == "client" && sc.ActiveStreamsNum() != 1 {
			return fail("heartbeat-releases-a-response-expectation", "client side: %d client streams registered after the heartbeat, 1 before", sc.ActiveStreamsNum())
		}
	}
	return c01slResult{res: "ok"}
}

// ---------------------------------------------------------------- the part

func c01slKey(sp *vc01sl.Spec, c vc01.Case, dir, what string) string {
	if c.Mode != "" {
		return fmt.Sprintf("codec=%s mode=%s dir=%s %s", sp.Name, c.Mode, dir, what)
	}
	return fmt.Sprintf("codec=%s dir=%s %s", sp.Name, dir, what)
}

func c01slExchangeOf(cd *c01slCodec, c vc01.Case, role string) *c01slExchange {
	sp := cd.sp
	x := &c01slExchange{cd: cd, c: c, scribble: c.Scribble, mod: c.Mod}
	caseFrame := func(id uint64) []byte { return sp.Frame(c, id) }
	if role == vc01sl.Response {
		x.req = func(id uint64) []byte { return sp.Std(false, id) }
		x.resp = caseFrame
		x.reqDir, x.respDir = "request", c.Dir
		x.downID, x.upID = c.NewID, c.ID
	} else {
		x.req = caseFrame
		x.resp = func(id uint64) []byte { return sp.Std(true, id) }
		x.reqDir, x.respDir, x.reqCase = c.Dir, "response", true
		x.downID, x.upID = c.ID, c.NewID
		x.oneway = role == vc01sl.Oneway
	}
	return x
}

func c01slCheck(p *vreport.Part, cd *c01slCodec, c vc01.Case) {
	sp := cd.sp
	p.Distinct(fmt.Sprintf("%s|%s|%s|%d|%s|%d|%d|%d|%d|%s|%d|%s|%s", c.Codec, c.Dir, c.Kind, c.Class, c.Hdr, c.Body, c.Seed, c.ID, c.NewID, c.Field, c.Val, c.Mode, c.Mod))
	if sp.Skip != nil {
		if why := sp.Skip(c); why != "" {
			p.Outcome("not-compared:" + why)
			p.Count("not_compared_"+why, 1)
			return
		}
	}
	if p.WantSample() {
		p.Sample(c)
	}
	role := sp.Role(c)
	p.Count("role_"+role, 1)
	x := c01slExchangeOf(cd, c, role)
	once := func(scribble bool) c01slResult {
		x.scribble = scribble
		if role == vc01sl.Heartbeat {
			return x.heartbeat()
		}
		return x.run()
	}
	tries := 1
	if sp.Tries != nil && !c.Scribble {
		tries = sp.Tries(c)
	}
	var r c01slResult
	for t := 0; t < tries; t++ {
		r = once(c.Scribble)
		if r.harness != "" || r.res != "ok" {
			break
		}
	}
	if r.harness != "" {
		vreport.HarnessError(p.Prop, p.Name, r.harness)
		return
	}
	switch {
	case r.res == "ok" && c.Mod != "":
		if r.dir != "" {
			p.Outcome("modified:" + r.dir)
			p.Count("modified_"+r.dir, 1)
		} else {
			p.Outcome("modified:carried-by-the-forwarded-frame")
		}
	case r.res == "ok":
		p.Outcome(role + ":forwarded-identical")
	case c.Scribble && r.res == c01slViewChanged:
		p.Outcome("view-changed-by-buffer-reuse")
		p.Violation(c01slKey(sp, c, r.dir, r.res), r.detail, c)
	case c.Scribble && sp.Unstable != "" && r.res == sp.Unstable:
		// the encoder's run-to-run difference: reported (by repetition) by the twin
		p.Outcome("differs-anyway")
	case c.Scribble:
		// does the same exchange go through when the read buffers are left alone?
		r0 := once(false)
		if r0.harness != "" {
			vreport.HarnessError(p.Prop, p.Name, r0.harness)
			return
		}
		if sp.Unstable != "" && r0.res == sp.Unstable {
			// the encoder's run-to-run difference hides what the reuse did
			p.Outcome("not-compared:unstable-encoder")
			p.Count("not_compared_unstable_encoder", 1)
		} else if r0.res == "ok" {
			p.Outcome("changed-by-buffer-reuse")
			p.Violation(c01slKey(sp, c, r.dir, "forwarded-frame-changes-when-read-buffer-is-reused"),
				"the connection's read buffer was refilled by the next read after Dispatch handed the frame up and before it was forwarded; with the buffer left alone the exchange is right. "+r.res+": "+r.detail, c)
		} else {
			p.Outcome("differs-anyway")
		}
	default:
		p.Outcome(r.res)
		p.Violation(c01slKey(sp, c, r.dir, r.res), r.detail, c)
	}
}

const c01slRule = "one case = one exchange: the reference frame (vref) is dispatched by a real server stream connection, the (headers, data, trailers) its receiver gets are handed - as pkg/proxy does for a same-protocol forward - to a stream of a real client stream connection whose id counter is preset so that it allocates the case's new id (first try + two retries on fresh connections/streams with the same objects: ids new, old, new; the earlier stream reset); the peer's answer carrying the allocated id goes through client Dispatch -> receiver -> server stream AppendHeaders/AppendData. Request/one-way cases: the request is the case frame, the response a small standard frame; response cases: the request is a small standard frame with the case's new id, the client counter preset to the case's id, the response is the case frame. Compared byte for byte with the reference encoding carrying the allocated id (upstream) / the original downstream id (downstream); exactly one Write per frame and direction; data buffers unchanged after each forward; one-way: no sender handed up, no client stream registered; two-way: one registered under the forwarded id, released by the response; heartbeat requests (bolt cmdcode 0, dubbo event): answered locally by server AND client stream connection with one well-formed heartbeat response carrying the id, never handed up. scribble=true: after each Dispatch the read buffer is refilled (every byte complemented) before the frame is forwarded; header/data view compared before/after. tars frames with >= 2 map entries are repeated up to 256 times (4 above 4 KiB). A dubbo request without the two-way flag is a two-way request for the codec (no one-way stream type): handled as request. Dubbo requests with a serialization id other than hessian2: enumerated, not compared. distinct = distinct (dir,kind,lengths,shape,ids,field,value,mode)"

func c01slPart(t *testing.T, name string, cd *c01slCodec) {
	c01slInit()
	c01slRunPart(name, cd, cd.sp.Cases, cd.sp.Bound+" x {read buffers left alone, refilled by the next read}", c01slRule)
	c01slRunPart(name+"-modify", cd, cd.sp.ModCases,
		"dirs of the codec x class-like length {1,256 (tars 100)} x 2-3 small header/map shapes x body {0,1,256,65536 | thorough: all} x modifications "+fmt.Sprint(vc01sl.ModNames)+" x {read buffers left alone, refilled by the next read}",
		c01slModRule)
}

const c01slModRule = "as the fidelity part, but between receive and forward the frame under test is modified the way a stream filter does: body-<n> = a NEW data buffer object with n content bytes is handed to AppendData instead of the received one (handler.SetRequestData/SetResponseData); add-key = one more pair through HeaderMap.Set on the received headers. Request cases modify the request (first try + two retries with the same replaced objects), response cases the response. The frame written must be, for the reference parser, exactly the reference frame carrying the modification and the forwarded id (header/map order ignored), or nothing is written (Encode refused; bolt/boltv2 may not refuse what fits the wire format); a frame equal to the unmodified one = modification silently ignored. add-key on dubbo/dubbothrift/tars (header maps are views without an encoder): only 'silently ignored' is decided. scribble twin: the read buffer is refilled before the modification"

func c01slRunPart(name string, cd *c01slCodec, cases func(yield func(vc01.Case) bool), bound, rule string) {
	p := vreport.Begin("C01", "streamlayer-"+name, time.Duration(vreport.Pick(120, 1500))*time.Second)
	si, sn := vreport.Shard()
	idx := 0
	complete := vreport.Run(p,
		func(yield func(vc01.Case) bool) {
			cases(func(c vc01.Case) bool {
				// twins stay in one shard
				k := idx / 2
				idx++
				if sn > 1 && k%sn != si {
					return true
				}
				return yield(c)
			})
		},
		func(p *vreport.Part, c vc01.Case) { c01slCheck(p, cd, c) })
	p.End(complete, bound, rule)
}

func TestVerifC01StreamLayerBolt(t *testing.T) {
	c01slPart(t, "bolt", &c01slCodec{sp: vc01sl.Bolt(false), codec: &bolt.XCodec{}})
}

func TestVerifC01StreamLayerBoltv2(t *testing.T) {
	c01slPart(t, "boltv2", &c01slCodec{sp: vc01sl.Bolt(true), codec: &boltv2.XCodec{}})
}

func TestVerifC01StreamLayerDubbo(t *testing.T) {
	c01slPart(t, "dubbo", &c01slCodec{sp: vc01sl.Dubbo(), codec: &dubbo.XCodec{}})
}

func TestVerifC01StreamLayerDubboThrift(t *testing.T) {
	c01slPart(t, "dubbothrift", &c01slCodec{sp: vc01sl.DubboThrift(), codec: &dubbothrift.XCodec{}})
}

func TestVerifC01StreamLayerTars(t *testing.T) {
	c01slPart(t, "tars", &c01slCodec{sp: vc01sl.Tars(), codec: &tars.XCodec{}})
}

var _ = sort.Strings
