//go:build verif

package xprotocol

// C07 part 2: protocol matchers and automatic protocol detection on every
// prefix of every stream.
//
// For each stream (1-2 frames of every xprotocol alphabet, HTTP/1 requests,
// HTTP/2 preface + frames) and each prefix length n = 1..L the harness asks
//   - every registered stream factory's ProtocolMatch (the seven protocols
//     cmd/mosn registers: Http1, Http2, bolt, boltv2, dubbo, dubbo-thrift, tars),
//   - each xprotocol codec's raw api.ProtocolMatch function,
//   - stream.SelectStreamFactoryProtocol with scopes nil (Auto) and explicit lists.
// Protocol detection in proxy.OnData is stateless: it calls
// SelectStreamFactoryProtocol on the whole read buffer after every read until
// the answer is not EAGAIN. So "for every prefix the answer is EAGAIN or the
// whole-stream answer" is equivalent to "every segmentation detects the same
// protocol" (the pkg/proxy unit additionally drives the real proxy.OnData).

import (
	"fmt"
	"sort"
	"testing"
	"time"

	"mosn.io/api"
	"mosn.io/mosn/pkg/protocol"
	"mosn.io/mosn/pkg/stream"
	"mosn.io/mosn/pkg/verifrt/c07frames"
	"mosn.io/mosn/pkg/verifrt/vreport"
)

func c07MatchName(err error) string {
	switch err {
	case nil:
		return "Success"
	case stream.EAGAIN:
		return "Again"
	case stream.FAILED:
		return "Failed"
	}
	return "other:" + err.Error()
}

func c07RawMatchName(r api.MatchResult) string {
	switch r {
	case api.MatchSuccess:
		return "Success"
	case api.MatchAgain:
		return "Again"
	case api.MatchFailed:
		return "Failed"
	}
	return fmt.Sprintf("other:%v", r)
}

type c07MCase struct {
	Own    string `json:"own"`
	Stream string `json:"stream"`
	Hex    string `json:"hex"`
	Prefix int    `json:"prefix"`
}

func TestVerifC07Matchers(t *testing.T) {
	c07Validate(t)
	p := vreport.Begin("C07", "matchers-autodetect", 5*time.Minute)
	streams := c07frames.MatcherStreams()
	var names []api.ProtocolName
	protocol.RangeAllRegisteredProtocol(func(n api.ProtocolName) { names = append(names, n) })
	sort.Slice(names, func(i, j int) bool { return names[i] < names[j] })
	rev := make([]api.ProtocolName, len(names))
	for i, n := range names {
		rev[len(names)-1-i] = n
	}
	p.Note("registered_protocols", fmt.Sprint(names))
	if len(names) != 7 {
		vreport.HarnessError("C07", "matchers-autodetect", fmt.Sprintf("expected the 7 protocols cmd/mosn registers, got %v", names))
	}
	ctx := c07frames.Ctx()
	match := func(n api.ProtocolName, b []byte) (res string) {
		defer func() {
			if x := recover(); x != nil {
				res = fmt.Sprintf("panic:%v", x)
			}
		}()
		f, _ := protocol.GetProtocolStreamFactory(n)
		return c07MatchName(f.ProtocolMatch(ctx, "", b))
	}
	sel := func(b []byte, scopes []api.ProtocolName) (res string) {
		defer func() {
			if x := recover(); x != nil {
				res = fmt.Sprintf("panic:%v", x)
			}
		}()
		n, err := stream.SelectStreamFactoryProtocol(ctx, "", b, scopes)
		if err == nil {
			return string(n)
		}
		return c07MatchName(err)
	}
	type wholeInfo struct {
		match map[api.ProtocolName]string
		raw   map[api.ProtocolName]string
	}
	byName := map[string]*c07frames.MStream{}
	whole := map[string]*wholeInfo{}
	for i := range streams {
		s := &streams[i]
		key := string(s.Own) + "/" + s.Name
		byName[key] = s
		w := &wholeInfo{match: map[api.ProtocolName]string{}, raw: map[api.ProtocolName]string{}}
		for _, n := range names {
			w.match[n] = match(n, s.Bytes)
		}
		for n, c := range c07frames.Codecs {
			w.raw[n] = c07RawMatchName(c.ProtocolMatch()(s.Bytes))
		}
		whole[key] = w
	}
	gen := func(yield func(c07MCase) bool) {
		for i := range streams {
			s := &streams[i]
			for n := 1; n <= len(s.Bytes); n++ {
				if !yield(c07MCase{Own: string(s.Own), Stream: s.Name, Prefix: n}) {
					return
				}
			}
		}
	}
	complete := vreport.Run(p, gen, func(p *vreport.Part, c c07MCase) {
		s := byName[c.Own+"/"+c.Stream]
		if s == nil || c.Prefix < 1 || c.Prefix > len(s.Bytes) {
			vreport.HarnessError("C07", "matchers-autodetect", fmt.Sprintf("unknown stream in case %+v", c))
			return
		}
		w := whole[c.Own+"/"+c.Stream]
		c.Hex = fmt.Sprintf("%x", s.Bytes[:c.Prefix])
		// exact-capacity copy: a matcher that reads past the prefix panics instead of seeing the future
		pre := make([]byte, c.Prefix)
		copy(pre, s.Bytes)
		results := map[api.ProtocolName]string{}
		outcome := ""
		for _, n := range names {
			r := match(n, pre)
			results[n] = r
			outcome += r[:1]
			p.EvalN(1)
			if r != "Again" && r != w.match[n] {
				p.Violation(fmt.Sprintf("matcher %s: answer on a prefix is neither Again nor its answer on the whole stream", n),
					fmt.Sprintf("%s stream %s: prefix of %d bytes -> %s, whole stream (%d bytes) -> %s", c.Own, c.Stream, c.Prefix, r, len(s.Bytes), w.match[n]), c)
			}
		}
		for n, codec := range c07frames.Codecs {
			r := func() (res string) {
				defer func() {
					if x := recover(); x != nil {
						res = fmt.Sprintf("panic:%v", x)
					}
				}()
				return c07RawMatchName(codec.ProtocolMatch()(pre))
			}()
			p.EvalN(1)
			if r != results[n] {
				p.Violation(fmt.Sprintf("matcher %s: stream factory ProtocolMatch disagrees with the codec's matcher", n),
					fmt.Sprintf("%s stream %s prefix %d: factory %s, codec %s", c.Own, c.Stream, c.Prefix, results[n], r), c)
			}
			if r != "Again" && r != w.raw[n] {
				p.Violation(fmt.Sprintf("matcher %s: answer on a prefix is neither Again nor its answer on the whole stream", n),
					fmt.Sprintf("%s stream %s: prefix of %d bytes -> %s, whole stream -> %s (codec matcher)", c.Own, c.Stream, c.Prefix, r, w.raw[n]), c)
			}
		}
		// whole stream: exactly the stream's own protocol accepts it
		if c.Prefix == len(s.Bytes) {
			for _, n := range names {
				if (n == s.Own) != (results[n] == "Success") {
					p.Violation(fmt.Sprintf("auto-detection: whole %s stream gets %s from matcher %s", c.Own, results[n], n),
						fmt.Sprintf("stream %s (%d bytes): %v", c.Stream, len(s.Bytes), results), c)
				}
			}
		}
		// model of SelectStreamFactoryProtocol from the individual answers
		model := func(scope []api.ProtocolName) string {
			again := false
			for _, n := range scope {
				switch results[n] {
				case "Success":
					return string(n)
				case "Again":
					again = true
				}
			}
			if again {
				return "Again"
			}
			return "Failed"
		}
		succ := 0
		for _, n := range names {
			if results[n] == "Success" {
				succ++
			}
		}
		scopes := [][]api.ProtocolName{nil, {s.Own}, names, rev}
		for _, n := range names {
			if n != s.Own {
				scopes = append(scopes, []api.ProtocolName{n, s.Own})
			}
		}
		for _, sc := range scopes {
			got := sel(pre, sc)
			p.EvalN(1)
			if got != "Again" && got != string(s.Own) {
				p.Violation(fmt.Sprintf("auto-detection: a prefix of a %s stream is detected as %s", c.Own, got),
					fmt.Sprintf("stream %s, prefix %d bytes (%s), scopes %v -> %s; individual matchers %v", c.Stream, c.Prefix, c.Hex, sc, got, results), c)
			}
			if c.Prefix == len(s.Bytes) && got != string(s.Own) {
				p.Violation(fmt.Sprintf("auto-detection: whole %s stream is detected as %s", c.Own, got),
					fmt.Sprintf("stream %s (%d bytes), scopes %v -> %s", c.Stream, len(s.Bytes), sc, got), c)
			}
			// the real selection must agree with first-success-in-scope-order (nil scope: map order; only compared when at most one matcher succeeds)
			if sc == nil {
				if succ <= 1 {
					if want := model(names); got != want {
						p.Violation("auto-detection: SelectStreamFactoryProtocol(Auto) disagrees with the individual matchers",
							fmt.Sprintf("stream %s/%s prefix %d: got %s, matchers %v", c.Own, c.Stream, c.Prefix, got, results), c)
					}
				}
			} else if want := model(sc); got != want {
				p.Violation("auto-detection: SelectStreamFactoryProtocol(scopes) disagrees with the individual matchers",
					fmt.Sprintf("stream %s/%s prefix %d scopes %v: got %s, want %s, matchers %v", c.Own, c.Stream, c.Prefix, sc, got, want, results), c)
			}
		}
		p.Distinct(fmt.Sprintf("%s|%s|%d", c.Own, c.Stream, c.Prefix))
		p.Outcome(c.Own + "|" + outcome)
		if p.WantSample() {
			p.Sample(map[string]interface{}{"case": c, "matchers": results})
		}
	})
	p.Note("streams", len(streams))
	p.End(complete, "every prefix (1..L bytes) of every stream: all 1-2 frame streams over the full alphabets of bolt, boltv2, dubbo, dubbo-thrift, tars; HTTP/1 requests for 9 methods alone and followed by a second request; HTTP/2 preface+SETTINGS+HEADERS(+CONTINUATION)+DATA(+second stream); 7 registered matchers + 5 codec matchers + SelectStreamFactoryProtocol with scopes Auto(nil), [own], all sorted, all reversed, [other, own] for each other protocol",
		"case = (stream, prefix length); evaluations count every matcher / selection call; a prefix is passed as an exact-capacity copy; oracle: answer(prefix) in {Again, answer(whole)}, whole stream accepted by exactly its own protocol, selection(prefix) in {Again, own protocol}. The empty prefix is not asked (OnData is never called with an empty buffer).")
}
